"""C17 -- flight helpers end on the ground command and track motion faithfully.

spec/Flight.tla (design: MotionCommander + _SetPointThread, PositionHlCommander),
spec/FlightProps.tla (the property), spec/FlightTrace.tla (monitor + conformance for traces
recorded from the real classes under the virtual scheduler).

Python here only drives the real code, records events, and converts representations:
  * float -> symbolic rational Q = (n/d) * pi^p  (qsnap: nearest fraction with d <= 1000 of x, x/pi or
    x*pi, accepted only within relative 1e-9, else marked inexact p = 9)      [the only tolerance]
  * virtual time (float seconds) -> integer microseconds, heights -> integer micrometres (round)
Every comparison / product / integration of the property is evaluated by TLC (FlightProps)."""
import copy
import json
import math
import random
from fractions import Fraction

from .. import common, tlc, vsched
from ..vsched import core as vcore

USER = 'user#0'
SPT = '_SetPointThread#0'
# constructor defaults per trace-spec configuration (FlightTrace takes them as constants)
CFG = {
    ('MC', 300): 'TRACE_Flight.cfg',
    ('MC', 500): 'TRACE_Flight_b.cfg',
    ('PHC', 500, 500, 0, 0, 0, 0): 'TRACE_Flight_hl.cfg',
    ('PHC', 400, 250, 200, 0, 0, 0): 'TRACE_Flight_hl_b.cfg',
    ('PHC', 500, 500, 200, 1000, 500, 200): 'TRACE_Flight_hl_c.cfg',     # starts on a table, away from the origin
}
HL_A, HL_B, HL_C = (500, 500, 0, 0, 0, 0), (400, 250, 200, 0, 0, 0), (500, 500, 200, 1000, 500, 200)


def hl_sc(cfg, mode, prog, kind='fifo'):
    dh, dv, dl, x0, y0, z0 = cfg
    return {'helper': 'PHC', 'mode': mode, 'prog': prog, 'dh': dh, 'dv': dv, 'dl': dl, 'x0': x0, 'y0': y0, 'z0': z0,
            'sched': {'kind': kind}}


def Pr(op, a=0, b=0, c=0, v=0, w=0):
    return {'op': op, 'a': a, 'b': b, 'c': c, 'v': v, 'w': w}


# --------------------------------------------------------------------------- representation
_QCACHE = {}


def qsnap(x):
    """Memoised _qsnap: equal floats share one (read-only) record, which keeps ten thousands of recorded traces small."""
    x = float(x)
    r = _QCACHE.get(x)
    if r is None:
        r = _qsnap(x)
        if len(_QCACHE) < 200000:
            _QCACHE[x] = r
    return r


def _qsnap(x):
    """float -> {'n','d','p'}: (n/d)*pi^p within relative 1e-9, or inexact (p = 9).  Near zero the
    relative test is floored at 1e-12 absolute (1e-9 of a millimetre / millisecond): sums like
    0.4 - 0.6 + 0.2 leave residues of 1e-17 that are 0 for every purpose of the property."""
    x = float(x)
    if x == 0.0:
        return {'n': 0, 'd': 1, 'p': 0}
    if math.isfinite(x):
        for p, f in ((0, 1.0), (1, math.pi), (-1, 1.0 / math.pi)):
            y = x / f
            fr = Fraction(y).limit_denominator(1000)
            if abs(fr.numerator) <= 30000 and abs(float(fr) - y) <= 1e-9 * max(abs(y), 1e-3):
                return {'n': fr.numerator, 'd': fr.denominator, 'p': p}
        n = max(-20000, min(20000, int(round(x * 1000))))
    else:
        n = 0
    return {'n': n, 'd': 1000, 'p': 9}


def us(t):
    return max(-2000000000, min(2000000000, int(round(t * 1e6))))


# --------------------------------------------------------------------------- instrumentation
class _Rec:
    """The recorder of the execution in progress (one per execute())."""
    cur = None


def _log(e, **kw):
    r = _Rec.cur
    if r is None:
        return
    d = {'e': e, 't': us(r['s'].now)}
    d.update(kw)
    r['ev'].append(d)


def _is_user():
    r = _Rec.cur
    if r is None:
        return False
    me = r['s'].current()
    return me is not None and me.name == USER


class _TimeProxy:
    """Stands in for the `time` module object inside the two helper modules: logs the user
    thread's sleeps (argument as passed, absolute deadline), delegates everything."""

    def __init__(self, mod):
        self._mod = mod

    def __getattr__(self, name):
        return getattr(self._mod, name)

    def sleep(self, secs):
        if not _is_user():
            return self._mod.sleep(secs)
        s = _Rec.cur['s']
        _log('sleep', d=qsnap(secs), us=us(secs), wt=us(s.now + secs))
        self._mod.sleep(secs)
        _log('wake')


_installed = False


def _install():
    """Recording wrappers (not mutants: each calls the original).  Idempotent, per process."""
    global _installed
    if _installed:
        return
    vsched.load_cflib()
    import cflib.positioning.motion_commander as mcm
    import cflib.positioning.position_hl_commander as phm
    mcm.time = _TimeProxy(mcm.time)
    phm.time = _TimeProxy(phm.time)
    T = mcm._SetPointThread
    o_init, o_start, o_stop, o_run = T.__init__, T.start, T.stop, T.run

    def init(self, *a, **kw):
        o_init(self, *a, **kw)
        qu = self._queue
        o_put = qu._put

        def put(item):          # executed when the queue put takes effect (linearisation point)
            if isinstance(item, str):
                _log('term')
            else:
                vx, vy, vz, yaw = item
                _log('vel', vx=qsnap(vx), vy=qsnap(vy), vz=qsnap(vz), yaw=qsnap(yaw))
            o_put(item)
        qu._put = put
        o_get = qu._get

        def get():              # executed when the setpoint thread takes an item (linearisation point of the get)
            item = o_get()
            if not isinstance(item, str):
                vx, vy, vz, yaw = item
                _log('take', vx=qsnap(vx), vy=qsnap(vy), vz=qsnap(vz), yaw=qsnap(yaw))
            return item
        qu._get = get

    def start(self):
        _log('spstart')
        o_start(self)

    def stop(self):
        o_stop(self)
        _log('join')

    def run(self):
        try:
            o_run(self)
        except vcore.Kill:      # the scheduler ends a thread that is still alive at the end of the execution
            raise
        except BaseException:
            _log('spdead')      # run() ended with an exception: nothing is streamed any more
            raise
        _log('spdone')
    T.__init__, T.start, T.stop, T.run = init, start, stop, run
    T._c17_orig = {'run': o_run}
    _installed = True


def _make_cf():
    from cflib.crazyflie.commander import Commander
    from cflib.crazyflie.high_level_commander import HighLevelCommander

    class RecCommander(Commander):
        def send_hover_setpoint(self, vx, vy, yawrate, zdistance):
            z = zdistance * 1e6
            r = _Rec.cur
            lat = 0
            if r is not None and r['lat']:      # the link keeps the sender for lat ms (a full tx queue, congestion)
                pat, cyc = r['lat'], r['latcyc']
                k = r['nh']
                r['nh'] += 1
                lat = pat[k % len(pat)] if cyc else (pat[k] if k < len(pat) else 0)
            _log('hover', vx=qsnap(vx), vy=qsnap(vy), yaw=qsnap(yawrate), lat=lat,
                 z=max(-2000000000, min(2000000000, int(round(z)))) if math.isfinite(z) else 2000000000)
            Commander.send_hover_setpoint(self, vx, vy, yawrate, zdistance)
            if lat:
                import cflib.positioning.motion_commander as mcm
                mcm.time.sleep(lat / 1000.0)
                _log('hovd')

        def send_stop_setpoint(self):
            _log('stop')
            Commander.send_stop_setpoint(self)

        def send_notify_setpoint_stop(self, remain_valid_milliseconds=0):
            _log('notify')
            Commander.send_notify_setpoint_stop(self, remain_valid_milliseconds)

        def send_setpoint(self, *a):
            _log('hl', c='other')
            Commander.send_setpoint(self, *a)

        def send_velocity_world_setpoint(self, *a):
            _log('hl', c='other')
            Commander.send_velocity_world_setpoint(self, *a)

        def send_zdistance_setpoint(self, *a):
            _log('hl', c='other')
            Commander.send_zdistance_setpoint(self, *a)

        def send_position_setpoint(self, *a):
            _log('hl', c='other')
            Commander.send_position_setpoint(self, *a)

    class RecHL(HighLevelCommander):
        def takeoff(self, absolute_height_m, duration_s, *a, **kw):
            _log('hl', c='takeoff', z=qsnap(absolute_height_m), dur=qsnap(duration_s))
            HighLevelCommander.takeoff(self, absolute_height_m, duration_s, *a, **kw)

        def land(self, absolute_height_m, duration_s, *a, **kw):
            _log('hl', c='land', z=qsnap(absolute_height_m), dur=qsnap(duration_s))
            HighLevelCommander.land(self, absolute_height_m, duration_s, *a, **kw)

        def go_to(self, x, y, z, yaw, duration_s, *a, **kw):
            _log('hl', c='goto', x=qsnap(x), y=qsnap(y), z=qsnap(z), dur=qsnap(duration_s))
            HighLevelCommander.go_to(self, x, y, z, yaw, duration_s, *a, **kw)

        def stop(self, *a, **kw):
            _log('hl', c='stop')
            HighLevelCommander.stop(self, *a, **kw)

    class Param:
        def set_value(self, name, value):
            _log('param', n=name, v=int(value))

    class Platform:
        def get_protocol_version(self):
            return 10

    class CF:
        """Stands for a connected Crazyflie: the real Commander/HighLevelCommander encode their
        packets; send_packet is the wire."""

        def __init__(self):
            self.param = Param()
            self.platform = Platform()
            self.commander = RecCommander(self)
            self.high_level_commander = RecHL(self)
            self.packets = 0

        def is_connected(self):
            return True

        def send_packet(self, pk, *a, **kw):
            bytes(pk.data)
            self.packets += 1
    return CF()


# --------------------------------------------------------------------------- program -> API calls
def _m(mm):
    return mm / 1000.0


def call_prim(h, helper, p):
    op, a, b, c, v, w = p['op'], p['a'], p['b'], p['c'], p['v'], p['w']
    vel = () if v == 0 else (_m(v),)
    if op == 'wait':            # the body's own time.sleep between two primitives
        import cflib.positioning.motion_commander as mcm
        import cflib.positioning.position_hl_commander as phm
        return (mcm if helper == 'MC' else phm).time.sleep(_m(a))
    if op == 'move':
        axes = [(a, 'forward', 'back'), (b, 'left', 'right'), (c, 'up', 'down')]
        nz = [x for x in axes if x[0] != 0]
        if len(nz) == 1 and w == 0:
            d, posn, negn = nz[0]
            return getattr(h, posn if d > 0 else negn)(_m(abs(d)), *vel)
        return h.move_distance(_m(a), _m(b), _m(c), *vel)
    if helper == 'MC':
        if op == 'turn':
            return (h.turn_left if a > 0 else h.turn_right)(float(b), *(() if v == 0 else (float(v),)))
        if op == 'circle':
            f = h.circle_left if a > 0 else h.circle_right
            return f(_m(c), _m(v) if v else h.VELOCITY, float(b))
        if op == 'start':
            nz = [(x, n) for x, n in ((a, 'x'), (b, 'y'), (c, 'z'), (w, 'w')) if x != 0]
            if len(nz) == 1:
                x, n = nz[0]
                name = {'x': ('start_forward', 'start_back'), 'y': ('start_left', 'start_right'),
                        'z': ('start_up', 'start_down'), 'w': ('start_turn_left', 'start_turn_right')}[n]
                val = float(abs(x)) if n == 'w' else _m(abs(x))
                return getattr(h, name[0] if x > 0 else name[1])(val)
            return h.start_linear_motion(_m(a), _m(b), _m(c), float(w))
        if op == 'startcircle':
            f = h.start_circle_left if a > 0 else h.start_circle_right
            return f(_m(c), *vel)
        if op == 'stop':
            return h.stop()
    else:
        if op == 'land':
            kw = {} if w == 1 else {'landing_height': _m(c)}
            if v:
                kw['velocity'] = _m(v)
            return h.land(**kw)
        if op == 'takeoff':
            kw = {} if w == 1 else {'height': _m(c)}
            if v:
                kw['velocity'] = _m(v)
            return h.take_off(**kw)
        if op == 'goto':
            args = [_m(a), _m(b)]
            kw = {}
            if w != 1:
                args.append(_m(c))
            if v:
                kw['velocity'] = _m(v)
            return h.go_to(*args, **kw)
        if op == 'setv':
            return h.set_default_velocity(_m(v))
        if op == 'seth':
            return h.set_default_height(_m(c))
        if op == 'setl':
            return h.set_landing_height(_m(c))
    raise common.MachineryError('primitive %r not applicable to %s' % (p, helper))


class Scripted(Exception):
    """The exception the user's body raises."""


class ScriptedBase(BaseException):
    """... one that is not an Exception (like KeyboardInterrupt, SystemExit, GeneratorExit)."""


# 'raise' a = kind of exception that leaves the body
KINDS = [Scripted, KeyboardInterrupt, SystemExit, GeneratorExit, ScriptedBase]


# --------------------------------------------------------------------------- scheduling policies
class SpFirst:
    """Setpoint thread before the commanding thread whenever both can run."""

    def choose(self, sched, runnable, timed):
        if not runnable:
            return vcore.TICK
        for r in runnable:
            if r.name != USER:
                return r
        return runnable[0]


class SpecPolicy:
    """Follow the firing order of a TLC behaviour of Flight: 'cmd' | 'sp' | 'tick'."""

    def __init__(self, fires):
        self.f = list(fires)
        self.i = 0
        self.drift = 0

    def choose(self, sched, runnable, timed):
        for r in runnable:
            if r.pending.kind == 'thread.begin':
                return r
        while self.i < len(self.f):
            want = self.f[self.i]
            self.i += 1
            if want == 'tick':
                if not runnable and timed:
                    return vcore.TICK
            else:
                name = USER if want == 'cmd' else SPT
                for r in runnable:
                    if r.name == name:
                        return r
                # the spec's clock is in ms: two deadlines it sees as simultaneous may be a fraction of a
                # microsecond apart in the real run (time.time() resolution); let the later one arrive
                for r in timed:
                    if r.name == name and r.pending.deadline - sched.now < 0.5e-3:
                        self.i -= 1
                        return vcore.TICK
            self.drift += 1
        return vcore.FifoPolicy().choose(sched, runnable, timed)


def _policy(sd):
    k = sd.get('kind', 'fifo')
    if k == 'fifo':
        return vcore.FifoPolicy()
    if k == 'spfirst':
        return SpFirst()
    if k == 'random':
        return vcore.RandomPolicy(random.Random(sd['seed']))
    if k == 'pct':
        return vcore.PCTPolicy(random.Random(sd['seed']), depth=3, est_steps=sd.get('steps', 150))
    if k == 'script':
        return vcore.ScriptPolicy(sd['script'])
    if k == 'spec':
        return SpecPolicy(sd['fires'])
    raise common.MachineryError('unknown schedule kind %r' % k)


# --------------------------------------------------------------------------- one execution
def execute(sc, mutant=None):
    """sc: helper 'MC'|'PHC', mode 'with'|'explicit', prog [prim], dh, dv, dl (mm, mm/s), sched.
    Returns the trace (dict for FlightTrace) with the recorded schedule in trace['schedule']."""
    _install()
    import cflib.positioning.motion_commander as mcm
    import cflib.positioning.position_hl_commander as phm
    helper, mode, prog = sc['helper'], sc['mode'], sc['prog']
    ev = []
    undo = MUTANTS[mutant]() if mutant else None
    pol = _policy(sc.get('sched', {}))
    res = {'outcome': 'hang', 'exc': ''}
    try:
        with vsched.scheduler(pol) as s:
            _Rec.cur = {'s': s, 'ev': ev, 'lat': list(sc.get('lat') or []), 'latcyc': bool(sc.get('latcyc')), 'nh': 0}
            s.on_step = lambda sch, who: _log('tick') if who is vcore.TICK else None
            cf = _make_cf()

            def pos_of(h):
                if helper != 'PHC':
                    return {}
                x, y, z = h.get_position()
                return {'pos': {'x': qsnap(x), 'y': qsnap(y), 'z': qsnap(z)}}

            def body(h):
                _log('ret', k=0, r='ok', **pos_of(h))
                for k, p in enumerate(prog, 1):
                    _log('prim', k=k)
                    if p['op'] == 'raise':
                        res['body_exc'] = KINDS[p['a']]()
                        raise res['body_exc']
                    try:
                        call_prim(h, helper, p)
                    except Exception as e:
                        res['body_exc'] = e
                        _log('ret', k=k, r='exc', x=type(e).__name__, **pos_of(h))
                        raise
                    _log('ret', k=k, r='ok', **pos_of(h))

            def user():
                try:
                    if helper == 'MC':
                        h = mcm.MotionCommander(cf, default_height=_m(sc['dh']))
                    else:
                        h = phm.PositionHlCommander(cf, x=_m(sc.get('x0', 0)), y=_m(sc.get('y0', 0)), z=_m(sc.get('z0', 0)),
                                                    default_velocity=_m(sc['dv']), default_height=_m(sc['dh']),
                                                    default_landing_height=_m(sc['dl']))
                    if mode == 'with':
                        with h:
                            try:
                                body(h)
                            finally:
                                _log('exit')
                    else:
                        h.take_off()
                        body(h)
                        _log('exit')
                        h.land()
                    res['outcome'] = 'ok'
                except tuple(KINDS) as e:
                    res['outcome'] = 'scripted' if e is res.get('body_exc') else 'other'
                    res['exc'] = '' if isinstance(e, Scripted) else type(e).__name__
                except Exception as e:
                    res['outcome'] = 'scripted' if e is res.get('body_exc') else 'other'
                    res['exc'] = type(e).__name__
                _log('done', r=res['outcome'])

            rec = s.spawn(user, 'user')
            s.run(until=lambda: rec.finished, horizon=600.0)
            if rec.finished:
                s.run(horizon=s.now + 1.0)       # anything still streaming shows up here
            res['schedule'] = list(s.trace)
            res['drift'] = getattr(pol, 'drift', 0)
            res['packets'] = cf.packets
    finally:
        _Rec.cur = None
        if undo:
            undo()
    return {'helper': helper, 'mode': mode, 'prog': prog, 'dh': sc['dh'], 'dv': sc.get('dv', 500), 'dl': sc.get('dl', 0),
            'x0': sc.get('x0', 0), 'y0': sc.get('y0', 0), 'z0': sc.get('z0', 0),
            'lat': list(sc.get('lat') or []), 'latcyc': bool(sc.get('latcyc')), 'ev': ev, 'outcome': res['outcome'], 'exc': res['exc'], 'schedule': res.get('schedule', []),
            'drift': res.get('drift', 0), 'packets': res.get('packets', 0)}


# --------------------------------------------------------------------------- in-memory mutants
def _patch(obj, name, new):
    old = obj.__dict__[name]
    setattr(obj, name, new)
    return lambda: setattr(obj, name, old)


def _mutants():
    """name -> installer returning an undo function.  Realistic breakages of C17 (harness process only)."""
    import cflib.positioning.motion_commander as mcm
    import cflib.positioning.position_hl_commander as phm
    MC, PH, SP = mcm.MotionCommander, phm.PositionHlCommander, mcm._SetPointThread

    def land_keeps_thread(self, velocity=MC.VELOCITY):       # forgets to stop the setpoint thread
        if self._is_flying:
            self.down(self._thread.get_height(), velocity)
            self._cf.commander.send_stop_setpoint()
            self._cf.commander.send_notify_setpoint_stop()
            self._is_flying = False

    def land_swapped(self, velocity=MC.VELOCITY):            # final commands in the wrong order
        if self._is_flying:
            self.down(self._thread.get_height(), velocity)
            self._thread.stop()
            self._thread = None
            self._cf.commander.send_notify_setpoint_stop()
            self._cf.commander.send_stop_setpoint()
            self._is_flying = False

    def exit_only_clean(self, exc_type, exc_val, exc_tb):    # skips the landing when the body raised
        if exc_type is None:
            self.land()

    def right_lost_sign(self, distance_m, velocity=MC.VELOCITY):
        self.move_distance(0.0, distance_m, 0.0, velocity)

    def move_wrong_time(self, dx, dy, dz, velocity=MC.VELOCITY):   # duration = distance * velocity
        distance = math.sqrt(dx * dx + dy * dy + dz * dz)
        flight_time = distance * velocity
        self.start_linear_motion(velocity * dx / distance, velocity * dy / distance, velocity * dz / distance)
        mcm.time.sleep(flight_time)
        self.stop()

    def turn_left_wrong_way(self, angle_degrees, rate=MC.RATE):
        self.start_turn_right(rate)
        mcm.time.sleep(angle_degrees / rate)
        self.stop()

    def no_z_update(self):                                   # resent setpoints keep the old height
        pass

    def new_setpoint_no_base(self, vx, vy, vz, yaw):         # forgets to re-base the height
        self._z_velocity = vz
        self._z_base_time = mcm.time.time()
        self._hover_setpoint = [vx, vy, yaw, self._z_base]

    def slow_run(self):                                      # resend period twice the update period
        self.update_period = 2 * self.update_period
        SP._c17_orig['run'](self)

    def run_skips_duplicates(self):                          # "nothing to change": no setpoint, wait restarted
        current = None
        while True:
            try:
                event = self._queue.get(block=True, timeout=self.update_period)
                if event == self.TERMINATE_EVENT:
                    return
                if event == current:
                    continue
                current = event
                self._new_setpoint(*event)
            except mcm.Empty:
                pass
            self._update_z_in_setpoint()
            self._cf.commander.send_hover_setpoint(*self._hover_setpoint)

    def turn_left_mod(self, angle_degrees, rate=MC.RATE):    # a full revolution "brings us back"
        self.start_turn_left(rate)
        mcm.time.sleep((angle_degrees % 360.0) / rate)
        self.stop()

    def turn_right_mod(self, angle_degrees, rate=MC.RATE):
        self.start_turn_right(rate)
        mcm.time.sleep((angle_degrees % 360.0) / rate)
        self.stop()

    def run_period_minus_send_time(self):                    # "constant period", not clamped at 0
        last_sent = mcm.time.time()
        while True:
            try:
                event = self._queue.get(block=True, timeout=self.update_period - (mcm.time.time() - last_sent))
                if event == self.TERMINATE_EVENT:
                    return
                self._new_setpoint(*event)
            except mcm.Empty:
                pass
            self._update_z_in_setpoint()
            last_sent = mcm.time.time()
            self._cf.commander.send_hover_setpoint(*self._hover_setpoint)

    def run_dies(self):
        try:
            run_period_minus_send_time(self)
        except ValueError:
            _log('spdead')
            raise

    def mc_exit_fast_path(self, exc_type, exc_val, exc_tb):  # anything that is not an Exception: "down now"
        if exc_type is not None and not issubclass(exc_type, Exception) and self._is_flying:
            self._cf.commander.send_stop_setpoint()
            self._cf.commander.send_notify_setpoint_stop()
            self._is_flying = False
            return
        self.land()

    def exit_only_for_exception(self, exc_type, exc_val, exc_tb):
        if exc_type is None or issubclass(exc_type, Exception):
            self.land()

    def hl_takeoff_adds(self, height=PH.DEFAULT, velocity=PH.DEFAULT):
        if self._is_flying:
            raise Exception('Already flying')
        hold_back = self._init_time + 1.0 - phm.time.time()
        if hold_back > 0.0:
            phm.time.sleep(hold_back)
        self._is_flying = True
        height = self._height(height)
        duration_s = height / self._velocity(velocity)
        self._hl_commander.takeoff(height, duration_s)
        phm.time.sleep(duration_s)
        self._z += height

    def hl_goto_no_record(self, x, y, z=PH.DEFAULT, velocity=PH.DEFAULT):
        z = self._height(z)
        dx, dy, dz = x - self._x, y - self._y, z - self._z
        distance = math.sqrt(dx * dx + dy * dy + dz * dz)
        if distance > 0.0:
            duration_s = distance / self._velocity(velocity)
            self._hl_commander.go_to(x, y, z, 0, duration_s)
            phm.time.sleep(duration_s)
            self._x = x
            self._y = y

    def hl_goto_wrong_time(self, x, y, z=PH.DEFAULT, velocity=PH.DEFAULT):
        z = self._height(z)
        dx, dy, dz = x - self._x, y - self._y, z - self._z
        distance = math.sqrt(dx * dx + dy * dy + dz * dz)
        if distance > 0.0:
            duration_s = distance * self._velocity(velocity)
            self._hl_commander.go_to(x, y, z, 0, duration_s)
            phm.time.sleep(duration_s)
            self._x, self._y, self._z = x, y, z

    def hl_move_relative_to_origin(self, dx, dy, dz, velocity=PH.DEFAULT):
        self.go_to(dx, dy, self._z + dz, velocity)

    def hl_land_no_stop(self, velocity=PH.DEFAULT, landing_height=PH.DEFAULT):
        if self._is_flying:
            landing_height = self._landing_height(landing_height)
            duration_s = abs(self._z - landing_height) / self._velocity(velocity)
            self._hl_commander.land(landing_height, duration_s)
            phm.time.sleep(duration_s)
            self._z = landing_height
            self._is_flying = False

    def mk(obj, name, new):
        return lambda: _patch(obj, name, new)

    def run_wrapped(body=slow_run):
        # SP.run is already the recording wrapper; keep its 'spdone' log around the replaced loop
        def run(self):
            body(self)
            _log('spdone')
        return _patch(SP, 'run', run)

    def both_turns():
        u1, u2 = _patch(MC, 'turn_left', turn_left_mod), _patch(MC, 'turn_right', turn_right_mod)
        return lambda: (u1(), u2())
    return {
        'MC:land_keeps_thread': mk(MC, 'land', land_keeps_thread),
        'MC:land_swapped_final': mk(MC, 'land', land_swapped),
        'MC:exit_skips_landing_on_exception': mk(MC, '__exit__', exit_only_clean),
        'MC:right_lost_sign': mk(MC, 'right', right_lost_sign),
        'MC:duration_is_distance_times_velocity': mk(MC, 'move_distance', move_wrong_time),
        'MC:turn_left_turns_right': mk(MC, 'turn_left', turn_left_wrong_way),
        'MC:resend_keeps_old_height': mk(SP, '_update_z_in_setpoint', no_z_update),
        'MC:new_setpoint_keeps_old_base': mk(SP, '_new_setpoint', new_setpoint_no_base),
        'MC:resend_period_doubled': run_wrapped,
        'MC:duplicate_command_skipped': lambda: run_wrapped(run_skips_duplicates),
        'MC:turn_angle_mod_360': both_turns,
        'MC:wait_minus_send_time_unclamped': lambda: run_wrapped(run_dies),
        'MC:exit_fast_path_unless_Exception': mk(MC, '__exit__', mc_exit_fast_path),
        'PHC:exit_lands_only_for_Exception': mk(PH, '__exit__', exit_only_for_exception),
        'PHC:takeoff_adds_height': mk(PH, 'take_off', hl_takeoff_adds),
        'PHC:goto_forgets_z': mk(PH, 'go_to', hl_goto_no_record),
        'PHC:duration_is_distance_times_velocity': mk(PH, 'go_to', hl_goto_wrong_time),
        'PHC:move_relative_to_origin': mk(PH, 'move_distance', hl_move_relative_to_origin),
        'PHC:land_without_stop': mk(PH, 'land', hl_land_no_stop),
        'PHC:exit_skips_landing_on_exception': mk(PH, '__exit__', exit_only_clean),
    }


class _LazyMutants(dict):
    def _fill(self):
        if not self:
            _install()
            self.update(_mutants())

    def __getitem__(self, k):
        self._fill()
        return dict.__getitem__(self, k)

    def names(self):
        self._fill()
        return sorted(self.keys())


MUTANTS = _LazyMutants()


# --------------------------------------------------------------------------- scenario sources
MC_QUICK = [Pr('move', 200), Pr('move', 0, -100, 0, 500), Pr('move', 0, 0, -300), Pr('turn', 1, 36, 0, 72),
            Pr('start', 0, 0, -200), Pr('stop'), Pr('move', 0, 0, 100, 200), Pr('circle', 1, 90, 100, 200)]
# the body pauses for less than an update period; a full turn; (thorough) more than a full turn, a longer pause:
# combined with every other primitive in all programs up to length 2
MC_EDGE = [Pr('wait', 150), Pr('turn', 1, 360, 0, 72)]
MC_EDGE_MORE = [Pr('turn', -1, 450, 0, 90), Pr('wait', 500)]
# programs about time: the body pauses (shorter / longer than the update period) between commands, some of
# them equal to the command in force (stop while hovering, the same velocity commanded again)
MC_TIMED = [Pr('wait', 150), Pr('wait', 500), Pr('stop'), Pr('start', 100), Pr('start', 0, 0, -200)]
MC_MORE = [Pr('move', 300, 400, 0, 500), Pr('startcircle', -1, 0, 200, 500), Pr('start', 100, -100, 100, 0, 45),
           Pr('turn', -1, 90, 0, 90), Pr('move', -100, 0, 0, 100), Pr('move', 0, 0, 0), Pr('start', 0, 0, 0, 0, -72)]
HL_QUICK = [Pr('move', 500), Pr('move', 0, 0, -600), Pr('goto', 1000, 0, 0, 0, 1), Pr('setv', v=250), Pr('seth', c=300),
            Pr('move', 0, -300, 400, 250)]
HL_MORE = [Pr('goto', 0, 0, 1000, 500, 0), Pr('setl', c=700), Pr('move', 0, 0, 0), Pr('goto', 300, 400, 0, 100, 1),
           Pr('move', 0, 0, 200, 100)]
RAISE = Pr('raise')
RAISES = [Pr('raise', a) for a in range(len(KINDS))]        # a = kind of exception (KINDS)
# several flights of one PositionHlCommander: land on the default / another height, take off again to the default /
# another height, moves in between, the landing height changed on the way
HL_CYCLE = [Pr('land', w=1), Pr('land', c=0, v=250), Pr('takeoff', w=1), Pr('takeoff', c=300, v=250), Pr('move', 500),
            Pr('move', 0, 0, 200), Pr('setl', c=100)]
# what the link does to the hover setpoints: (latencies in ms, repeated cyclically?)
LAT_PATTERNS = [([150], True), ([200], True), ([250], True), ([0, 0, 0, 250], True), ([0, 0, 0, 0, 0, 0, 0, 0, 0, 0, 0, 0, 450], False)]


def _programs(alpha, maxlen):
    import itertools
    for n in range(maxlen + 1):
        for t in itertools.product(alpha, repeat=n):
            yield list(t)


def _throws(p, helper):
    return helper == 'MC' and p['op'] == 'move' and p['a'] == p['b'] == p['c'] == 0


def scenarios_enumerated(tier):
    """Own exhaustive enumeration: every program up to a length over a primitive alphabet, leaving the
    context normally and with an exception raised after every prefix, under the two extreme
    interleaving policies; explicit take_off/land for the exception-free ones of length <= 2; every
    MotionCommander program of length 3 (thorough: and 4) over the pause/repeat alphabet MC_TIMED."""
    out = []
    mc_a, mc_n = (MC_QUICK, 2) if tier == 'quick' else (MC_QUICK + MC_MORE, 3)
    hl_a, hl_n = (HL_QUICK, 2) if tier == 'quick' else (HL_QUICK + HL_MORE, 3)
    mc_e = MC_EDGE if tier == 'quick' else MC_EDGE + MC_EDGE_MORE
    mc_progs = list(_programs(mc_a, mc_n)) + [p for p in _programs(mc_a + mc_e, 2) if any(x in mc_e for x in p)]
    for n, prog in enumerate(mc_progs):
        for tail in ([], [RAISE]):
            for kind in ('fifo', 'spfirst'):
                out.append({'helper': 'MC', 'mode': 'with', 'prog': prog + tail, 'dh': 300, 'sched': {'kind': kind}})
        # the exception that leaves the body is not an Exception (KeyboardInterrupt, SystemExit, GeneratorExit, a
        # BaseException subclass): every kind after every program up to length 1, one kind (in turn) after the others
        # (programs of length 3, thorough tier: every fourth)
        for r in (RAISES[1:] if len(prog) <= 1 else [RAISES[1 + n % 4]] if len(prog) == 2 or n % 4 == 0 else []):
            for kind in (('fifo', 'spfirst') if len(prog) <= 1 else (('fifo', 'spfirst')[(n // 4) % 2],)):
                out.append({'helper': 'MC', 'mode': 'with', 'prog': prog + [r], 'dh': 300, 'sched': {'kind': kind}})
        if len(prog) <= 2 and not any(_throws(p, 'MC') for p in prog):
            out.append({'helper': 'MC', 'mode': 'explicit', 'prog': prog, 'dh': 300, 'sched': {'kind': 'spfirst'}})
            out.append({'helper': 'MC', 'mode': 'with', 'prog': prog, 'dh': 500, 'sched': {'kind': 'fifo'}})
    import itertools
    for n in ((3,) if tier == 'quick' else (3, 4)):
        for t in itertools.product(MC_TIMED, repeat=n):
            for kind in ('fifo', 'spfirst'):
                out.append({'helper': 'MC', 'mode': 'with', 'prog': list(t), 'dh': 300, 'sched': {'kind': kind}})
    # the link keeps the sender of a hover setpoint (a bit less than / exactly / more than the update period, every send
    # / one in four / one late in the flight): programs up to length 1 and the pause/repeat programs of length 2
    # (no circles here: their durations are irrational and Flight.tla's clock is in ms -- conformance only)
    lat_progs = [p for p in _programs(mc_a + mc_e, 1) if not any(x['op'] == 'circle' for x in p)]
    lat_progs += [list(t) for t in itertools.product(MC_TIMED, repeat=2)]
    if tier != 'quick':
        lat_progs += [list(t) for t in itertools.product(MC_TIMED, repeat=3)]
    for prog in lat_progs:
        for pat, cyc in LAT_PATTERNS:
            for kind in ('fifo', 'spfirst'):
                out.append({'helper': 'MC', 'mode': 'with', 'prog': prog, 'dh': 300, 'sched': {'kind': kind},
                            'lat': pat, 'latcyc': cyc})
    for n, prog in enumerate(_programs(hl_a, hl_n)):
        if not _hl_rational(prog, *HL_A):
            continue
        for tail in ([], [RAISE]):
            out.append(hl_sc(HL_A, 'with', prog + tail))
        for r in (RAISES[1:] if len(prog) <= 1 else [RAISES[1 + n % 4]] if len(prog) == 2 or n % 4 == 0 else []):
            out.append(hl_sc(HL_A, 'with', prog + [r]))
        if len(prog) <= 2:
            out.append(hl_sc(HL_A, 'explicit', prog))
            if _hl_rational(prog, *HL_B):
                out.append(hl_sc(HL_B, 'with', prog))
            # the object was constructed at a start position that is not the origin (on a table)
            if _hl_rational(prog, *HL_C):
                for tail in ([], [RAISE]):
                    out.append(hl_sc(HL_C, 'with', prog + tail))
                out.append(hl_sc(HL_C, 'explicit', prog))
    # several flights of one object: all well-formed programs over HL_CYCLE, from the origin and from the table
    for prog in _programs(HL_CYCLE, 3 if tier == 'quick' else 4):
        if not any(p['op'] in ('land', 'takeoff') for p in prog):
            continue
        for cfg in (HL_A, HL_C):
            if _hl_rational(prog, *cfg):
                out.append(hl_sc(cfg, 'explicit', prog))
                if len(prog) <= 3:
                    out.append(hl_sc(cfg, 'with', prog))
    return out


PYTH = [(300, 400, 0, 500), (300, 400, 0, 250), (0, 300, -400, 500), (200, -100, 200, 300), (-400, 0, 300, 100)]


WAITS = [50, 100, 150, 200, 250, 500, 1000]


def random_poll_loop(rng):
    """The way applications drive start_* (multiranger push, joystick): a loop that commands a velocity
    every dt, mostly the same one as before."""
    dt = rng.choice([50, 100, 150, 250])
    cmds = [Pr('start', 100), Pr('start', 0, 200), Pr('start', 0, 0, -100), Pr('start', 200, 0, 100), Pr('stop'),
            Pr('start', 0, 0, 0, 0, 36)]
    cur = rng.choice(cmds)
    out = []
    for _ in range(rng.randint(2, 6)):
        if rng.random() < 0.25:
            cur = rng.choice(cmds)
        out += [dict(cur), Pr('wait', dt)]
    return out


def random_prims(rng, helper):
    """One primitive, or a short idiom made of several."""
    if helper == 'MC':
        r = rng.random()
        if r < 0.10:
            return random_poll_loop(rng)
        if r < 0.22:
            return [Pr('wait', rng.choice(WAITS))]
    elif rng.random() < 0.08:
        return [Pr('wait', rng.choice(WAITS))]
    return [random_prim(rng, helper)]


def random_prim(rng, helper):
    if helper == 'MC':
        k = rng.randrange(10)
        if k <= 2:
            d = rng.choice([100, 200, 300, 500]) * rng.choice([1, -1])
            ax = rng.randrange(3)
            v = rng.choice([0, 100, 200, 500])
            return Pr('move', *[d if i == ax else 0 for i in range(3)], v)
        if k == 3:
            a, b, c, v = rng.choice(PYTH)
            return Pr('move', a, b, c, v)
        if k == 4:
            return Pr('turn', rng.choice([1, -1]), rng.choice([36, 90, 180, 360, 450, 720]), 0, rng.choice([0, 36, 90]))
        if k == 5:
            ang = rng.choice([90, 180, 360, 450])       # (radius * angle * 17750 must stay below 2^31 in Flight.tla)
            return Pr('circle', rng.choice([1, -1]), ang, rng.choice([100, 200, 300] if ang <= 360 else [100, 200]),
                      rng.choice([200, 500]))
        if k == 6:
            v = rng.choice([100, 200, 500]) * rng.choice([1, -1])
            ax = rng.randrange(4)
            if ax == 3:
                return Pr('start', 0, 0, 0, 0, rng.choice([36, 72]) * rng.choice([1, -1]))
            return Pr('start', *[v if i == ax else 0 for i in range(3)])
        if k == 7:
            return rng.choice([Pr('start', 100, -100, 100, 0, 45), Pr('start', 200, 0, -100, 0, 0),
                               Pr('startcircle', rng.choice([1, -1]), 0, rng.choice([100, 200]), rng.choice([200, 500]))])
        if k == 8:
            return Pr('stop')
        return Pr('move', 0, 0, rng.choice([-300, -200, -100, 100]), rng.choice([0, 100, 200]))
    k = rng.randrange(8)
    if k <= 2:
        d = rng.choice([100, 200, 500, 1000]) * rng.choice([1, -1])
        ax = rng.randrange(3)
        return Pr('move', *[d if i == ax else 0 for i in range(3)], rng.choice([0, 100, 250, 500]))
    if k == 3:
        a, b, c, v = rng.choice(PYTH)
        return Pr('move', a, b, c, rng.choice([0, v]) if v in (500, 250, 100) else 0)
    if k == 4:       # go_to along one axis from wherever it is: handled by the caller (needs the position)
        return Pr('goto', rng.choice([0, 500, 1000]), rng.choice([0, -500]), rng.choice([200, 500, 1000]),
                  rng.choice([0, 500]), rng.choice([0, 1]))
    if k == 5:
        return Pr('setv', v=rng.choice([100, 250, 500]))
    if k == 6:
        return Pr('seth', c=rng.choice([300, 500, 1000]))
    return Pr('setl', c=rng.choice([0, 200, 700]))


def _hl_rational(prog, dh, dv, dl, x0=0, y0=0, z0=0):
    """PositionHlCommander programs are restricted to displacement vectors of rational length and
    whole-millisecond durations (see assumptions), and to well-formed flights (moves and land() while flying,
    take_off() while landed): filter for the enumerations and the random source."""
    x, y = x0, y0
    z = dh
    cdv, cdh, cdl = dv, dh, dl
    fly = True
    for p in prog:
        if p['op'] in ('move', 'goto', 'land') and not fly:
            return False
        if p['op'] == 'takeoff':
            if fly:
                return False
            z = cdh if p['w'] == 1 else p['c']
            if z <= 0 or (z * 1000) % (p['v'] or cdv):
                return False
            fly = True
        elif p['op'] == 'land':
            lh = cdl if p['w'] == 1 else p['c']
            if (abs(z - lh) * 1000) % (p['v'] or cdv):
                return False
            z, fly = lh, False
        elif p['op'] == 'setl':
            cdl = p['c']
        if p['op'] in ('move', 'goto'):
            if p['op'] == 'move':
                t = (x + p['a'], y + p['b'], z + p['c'])
            else:
                t = (p['a'], p['b'], cdh if p['w'] == 1 else p['c'])
            dd = (t[0] - x) ** 2 + (t[1] - y) ** 2 + (t[2] - z) ** 2
            r = math.isqrt(dd)
            v = p['v'] or cdv
            if r * r != dd or (r * 1000) % v:
                return False
            x, y, z = t
        elif p['op'] == 'setv':
            cdv = p['v']
        elif p['op'] == 'seth':
            cdh = p['c']
    return True


def scenarios_random(tier, rng):
    out = []
    n_mc, n_hl = (200, 100) if tier == 'quick' else (4000, 2000)
    while len(out) < n_mc:
        prog = [p for _ in range(rng.randint(2, 8)) for p in random_prims(rng, 'MC')]
        if rng.random() < 0.3:
            prog = prog[:rng.randint(0, len(prog))] + [rng.choice(RAISES)]
        kind = rng.choice(['fifo', 'spfirst', 'random', 'random', 'pct'])
        dh = rng.choice([300, 300, 500])
        sc = {'helper': 'MC', 'mode': 'with', 'prog': prog, 'dh': dh, 'sched': {'kind': kind, 'seed': rng.randrange(1 << 30)}}
        if rng.random() < 0.25:     # a link that keeps the sender now and then, or always
            if rng.random() < 0.5:
                sc['lat'], sc['latcyc'] = rng.choice(LAT_PATTERNS)
            else:
                sc['lat'], sc['latcyc'] = [rng.choice([0, 0, 0, 50, 150, 200, 250, 600]) for _ in range(rng.randint(3, 9))], True
        out.append(sc)
    k = 0
    while k < n_hl:
        cfg = rng.choice([HL_A, HL_B, HL_C])
        prog = [p for _ in range(rng.randint(2, 8)) for p in random_prims(rng, 'PHC')]
        if rng.random() < 0.35:     # further flights of the same object
            for _ in range(rng.randint(1, 2)):
                i = rng.randint(0, len(prog))
                prog[i:i] = [rng.choice([Pr('land', w=1), Pr('land', c=rng.choice([0, 100, 300]), v=rng.choice([0, 250]))]),
                             rng.choice([Pr('takeoff', w=1), Pr('takeoff', c=rng.choice([300, 500, 1000]), v=rng.choice([0, 250]))])]
        if not _hl_rational(prog, *cfg):
            continue
        mode = 'with'
        if rng.random() < 0.3:
            prog = prog[:rng.randint(0, len(prog))] + [rng.choice(RAISES)]
        elif rng.random() < 0.3:
            mode = 'explicit'
        out.append(hl_sc(cfg, mode, prog))
        k += 1
    return out


FIRE = {'CmdWake': 'cmd', 'CmdPut': 'cmd', 'CmdSpStart': 'cmd', 'CmdTerm': 'cmd', 'CmdJoin': 'cmd',
        'SpGet': 'sp', 'SpTimeout': 'sp', 'SpSent': 'sp', 'Tick': 'tick'}


def scenario_from_behaviour(beh, helper, mode, cfg):
    dh, dv, dl, x0, y0, z0 = cfg
    last = beh[-1][1]
    if last['cst'] not in ('done', 'crashed'):
        return None
    fires = [FIRE[tlc.parse_label(lab)[0]] for lab, _ in beh[1:] if tlc.parse_label(lab)[0] in FIRE]
    lat, ncalls = [], 0         # the environment's choice for every hover setpoint: how long the link keeps the sender
    for lab, st in beh[1:]:
        if tlc.parse_label(lab)[0] in ('SpGet', 'SpTimeout') and len(st['calls']) > ncalls:
            lat.append(st['deadline'] - st['now'] if st['sp'] == 'sending' else 0)
        ncalls = len(st['calls'])
    sc = {'helper': helper, 'mode': mode, 'prog': [dict(p) for p in last['prog']], 'dh': dh, 'dv': dv, 'dl': dl,
          'x0': x0, 'y0': y0, 'z0': z0, 'lat': lat if any(lat) else [], 'latcyc': False,
          'sched': {'kind': 'spec', 'fires': fires}}
    exp = {'calls': list(last['calls']), 'outcome': last['outcome'], 'now': last['now'],
           'vels': [[(c['t'] + 500) // 1000] + [(c[k]['n'], c[k]['d'], c[k]['p']) for k in ('vx', 'vy', 'vz', 'yaw')]
                    for c in last['vels']],
           'pos': [last['est']['x'], last['est']['y'], last['est']['z']]}
    return sc, exp


def observed(t):
    """The same projection of a real trace."""
    calls, vels, pos, now = [], [], None, 0
    for e in t['ev']:
        if e['e'] in ('hover', 'stop', 'notify'):
            calls.append(e['e'])
        elif e['e'] == 'hl':
            calls.append(e['c'])
        elif e['e'] == 'vel':
            vels.append([(e['t'] + 500) // 1000] + [(e[k]['n'], e[k]['d'], e[k]['p']) for k in ('vx', 'vy', 'vz', 'yaw')])
        elif e['e'] == 'ret' and 'pos' in e:
            pos = e['pos']
        elif e['e'] == 'done':
            now = (e['t'] + 500) // 1000
    return {'calls': calls, 'vels': vels, 'outcome': t['outcome'], 'now': now, 'pos': pos}


def spec_matches(exp, t):
    ob = observed(t)
    same = (ob['calls'] == exp['calls'] and ob['outcome'] == exp['outcome'] and
            [v[1:] for v in ob['vels']] == [v[1:] for v in exp['vels']] and t['drift'] == 0)
    times = same and ob['now'] == exp['now'] and [v[0] for v in ob['vels']] == [v[0] for v in exp['vels']]
    return same, times


# --------------------------------------------------------------------------- running / judging
def _exec_job(job):
    sc, mutant = job
    return execute(sc, mutant)


def _worker_init(init=None):
    tlc._die_with_parent()          # a killed check leaves no worker behind
    common._init_worker(init, ())


def _pmap(fn, items, init=None, chunksize=None):
    """common.pmap with one difference: a worker process that disappears (killed by the kernel under memory
    pressure) ends the run as a machinery failure instead of leaving the parent waiting for ever."""
    import concurrent.futures as cf
    import multiprocessing as mp
    items = list(items)
    nproc = min(common.NCPU, max(1, len(items)))
    if nproc <= 1 or len(items) < 4:
        return common.pmap(fn, items, init=init)
    cs = chunksize or max(1, len(items) // (nproc * 8))
    try:
        with cf.ProcessPoolExecutor(nproc, mp_context=mp.get_context('fork'), initializer=_worker_init,
                                    initargs=(init,)) as ex:
            return list(ex.map(common._guarded, [(fn, x) for x in items], chunksize=cs))
    except cf.process.BrokenProcessPool as e:
        raise common.MachineryError('a worker process of the check died (%s)' % (e,))


def _in_child(fn, arg):
    """fn(arg) in a forked child: what it allocates on the way (parsed TLC behaviours: gigabytes in the thorough
    tier) is returned to the system when the child ends, and the pools forked later start from a small parent."""
    import concurrent.futures as cf
    import multiprocessing as mp
    try:
        with cf.ProcessPoolExecutor(1, mp_context=mp.get_context('fork'), initializer=_worker_init) as ex:
            return ex.submit(fn, arg).result()
    except cf.process.BrokenProcessPool as e:
        raise common.MachineryError('a worker process of the check died (%s)' % (e,))


def _sim_job(a):
    cfg, helper, mode, hcfg, nsim, seed = a
    rs, behs = tlc.simulate('MC_Flight.tla', cfg, num=nsim, depth=900, seed=seed % 100000, timeout=1200)
    rs.output = rs.output[-4000:]
    return rs, [x for x in (scenario_from_behaviour(b, helper, mode, hcfg) for b in behs) if x]


def run_scenarios(scs, mutant=None):
    return _pmap(_exec_job, [(sc, mutant) for sc in scs], init=_install)


def cfg_key(t):
    if t['helper'] == 'MC':
        return ('MC', t['dh'])
    return ('PHC', t['dh'], t['dv'], t['dl'], t['x0'], t['y0'], t['z0'])


def _slim(t, i):
    d = {k: t[k] for k in ('helper', 'mode', 'prog', 'dh', 'dv', 'dl', 'x0', 'y0', 'z0', 'ev', 'outcome')}
    d['id'] = i
    return d


def _judge_job(job):
    key, batch = job
    return key, common.validate_traces('FlightTrace.tla', CFG[key], batch, chunk=len(batch), nproc=1, timeout=3000)


def judge(out, traces, label):
    """All traces through TLC (FlightTrace): one group per constructor-default configuration, cut
    into batches that run side by side.  Returns [(index, clause, at)], drift count."""
    groups = {}
    for i, t in enumerate(traces):
        groups.setdefault(cfg_key(t), []).append(i)
    chunk = max(40, -(-len(traces) // common.NCPU))
    jobs, where = [], []
    for key in sorted(groups):
        if key not in CFG:
            raise common.MachineryError('no trace configuration for constructor defaults %r' % (key,))
        idxs = groups[key]
        for a in range(0, len(idxs), chunk):
            part = idxs[a:a + chunk]
            jobs.append((key, [_slim(traces[i], n + 1) for n, i in enumerate(part)]))
            where.append(part)
    results = _pmap(_judge_job, jobs, chunksize=1) if len(jobs) > 1 else [_judge_job(jobs[0])]
    bad, drift = [], 0
    per = {}
    for (key, (verdicts, st)), part in zip(results, where):
        d = per.setdefault(key, {'states': 0, 'transitions': 0, 'wall_s': 0.0, 'traces': 0})
        d['states'] += st['states']
        d['transitions'] += st['transitions']
        d['wall_s'] += st['wall_s']
        d['traces'] += len(part)
        for n, i in enumerate(part):
            clause, at, conf, conf_at = verdicts[n + 1]
            traces[i]['verdict'] = [clause, at, conf, conf_at]
            if clause != 'ok':
                bad.append((i, clause, at))
            elif not conf:
                drift += 1
    for key, d in sorted(per.items()):
        out.traces += d['traces']
        out.states += d['states']
        out.transitions += d['transitions']
        out.tlc_runs.append({'config': '%s (%s)' % (CFG[key], label), 'states': d['states'], 'transitions': d['transitions'],
                             'wall_s': round(d['wall_s'], 2), 'traces': d['traces']})
    bad.sort()
    return bad, drift


def signature(t, clause, at):
    """Violated clause + helper + canonical witness class: for a missing ground command the way the
    user's block ended (escaped exception type); otherwise the kind of primitive in progress."""
    if clause == 'EndsWithStop':
        w = t['exc'] or t['outcome']
    else:
        k = 0
        for e in t['ev'][:max(at, 0)]:
            if e['e'] == 'prim':
                k = e['k']
        w = t['prog'][k - 1]['op'] if k else 'takeoff'
        if w == 'raise' and t['prog'][k - 1]['a']:
            w += ':' + KINDS[t['prog'][k - 1]['a']].__name__
        if t.get('lat') and clause.startswith('Hover'):
            w += '/slow-link'
    return '%s/%s/%s' % (clause, t['helper'], w)


def report(out, traces, scs, bad):
    order = sorted(bad, key=lambda b: (len(traces[b[0]]['prog']), len(traces[b[0]]['ev'])))
    for (i, clause, at) in order:
        t = traces[i]
        sc = dict(scs[i])
        sc['sched'] = {'kind': 'script', 'script': t['schedule']}
        if at:
            around = t['ev'][max(0, at - 4):at + 2]
        else:       # judged at the end of the trace: what happened from the exit / land() call on
            ix = max([i for i, e in enumerate(t['ev']) if e['e'] == 'exit'] or [0])
            around = [e for e in t['ev'][max(0, ix - 2):] if e['e'] not in ('tick', 'wake')][:10]
        out.violation(signature(t, clause, at), clause,
                      {'helper': t['helper'], 'mode': t['mode'], 'program': t['prog'], 'defaults_mm': [t['dh'], t['dv'], t['dl']], 'start_mm': [t['x0'], t['y0'], t['z0']],
                       'link_latency_ms': {'per_hover_send': t['lat'], 'cyclic': t['latcyc']},
                       'outcome': t['outcome'], 'escaped_exception': t['exc'], 'event_index': at, 'events': around},
                      {'scenario': sc})


def main(tier, seed, replay=None):
    out = common.Outcome('C17', tier, seed)
    rng = random.Random(seed)
    out.assumptions = [
        'scheduling: all interleavings of the setpoint thread and the commanding thread at equal virtual times; virtual '
        'time advances only when no thread can run (a step takes no virtual time) -- this is the "scheduling quantum" '
        'of DESIGN 3.1(9); slack on the update period: 1 ms',
        'programs use the with-statement (optionally raising in the body after any prefix) or explicit take_off()/land(); '
        'MotionCommander: take_off/land are not called inside a body; PositionHlCommander: land()/take_off() may be '
        'called in the body (several flights of one object: moves and land() only while flying, take_off() only while '
        'landed), the object may be constructed at a start position that is not the origin; between two primitives the body may let virtual time pass '
        '("wait" = its own time.sleep, 50 ms .. 1 s), which requests nothing and must not disturb the stream',
        'numbers: displacement vectors have rational length, durations are whole milliseconds except for circles '
        '(symbolic multiples of pi); floats are compared as exact rationals after snapping within relative 1e-9',
        'height of a setpoint = integral of the commanded vertical velocity within 2 um per velocity command issued '
        '(time.time() resolution at the 1.7e9 epoch and 1 us stamps)',
        'a blocking primitive is judged on the velocity command it issues, the duration it sleeps and the command that ends '
        'it; the product must equal the requested displacement component-wise (magnitude of the velocity is not demanded)',
        'a primitive that raises (zero-length move) owes no motion; the exception then leaves the context like any other',
        'the crazyflie is a stand-in with the real Commander/HighLevelCommander; calls are recorded at their entry',
        'the exception that leaves the body is an Exception subclass, KeyboardInterrupt, SystemExit, GeneratorExit or a direct '
        'BaseException subclass',
        'the link may keep the sender of a hover setpoint for some virtual time (0 .. 600 ms per send); "at least every update '
        'period" is then counted from the moment the previous send returned (the time a send spends in the link is not the '
        "helper's), and a velocity command is in force from the moment the setpoint thread takes it from its queue (without "
        'latency: the instant it was issued)',
    ]
    if replay:
        rp = json.load(open(replay))['replay']
        _install()
        t = execute(rp['scenario'])
        bad, _ = judge(out, [t], 'replay')
        report(out, [t], [rp['scenario']], bad)
        out.samples = [{'scenario': {k: v for k, v in rp['scenario'].items() if k != 'sched'}, 'verdict': t['verdict'],
                        'outcome': t['outcome'], 'exc': t['exc']}]
        return out.finish()

    # 1. design spec: exhaustive; every named deviation must be refuted (vacuity guard)
    for cfg in (('MC_Flight_quick.cfg', 'MC_Flight_timed_quick.cfg', 'MC_Flight_lat_quick.cfg', 'MC_Flight_hl_quick.cfg',
                 'MC_Flight_hl_cycle_quick.cfg') if tier == 'quick'
                else ('MC_Flight_thorough.cfg', 'MC_Flight_thorough4.cfg', 'MC_Flight_timed_thorough.cfg', 'MC_Flight_lat_thorough.cfg',
                      'MC_Flight_hl_thorough.cfg', 'MC_Flight_hl_cycle_thorough.cfg')):
        r = tlc.check('MC_Flight.tla', cfg, coverage=(tier == 'thorough'), timeout=3000)
        out.add_tlc(cfg, r)
    for bug in ('landdiv0', 'neglandsleep', 'noterm', 'swapfinal', 'nointegrate', 'norecord', 'skipdup', 'turnmod', 'kbdfast', 'negtimeout',
                'takeoffadd'):
        rb = tlc.expect_violation('MC_Flight.tla', 'MC_Flight_bug_%s.cfg' % bug, timeout=900)
        out.sensitivity['spec:Bug=' + bug] = 'refuted (%s) after %d states' % (rb.violated, rb.distinct)

    # 2. spec -> code: TLC behaviours (program + firing order) driven through the real classes
    nsim = 150 if tier == 'quick' else 1500
    sims = []
    for cfg, helper, mode, hcfg, share in (('SIM_Flight.cfg', 'MC', 'with', (300, 500, 0, 0, 0, 0), 1), ('SIM_Flight_hl.cfg', 'PHC', 'with', HL_A, 2),
                                           ('SIM_Flight_hl_cycle.cfg', 'PHC', 'explicit', HL_C, 2)):
        rs, some = _in_child(_sim_job, (cfg, helper, mode, hcfg, nsim // share, seed))
        out.add_tlc('%s (-simulate num=%d)' % (cfg, nsim // share), rs)
        sims += some
    sim_scs = [x[0] for x in sims]
    sim_traces = run_scenarios(sim_scs)

    # 3. code -> spec: own enumeration + seeded random, everything judged by the monitor
    scs = scenarios_enumerated(tier)
    n_enum = len(scs)
    scs += scenarios_random(tier, rng)
    traces = run_scenarios(scs)
    all_scs = sim_scs + scs
    all_traces = sim_traces + traces
    bad, drift = judge(out, all_traces, 'real code')
    badset = {b[0] for b in bad}
    matched = timed = on_rejected = 0
    for i, ((sc, exp), t) in enumerate(zip(sims, sim_traces)):
        same, times = spec_matches(exp, t)
        matched += same
        timed += times
        if not same and i in badset:
            on_rejected += 1
    out.conformance['spec_to_code'] = {'behaviours': len(sims), 'matched': matched, 'matched_including_times': timed,
                                       'mismatch_on_traces_the_monitor_rejects': on_rejected}
    out.conformance['code_to_spec'] = {'traces': len(all_traces), 'explained_by_design_spec': len(all_traces) - drift - len(bad),
                                       'drift_without_rejection': drift, 'rejected_by_monitor': len(bad)}
    report(out, all_traces, all_scs, bad)
    import collections
    dk = collections.Counter()
    for t in all_traces:
        if t['verdict'][0] == 'ok' and not t['verdict'][2]:
            at = t['verdict'][3]
            prev = [e['e'] for e in t['ev'][max(0, at - 3):at - 1] if e['e'] not in ('tick', 'wake')]
            dk['%s after %s' % (t['ev'][at - 1]['e'], '+'.join(prev) or '-')] += 1
    out.extra['drift_by_event'] = dict(dk)
    out.extra['drift_examples'] = [{'helper': t['helper'], 'program': t['prog'], 'schedule_kind': sc['sched']['kind'],
                                    'at_event': t['verdict'][3], 'events': t['ev'][max(0, t['verdict'][3] - 3):t['verdict'][3]]}
                                   for t, sc in zip(all_traces, all_scs) if t['verdict'][0] == 'ok' and not t['verdict'][2]][:5]
    out.evaluations = len(all_traces)
    out.distinct = len({json.dumps([t['helper'], t['mode'], t['prog'], t['dh'], t['dv'], t['dl'], t['x0'], t['y0'], t['z0'], t['lat'], t['latcyc'],
                                    t['schedule']], sort_keys=True)
                        for t in all_traces})
    out.exhaustive = True
    out.rule = ('execution = (helper, constructor defaults, with/explicit, program, exception point, schedule); sources: '
                'TLC -simulate behaviours of Flight (program and firing order), exhaustive enumeration of all programs up to '
                'length %d over %d MotionCommander / %d PositionHlCommander primitives with and without an exception after '
                'every prefix under the two extreme interleaving policies, plus all MotionCommander programs up to '
                'length 2 that combine these with a pause or a full turn (thorough: also a longer pause, more than a full turn), '
                'plus all MotionCommander programs of length %s over the %d pause/repeat primitives (%d executions; exhaustive refers to this space), '
                'the exception after the program also as KeyboardInterrupt/SystemExit/GeneratorExit/BaseException subclass, '
                'MotionCommander programs up to length 1 and pause/repeat programs of length 2 (thorough: 3) under %d link-latency '
                'patterns, PositionHlCommander programs from a start position that is not the origin and all well-formed '
                'land/take_off/move programs up to length %d (several flights of one object); '
                'seeded random longer programs (with pauses, turns of a full revolution and more, polling loops that command '
                'an unchanged velocity again) under random/PCT schedules; distinct = distinct (program, schedule) pairs'
                % ((2, len(MC_QUICK), len(HL_QUICK), '3', len(MC_TIMED), n_enum, len(LAT_PATTERNS), 3) if tier == 'quick'
                   else (3, len(MC_QUICK + MC_MORE), len(HL_QUICK + HL_MORE), '3 and 4', len(MC_TIMED), n_enum, len(LAT_PATTERNS), 4)))
    picks = [0, len(sim_scs), len(all_scs) - 1] + [b[0] for b in bad[:2]]
    out.samples = [{'helper': all_traces[i]['helper'], 'program': all_traces[i]['prog'], 'schedule_kind': all_scs[i]['sched']['kind'],
                    'outcome': all_traces[i]['outcome'], 'verdict': all_traces[i]['verdict'],
                    'events': [e for e in all_traces[i]['ev'] if e['e'] not in ('tick', 'wake')][:10]} for i in picks]

    # 4. sensitivity: in-memory mutants must be rejected on scenarios the unchanged code passes
    good = [i for i in range(len(sim_scs), len(all_scs)) if i not in badset]
    jobs, owner = [], []
    # a mutant that needs a particular kind of program is tried on programs of that kind (the choice of test
    # programs for the self-test; every one of them passed on the tree under test)
    def base_exc(sc):
        return sc['prog'] and sc['prog'][-1]['op'] == 'raise' and sc['prog'][-1]['a'] >= 1
    needs = {'MC:duplicate_command_skipped': lambda sc: len(sc['prog']) >= 2 and any(p['op'] == 'wait' for p in sc['prog'][1:]),
             'MC:turn_angle_mod_360': lambda sc: len(sc['prog']) >= 2 and any(p['op'] == 'turn' and p['b'] >= 360 for p in sc['prog']),
             'MC:wait_minus_send_time_unclamped': lambda sc: any(x > 200 for x in sc.get('lat') or []),
             'MC:exit_fast_path_unless_Exception': base_exc, 'PHC:exit_lands_only_for_Exception': base_exc,
             'PHC:takeoff_adds_height': lambda sc: sc.get('z0') or any(p['op'] == 'takeoff' for p in sc['prog'])}
    for name in MUTANTS.names():
        helper = name.split(':')[0]
        need = needs.get(name, lambda sc: len(sc['prog']) >= 2)
        pool = [i for i in good if all_scs[i]['helper'] == helper and need(all_scs[i])]
        step = max(1, len(pool) // (25 if tier == 'quick' else 150))
        for i in pool[::step]:
            jobs.append((all_scs[i], name))
            owner.append(name)
    mt = _pmap(_exec_job, jobs, init=_install)
    o2 = common.Outcome('C17', tier, seed)
    mbad, _ = judge(o2, mt, 'mutants')
    out.tlc_runs += o2.tlc_runs
    for name in MUTANTS.names():
        mine = [(i, c) for i, c, _ in mbad if owner[i] == name]
        cl = sorted({c for _, c in mine})
        out.sensitivity['mutant:' + name] = '%d of %d traces rejected %s' % (len(mine), owner.count(name), cl)
        if not owner.count(name) and bad:
            # every program of the kind this mutant needs already violates on the tree under test
            out.sensitivity['mutant:' + name] = 'skipped: no passing program of the kind it needs on this tree'
            continue
        if not mine:
            raise common.MachineryError('monitor did not reject in-memory mutant %s' % name)
    # binding self-tests: corrupted traces must be rejected
    base = next(all_traces[i] for i in good if all_traces[i]['helper'] == 'MC' and all_traces[i]['outcome'] == 'ok'
                and sum(1 for e in all_traces[i]['ev'] if e['e'] == 'hover') > 12)
    hov = [i for i, e in enumerate(base['ev']) if e['e'] == 'hover']
    c1 = copy.deepcopy(base)
    del c1['ev'][hov[6]]
    c2 = copy.deepcopy(base)
    c2['ev'][hov[6]]['z'] += 1000
    c3 = copy.deepcopy(base)
    c3['ev'] = [e for e in c3['ev'] if e['e'] != 'stop']
    c4 = copy.deepcopy(base)
    c4['ev'].insert(len(c4['ev']) - 1, dict(c4['ev'][hov[-1]], t=c4['ev'][-1]['t']))
    tests = (('drop-one-hover', c1, None), ('hover-height+1mm', c2, 'HoverHeight'),
             ('drop-stop-command', c3, 'EndsWithStop'), ('hover-after-stop', c4, 'StreamAfterStop'))
    cts = [ct for _, ct, _ in tests]
    o2 = common.Outcome('C17', tier, seed)
    judge(o2, cts, 'corrupted')
    for nm, ct, need in tests:
        clause, at, conf, conf_at = ct['verdict']
        got = clause if clause != 'ok' else (None if conf else 'conformance')
        out.sensitivity['binding:' + nm] = 'rejected (%s)' % got if got else 'ACCEPTED'
        if not got or (need and got != need):
            raise common.MachineryError('trace spec: corrupted trace %s gave %r' % (nm, got))
    return out.finish()
