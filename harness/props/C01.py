"""C01 -- the Crazyradio link delivers every packet exactly once, in order, despite loss.

spec/SafelinkProps.tla (the property + the nRF ESB safelink peer rule), spec/Safelink.tla (design
spec of _RadioDriverThread.run / _send_packet_safe / the two queues), spec/SafelinkTrace.tla
(monitor + conformance for traces recorded from the real code).

What runs here is the REAL stack: RadioDriver.connect -> RadioManager -> _SharedRadio thread ->
_SharedRadioInstance -> cflib.drivers.crazyradio.Crazyradio.send_packet (the real _radio_ack
decoding) on top of a scripted USB device (FakeUsb).  FakeUsb.write is the yield point of one
transmission: the script supplies the outcome (A = delivered and acked, U = uplink lost, L = ack
lost) and a Python twin of the peer rule produces the ack payload.  Application threads call the
real RadioDriver.send_packet / receive_packet.  Everything runs under vsched.  Python only drives
and records; every verdict comes from TLC evaluating SafelinkProps on the recorded trace, and TLC
re-derives every ack from the TLA+ peer rule (so the Python twin is validated too)."""
import array
import copy
import itertools
import json
import random
import types

from .. import common, tlc, vsched
from ..vsched import core as vcore
from ..vsched import vqueue, vthreading, vtime

NEG = [0xFF, 0x05, 0x01]
URI = 'radio://0/80/2M'
NEGATT = 10


def mask(h):
    return h & 0xF3


def is_null(p):
    return len(p) == 0 or mask(p[0]) == 0xF3


def norm(p):
    return [mask(p[0])] + list(p[1:]) if p else []


# --------------------------------------------------------------------------- peer twin
class Peer:
    """Python twin of SafelinkProps!PeerRx (validated by TLC on every trace)."""

    def __init__(self, mode='sl', tail=(1, 44), deny=(255, 5, 0)):
        self.mode = mode
        self.sl = False
        self.up = 1
        self.down = 1
        self.txq = []
        self.last = []
        self.last_tx = False
        self.tail = list(tail)
        self.deny = list(deny)
        self.cf = []            # frames taken as new (twin-side bookkeeping, not used for verdicts)

    def queue(self, p):
        self.txq.append(list(p))

    def rx(self, f):
        f = list(f)
        service = len(f) == 3 and mask(f[0]) == 0xF3 and f[1] == 5
        if service and self.mode == 'sl':
            self.sl = f[2] != 0
            self.up = self.down = 1
            self.last = f
            self.last_tx = False
            return f, False
        if service and self.mode == 'deny':
            self.last = list(self.deny)
            self.last_tx = False
            return list(self.deny), False
        new = (not self.sl) or ((f[0] >> 3) & 1) != self.up
        if new:
            self.up = 1 - self.up
            self.cf.append(f)
        adv = (not self.sl) or ((f[0] >> 2) & 1) != self.down
        if adv:
            self.down = 1 - self.down
            if self.last_tx and self.txq:
                self.txq.pop(0)

            def hdr(h):
                return (mask(h) | self.up << 3 | self.down << 2) if self.sl else h
            if self.txq:
                pay = [hdr(self.txq[0][0])] + self.txq[0][1:]
                self.last_tx = True
            else:
                pay = [hdr(255)] + self.tail
                self.last_tx = False
            self.last = pay
        return list(self.last), new

    def state(self):
        return {'mode': self.mode, 'sl': self.sl, 'up': self.up, 'down': self.down,
                'txq': [list(p) for p in self.txq], 'last': list(self.last), 'lastTx': self.last_tx,
                'tail': list(self.tail), 'deny': list(self.deny)}


# --------------------------------------------------------------------------- scripted USB dongle
class _UsbCtx:
    def dispose(self, dev, close_handle=True):
        pass


class FakeUsb:
    """The pyusb device object under the real cflib.drivers.crazyradio.Crazyradio."""
    bcdDevice = 0x0099          # -> version 0.99
    serial_number = 'VERIF0001'

    def __init__(self, world):
        self.world = world
        self._ctx = _UsbCtx()
        self.settings = {}
        self._reply = [0]
        self.worlds = None          # address tuple -> World (several links on one dongle)
        self.unrouted = 0

    def set_configuration(self, n):
        pass

    def reset(self):
        pass

    def ctrl_transfer(self, bmRequestType, bRequest, wValue=0, wIndex=0, data_or_wLength=None, timeout=None):
        self.settings[bRequest] = (wValue, tuple(data_or_wLength) if hasattr(data_or_wLength, '__iter__') else data_or_wLength)
        if bmRequestType & 0x80:
            return array.array('B', [0] * (data_or_wLength or 0))
        return 0

    def write(self, endpoint, data, timeout=None):
        w = self.world
        if self.worlds:
            addr = tuple(self.settings.get(0x02, (0, ()))[1] or ())
            w = self.worlds.get(addr)
            if w is None:
                self._reply = [0]       # nobody listens on this address
                self.unrouted += 1
                if self.unrouted > 300:     # (mutants) nothing reaches any peer any more: end the run, not quiet
                    for x in self.worlds.values():
                        x.done = x.wedged = True
                    vthreading._do(vcore.Op('radio.tx', self, lambda: False, lambda: None))
                return
        self._reply = w.transfer([int(x) for x in data])

    def read(self, endpoint, n, timeout=None):
        return array.array('B', self._reply)


class LogQueue(vqueue.Queue):
    """queue.Queue as radiodriver.connect() creates it, reporting its operations to the World
    (observation only: the virtual queue semantics are inherited unchanged)."""
    world = None

    def __init__(self, maxsize=0):
        vqueue.Queue.__init__(self, maxsize)
        self.tag = 'out' if maxsize == 1 else 'in'
        self.w = LogQueue.world

    def _put(self, item):
        vqueue.Queue._put(self, item)
        if self.tag == 'in' and self.w is not None:
            self.w.log({'e': 'in', 'p': pk_bytes(item)})

    def _get(self):
        item = vqueue.Queue._get(self)
        if self.tag == 'out' and self.w is not None:     # only the radio loop takes from out_queue
            self.w.log({'e': 'og', 'p': pk_bytes(item)})
        return item

    def get(self, block=True, timeout=None):
        try:
            return vqueue.Queue.get(self, block, timeout)
        except vqueue.Empty:
            if self.tag == 'out' and self.w is not None:
                self.w.log({'e': 'og', 'p': []})
            raise


def pk_bytes(pk):
    return [int(pk.header)] + [int(x) if isinstance(x, int) else ord(x) for x in pk.data]


class World:
    """One execution: the scripted channel, the peer twin, the event log."""

    def __init__(self, sc):
        self.sc = sc
        self.peer = Peer(sc['mode'], sc['tail'], sc['deny'])
        self.ev = []
        self.ntx = 0                # USB transfers so far
        self.nsub = 0
        self.ncfq = 0
        self.nrcv = 0               # non-null packets received
        self.next_outcome = None    # steps mode: outcome of the next transfer
        self.next_delay = 0         # steps mode: (virtual) seconds the next dongle exchange takes
        self.stats = 0              # radio_link_statistics callbacks received
        self.free = None            # free mode: dict(outcomes, cfq_at, gates, ...)
        self.drv = None
        self.sched = None
        self.radio_rec = None
        self.shared_rec = None
        self.done = False           # free mode: this link's script and drain are through
        self.group = [self]         # links sharing one dongle
        self.tail_acked = 0
        self.data_phase = False
        self.neg_count = 0          # start-up frames of the current comm thread
        self._thread = None
        self.senders_left = 0
        self.wedged = False

    @property
    def gate_closed(self):
        return all(x.done for x in self.group)

    def log(self, e):
        self.ev.append(e)

    def radio_blocked(self):
        op = self.shared_rec.pending
        return op is not None and op.kind == 'radio.tx' and self.gate_closed

    @property
    def thread(self):
        """The current comm thread (the last one while the driver is paused)."""
        th = self.drv._thread
        if th is not None:
            self._thread = th
        return self._thread

    def st(self):
        th = self.thread
        return [int(th._curr_up), int(th._curr_down), 1 if th._has_safelink else 0,
                int(th._retry_before_disconnect), 1 if self.drv.needs_resending else 0]

    # ---- the transmission: yield point + channel outcome + peer
    def _ready(self):
        if self.free is None:
            return self.next_outcome is not None
        return not self.gate_closed

    def transfer(self, frame):
        vthreading._do(vcore.Op('radio.tx', self, self._ready, lambda: None))
        d = 0
        if self.free is None:
            o = self.next_outcome
            self.next_outcome = None
            d, self.next_delay = self.next_delay, 0
        else:
            o = self._free_outcome(frame)
        if d:
            vtime.sleep(d)          # USB stall: the write/read pair may take up to 2 x 1 s
        service = (not self.data_phase) and len(frame) == 3 and mask(frame[0]) == 0xF3 and frame[1] == 5
        if not service:
            self.data_phase = True
        else:
            self.neg_count += 1
        st = self.st()
        if o == 'U':
            rep = [0]
        else:
            ack, _new = self.peer.rx(frame)
            rep = ([1] + ack) if o == 'A' else [0]
        self.log({'e': 'tx', 'f': list(frame), 'o': o, 'rep': list(rep), 'st': st, 'd': int(round(d * 1000))})
        self.ntx += 1
        if not service:
            self.tail_acked = self.tail_acked + 1 if o == 'A' else 0
        if self.free is not None:
            self._free_after()
        if o == 'A' and self.sc.get('retrybits'):
            rep = [rep[0] | ((self.ntx * 7) % 4) << 4 | ((self.ntx % 3 == 0) << 1)] + rep[1:]
        return rep

    # ---- free mode scripting
    def _free_outcome(self, frame):
        fr = self.free
        k = self.ntx
        for p in fr['cfq_at'].get(k, ()):
            self.cf_queue(p)
        for g in fr['gates'].get(k, ()):
            g.release()
        if k < len(fr['outcomes']):
            return fr['outcomes'][k]
        return 'A'

    def _free_after(self):
        fr = self.free
        if self.ntx >= len(fr['outcomes']) and self.senders_left == 0:
            need = fr['nup'] + fr['ndown'] + 4 + 2
            if self.tail_acked >= need:
                self.done = True
        if self.ntx >= len(fr['outcomes']) + fr['nup'] + fr['ndown'] + 300 and not self.done:   # something is wedged: end the run (not quiet)
            self.done = True
            self.wedged = True

    def cf_queue(self, p):
        self.peer.queue(p)
        self.tail_acked = 0
        self.ncfq += 1
        self.log({'e': 'cfq', 'p': list(p)})

    def parked_at(self):
        """Where the radio loop is: 'tx' (about to transmit), 'put', 'get', or None (inside a
        transfer / not started), 'paused' (no comm thread)."""
        rec = self.radio_rec
        op = rec.pending
        if rec.finished:
            return 'paused'         # the comm thread has ended (pause())
        if op is None:
            return None
        if op.kind == 'queue.put' and op.obj is self.drv.in_queue:
            return 'put'
        if op.kind == 'queue.get' and op.obj is self.drv.out_queue:
            return 'get'
        if op.kind == 'queue.put' and op.obj is self.drv._radio._cmd_queue:
            return 'tx'
        return None


class Only:
    """Policy: run only the given thread records (lowest id first); advance time only when one of
    them waits for nothing but time."""

    def __init__(self, recs):
        self.recs = recs

    def choose(self, sched, runnable, timed):
        for r in runnable:
            if r in self.recs:
                return r
        if any(r in self.recs for r in timed):
            return vsched.TICK      # e.g. the loop's 10 ms relaxation wait on out_queue
        raise _Stuck()


class _Stuck(Exception):
    pass


def make_packet(p):
    from cflib.crtp.crtpstack import CRTPPacket
    pk = CRTPPacket()
    pk.set_header(p[0] >> 4, p[0] & 3)
    pk.data = bytes(p[1:])
    return pk


# --------------------------------------------------------------------------- one execution
def execute(sc, mutant=None):
    """Run one scenario against the real radio driver stack; returns the trace dict.
    sc: mode, tail, deny, retries, and either steps=[...] (macro-steps = spec actions) or
    free={...} (scripted outcomes, submission gates, seeded random schedule)."""
    import cflib.crtp.radiodriver as rd
    import cflib.drivers.crazyradio as cr
    w = World(sc)
    saved = (rd.queue, rd.Crazyradio, rd._nr_of_retries)
    undo = MUTANTS[mutant](rd) if mutant else None
    rd.queue = types.SimpleNamespace(Queue=LogQueue, Empty=vqueue.Empty, Full=vqueue.Full)
    class ScriptedCrazyradio(cr.Crazyradio):      # the real class on top of the scripted USB device
        def __init__(self, device=None, devid=0, serial=None):
            cr.Crazyradio.__init__(self, device=FakeUsb(w), devid=devid)
    rd.Crazyradio = ScriptedCrazyradio
    rd.RadioManager._radios = []
    LogQueue.world = w
    info = {'drift': 0, 'proj': [], 'executed': []}
    try:
        if sc['retries'] is not None:
            rd.set_retries_before_disconnect(sc['retries'])
        retries = rd._nr_of_retries          # the configured number (default of the module when not set)
        rng = random.Random(sc.get('seed', 0))
        policy = vsched.RandomPolicy(rng) if sc.get('free') and sc['free'].get('policy') == 'random' \
            else vsched.FifoPolicy()
        budget = 400000 if 'steps' in sc else 300000 + 400 * len(sc['free']['outcomes'])
        with vsched.scheduler(policy, max_steps=budget) as s:
            w.sched = s
            drv = rd.RadioDriver()
            w.drv = drv

            def on_err(msg):
                w.log({'e': 'err', 'm': 'loop' if 'Too many packets lost' in str(msg) else 'other'})

            def on_stats(d):        # the real RadioLinkStatistics runs in the loop and reports here
                w.stats += 1
            drv.connect(URI, on_stats, on_err)
            w.radio_rec = drv._thread._vs_rec
            w.shared_rec = rd.RadioManager._radios[0]._vs_rec
            if 'steps' in sc:
                _run_steps(w, s, sc, info)
            else:
                _run_free(w, s, sc, rng)
            rep = s.report()
            dead = [t for t in rep if t['status'] == 'dead']
            quiet = w.senders_left == 0 and (w.parked_at() == 'tx' or w.radio_blocked()) \
                and not dead and not w.wedged
            wedged = bool(w.wedged or dead or s.steps >= s.max_steps)
            inq = drv.in_queue.qsize()
            final_st = w.st()
    finally:
        LogQueue.world = None
        rd.queue, rd.Crazyradio, rd._nr_of_retries = saved
        rd.RadioManager._radios = []
        if undo:
            undo()
    tr = {'mode': sc['mode'], 'tail': list(sc['tail']), 'deny': list(sc['deny']), 'retries': retries,
          'negatt': NEGATT, 'ev': w.ev, 'fin': {'quiet': bool(quiet), 'wedged': wedged, 'inq': inq, 'st': final_st,
                                               'dead': [t.get('traceback', '')[-400:] for t in dead]}}
    return tr, info


def _project(w):
    """The real objects projected onto the variables of Safelink.tla."""
    th = w.thread
    return {'pc': w.parked_at(), 'sp': bool(th._sp), 'hUp': int(th._curr_up), 'hDown': int(th._curr_down),
            'hasSL': bool(th._has_safelink), 'retryLeft': int(th._retry_before_disconnect),
            'needsRes': bool(w.drv.needs_resending),
            'outQ': [pk_bytes(x) for x in w.drv.out_queue.queue],
            'inQ': [norm(pk_bytes(x)) for x in w.drv.in_queue.queue if not is_null(pk_bytes(x))],
            'peer': w.peer.state()}


def _run_steps(w, s, sc, info):
    radio = Only([w.radio_rec, w.shared_rec])
    state = {'sender': None, 'receiver': None, 'subq': [], 'want_rcv': 0}

    def sender():
        while True:
            # packets are handed over by the director one at a time
            if not state['subq']:
                return
            p = state['subq'].pop(0)
            pk = make_packet(p)
            ok = w.drv.send_packet(pk)
            if ok:
                w.nsub += 1
                w.tail_acked = 0
                w.log({'e': 'sub', 'p': pk_bytes(pk)})
            else:
                w.log({'e': 'rej', 'p': list(p)})

    def receiver():
        while True:
            pk = w.drv.receive_packet(-1)
            if pk is None:
                continue
            p = [(pk.port << 4) | pk.channel] + [int(x) for x in pk.data]
            w.log({'e': 'rcv', 'p': p})
            if not is_null(p):
                w.nrcv += 1

    def pauser():
        w.log({'e': 'preq'})
        w.drv.pause()               # stop(): _sp = True, join(); then _thread = None
        w.log({'e': 'pause'})

    def restarter():
        w.drv.restart()
        w.log({'e': 'restart'})

    def run(policy, until, cap=4000):
        # every macro-step has its own scheduler-step budget: code that never gets there must not spin
        s0 = s.steps
        try:
            r = s.run(until=lambda: until() or s.steps - s0 > cap, policy=policy)
        except _Stuck:
            return False
        return r == 'until' and until()

    # settle: radio loop parked before its first transmission
    if not run(radio, lambda: w.parked_at() == 'tx'):
        raise common.MachineryError('radio loop did not reach its first transmission')
    rcv = s.spawn(receiver, 'receiver')
    steps = sc['steps']
    director = steps if callable(steps) else None
    i = 0
    nsteps = stalled = 0
    while True:
        # hard budgets: a check must terminate on ANY tree.  When the code under test stops making
        # progress the execution is ended, marked wedged, and the monitor judges what was recorded
        nsteps += 1
        if nsteps > 20000 or stalled >= 25 or s.steps >= s.max_steps:
            w.wedged = True
            break
        if director:
            st = director(w)
        else:
            st = steps[i] if i < len(steps) else None
            i += 1
        if st is None:
            break
        k = st[0]
        ok = True
        if k == 'tx':
            if w.parked_at() != 'tx':
                ok = False
            else:
                n0 = w.ntx
                w.next_outcome = st[1]
                w.next_delay = st[2] if len(st) > 2 else 0
                ok = run(radio, lambda: w.ntx == n0 + 1 and w.parked_at() is not None)
        elif k == 'in':
            ok = w.parked_at() == 'put' and run(radio, lambda: w.parked_at() == 'get')
        elif k == 'og':
            ok = w.parked_at() == 'get' and run(radio, lambda: w.parked_at() in ('tx', 'paused'))
        elif k == 'preq':
            if w.parked_at() in (None, 'paused') or state.get('pauser') is not None:
                ok = False
            else:
                pz = s.spawn(pauser, 'pauser')
                state['pauser'] = pz
                ok = run(Only([pz]), lambda: pz.finished or (pz.pending is not None and pz.pending.kind == 'thread.join'))
        elif k == 'reboot':
            ok = w.parked_at() == 'paused'
            if ok:
                w.peer = Peer(st[1], sc['tail'], sc['deny'])
                w.log({'e': 'reboot', 'mode': st[1]})
        elif k == 'restart':
            if w.parked_at() != 'paused' or state.get('pauser') is not None:
                ok = False
            else:
                rz = s.spawn(restarter, 'restarter')
                ok = run(Only([rz]), lambda: rz.finished)
                w.radio_rec = w.drv._thread._vs_rec
                radio = Only([w.radio_rec, w.shared_rec])
                w.data_phase = False
                w.neg_count = 0
                ok = run(radio, lambda: w.parked_at() == 'tx') and ok
        elif k == 'sub':
            if w.drv.out_queue.full():
                ok = False
            else:
                n0 = w.nsub
                state['subq'].append(list(st[1]))
                snd = s.spawn(sender, 'sender')
                w.senders_left += 1
                ok = run(Only([snd]), lambda: w.nsub == n0 + 1 and snd.finished)
                w.senders_left -= 1
        elif k == 'rcv':
            n0 = w.nrcv
            if not any(not is_null(pk_bytes(x)) for x in w.drv.in_queue.queue):
                ok = False
            else:
                ok = run(Only([rcv]), lambda: w.nrcv == n0 + 1)
        elif k == 'rcvall':     # harness-side: let the receiver empty in_queue (nulls included)
            run(Only([rcv]), lambda: w.drv.in_queue.empty() and rcv.pending is not None)
        elif k == 'cfq':
            w.cf_queue(st[1])
        else:
            raise common.MachineryError('unknown macro step %r' % (st,))
        pz = state.get('pauser')
        if pz is not None and w.radio_rec.finished:     # the comm thread is gone: pause() returns
            run(Only([pz]), lambda: pz.finished)
            state['pauser'] = None
        info['executed'].append(list(st))
        stalled = 0 if ok else stalled + 1
        if not ok:
            info['drift'] += 1
        if sc.get('project'):
            info['proj'].append(_project(w))
    # let the receiver catch up (null packets included) so that the end state is quiescent
    run(Only([rcv]), lambda: w.drv.in_queue.empty() and rcv.pending is not None)


def _spawn_free(w, s, sc):
    fr = sc['free']
    gates = {}
    senders = []
    for plan in fr['senders']:          # plan: list of [tx index, packet]
        sem = vthreading.Semaphore(0)
        for (at, _p) in plan:
            gates.setdefault(at, []).append(sem)

        def body(plan=plan, sem=sem):
            for (_at, p) in plan:
                sem.acquire()
                pk = make_packet(p)
                ok = w.drv.send_packet(pk)
                if ok:
                    w.nsub += 1
                    w.tail_acked = 0
                    w.log({'e': 'sub', 'p': pk_bytes(pk)})
                else:
                    w.log({'e': 'rej', 'p': list(p)})
            w.senders_left -= 1
        senders.append(body)
    waits = fr.get('rx_waits', [-1])

    def receiver():
        i = 0
        while True:
            wt = waits[i % len(waits)]
            i += 1
            pk = w.drv.receive_packet(wt)
            if pk is None:
                if w.gate_closed and w.drv.in_queue.empty():
                    # poll variants must not spin forever once everything is over
                    wt = -1
                    pk = w.drv.receive_packet(-1)
                    if pk is None:
                        continue
                else:
                    continue
            p = [(pk.port << 4) | pk.channel] + [int(x) for x in pk.data]
            w.log({'e': 'rcv', 'p': p})
            if not is_null(p):
                w.nrcv += 1
    cfq_at = {}
    for (at, p) in fr['cfq']:
        cfq_at.setdefault(at, []).append(p)
    w.senders_left = len(senders)
    w.free = {'outcomes': fr['outcomes'], 'cfq_at': cfq_at, 'gates': gates,
              'nup': sum(len(p) for p in fr['senders']), 'ndown': len(fr['cfq'])}
    for b in senders:
        s.spawn(b, 'sender')
    s.spawn(receiver, 'receiver')


def _run_free(w, s, sc, rng):
    _spawn_free(w, s, sc)
    return s.run(until=lambda: w.radio_blocked() and w.drv.in_queue.empty() and
                 (w.senders_left == 0 or w.wedged))


def execute_multi(sc, mutant=None):
    """Several links (different addresses) multiplexed over ONE dongle by the real _SharedRadio;
    every link has its own peer, outcome script and application threads.  Returns one trace per
    link (judged independently)."""
    import cflib.crtp.radiodriver as rd
    import cflib.drivers.crazyradio as cr
    worlds = [World(l) for l in sc['links']]
    for w in worlds:
        w.group = worlds
    usb = FakeUsb(worlds[0])
    usb.worlds = {}
    saved = (rd.queue, rd.Crazyradio, rd._nr_of_retries)
    undo = MUTANTS[mutant](rd) if mutant else None

    class ScriptedCrazyradio(cr.Crazyradio):
        def __init__(self, device=None, devid=0, serial=None):
            cr.Crazyradio.__init__(self, device=usb, devid=devid)
    rd.queue = types.SimpleNamespace(Queue=LogQueue, Empty=vqueue.Empty, Full=vqueue.Full)
    rd.Crazyradio = ScriptedCrazyradio
    rd.RadioManager._radios = []
    try:
        rd.set_retries_before_disconnect(sc['links'][0]['retries'])
        rng = random.Random(sc.get('seed', 0))
        with vsched.scheduler(vsched.RandomPolicy(rng), max_steps=400000 + 600 * sum(len(l['free']['outcomes']) for l in sc['links'])) as s:
            for k, (w, l) in enumerate(zip(worlds, sc['links'])):
                w.sched = s
                LogQueue.world = w
                drv = rd.RadioDriver()
                w.drv = drv
                addr = (0xE7, 0xE7, 0xE7, 0xE7, k + 1)
                usb.worlds[tuple(reversed(addr))] = w      # parse_uri unpacks the hex string little-endian-wise

                def on_err(msg, w=w):
                    w.log({'e': 'err', 'm': 'loop' if 'Too many packets lost' in str(msg) else 'other'})
                drv.connect('radio://0/80/2M/E7E7E7E7%02X' % (k + 1), None, on_err)
                w.radio_rec = drv._thread._vs_rec
                w.shared_rec = rd.RadioManager._radios[0]._vs_rec
            usb.worlds = {tuple(w.drv._radio._address): w for w in worlds}
            for w, l in zip(worlds, sc['links']):
                _spawn_free(w, s, l)
            s.run(until=lambda: all(w.radio_blocked() and w.drv.in_queue.empty() and
                                    (w.senders_left == 0 or w.wedged) for w in worlds))
            dead = [t for t in s.report() if t['status'] == 'dead']
            fins = [{'quiet': bool(w.senders_left == 0 and w.radio_blocked() and not dead and not w.wedged),
                     'wedged': bool(w.wedged or dead or s.steps >= s.max_steps),
                     'inq': w.drv.in_queue.qsize(), 'st': w.st(),
                     'dead': [t.get('traceback', '')[-400:] for t in dead]} for w in worlds]
    finally:
        LogQueue.world = None
        rd.queue, rd.Crazyradio, rd._nr_of_retries = saved
        rd.RadioManager._radios = []
        if undo:
            undo()
    return [{'mode': l['mode'], 'tail': list(l['tail']), 'deny': list(l['deny']), 'retries': l['retries'],
             'negatt': NEGATT, 'ev': w.ev, 'fin': f} for w, l, f in zip(worlds, sc['links'], fins)]



# --------------------------------------------------------------------------- in-memory mutants
def _rewrite(rd, fn_name, old, new, cls_name='_RadioDriverThread'):
    """Replacement for a method of _RadioDriverThread (or _SharedRadio): its own source with one
    snippet changed, compiled in radiodriver's namespace (the /repo file is untouched)."""
    import inspect
    import textwrap
    cls = getattr(rd, cls_name)
    src = textwrap.dedent(inspect.getsource(getattr(cls, fn_name)))
    pairs = [(old, new)] if isinstance(old, str) else list(zip(old, new))
    for (o, n) in pairs:
        if src.count(o) != 1:
            raise common.MachineryError('mutant snippet for %s not found exactly once: %r' % (fn_name, o))
        src = src.replace(o, n)
    ns = {}
    import sys as _sys
    exec(compile(src, '<mutant %s>' % fn_name, 'exec'), _sys.modules[cls.__module__].__dict__, ns)
    orig = cls.__dict__[fn_name]
    setattr(cls, fn_name, ns[fn_name])
    return lambda: setattr(cls, fn_name, orig)


def _m(fn_name, old, new, cls_name='_RadioDriverThread'):
    return lambda rd: _rewrite(rd, fn_name, old, new, cls_name)


MUTANTS = {
    # flips the uplink bit although the frame was not acknowledged
    'flip_up_on_lost': _m('_send_packet_safe', 'if resp and resp.ack:\n        self._curr_up', 'if resp:\n        self._curr_up'),
    # never advances the downlink bit: the peer repeats its payload, the host queues it again
    'never_flip_down': _m('_send_packet_safe', 'self._curr_down = 1 - self._curr_down', 'pass'),
    # sequence bits or-ed in without clearing the header bits first
    'no_header_mask': _m('_send_packet_safe', 'packet[0] &= 0xF3', 'pass'),
    # the retransmission `continue` is gone: the next packet is dequeued after a lost frame
    'dequeue_on_lost': _m('run', "self._link_error_callback('Too many packets lost')\n            continue",
                          "self._link_error_callback('Too many packets lost')\n            ackStatus = crazyradio._radio_ack()\n            ackStatus.ack = True"),
    # retry counter is not restarted by an acknowledgement
    'no_retry_reset': _m('run', 'self._retry_before_disconnect = _nr_of_retries\n\n', 'pass\n\n'),
    # link error one transmission early
    'retry_off_by_one': _m('run', 'self._retry_before_disconnect == 0 and', 'self._retry_before_disconnect == 1 and'),
    # safelink enabled on any three-byte reply
    'sl_on_any_3_bytes': _m('run', 'tuple(resp.data) == (\n                0xff, 0x05, 0x01)', 'len(resp.data) == 3'),
    # upper layer told not to resend although safelink is off
    'never_needs_resending': _m('run', 'self._link.needs_resending = not self._has_safelink', 'self._link.needs_resending = False'),
    # needs_resending only cleared on safelink success, never set again (relies on the __init__ default):
    # wrong for the second comm thread of the same driver object (pause()/restart())
    'nr_only_on_success': _m('run', ('self._has_safelink = True\n', '    self._link.needs_resending = not self._has_safelink\n'),
                             ('self._has_safelink = True\n            self._link.needs_resending = False\n', '')),
    # the wait for the dongle's answer gives up after 1 s ("resend"): the late answer stays queued and every
    # later exchange is handed the previous one's answer
    'rsp_timeout': _m('send_packet', 'ack = self._rsp_queue.get()  # type: crazyradio._radio_ack',
                      'try:\n        ack = self._rsp_queue.get(timeout=1)\n    except queue.Empty:\n        return None',
                      '_SharedRadioInstance'),
    # the statistics object reads the RSSI byte of a two-byte null packet: IndexError inside the loop
    'stats_rssi_guard': _m('_update_rssi', 'len(ack.data) > 2', 'len(ack.data) > 1', 'RadioLinkStatistics'),
    # ack payload queued twice
    'queue_ack_twice': _m('run', 'self._in_queue.put(inPacket)', 'self._in_queue.put(inPacket)\n            if inPacket.port != 15:\n                self._in_queue.put(inPacket)'),
}

# mutants of the dongle multiplexer, visible only with several links on one dongle
MULTI_MUTANTS = {
    # the shared radio no longer re-selects the link's address before transmitting
    'shared_no_set_address': _m('run', 'self._radio.set_channel(channel)\n            self._radio.set_address(address)',
                                'self._radio.set_channel(channel)', '_SharedRadio'),
    # the ack goes to the response queue of the instance that asked last time
    'shared_stale_rsp_queue': _m('run', 'ack = self._radio.send_packet(data)\n            self._rsp_queues[command[0]].put(ack)',
                                 'ack = self._radio.send_packet(data)\n            self._rsp_queues[getattr(self, "_prev", command[0])].put(ack)\n            self._prev = command[0]',
                                 '_SharedRadio'),
}
MUTANTS.update(MULTI_MUTANTS)


# --------------------------------------------------------------------------- scenario sources
DENY_REPLIES = [[255, 5, 0], [255, 5, 1, 0], [243, 5, 1], [255, 5], [255, 1, 44], [247, 5, 1], [255, 5, 2]]


def up_pk(i):
    if i % 4 == 3:          # a packet without data bytes
        return [((3 + i % 5) << 4) | 0x0C | (i % 4)]
    return [((3 + i % 5) << 4) | 0x0C | (i % 4), i % 256, (i // 256) % 256]


TAILS = [[1, 44], [], [1], [0, 9, 9]]      # what follows the header of an empty ack: RSSI, nothing, type only, other


def dn_pk(j):
    if j % 3 == 2:          # header-only downlink packet
        return [((5 + j % 3) << 4) | (j % 4)]
    if j % 11 == 7:         # a full radio payload (32 bytes)
        return [((5 + j % 3) << 4) | (j % 4)] + [(j + i) % 256 for i in range(31)]
    return [((5 + j % 3) << 4) | (j % 4), (100 + j) % 256, (j // 256) % 256, 7]


class WordDirector:
    """Dynamic director for one outcome word: start-up outcomes `neg`, then the main-loop word,
    then a drain of acknowledged transmissions.  `pattern` fixes when the application submits,
    when the Crazyflie queues and when the application receives, relative to the radio loop."""

    def __init__(self, neg, word, pattern, nup, ndown, opt=None):
        self.neg = list(neg)
        self.word = list(word)
        self.pattern = pattern
        self.up = [up_pk(i + 1) for i in range(nup)] if isinstance(nup, int) else [list(p) for p in nup]
        self.dn = [dn_pk(j + 1) for j in range(ndown)] if isinstance(ndown, int) else [list(p) for p in ndown]
        opt = opt or {}
        self.stall = opt.get('stall')           # [main-loop transmission index, seconds]
        self.stall_neg = opt.get('stall_neg')   # [start-up frame index, seconds]
        self.k = 0              # main-loop transmissions done
        self.negk = 0
        self.drain = None
        self.did = set()

    def once(self, key):
        if key in self.did:
            return False
        self.did.add(key)
        return True

    def __call__(self, w):
        at = w.parked_at()
        pat = self.pattern
        th = w.drv._thread
        in_neg = not w.data_phase and self.negk < len(self.neg) and self.negk < NEGATT and not th._has_safelink
        if at == 'put':
            return ['in']
        if pat == 'eager':
            # everything as early as possible: queue all downlink packets first, submit whenever
            # out_queue has room, receive only at the very end
            if self.dn and not in_neg:
                return ['cfq', self.dn.pop(0)]
            if self.up and not w.drv.out_queue.full():
                return ['sub', self.up.pop(0)]
        elif pat == 'late':
            # submit right after the loop looked into out_queue (the packet waits a whole cycle,
            # a null frame goes out in between); one downlink packet every second transmission;
            # receive as soon as something is there
            if any(not is_null(pk_bytes(x)) for x in w.drv.in_queue.queue):
                return ['rcv']
            if at == 'tx' and self.up and not w.drv.out_queue.full() and w.data_phase and self.once(('s', w.ntx)):
                return ['sub', self.up.pop(0)]
            if at == 'tx' and self.dn and w.ntx % 2 == 0 and self.once(('q', w.ntx)):
                return ['cfq', self.dn.pop(0)]
        elif pat == 'mid':
            # submit while the ack payload is on its way into in_queue / before the look into
            # out_queue, downlink queued during start-up and then after every loss
            if at == 'get' and self.up and not w.drv.out_queue.full():
                return ['sub', self.up.pop(0)]
            if at == 'tx' and self.dn and (not w.data_phase or (self.k and self.word[self.k - 1] != 'A')) \
                    and self.once(('q', w.ntx)):
                return ['cfq', self.dn.pop(0)]
            if at == 'tx' and w.ntx % 3 == 2 and self.once(('r', w.ntx)):
                return ['rcvall']
        if at == 'get':
            return ['og']
        # at == 'tx'
        if in_neg:
            o = self.neg[self.negk]
            self.negk += 1
            if self.stall_neg and self.stall_neg[0] == self.negk - 1:
                return ['tx', o, self.stall_neg[1]]
            return ['tx', o]
        if self.k < len(self.word):
            o = self.word[self.k]
            self.k += 1
            if self.stall and self.stall[0] == self.k - 1:
                return ['tx', o, self.stall[1]]
            return ['tx', o]
        # drain: the rest of the packets, then acknowledged transmissions
        if self.dn:
            return ['cfq', self.dn.pop(0)]
        if self.up and not w.drv.out_queue.full():
            return ['sub', self.up.pop(0)]
        if self.drain is None or self.up:
            self.drain = 0
        need = w.nsub + w.ncfq + 4 + 1
        if w.tail_acked < need and self.drain < need + 40:
            self.drain += 1
            return ['tx', 'A']
        return None


def word_scenarios(tier):
    """ALL outcome words up to length k, each at three submission patterns."""
    k = 7 if tier == 'quick' else 10
    out = []
    for n in range(0, k + 1):
        for word in itertools.product('AUL', repeat=n):
            if n < k and word and word[-1] == 'A':
                continue    # word + drain == longer word + drain: covered by the length-k words
            for pat, retries in (('eager', 12), ('late', 12), ('mid', 3)):
                if pat == 'mid' and n > (6 if tier == 'quick' else 8):
                    continue
                # the empty ack of the peer: RSSI ack / header only / type byte only
                out.append({'mode': 'sl', 'tail': {'eager': [1, 44], 'late': [], 'mid': [1]}[pat], 'deny': DENY_REPLIES[0], 'retries': retries,
                            'gen': ['word', 'A', ''.join(word), pat, 3, 3]})
    return out


def startup_scenarios(tier, rng):
    """Start-up: every loss pattern before the first acknowledged start-up frame (and all ten
    lost), against safelink / non-safelink / denying peers, followed by a short lossy main loop."""
    out = []
    tails = ('AUALLA', 'LLUA', 'ALAUUUA')
    for j in range(0, NEGATT + 1):
        words = list(itertools.product('UL', repeat=j))
        if tier == 'quick' and len(words) > 64:
            words = rng.sample(words, 64)
        for wd in words:
            neg = ''.join(wd) + ('A' if j < NEGATT else '')
            out.append({'mode': 'sl', 'tail': TAILS[len(out) % 4], 'deny': DENY_REPLIES[0], 'retries': 4 + j % 3,
                        'gen': ['word', neg, tails[j % 3], ('eager', 'late', 'mid')[len(out) % 3], 2, 2]})
    for mode in ('nosl', 'deny'):
        for d in (DENY_REPLIES if mode == 'deny' else DENY_REPLIES[:1]):
            for neg in ('A' * 10, 'UAAAAAAAAA', 'LLLLLAAAAA', 'ALUALUALUA', 'U' * 10, 'L' * 10, 'UUUUUUUUUA'):
                for tl in ([1, 44], [], [1]):
                    out.append({'mode': mode, 'tail': tl, 'deny': d, 'retries': 3,
                                'gen': ['word', neg, 'AULLLAUUUUA', ('eager', 'late', 'mid')[len(out) % 3], 2, 2]})
    return out


def ack_scenarios(tier):
    """The peer's ack alphabet: empty acks of every length 1..32 (header + 0..31 bytes, first tail byte
    1 = the RSSI type, or other), and downlink packets of lengths 1, 2, 3, 32 on every port/channel
    including the null / link-control headers (port 15), all of it acknowledged and some of it lost."""
    out = []
    for n in range(0, 32):
        for first in (1, 0):
            if n == 0 and first == 0:
                continue
            tail = ([first] + [(n * 7 + i) % 256 for i in range(n - 1)]) if n else []
            out.append({'mode': 'sl', 'tail': tail, 'deny': DENY_REPLIES[0], 'retries': 12,
                        'gen': ['word', 'A', 'AALAUA', ('eager', 'late', 'mid')[len(out) % 3], 3, 3]})
    hdrs = [(port << 4) | ch for port in range(16) for ch in range(4)]
    pk = []
    for i, h in enumerate(hdrs):
        for ln in (1, 2, 3, 32):
            pk.append([h] + ([1] + [(h + k) % 256 for k in range(ln - 2)] if ln > 1 else []))
    for b in range(0, len(pk), 8):
        out.append({'mode': 'sl', 'tail': TAILS[(b // 8) % len(TAILS)], 'deny': DENY_REPLIES[0], 'retries': 12,
                    'gen': ['word', 'A', 'ALAAUAAA', ('eager', 'late')[(b // 8) % 2], 2, pk[b:b + 8]]})
    return out


def stall_scenarios(tier, rng):
    """One exchange with the dongle takes longer than a second of (virtual) time (USB stall; each of
    the two USB transfers may take up to 1 s): at every position of every outcome word of length 5,
    and during start-up."""
    out = []
    for word in itertools.product('AUL', repeat=5):
        for at in range(5):
            for pat in ('eager', 'late'):
                out.append({'mode': 'sl', 'tail': TAILS[len(out) % 2], 'deny': DENY_REPLIES[0], 'retries': 12,
                            'gen': ['word', 'A', ''.join(word) + 'AL', pat, 3, 3, {'stall': [at, (1.2, 1.9)[len(out) % 2]]}]})
    for neg in ('A', 'LA', 'ULA', 'LLLLLLLLLA'):
        for at in range(min(len(neg), 3)):
            out.append({'mode': 'sl', 'tail': [1, 44], 'deny': DENY_REPLIES[0], 'retries': 12,
                        'gen': ['word', neg, 'ALAUA', 'late', 2, 2, {'stall_neg': [at, 1.5]}]})
    if tier == 'quick':
        out = rng.sample(out, 260)
    return out


def count_scenarios(tier):
    """The configured count exactly: N-1 losses then an ack (no report), N losses (one report at
    the N-th), N+3 losses (still one report), alternating U/L; N = 1, 2, 3, 5, 17 and the
    default 100 (retries None = set_retries_before_disconnect is not called)."""
    out = []
    for n in (1, 2, 3, 5, 17, None):
        k = n or 100
        for kinds in ('U', 'L', 'UL'):
            def run(m):
                return ''.join(kinds[i % len(kinds)] for i in range(m))
            word = run(k - 1) + 'A' + run(k) + 'AA' + run(k + 3) + 'A' + run(k - 1) + 'A' + run(1) + 'A'
            for pat in ('eager', 'late'):
                out.append({'mode': 'sl', 'tail': [1, 44], 'deny': DENY_REPLIES[0], 'retries': n,
                            'gen': ['word', 'LA', word, pat, 4, 4]})
    return out


def in_startup(w):
    th = w.thread
    return not w.data_phase and w.neg_count < NEGATT and not th._has_safelink and not th._sp


def restart_gen(w, p):
    """Director (generator) for one pause()/restart() life cycle: start-up 1 (neg1), main loop
    (word1), pause requested with the loop parked at p['pause_at'], the loop runs out (outcomes
    p['after']), things happen while paused (a submission, a queued downlink packet, optionally the
    peer comes back as another kind), restart, start-up 2 (neg2), main loop (word2), optionally a
    second cycle."""
    up = [up_pk(i + 1) for i in range(6)]
    dn = [dn_pk(j + 1) for j in range(4)]

    def startup(word):
        k = 0
        while w.parked_at() == 'tx' and in_startup(w):
            yield ['tx', word[k] if k < len(word) else 'A']
            k += 1

    def iteration(o):
        yield ['tx', o]
        while w.parked_at() in ('put', 'get'):
            if w.parked_at() == 'get' and up and not w.drv.out_queue.full() and len(up) % 2 == 0:
                yield ['sub', up.pop(0)]
            yield ['in'] if w.parked_at() == 'put' else ['og']

    yield ['sub', up.pop(0)]
    yield ['cfq', dn.pop(0)]
    for cyc in range(2 if p.get('twice') else 1):
        neg = p['neg1'] if cyc == 0 else 'A'
        if p['pause_at'] == 'neg' and cyc == 0:
            yield ['tx', neg[0]]
            yield ['preq']          # during the start-up loop if it is still going on, else at the loop top
            for st in startup(neg[1:]):
                yield st
        else:
            for st in startup(neg):
                yield st
            for o in p['word1']:
                for st in iteration(o):
                    yield st
            if w.parked_at() == 'tx' and p['pause_at'] in ('put', 'get'):
                yield ['tx', 'A']
                if p['pause_at'] == 'get' and w.parked_at() == 'put':
                    yield ['in']
            yield ['preq']
        after = list(p['after'])
        n = 0
        while w.parked_at() != 'paused' and n < 30:
            n += 1
            at = w.parked_at()
            yield ['in'] if at == 'put' else ['og'] if at == 'get' else ['tx', after.pop(0) if after else 'A']
        if up and not w.drv.out_queue.full():
            yield ['sub', up.pop(0)]        # accepted while there is no comm thread
        if dn:
            yield ['cfq', dn.pop(0)]
        if p.get('reboot') and cyc == 0:
            yield ['reboot', p['reboot']]
        yield ['restart']
        for st in startup(p['neg2'] if cyc == 0 else 'LA'):
            yield st
        for o in p['word2']:
            for st in iteration(o):
                yield st
    for _ in range(4):
        for st in iteration('A'):
            yield st
    yield ['rcvall']


class GenDirector:
    def __init__(self, fn, p):
        self.fn, self.p, self.g = fn, p, None

    def __call__(self, w):
        if self.g is None:
            self.g = self.fn(w, self.p)
        return next(self.g, None)


def restart_scenarios(tier, rng):
    """RadioDriver.pause()/restart(): a new start-up on the same driver object, against every
    kind of second start-up (confirmed, confirmed late, all ten unanswered, peer rebooted)."""
    out = []
    for neg1 in ('A', 'LUA', 'U' * 10):
        for pause_at in ('tx', 'put', 'get', 'neg'):
            for after in ('A', 'L', 'UA'):
                for reboot in (None, 'nosl', 'deny', 'sl'):
                    for neg2 in ('A', 'LLA', 'U' * 10, 'L' * 10, 'UL' * 5):
                        for (w1, w2) in (('AA', 'AALA'), ('ALA', 'LAUA')):
                            out.append({'mode': 'sl' if len(out) % 7 else 'nosl', 'tail': TAILS[len(out) % 3], 'deny': DENY_REPLIES[len(out) % 3],
                                        'retries': 3 + len(out) % 2,
                                        'gen': ['restart', {'neg1': neg1, 'pause_at': pause_at, 'after': after, 'reboot': reboot,
                                                            'neg2': neg2, 'word1': w1, 'word2': w2, 'twice': len(out) % 5 == 0}]})
    if tier == 'quick':
        must = [sc for sc in out if sc['gen'][1]['neg1'] == 'A' and sc['gen'][1]['neg2'] in ('U' * 10, 'L' * 10)][::6]
        out = must + rng.sample(out, 200)
    return out


def random_scenarios(tier, rng):
    """Random beyond: long runs (200-2000 transmissions), random loss processes, several sending
    threads, random submission/queueing times, seeded random thread schedule."""
    n = 24 if tier == 'quick' else 240
    out = []
    for i in range(n):
        length = rng.randint(200, 600 if tier == 'quick' else 2000)
        style = i % 4
        retries = [100, 5, 3, 20][style]
        fail_ok = style == 2 or i % 8 == 7      # runs in which a link failure may happen
        pl = [0.05, 0.3, 0.5, 0.15][style] * rng.random() * 2
        outcomes = []
        negn = rng.choice([0, 0, 1, 3, 9])
        outcomes += [rng.choice('UL') for _ in range(negn)] + ['A']
        nneg = len(outcomes)
        while len(outcomes) < length:
            r = rng.random()
            if r < 0.01:      # burst
                outcomes += [rng.choice('UL') for _ in range(rng.randint(2, retries + 3))]
            elif r < 0.01 + pl:
                outcomes.append(rng.choice('UL'))
            else:
                outcomes.append('A')
        if not fail_ok:       # "short of a link failure": no run of `retries` unacknowledged transmissions
            run = 0
            for j in range(nneg, len(outcomes)):
                run = run + 1 if outcomes[j] != 'A' else 0
                if run == retries:
                    outcomes[j] = 'A'
                    run = 0
        nup = rng.randint(5, 60 if tier == 'quick' else 200)
        ndown = rng.randint(5, 60 if tier == 'quick' else 200)
        nsend = rng.randint(1, 3)
        plans = [[] for _ in range(nsend)]
        ats = sorted(rng.randrange(0, length - 1) for _ in range(nup))
        for j, at in enumerate(ats):
            plans[rng.randrange(nsend)].append([at, up_pk(j + 1)])
        cfq = [[at, dn_pk(j + 1)] for j, at in enumerate(sorted(rng.randrange(0, length - 1) for _ in range(ndown)))]
        out.append({'mode': 'sl', 'tail': rng.choice([[1, 44], [], [1, 200], [1], [0, 9, 9]]), 'deny': DENY_REPLIES[0],
                    'retries': retries, 'seed': rng.randrange(1 << 30), 'retrybits': True,
                    'free': {'outcomes': outcomes, 'senders': plans, 'cfq': cfq, 'policy': 'random',
                             'rx_waits': rng.choice([[-1], [-1, 0.01, 0], [0.01], [0, -1]])}})
    return out


def dual_scenarios(tier, rng):
    """Two or three links with different addresses multiplexed over one dongle (_SharedRadio)."""
    out = []
    for i in range(4 if tier == 'quick' else 40):
        n = 2 + (i % 3 == 2)
        links = random_scenarios('quick', rng)[:n * 4:4]      # style 0 (no link failure)
        for k, l in enumerate(links):
            l['retries'] = links[0]['retries']              # _nr_of_retries is one module global
            l['free']['outcomes'] = l['free']['outcomes'][:rng.randint(120, 400)]
            l['free']['senders'] = [[x for x in pl if x[0] < len(l['free']['outcomes']) - 1] for pl in l['free']['senders']]
            l['free']['cfq'] = [x for x in l['free']['cfq'] if x[0] < len(l['free']['outcomes']) - 1]
        out.append({'links': links, 'seed': rng.randrange(1 << 30)})
    return out


def _exec_multi_job(job):
    sc, mutant = job
    return execute_multi(sc, mutant)


def materialize(sc):
    """Scenario with a generator tag -> executable scenario (director instance per execution)."""
    if 'gen' in sc and 'steps' not in sc:
        g = sc['gen']
        sc = dict(sc)
        if g[0] == 'restart':
            sc['steps'] = GenDirector(restart_gen, g[1])
        else:
            sc['steps'] = WordDirector(g[1], g[2], g[3], g[4], g[5], g[6] if len(g) > 6 else None)
    return sc


def _exec_job(job):
    sc, mutant, keep_proj = job
    tr, info = execute(materialize(sc), mutant)
    return tr, {'drift': info['drift'], 'executed': info['executed'] if 'free' not in sc else None,
                'proj': info['proj'] if keep_proj else None}


def _init():
    vsched.load_cflib()


def run_scenarios(scs, mutant=None, keep_proj=False):
    return common.pmap(_exec_job, [(sc, mutant, keep_proj) for sc in scs], init=_init, maxtasks=400)


# --------------------------------------------------------------------------- spec -> code
PROJ_KEYS = ('pc', 'sp', 'hUp', 'hDown', 'hasSL', 'retryLeft', 'needsRes', 'outQ', 'inQ', 'peer')


def scenario_from_behaviour(beh):
    """A TLC behaviour of Safelink -> macro-steps for the real code + the expected post-states
    projected on PROJ_KEYS."""
    st0 = beh[0][1]
    steps, expected = [], []
    prev = st0
    for label, st in beh[1:]:
        name, args = tlc.parse_label(label)
        if name == 'DataTx':
            steps.append(['tx', args[0], 1.5] if args[1] else ['tx', args[0]])
        elif name == 'NegTx':
            steps.append(['tx', args[0]])
        elif name == 'InPut':
            steps.append(['in'])
        elif name == 'OutGet':
            steps.append(['og'])
        elif name == 'Submit':
            steps.append(['sub', st['outQ'][0]])
        elif name == 'Queue':
            steps.append(['cfq', st['peer']['txq'][-1]])
        elif name == 'AppRecv':
            steps.append(['rcv'])
        elif name == 'Pause':
            steps.append(['preq'])
        elif name == 'Restart':
            steps.append(['restart'])
        elif name == 'PeerReboot':
            steps.append(['reboot', args[0]])
        else:
            raise common.MachineryError('unexpected action label %r in a Safelink behaviour' % label)
        e = {k: st[k] for k in PROJ_KEYS}
        e['inQ'] = [norm(p) for p in e['inQ']]
        if e['pc'] == 'neg':            # the start-up loop is parked at the same place (about to transmit)
            e['pc'] = 'tx'
        expected.append(e)
        prev = st
    sc = {'mode': st0['peer']['mode'], 'tail': st0['peer']['tail'], 'deny': st0['peer']['deny'],
          'retries': st0['retries'], 'steps': steps, 'project': True}
    return sc, expected


# --------------------------------------------------------------------------- judging
def judge(out, traces, label, count=True):
    """All traces through TLC (SafelinkTrace).  Returns (bad, drift, drained):
    bad = [(index, clause, at)], drift = indices not explained by the design spec."""
    for i, t in enumerate(traces):
        t['id'] = i + 1
    short = [t for t in traces if len(t['ev']) <= 400]
    long_ = [t for t in traces if len(t['ev']) > 400]
    verdicts = {}
    tot = {'states': 0, 'transitions': 0, 'wall_s': 0.0}
    for group in (short, long_):
        if not group:
            continue
        per = (len(group) + common.NCPU - 1) // common.NCPU
        chunk = max(1, per) if group is long_ else max(200, min(1500, per))
        try:
            v, st = common.validate_traces('SafelinkTrace.tla', 'TRACE_Safelink.cfg', group, chunk=chunk, timeout=3000)
        except (tlc.TLCError, common.MachineryError) as e:
            # a crashed TLC batch (seen once on a badly overloaded machine) is re-run once in smaller
            # batches; verdicts only ever come from completed TLC runs, a second failure is fatal
            import sys
            print('C01: trace batch failed (%s...), retrying once' % str(e)[:160].replace('\n', ' '), file=sys.stderr)
            v, st = common.validate_traces('SafelinkTrace.tla', 'TRACE_Safelink.cfg', group,
                                           chunk=max(1, chunk // 2), timeout=3000)
        verdicts.update(v)
        for k in tot:
            tot[k] += st[k]
    if count:
        out.traces += len(traces)
        out.states += tot['states']
        out.transitions += tot['transitions']
        out.tlc_runs.append({'config': 'TRACE_Safelink (%s)' % label, 'states': tot['states'],
                             'transitions': tot['transitions'], 'wall_s': round(tot['wall_s'], 2),
                             'traces': len(traces)})
    bad, drift, drained = [], [], 0
    for i, t in enumerate(traces):
        clause, at, conf, conf_at, mach, dr = verdicts[t['id']]
        if mach != 'ok':
            raise common.MachineryError('trace %d (%s): harness/peer-twin inconsistency %s; events %s' %
                                        (i, label, mach, json.dumps(t['ev'][:40])))
        if dr:
            drained += 1
        if clause != 'ok':
            bad.append((i, clause, at))
        elif not conf:
            drift.append((i, conf_at))
    return bad, drift, drained


def signature(trace, clause, at):
    """Violated clause + peer kind + the outcomes of the last transmissions before the failing
    event (run-length encoded): the minimal witness class."""
    outs = [e['o'] for e in trace['ev'][:max(at, 0)] if e['e'] == 'tx'][-6:]
    rle = ''.join('%s%d' % (k, len(list(g))) for k, g in itertools.groupby(outs))
    return '%s/%s/%s' % (clause, trace['mode'], rle or 'none')


def replayable(sc, meta):
    """JSON-able scenario that re-executes deterministically (directors replaced by the static
    list of macro-steps they produced)."""
    sc = {k: v for k, v in sc.items() if k != 'steps' or not callable(v)}
    if 'free' not in sc and meta.get('executed') is not None:
        sc['steps'] = meta['executed']
        sc.pop('gen', None)
    return sc


# --------------------------------------------------------------------------- the check
BUGS = ['rsp_timeout', 'flip_up_on_lost', 'dequeue_on_lost', 'no_retry_reset', 'retry_off_by_one', 'sl_on_any_3_bytes',
        'never_flip_down', 'never_needs_resending', 'nr_only_on_success']


def expect_temporal_violation(spec, cfg, **kw):
    """A liveness bug configuration must be refuted (tlc.run does not know TLC's wording
    'Temporal property X was violated', so the refutation is recognised here)."""
    try:
        r = tlc.run(spec, cfg, **kw)
    except tlc.TLCError as e:
        import re
        # TLC exit status 13 = liveness violation; the wording "Temporal property X was violated"
        # is at the head of an output of which TLCError keeps only the tail (lasso "Back to state")
        m = re.search(r'Temporal property (\w+) was violated', str(e)) or \
            (re.search(r'\(rc=(13)\)', str(e)) if 'Back to state' in str(e) or 'Stuttering' in str(e) else None)
        if not m:
            raise
        r = tlc.Result()
        r.violated = 'temporal:' + m.group(1)
        m2 = re.search(r'(\d+) states generated, (\d+) distinct states found', str(e))
        if m2:
            r.generated, r.distinct = int(m2.group(1)), int(m2.group(2))
        return r
    if r.ok or not r.violated:
        raise tlc.TLCError('liveness bug configuration %s/%s was NOT refuted' % (spec, cfg))
    return r


def apalache_stretch():
    """Stretch goal, not load-bearing: Apalache proves IndInv of spec/SafelinkAB.tla inductive
    (alternating-bit core with unbounded counters => exactly-once/in-order for ANY number of
    transmissions).  Returns a dict for the evidence file; never raises."""
    import os
    import shutil
    import subprocess
    exe = '/opt/veriftools/apalache/bin/apalache-mc'
    spec = os.path.join(tlc.SPEC_DIR, 'SafelinkAB.tla')
    if not os.path.exists(exe):
        return {'status': 'apalache not installed'}
    d = tlc.scratch_dir('apalache-')
    res = {}
    try:
        for key, args in (('Init=>IndInv', ['--init=Init', '--inv=IndInv', '--length=0']),
                          ('IndInv/\\Next=>IndInv\'', ['--init=IndInv', '--inv=IndInv', '--length=1'])):
            try:
                p = subprocess.run([exe, 'check'] + args + ['--out-dir=' + d, '--run-dir=' + d, spec], cwd=d,
                                   env=dict(os.environ, TMPDIR=d),     # its SANY temp dirs go into the scratch dir
                                   stdout=subprocess.PIPE, stderr=subprocess.STDOUT, text=True, timeout=600)
                m = [ln for ln in p.stdout.splitlines() if 'The outcome is' in ln]
                res[key] = (m[0].split('The outcome is:')[1].split()[0] if m else 'rc=%d' % p.returncode)
            except subprocess.TimeoutExpired:
                res[key] = 'timeout'
            except Exception as e:      # noqa
                res[key] = 'failed to run: %s' % e
    finally:
        shutil.rmtree(d, ignore_errors=True)
    res['status'] = 'inductive' if all(v == 'NoError' for k, v in res.items()) else 'not established'
    return res


def _tlc_jobs(jobs):
    """Run several TLC jobs concurrently (they are subprocesses); jobs: (key, fn, args, kwargs)."""
    from concurrent.futures import ThreadPoolExecutor
    res = {}
    with ThreadPoolExecutor(max_workers=len(jobs)) as ex:
        futs = {k: ex.submit(fn, *a, **kw) for (k, fn, a, kw) in jobs}
        for k, f in futs.items():
            res[k] = f.result()
    return res


def check_blocks(out, scs, label, stats, block=16000):
    """Execute scenarios block-wise against the real code and judge them; violations recorded."""
    for b in range(0, len(scs), block):
        part = scs[b:b + block]
        res = run_scenarios(part)
        traces = [r[0] for r in res]
        bad, drift, drained = judge(out, traces, '%s %d-%d' % (label, b, b + len(part)))
        stats['traces'] += len(traces)
        stats['events'] += sum(len(t['ev']) for t in traces)
        stats['tx'] += sum(1 for t in traces for e in t['ev'] if e['e'] == 'tx')
        stats['drift'] += len(drift) + sum(1 for r in res if r[1]['drift'])
        stats['drained'] += drained
        stats['errors'] += sum(1 for t in traces if any(e['e'] == 'err' for e in t['ev']))
        stats['not_quiet'] += sum(1 for t in traces if not t['fin']['quiet'])
        for (i, clause, at) in bad:
            out.violation(signature(traces[i], clause, at), clause,
                          {'event_index': at, 'events': traces[i]['ev'][max(0, at - 12):at + 2], 'fin': traces[i]['fin']},
                          {'scenario': replayable(part[i], res[i][1])})
        if not stats['samples'] or b == 0:
            for i in (0, len(traces) // 2):
                stats['samples'].append({'scenario': {k: v for k, v in replayable(part[i], res[i][1]).items()
                                                      if k not in ('steps', 'free')},
                                         'outcomes': ''.join(e['o'] for e in traces[i]['ev'] if e['e'] == 'tx')[:60],
                                         'events': traces[i]['ev'][:10]})
        if drift and 'first_drift' not in stats:
            i, at = drift[0]
            stats['first_drift'] = {'scenario': replayable(part[i], res[i][1]), 'at': at,
                                    'events': traces[i]['ev'][max(0, at - 6):at + 1]}


def new_stats():
    return {'traces': 0, 'events': 0, 'tx': 0, 'drift': 0, 'drained': 0, 'errors': 0, 'not_quiet': 0, 'samples': []}


def main(tier, seed, replay=None):
    import os
    out = common.Outcome('C01', tier, seed)
    rng = random.Random(seed)
    workers = int(os.environ.get('C01_TLC_WORKERS', '0')) or None
    out.assumptions = [
        'peer = nRF ESB safelink rule as written in SafelinkProps!PeerRx (reconstructed from the firmware as remembered; '
        'an ack always carries at least the header byte with the sequence bits)',
        'exactly-once / in-order are asserted for sessions with a safelink peer in which the echo ff 05 01 reached the driver '
        'during start-up, and for the history up to the first link error report ("short of a link failure")',
        'null uplink frames and null / empty-ack downlink packets (header & 0xF3 == 0xF3) are not packets',
        'the retry count covers main-loop transmissions (start-up frames are not counted); one report per run that reaches '
        'the configured number, the count restarts only at an acknowledgement; configured number >= 1',
        'outcome alphabet {A, U, L}; USB failures (ack status None / exceptions) and the 2 s queue-full timeout of '
        'RadioDriver.send_packet are outside (virtual time advances only when no thread can run)',
        '"reaches" is read as bounded: after the last submission, #accepted+#queued+4 consecutive acknowledged '
        'transmissions deliver everything',
    ]
    if replay:
        rp = json.load(open(replay))['replay']
        _init()
        mut = rp.get('mutant')        # self-test of the reporting path only: replay under an in-memory mutant
        if 'links' in rp['scenario']:
            trs = execute_multi(rp['scenario'], mut)
            pre = 'multi:'
        else:
            trs = [execute(materialize(rp['scenario']), mut)[0]]
            pre = ''
        bad, _d, _n = judge(out, trs, 'replay')
        for (i, clause, at) in bad:
            out.violation(pre + signature(trs[i], clause, at), clause,
                          {'event_index': at, 'events': trs[i]['ev'][max(0, at - 12):at + 2]}, {'scenario': rp['scenario']})
        return out.finish()

    import time as _time
    phases = {}
    out.extra['phase_wall_s'] = phases
    _t = [_time.time()]

    def lap(name):
        phases[name] = round(_time.time() - _t[0], 1)
        _t[0] = _time.time()

    # 1. design spec: exhaustive checks; every bug variant must be refuted (vacuity guards)
    main_cfg = 'MC_Safelink_quick.cfg' if tier == 'quick' else 'MC_Safelink_thorough.cfg'
    jobs = [('main', tlc.check, ('MC_Safelink.tla', main_cfg), dict(workers=workers or 8, timeout=3000)),
            ('modes', tlc.check, ('MC_Safelink.tla', 'MC_Safelink_modes.cfg'), dict(workers=4, timeout=1500)),
            ('restart', tlc.check, ('MC_Safelink.tla', 'MC_Safelink_restart.cfg' if tier == 'quick' else 'MC_Safelink_restart2.cfg'),
             dict(workers=4, timeout=3000))]
    jobs.append(('bug:live_stats_crash', expect_temporal_violation,
                 ('MC_Safelink.tla', 'MC_Safelink_bug_live_stats_crash.cfg'), dict(workers=2, timeout=1500)))
    if tier == 'thorough':
        jobs.append(('quick', tlc.check, ('MC_Safelink.tla', 'MC_Safelink_quick.cfg'), dict(workers=4, timeout=3000, coverage=True)))
        jobs.append(('live', tlc.check, ('MC_Safelink.tla', 'MC_Safelink_live.cfg'), dict(workers=4, timeout=3000)))
        jobs.append(('bug:live_dequeue_on_lost', expect_temporal_violation,
                     ('MC_Safelink.tla', 'MC_Safelink_bug_live_dequeue_on_lost.cfg'), dict(workers=2, timeout=1500)))
    for b in BUGS:
        jobs.append(('bug:' + b, tlc.expect_violation, ('MC_Safelink.tla', 'MC_Safelink_bug_%s.cfg' % b),
                     dict(workers=2, timeout=1500)))
    jobs.append(('apalache', apalache_stretch, (), {}))
    res = _tlc_jobs(jobs)
    out.extra['apalache_inductive_invariant(SafelinkAB.tla, stretch, not load-bearing)'] = res.pop('apalache')
    for k, r in res.items():
        if k.startswith('bug:'):
            out.sensitivity['spec:' + k[4:]] = 'refuted (%s) after %d states' % (r.violated, r.distinct)
        else:
            out.add_tlc({'main': main_cfg, 'modes': 'MC_Safelink_modes.cfg',
                         'restart': 'MC_Safelink_restart%s.cfg (pause()/restart() life cycle, peer reboot)' % ('' if tier == 'quick' else '2'), 'quick': 'MC_Safelink_quick.cfg',
                         'live': 'MC_Safelink_live.cfg (liveness EventuallyDelivered under FairSpec)'}[k], r)

    lap('1 TLC design spec + bug cfgs + apalache')
    # 2. spec -> code: TLC behaviours driven through the real stack, post-states compared
    nsim = 150 if tier == 'quick' else 1500
    rs, behs = tlc.simulate('MC_Safelink.tla', 'SIM_Safelink.cfg', num=nsim, depth=90, seed=seed % 100000, timeout=1500)
    out.add_tlc('SIM_Safelink.cfg (-simulate num=%d depth=90)' % nsim, rs)
    sims = [scenario_from_behaviour(b) for b in behs if len(b) > 1]
    sres = run_scenarios([x[0] for x in sims], keep_proj=True)
    matched = steps_total = steps_matched = 0
    first_mismatch = None
    for (sc, expected), (tr, meta) in zip(sims, sres):
        ok = meta['drift'] == 0 and len(meta['proj']) == len(expected)
        for j, (e, p) in enumerate(zip(expected, meta['proj'])):
            steps_total += 1
            if e == p:
                steps_matched += 1
            else:
                ok = False
                if first_mismatch is None:
                    first_mismatch = {'step': j, 'action': sc['steps'][j],
                                      'diff': {k: [e[k], p[k]] for k in e if e[k] != p[k]}}
        matched += ok
    out.conformance['spec_to_code'] = {'behaviours': len(sims), 'matched': matched, 'steps': steps_total,
                                       'steps_matched': steps_matched}
    if first_mismatch:
        out.conformance['spec_to_code']['first_mismatch'] = first_mismatch
    stats = new_stats()
    sim_traces = [r[0] for r in sres]
    bad, drift, _n = judge(out, sim_traces, 'replayed TLC behaviours')
    stats['traces'] += len(sim_traces)
    stats['drift'] += len(drift)
    for (i, clause, at) in bad:
        out.violation(signature(sim_traces[i], clause, at), clause,
                      {'event_index': at, 'events': sim_traces[i]['ev'][max(0, at - 12):at + 2]},
                      {'scenario': {k: v for k, v in sims[i][0].items() if k != 'project'}})

    lap('2 spec->code replay')
    # 3. code -> spec: exhaustive outcome words x submission patterns, start-up enumeration, random beyond
    words = word_scenarios(tier)
    starts = startup_scenarios(tier, rng)
    counts = count_scenarios(tier)
    restarts = restart_scenarios(tier, rng)
    acks = ack_scenarios(tier)
    stalls = stall_scenarios(tier, rng)
    check_blocks(out, words + starts + counts + restarts + acks + stalls,
                 'outcome words + start-up + exact counts + pause/restart + ack alphabet + USB stalls', stats)
    nwords = len(words)
    lap('3a words/start-up/counts')
    rnd = random_scenarios(tier, rng)
    st_r = new_stats()
    check_blocks(out, rnd, 'random long runs', st_r, block=64)
    lap('3b random long runs')
    duals = dual_scenarios(tier, rng)
    dres = common.pmap(_exec_multi_job, [(sc, None) for sc in duals], init=_init)
    dtr = [t for ts in dres for t in ts]
    downer = [sc for sc, ts in zip(duals, dres) for _t in ts]
    bad, drift, drained = judge(out, dtr, 'links multiplexed over one dongle')
    st_r['traces'] += len(dtr)
    st_r['events'] += sum(len(t['ev']) for t in dtr)
    st_r['tx'] += sum(1 for t in dtr for e in t['ev'] if e['e'] == 'tx')
    st_r['drift'] += len(drift)
    st_r['drained'] += drained
    st_r['not_quiet'] += sum(1 for t in dtr if not t['fin']['quiet'])
    for (i, clause, at) in bad:
        out.violation('multi:' + signature(dtr[i], clause, at), clause,
                      {'event_index': at, 'events': dtr[i]['ev'][max(0, at - 12):at + 2], 'fin': dtr[i]['fin']},
                      {'scenario': downer[i]})
    for k in ('traces', 'events', 'tx', 'drift', 'drained', 'errors', 'not_quiet'):
        stats[k] += st_r[k]
    stats['samples'] += st_r['samples'][:1]
    total = stats['traces']
    out.conformance['code_to_spec'] = {'traces': total, 'explained_by_design_spec': total - stats['drift'] - len(out.violations),
                                       'completeness_claim_applied': stats['drained'], 'not_quiescent_at_end': stats['not_quiet']}
    if 'first_drift' in stats:
        out.conformance['code_to_spec']['first_drift'] = stats['first_drift']
    out.evaluations = total
    out.distinct = total
    k = 7 if tier == 'quick' else 10
    out.exhaustive = True
    out.rule = ('scenario = (peer kind, start-up outcome word, main-loop outcome word over {A,U,L}, submission pattern, '
                'retries); ALL main-loop words of length <= %d (a word is followed by an all-A drain, so shorter words '
                'ending in A are subsumed) at patterns eager/late%s [%d traces]; ALL start-up loss patterns (2^j, j<=10%s) '
                'x peer kinds [%d]; %d exact-count scenarios (N = 1, 2, 3, 5, 17, default 100); %d pause()/restart() life cycles (pause point x outcomes while stopping x second start-up x peer reboot); %d ack-alphabet scenarios (empty acks of every length 1..32, downlink packets of length 1/2/3/32 on all 64 port/channel headers); %d scenarios with one dongle exchange of 1.2-1.9 s (every position of every word of length 5, start-up); %d TLC -simulate behaviours replayed; %d seeded random runs of 200-%d transmissions with '
                'random thread schedules; %d runs with 2-3 links multiplexed over one dongle; link errors occurred in %d traces; '
                '%d transmissions in total' %
                (k, '/mid', nwords, ', sampled above 64 per j in quick' if tier == 'quick' else '', len(starts), len(counts), len(restarts), len(acks), len(stalls), len(sims),
                 len(rnd), 600 if tier == 'quick' else 2000, len(duals), stats['errors'], stats['tx']))
    out.samples = stats['samples'][:6]
    out.extra['transmissions'] = stats['tx']
    out.extra['events'] = stats['events']

    lap('3c multi-link')
    # 4. sensitivity: in-memory mutants of the driver must be rejected by the monitor
    stride = max(1, len(words) // (240 if tier == 'quick' else 1500))
    stride += stride % 3 == 0         # the three submission patterns (and ack tails) alternate in `words`
    sub = words[::stride] + starts[::max(1, len(starts) // (90 if tier == 'quick' else 300))] + rnd[:2]
    sub += acks[::5] + stalls[::max(1, len(stalls) // 60)]
    sub += [sc for sc in restarts if sc['mode'] == 'sl' and sc['gen'][1]['neg1'] == 'A' and sc['gen'][1]['neg2'] != 'A'][:40]
    def _applicable(name):
        # a textual mutant whose snippet is gone from the tree under test is skipped, not an error
        _init()
        import cflib.crtp.radiodriver as rd_
        try:
            MUTANTS[name](rd_)()
            return True
        except common.MachineryError:
            out.sensitivity['mutant:' + name] = 'skipped: the patched text is not in the code under test'
            return False
    names = [n for n in sorted(set(MUTANTS) - set(MULTI_MUTANTS)) if _applicable(n)]
    mres = common.pmap(_exec_job, [(sc, name, False) for name in names for sc in sub], init=_init, maxtasks=400)
    mt = [r[0] for r in mres]
    o2 = common.Outcome('C01', tier, seed)
    mbad, _d, _n = judge(o2, mt, 'mutants', count=False)
    for k, name in enumerate(names):
        mine = [(i, c) for (i, c, _a) in mbad if k * len(sub) <= i < (k + 1) * len(sub)]
        clauses = sorted({c for (_i, c) in mine})
        out.sensitivity['mutant:' + name] = '%d of %d traces rejected (%s)' % (len(mine), len(sub), ','.join(clauses))
        if not mine:
            raise common.MachineryError('monitor did not reject in-memory mutant %s' % name)
    lap('4a mutants')
    mm = [n for n in sorted(MULTI_MUTANTS) if _applicable(n)]
    mres = common.pmap(_exec_multi_job, [(sc, name) for name in mm for sc in duals[:2]], init=_init)
    mt = [t for ts in mres for t in ts]
    owner = [name for name in mm for sc in duals[:2] for _l in sc['links']]
    o2 = common.Outcome('C01', tier, seed)
    mbad, _d, _n = judge(o2, mt, 'multi mutants', count=False)
    for name in mm:
        mine = sorted({c for (i, c, _a) in mbad if owner[i] == name})
        n_not_quiet = sum(1 for t, o in zip(mt, owner) if o == name and not t['fin']['quiet'])
        out.sensitivity['mutant:' + name] = '%d of %d link traces rejected (%s), %d wedged' % (
            sum(1 for (i, _c, _a) in mbad if owner[i] == name), owner.count(name), ','.join(mine), n_not_quiet)
        if not mine:
            raise common.MachineryError('monitor did not reject in-memory mutant %s' % name)
    lap('4b multi-link mutants')
    # binding self-tests: corrupted traces must be rejected
    base = next(r[0] for r in run_scenarios(words[-3:]) if any(e['e'] == 'sub' for e in r[0]['ev']))
    cor = {}
    t = copy.deepcopy(base)
    del t['ev'][next(i for i, e in enumerate(t['ev']) if e['e'] == 'tx' and e['o'] == 'A' and not e['st'][2] == 0)]
    cor['drop-one-acked-tx-event'] = t
    t = copy.deepcopy(base)
    next(e for e in t['ev'] if e['e'] == 'sub')['p'][1] ^= 1
    cor['flip-one-bit-of-a-submitted-packet'] = t
    t = copy.deepcopy(base)
    del t['ev'][next(i for i, e in enumerate(t['ev']) if e['e'] == 'og')]
    cor['drop-one-out_queue-get-event'] = t
    t = copy.deepcopy(base)
    e = next(e for e in t['ev'] if e['e'] == 'tx' and e['o'] == 'A' and e['st'][2] == 1)
    e['rep'][1] ^= 4
    cor['flip-seq-bit-in-an-ack (peer twin check)'] = t
    for i, (name, t) in enumerate(cor.items()):
        t['id'] = i + 1
    v, _st = common.validate_traces('SafelinkTrace.tla', 'TRACE_Safelink.cfg', list(cor.values()))
    for name, t in cor.items():
        clause, at, conf, conf_at, mach, dr = v[t['id']]
        rejected = clause != 'ok' or not conf or mach != 'ok'
        out.sensitivity['binding:' + name] = ('rejected (monitor=%s conform=%s twin=%s)' % (clause, conf, mach)) if rejected else 'ACCEPTED'
        if not rejected:
            raise common.MachineryError('trace spec accepted corrupted trace: %s' % name)
    lap('4c corrupted traces')
    # executions that had to be ended (budget exhausted, threads dead) are judged by the monitor with the
    # completeness claim applied (fin.wedged); their number is part of the evidence, never a machinery failure
    return out.finish()
