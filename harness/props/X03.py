"""X03 -- the discrete skeleton of the lighthouse geometry pipeline (extra specification, DESIGN 8(6)).

spec/LhSkeleton.tla (design), spec/LhSkeletonProps.tla (the guarantees), spec/LhSkeletonTrace.tla
(monitor + conformance for traces recorded from the real LighthouseSampleMatcher.match and
LighthouseInitialEstimator.estimate).

Python drives the real functions, records events through tracing wrappers (no edits in /repo) and
converts representations (float time stamps <-> integer ticks, library base station ids <-> spec ids,
objects <-> input positions).  Every verdict is TLC's."""
import copy
import inspect
import itertools
import json
import random
import textwrap
import warnings

from .. import common, tlc, vsched

PROP = 'X03'
TRACE_SPEC, TRACE_CFG = 'LhSkeletonTrace.tla', 'TRACE_LhSkeleton.cfg'

# ticks -> seconds: all exact in binary floating point, so that `ts > t0 + max_time_diff` is exact
SCALES = [(0.0, 1.0), (0.0, 1.0 / 1024), (1700000000.0, 1.0 / 1024)]
# spec base station id -> library id (order preserving: the estimator sorts the ids of a sample)
IDMAPS = [{b: b - 1 for b in range(1, 17)}, {1: 1, 2: 3, 3: 4, 4: 7, 5: 12, 6: 15}]

_G = {}          # per-process state: originals, geometry tables, the active recorder


# --------------------------------------------------------------------------- synthetic geometry
def _geometry():
    if 'bs' in _G:
        return
    import numpy as np
    from cflib.localization.lighthouse_types import Pose
    pi = np.pi
    _G['bs'] = {1: Pose(t_vec=(-2.0, 1.0, 3.0)),
                2: Pose.from_rot_vec(R_vec=(0.0, 0.0, pi / 2), t_vec=(0.0, -2.0, 3.0)),
                3: Pose.from_rot_vec(R_vec=(0.0, 0.0, -pi / 2), t_vec=(0.0, 2.0, 3.0)),
                4: Pose.from_rot_vec(R_vec=(0.0, 0.0, pi), t_vec=(2.0, 0.0, 2.0)),
                5: Pose.from_rot_vec(R_vec=(0.0, 0.0, pi / 4), t_vec=(-2.0, -2.0, 2.5)),
                6: Pose.from_rot_vec(R_vec=(0.0, 0.0, -3 * pi / 4), t_vec=(2.0, 2.0, 2.5))}
    cf = [Pose(), Pose(t_vec=(0.3, 0.2, 0.1)),
          Pose.from_rot_vec(R_vec=(0.0, 0.0, pi / 2), t_vec=(1.0, 0.0, 0.0)),
          Pose(t_vec=(-0.3, 0.4, 0.2)),
          Pose.from_rot_vec(R_vec=(0.0, 0.0, -pi / 3), t_vec=(0.5, -0.4, 0.0)),
          Pose.from_rot_vec(R_vec=(0.0, 0.0, pi / 5), t_vec=(-0.6, -0.3, 0.3)),
          Pose.from_rot_vec(R_vec=(0.0, 0.0, 2.0), t_vec=(0.1, 0.7, 0.15)),
          Pose.from_rot_vec(R_vec=(0.0, 0.0, -1.0), t_vec=(0.8, 0.5, 0.05)),
          Pose.from_rot_vec(R_vec=(0.0, 0.0, 0.4), t_vec=(-0.2, -0.7, 0.25)),
          Pose.from_rot_vec(R_vec=(0.0, 0.0, -2.5), t_vec=(0.45, 0.1, 0.35)),
          Pose.from_rot_vec(R_vec=(0.0, 0.0, 1.2), t_vec=(-0.75, 0.15, 0.12)),
          Pose.from_rot_vec(R_vec=(0.0, 0.0, 3.0), t_vec=(0.2, -0.2, 0.22))]
    _G['cf'] = cf
    _G['ang'] = {}


def _angles(pose_idx, bs_spec):
    """A fresh LighthouseBsVectors object (identity matters) for Crazyflie pose pose_idx seen by bs_spec."""
    from cflib.localization.lighthouse_bs_vector import LighthouseBsVector, LighthouseBsVectors
    from cflib.localization.lighthouse_types import LhDeck4SensorPositions
    _geometry()
    key = (pose_idx % len(_G['cf']), bs_spec)
    if key not in _G['ang']:
        cf, bs = _G['cf'][key[0]], _G['bs'][bs_spec]
        vs = []
        for p in LhDeck4SensorPositions.positions:
            vs.append(LighthouseBsVector.from_cart(bs.inv_rotate_translate(cf.rotate_translate(p))))
        _G['ang'][key] = vs
    return LighthouseBsVectors(_G['ang'][key])


def _dummy_angles(i):
    from cflib.localization.lighthouse_bs_vector import LighthouseBsVector, LighthouseBsVectors
    return LighthouseBsVectors([LighthouseBsVector(0.01 * (i % 7), 0.02 * k) for k in range(4)])


# --------------------------------------------------------------------------- tracing wrappers
class _Recorder:
    def __init__(self, inv_id):
        self.ev = []
        self.inv_id = inv_id          # library id -> spec id
        self.meas_pos = {}            # id(angles object) -> input position (1-based)
        self.tick_of = {}             # float time stamp -> tick
        self.match_on = False
        self.sample_pos = {}          # id(sample object) -> input position
        self.pose_owner = {}          # id(Pose in a per-sample pose dict) -> (input position, spec bs)
        self.tag = {}                 # id(Pose returned by _map_pose_to_ref_frame) -> spec bs
        self.keep = []                # keeps traced objects alive (ids must not be reused)
        self.phase = None
        self.pending = []             # [spec bs, number of averaged poses] of the closure pass in progress
        self.numeric = None           # exception type raised by a numeric leaf function on well-formed arguments

    def bs(self, lib_id):
        return self.inv_id.get(lib_id, 0)

    def mem(self, d):
        return [[self.bs(k), self.meas_pos.get(id(v), 0)] for k, v in dict.items(d)]

    def flush_round(self):
        # the averaging calls of one pass come after all its mapping calls: a pass is closed by the next
        # mapping call or by the end of _estimate_remaining_bs_poses
        if self.pending:
            self.ev.append({'e': 'e_round', 'found': sorted(self.pending)})
            self.pending = []


def _rec():
    return _G.get('rec')


def _originals():
    """Remember the unmodified attributes once per process."""
    if 'orig' in _G:
        return _G['orig']
    import cflib.localization.lighthouse_initial_estimator as em
    import cflib.localization.lighthouse_sample_matcher as mm
    E, M = em.LighthouseInitialEstimator, mm.LighthouseSampleMatcher
    o = {'mm': mm, 'em': em, 'E': E, 'M': M, 'mm.LhCfPoseSample': mm.LhCfPoseSample}
    for n in ('match', '_append_result'):
        o['M.' + n] = M.__dict__[n]
    for n in ('estimate', '_angles_to_poses', '_estimate_remaining_bs_poses', '_estimate_cf_poses',
              '_map_pose_to_ref_frame', '_avarage_poses'):
        if n in E.__dict__:
            o['E.' + n] = E.__dict__[n]
    o['ippe'] = em.IppeCf
    o['ippe.solve'] = em.IppeCf.__dict__.get('solve')
    _G['orig'] = o
    return o


def _restore():
    o = _originals()
    for k, v in o.items():
        if k.startswith('M.'):
            setattr(o['M'], k[2:], v)
        elif k.startswith('E.'):
            setattr(o['E'], k[2:], v)
    o['mm'].LhCfPoseSample = o['mm.LhCfPoseSample']
    if o['ippe.solve'] is not None:
        o['ippe'].solve = o['ippe.solve']


class _RecList(list):
    """The input list of match(): a list whose iteration is visible."""

    def __iter__(self):
        r = _rec()
        i = 0
        for x in list.__iter__(self):
            i += 1
            if r is not None and r.match_on:
                r.ev.append({'e': 'm_next', 'i': i, 'ts': r.tick_of.get(x.timestamp, 0), 'bs': r.bs(x.base_station_id)})
            yield x
        if r is not None and r.match_on:
            r.ev.append({'e': 'm_stop'})


def _install_tracing():
    """Wrap whatever is installed now (the original or a mutant) with event recording."""
    o = _originals()
    mm, M, E = o['mm'], o['M'], o['E']
    Base = o['mm.LhCfPoseSample']

    class TracedDict(dict):
        def __setitem__(self, k, v):
            dict.__setitem__(self, k, v)
            r = _rec()
            if r is not None and r.match_on:
                r.ev.append({'e': 'm_put', 'i': r.meas_pos.get(id(v), 0), 'bs': r.bs(k), 'mem': r.mem(self)})

    class TracedSample(Base):
        def __init__(self, timestamp=0.0, angles_calibrated=None):
            Base.__init__(self, timestamp=timestamp, angles_calibrated=angles_calibrated)
            r = _rec()
            if r is not None and r.match_on:
                self.angles_calibrated = TracedDict(self.angles_calibrated)
                r.ev.append({'e': 'm_new', 'ts': r.tick_of.get(timestamp, 0)})
    TracedSample.__name__ = Base.__name__
    mm.LhCfPoseSample = TracedSample

    def fn(cm):
        return cm.__func__ if isinstance(cm, (classmethod, staticmethod)) else cm

    app = fn(M.__dict__['_append_result'])

    def _append_result(cls, current, result, min_nr_of_bs_in_match):
        n0 = len(result)
        try:
            return app(cls, current, result, min_nr_of_bs_in_match)
        finally:
            r = _rec()
            if r is not None and r.match_on:
                if current is None:
                    r.ev.append({'e': 'm_flush', 'none': True, 'ts': 0, 'mem': [], 'kept': len(result) > n0})
                else:
                    r.ev.append({'e': 'm_flush', 'none': False, 'ts': r.tick_of.get(current.timestamp, 0),
                                 'mem': r.mem(current.angles_calibrated), 'kept': len(result) > n0})
    M._append_result = classmethod(_append_result)

    if not all(n in E.__dict__ for n in ('_angles_to_poses', '_estimate_remaining_bs_poses', '_estimate_cf_poses',
                                         '_map_pose_to_ref_frame', '_avarage_poses')):
        return      # refactored tree: only the API-level events remain (conformance will show drift)
    a2p = fn(E.__dict__['_angles_to_poses'])
    rem = fn(E.__dict__['_estimate_remaining_bs_poses'])
    cfp = fn(E.__dict__['_estimate_cf_poses'])
    mp = fn(E.__dict__['_map_pose_to_ref_frame'])
    avg = fn(E.__dict__['_avarage_poses'])

    def _angles_to_poses(cls, matched_samples, sensor_positions, bs_positions):
        ret = a2p(cls, matched_samples, sensor_positions, bs_positions)
        r = _rec()
        if r is not None:
            result, cleaned = ret
            kept = [r.sample_pos.get(id(s), 0) for s in cleaned]
            r.keep.append(ret)
            for pos, d in zip(kept, result):
                for b, pose in d.items():
                    r.pose_owner[id(pose)] = (pos, r.bs(b))
            r.ev.append({'e': 'e_poses', 'kept': kept, 'K': [[r.bs(b) for b in d] for d in result]})
        return ret
    E._angles_to_poses = classmethod(_angles_to_poses)

    def _estimate_remaining_bs_poses(cls, bs_poses_ref_cfs, bs_poses):
        r = _rec()
        if r is not None:
            keys = list(bs_poses)
            if len(keys) == 1:
                own = r.pose_owner.get(id(bs_poses[keys[0]]))
                r.ev.append({'e': 'e_ref', 'bs': r.bs(keys[0]), 'sample': own[0] if own else 0})
            r.phase = 'link'
            r.pending = []
        ok = False
        try:
            ret = rem(cls, bs_poses_ref_cfs, bs_poses)
            ok = True
            return ret
        finally:
            if r is not None:
                r.flush_round()
                r.phase = None
                r.ev.append({'e': 'e_link', 'ok': ok})
    E._estimate_remaining_bs_poses = classmethod(_estimate_remaining_bs_poses)

    def _map_pose_to_ref_frame(cls, pose1_ref1, pose1_ref2, pose2_ref2):
        ret = mp(cls, pose1_ref1, pose1_ref2, pose2_ref2)
        r = _rec()
        if r is not None and r.phase == 'link':
            r.flush_round()
            own = r.pose_owner.get(id(pose2_ref2))
            r.tag[id(ret)] = own[1] if own else 0
            r.keep.append(ret)
        return ret
    E._map_pose_to_ref_frame = classmethod(_map_pose_to_ref_frame)

    def _avarage_poses(cls, poses):
        r = _rec()
        if r is not None and r.phase == 'link':
            r.pending.append([r.tag.get(id(poses[0]), 0) if poses else 0, len(poses)])
        try:
            return avg(cls, poses)
        except Exception as e:      # noqa
            if r is not None and len(poses) > 0:
                r.numeric = type(e).__name__      # the averaging itself failed on a non-empty list: numerics
            raise
    E._avarage_poses = classmethod(_avarage_poses)

    if o['ippe.solve'] is not None:
        solve = fn(o['ippe.solve'])

        def _solve(U_cf, Q_cf):
            try:
                return solve(U_cf, Q_cf)
            except Exception as e:  # noqa
                r = _rec()
                if r is not None:
                    r.numeric = type(e).__name__
                raise
        o['ippe'].solve = staticmethod(_solve)

    def _estimate_cf_poses(cls, bs_poses_ref_cfs, bs_poses):
        r = _rec()
        if r is not None:
            r.phase = 'cf'
        try:
            ret = cfp(cls, bs_poses_ref_cfs, bs_poses)
        except BaseException:
            if r is not None:
                r.phase = None
                r.ev.append({'e': 'e_cf', 'ok': False, 'n': 0})
            raise
        if r is not None:
            r.phase = None
            r.ev.append({'e': 'e_cf', 'ok': True, 'n': len(ret)})
        return ret
    E._estimate_cf_poses = classmethod(_estimate_cf_poses)


# --------------------------------------------------------------------------- in-memory mutants
# (function, text in the unmodified source, replacement).  Applied to a copy of the function compiled in the
# module's own namespace; /repo is untouched.
MUTANTS = {
    'm_ge_window': ('M', 'match', 'if ts > (current.timestamp + max_time_diff):',
                    'if ts >= (current.timestamp + max_time_diff):'),
    'm_sliding_window': ('M', 'match', 'current.angles_calibrated[sample.base_station_id] = sample.angles',
                         'current.angles_calibrated[sample.base_station_id] = sample.angles\n'
                         '            current.timestamp = ts'),
    'm_no_final_flush': ('M', 'match', '        cls._append_result(current, result, min_nr_of_bs_in_match)\n        return result',
                         '        return result'),
    'm_min_strict': ('M', '_append_result', 'len(current.angles_calibrated) >= min_nr_of_bs_in_match',
                     'len(current.angles_calibrated) > min_nr_of_bs_in_match'),
    'm_sorts_input': ('M', 'match', '        result = []\n', '        samples.sort(key=lambda m: m.base_station_id)\n        result = []\n'),
    'm_two_sided': ('M', 'match', 'if ts > (current.timestamp + max_time_diff):',
                    'if abs(ts - current.timestamp) >= max_time_diff and ts != current.timestamp:'),
    'e_ref_last_sample': ('E', 'estimate', 'for bs_pose_ref_cfs in bs_poses_ref_cfs:\n            if len(bs_pose_ref_cfs) > 0:',
                          'for bs_pose_ref_cfs in reversed(bs_poses_ref_cfs):\n            if len(bs_pose_ref_cfs) > 0:'),
    'e_eager_raise': ('E', '_estimate_remaining_bs_poses', 'if len(to_find) == remaining:', 'if len(to_find) > 0:'),
    'e_no_progress_returns': ('E', '_estimate_remaining_bs_poses',
                              "raise LhException('Can not link positions between all base stations')", 'break'),
    'e_cf_pose_missing': ('E', '_estimate_cf_poses', 'return cf_poses', 'return cf_poses[1:]'),
    'e_links_through_first_sample_only': ('E', '_estimate_remaining_bs_poses',
                                          'for bs_poses_in_sample in bs_poses_ref_cfs:\n                unknown',
                                          'for bs_poses_in_sample in bs_poses_ref_cfs[:1]:\n                unknown'),
    'e_single_station_sample_kept': ('E', '_angles_to_poses', 'if len(ids) < 2:', 'if len(ids) < 1:'),
    'e_cleaned_reversed': ('E', 'estimate', 'return LhBsCfPoses(bs_poses, cf_poses), cleaned_matched_samples',
                           'return LhBsCfPoses(bs_poses, cf_poses), cleaned_matched_samples[::-1]'),
}


def _install_mutant(name):
    o = _originals()
    which, fname, old, new = MUTANTS[name]
    cls = o[which]
    cm = o['%s.%s' % (which, fname)]
    src = textwrap.dedent(inspect.getsource(cm.__func__))
    old_d, new_d = _dedent_like(old), _dedent_like(new)
    if src.count(old_d) != 1:
        raise common.MachineryError('mutant %s no longer fits %s.%s (text not found exactly once)' % (name, which, fname))
    src = src.replace(old_d, new_d)
    src = src[src.index('def '):]
    mod = o['mm'] if which == 'M' else o['em']
    ns = {}
    exec(compile(src, '<mutant %s>' % name, 'exec'), mod.__dict__, ns)
    setattr(cls, fname, classmethod(ns[fname]))


def _dedent_like(s):
    # the source is dedented by 4 (method level)
    return '\n'.join(line[4:] if line.startswith('    ') else line for line in s.split('\n'))


def _prepare(mutant):
    _restore()
    if mutant:
        _install_mutant(mutant)
    _install_tracing()


# --------------------------------------------------------------------------- drivers
def _expected_groups(meas, d):
    """Harness-side grouping, used ONLY to pick consistent synthetic Crazyflie poses (never judged)."""
    g, t0, out = -1, None, []
    for ts, _b in meas:
        if t0 is None or ts > t0 + d:
            g, t0 = g + 1, ts
        out.append(g)
    return out


def _run_match(case, rec, geometric):
    from cflib.localization.lighthouse_types import LhMeasurement
    M = _originals()['M']
    off, unit = SCALES[case.get('scale', 0)]
    idmap = IDMAPS[case.get('idmap', 0)]
    grp = _expected_groups(case['meas'], case['d']) if geometric else None
    items = []
    for i, (ts, b) in enumerate(case['meas']):
        f = off + ts * unit
        rec.tick_of[f] = ts
        ang = _angles(grp[i] + case.get('shift', 0), b) if geometric else _dummy_angles(i)
        rec.meas_pos[id(ang)] = i + 1
        items.append(LhMeasurement(timestamp=f, base_station_id=idmap[b], angles=ang))
    rec.keep.append(items)
    samples = _RecList(items)
    snapshot = list(items)
    rec.match_on = True
    kind, groups, result, exc = 'return', [], None, None
    try:
        result = M.match(samples, max_time_diff=case['d'] * unit, min_nr_of_bs_in_match=case['minbs'])
    except Exception as e:       # noqa
        kind, exc = 'raise', type(e).__name__
    finally:
        rec.match_on = False
    if kind == 'return':
        try:
            for g in result:
                groups.append({'ts': rec.tick_of.get(g.timestamp, 0), 'mem': rec.mem(g.angles_calibrated)})
        except Exception as e:   # noqa  (not a list of samples)
            kind, exc, groups = 'raise', 'malformed result: ' + type(e).__name__, []
    intact = len(samples) == len(snapshot) and all(a is b for a, b in zip(list.__iter__(samples), snapshot))
    rec.ev.append({'e': 'm_ret', 'kind': kind, 'groups': groups, 'intact': intact})
    return result if kind == 'return' else None, exc


def _run_est(samples, rec):
    """samples: list of real LhCfPoseSample.  Records e_call ... e_ret."""
    import numpy as np    # noqa
    from cflib.localization.lighthouse_types import LhDeck4SensorPositions, LhException
    E = _originals()['E']
    for i, s in enumerate(samples):
        rec.sample_pos[id(s)] = i + 1
    before = [(s, list(s.angles_calibrated.items())) for s in samples]
    rec.ev.append({'e': 'e_call', 'samples': [[rec.bs(b) for b in s.angles_calibrated] for s in samples]})
    kind, exc, bs, ncf, cleaned = 'return', None, [], 0, []
    try:
        with warnings.catch_warnings():
            warnings.simplefilter('ignore')
            poses, cl = E.estimate(samples, LhDeck4SensorPositions.positions)
        bs = [rec.bs(b) for b in poses.bs_poses]
        ncf = len(poses.cf_poses)
        cleaned = [rec.sample_pos.get(id(s), 0) for s in cl]
    except LhException as e:
        kind, exc = 'LhException', str(e)
    except Exception as e:       # noqa
        kind, exc = ('numeric' if rec.numeric else 'other'), type(e).__name__
    intact = len(samples) == len(before) and all(
        s is s0 and len(items) == len(s.angles_calibrated) and
        all(k in s.angles_calibrated and s.angles_calibrated[k] is v for k, v in items)
        for s, (s0, items) in zip(samples, before))
    rec.ev.append({'e': 'e_ret', 'kind': kind, 'bs': bs, 'ncf': ncf, 'cleaned': cleaned, 'intact': intact})
    return exc


MAX_SHIFTS = 8


def execute(case, mutant=None):
    """Run one case against the real code.  Returns the trace dict (without id).
    When the NUMERIC layer itself fails on well-formed arguments (e.g. np.linalg.eig returning complex
    eigenvectors for noise-free data in _avarage_poses, which this scipy refuses) the discrete outcome is not
    observable: the case is run again with other synthetic Crazyflie poses (deterministic shifts)."""
    tr = None
    for shift in range(MAX_SHIFTS):
        tr = _execute_once(dict(case, shift=case.get('shift', 0) + shift), mutant)
        tr['numeric_retries'] = shift
        if not any(e['e'] == 'e_ret' and e['kind'] == 'numeric' for e in tr['ev']):
            break
    return tr


def _execute_once(case, mutant=None):
    from cflib.localization.lighthouse_types import LhCfPoseSample
    _prepare(mutant)
    idmap = IDMAPS[case.get('idmap', 0)]
    rec = _Recorder({v: k for k, v in idmap.items()})
    _G['rec'] = rec
    tr = {'kind': case['kind'], 'meas': [], 'd': 0, 'minbs': 0, 'samples': [], 'exc': ''}
    try:
        if case['kind'] in ('match', 'pipe'):
            tr['meas'] = [{'ts': ts, 'bs': b} for ts, b in case['meas']]
            tr['d'], tr['minbs'] = case['d'], case['minbs']
            result, exc = _run_match(case, rec, geometric=(case['kind'] == 'pipe'))
            tr['exc'] = exc or ''
            if case['kind'] == 'pipe':
                if result is None:
                    tr['kind'] = 'match'
                else:
                    tr['exc'] = _run_est(list(result), rec) or ''
        else:
            rng = random.Random(case.get('order', 0))
            samples = []
            for i, bsl in enumerate(case['samples']):
                bsl = list(bsl)
                if case.get('order'):
                    rng.shuffle(bsl)
                samples.append(LhCfPoseSample(angles_calibrated={idmap[b]: _angles(i + case.get('shift', 0), b) for b in bsl}))
            bad = case.get('corrupt')          # [sample position, spec bs]: angles of another Crazyflie pose
            if bad and bad[0] <= len(samples) and idmap[bad[1]] in samples[bad[0] - 1].angles_calibrated:
                samples[bad[0] - 1].angles_calibrated[idmap[bad[1]]] = _angles(bad[0] + 5 + case.get('shift', 0), bad[1] % 6 + 1)
            tr['samples'] = [[rec.bs(b) for b in s.angles_calibrated] for s in samples]
            tr['exc'] = _run_est(samples, rec) or ''
    finally:
        _G['rec'] = None
        _restore()
    tr['ev'] = rec.ev
    return tr


def _job(job):
    case, mutant = job
    return execute(case, mutant)


def _init():
    vsched.load_cflib()
    _originals()


def run_cases(cases, mutant=None):
    return common.pmap(_job, [(c, mutant) for c in cases], init=_init)


# --------------------------------------------------------------------------- projections for spec -> code
def project(tr):
    """What the design spec predicts for a finished case, read off a recorded trace."""
    p = {}
    for e in tr['ev']:
        if e['e'] == 'm_ret':
            p['groups'] = [{'ts': g['ts'], 'mem': [list(m) for m in g['mem']]} for g in e['groups']]
        elif e['e'] == 'e_call':
            p['samples'] = [sorted(s) for s in e['samples']]
            p['rounds'] = []
            p['ref'] = {'bs': 0, 'sample': 0}
        elif e['e'] == 'e_ref':
            p['ref'] = {'bs': e['bs'], 'sample': e['sample']}
        elif e['e'] == 'e_round':
            p['rounds'].append(sorted(list(x) for x in e['found']))
        elif e['e'] == 'e_ret':
            p['kind'], p['bs'], p['ncf'], p['cleaned'] = e['kind'], sorted(e['bs']), e['ncf'], list(e['cleaned'])
    return p


def expected_of(c):
    """The same projection from a CASE record printed by TLC / a final simulation state."""
    p = {}
    if c['mode'] in ('match', 'pipe'):
        p['groups'] = [{'ts': g['ts'], 'mem': [list(m) for m in g['mem']]} for g in c['groups']]
    if c['mode'] in ('est', 'pipe'):
        p['samples'] = [sorted(s) for s in c['samples']]
        p['rounds'] = [sorted(list(x) for x in r) for r in c['rounds']]
        p['ref'] = {'bs': c['ref']['bs'], 'sample': c['ref']['sample']}
        p['kind'], p['bs'], p['ncf'], p['cleaned'] = c['kind'], sorted(c['bs']), c['ncf'], list(c['cleaned'])
    return p


def case_of(c, i=0):
    """CASE record -> harness case (environment choices verbatim)."""
    if c['mode'] == 'est':
        return {'kind': 'est', 'samples': [sorted(s) for s in c['samples']], 'idmap': i % 2, 'order': i % 3}
    return {'kind': c['mode'], 'meas': [[m['ts'], m['bs']] for m in c['meas']], 'd': c['d'], 'minbs': c['minbs'],
            'scale': i % 3, 'idmap': i % 2}


def _final_to_case_record(st):
    """Final state of a -simulate behaviour -> the record PrintCases would have printed."""
    e = st['eout']
    return {'mode': st['mode'], 'meas': st['meas'], 'd': st['d'], 'minbs': st['minbs'], 'groups': st['res'],
            'samples': [sorted(s) for s in st['smp']], 'kind': e['kind'], 'bs': e['bs'], 'ncf': e['ncf'],
            'cleaned': e['cleaned'], 'ref': st['ref'] if e['kind'] != 'pending' else {'bs': 0, 'sample': 0},
            'rounds': st['rounds']}


# --------------------------------------------------------------------------- own enumerations
def seqs_of_meas(n_max, deltas, bs_ids):
    """All measurement lists with up to n_max elements: first stamp 1 + delta, then cumulative."""
    out = [[]]
    frontier = [[]]
    for _ in range(n_max):
        nxt = []
        for s in frontier:
            last = s[-1][0] if s else 1
            for dt in deltas:
                if last + dt < 1:
                    continue
                for b in bs_ids:
                    nxt.append(s + [[last + dt, b]])
        out.extend(nxt)
        frontier = nxt
    return out


def enumerate_match(tier):
    """A space different from the one TLC enumerates (MC_LhSkeleton_cases_match*.cfg): larger gaps, two stations."""
    cases = []
    if tier == 'quick':
        space = dict(n=4, deltas=[0, 1, 3], bs=[1, 2], ds=[1, 2], mins=[0, 2])
    else:
        space = dict(n=5, deltas=[0, 1, 3], bs=[1, 2], ds=[1, 2], mins=[0, 2])
    i = 0
    for s in seqs_of_meas(space['n'], space['deltas'], space['bs']):
        for d in space['ds']:
            for mb in space['mins']:
                cases.append({'kind': 'match', 'meas': s, 'd': d, 'minbs': mb, 'scale': i % 3, 'idmap': i % 2})
                i += 1
    return cases, space


def enumerate_unsorted(tier):
    cases = []
    n = 3 if tier == 'quick' else 4
    i = 0
    for s in seqs_of_meas(n, [-2, -1, 0, 1, 3], [1, 2]):
        if all(a[0] <= b[0] for a, b in zip(s, s[1:])):
            continue
        for d in ((0, 1, 2) if tier == 'quick' else (1,)):
            cases.append({'kind': 'match', 'meas': s, 'd': d, 'minbs': (0, 1, 2)[i % 3], 'scale': i % 3, 'idmap': 0})
            i += 1
    return cases


def enumerate_est(tier):
    """quick: every list of up to 3 samples over the 7 non-empty subsets of 3 base stations;
    thorough: every list of up to 4 LINKING samples (>= 2 stations) over 4 base stations (the pure link-graph space;
    lists with single-station samples up to length 3 come from MC_LhSkeleton_cases_est_thorough.cfg)."""
    nb, n, lo = (3, 3, 1) if tier == 'quick' else (4, 4, 2)
    subsets = [list(c) for k in range(lo, nb + 1) for c in itertools.combinations(range(1, nb + 1), k)]
    cases = []
    i = 0
    for ln in range(0, n + 1):
        for combo in itertools.product(subsets, repeat=ln):
            cases.append({'kind': 'est', 'samples': [list(c) for c in combo], 'idmap': i % 2, 'order': i % 3})
            i += 1
    return cases, {'base_stations': nb, 'max_samples': n, 'sample_sets': len(subsets), 'min_size': lo}


def random_cases(tier, rng):
    cases = []
    nm, ne, npipe = (400, 100, 100) if tier == 'quick' else (6000, 1500, 1500)
    for _ in range(nm):       # long measurement lists, up to 16 base stations, larger windows
        n = rng.randint(0, 40)
        nbs = rng.choice([1, 2, 3, 6, 16])
        t, s = 1, []
        for _k in range(n):
            t += rng.choice([0, 0, 1, 1, 2, 3, 5, 8, 13])
            s.append([t, rng.randint(1, nbs)])
        cases.append({'kind': 'match', 'meas': s, 'd': rng.choice([0, 1, 2, 3, 5, 8, 20]),
                      'minbs': rng.choice([0, 0, 1, 2, 2, 3, 4]), 'scale': rng.randrange(3), 'idmap': 0})
    for _ in range(ne):       # up to 6 base stations, up to 8 samples, occasionally an inconsistent measurement
        nbs = rng.choice([3, 4, 5, 6])
        n = rng.randint(1, 8)
        smp = []
        for _k in range(n):
            k = rng.choice([1, 2, 2, 2, 3, 3, 4]) if rng.random() < 0.5 else rng.choice([2, 2, 3])
            smp.append(sorted(rng.sample(range(1, nbs + 1), min(k, nbs))))
        c = {'kind': 'est', 'samples': smp, 'idmap': rng.randrange(2), 'order': rng.randrange(1000)}
        if rng.random() < 0.3:
            p = rng.randint(1, n)
            c['corrupt'] = [p, rng.choice(smp[p - 1])]
        cases.append(c)
    for _ in range(npipe):    # the whole pipeline: measurement stream -> match -> estimate
        nbs = rng.choice([2, 3, 4, 5, 6])
        n = rng.randint(0, 24)
        t, s = 1, []
        for _k in range(n):
            t += rng.choice([0, 0, 0, 1, 1, 2, 4, 9])
            s.append([t, rng.randint(1, nbs)])
        cases.append({'kind': 'pipe', 'meas': s, 'd': rng.choice([0, 1, 2, 3, 5]),
                      'minbs': rng.choice([0, 1, 2, 2, 2, 3]), 'scale': rng.randrange(3), 'idmap': rng.randrange(2)})
    return cases


# --------------------------------------------------------------------------- judging
def judge(out, traces, label, count=True, as_found=False):
    """All traces through TLC (monitor + conformance against the repaired design spec).  as_found=True: traces the
    repaired spec does not explain go through TLC again with LH_BUG=single_crash (the behaviour as found)."""
    for i, t in enumerate(traces):
        t['id'] = i + 1
    verdicts, st = common.validate_traces(TRACE_SPEC, TRACE_CFG, traces)
    if count:
        out.traces += len(traces)
        out.states += st['states']
        out.transitions += st['transitions']
    out.tlc_runs.append({'config': 'TRACE_LhSkeleton (%s)' % label, 'states': st['states'],
                         'transitions': st['transitions'], 'wall_s': round(st['wall_s'], 2), 'traces': len(traces)})
    bad, drift = [], []
    for k, t in enumerate(traces):
        clause, at, conf, conf_at = verdicts[t['id']]
        if clause != 'ok':
            bad.append((k, clause, at))
        if not conf:
            drift.append((k, conf_at))
    if not as_found:
        bad_k = {k for (k, _c, _a) in bad}
        return bad, [x for x in drift if x[0] not in bad_k]
    explained_as_found = 0
    still = []
    if drift:
        again = [traces[k] for (k, _a) in drift]
        v2, st2 = common.validate_traces(TRACE_SPEC, TRACE_CFG, again, env={'LH_BUG': 'single_crash'})
        out.tlc_runs.append({'config': 'TRACE_LhSkeleton LH_BUG=single_crash (%s)' % label, 'states': st2['states'],
                             'transitions': st2['transitions'], 'wall_s': round(st2['wall_s'], 2), 'traces': len(again)})
        for (k, at) in drift:
            if v2[traces[k]['id']][2]:
                explained_as_found += 1
            else:
                still.append((k, v2[traces[k]['id']][3]))
    return bad, drift, explained_as_found, still


def signature(tr, clause):
    """Violated clause + canonical witness class."""
    if clause in ('OnlyLhException', 'MissedUnlinked', 'SpuriousLhException', 'MissingBsPose', 'InventedBsPose',
                  'CfPosePerSample', 'ReferenceNotFirstSample', 'CleanedNotSubsequence', 'KeptNotSubsequence',
                  'DuplicateBsPose', 'EstInputMutated', 'EstimatorReturnedTwice'):
        smp = next((e['samples'] for e in tr['ev'] if e['e'] == 'e_call'), [])
        sizes = {len(s) for s in smp}
        cls = 'sample-with-one-base-station' if 1 in sizes else 'linking-samples-only'
        return '%s/%s/%s' % (clause, tr.get('exc') if clause == 'OnlyLhException' else '-', cls)
    sorted_in = all(a['ts'] <= b['ts'] for a, b in zip(tr['meas'], tr['meas'][1:]))
    dup = 'dup-bs' if any(len({m[0] for m in g['mem']}) < len(g['mem'])
                          for e in tr['ev'] if e['e'] == 'm_ret' for g in e['groups']) else '-'
    return '%s/%s/%s' % (clause, 'time-ordered' if sorted_in else 'out-of-order', dup)


def _size(case):
    return (len(case.get('meas', [])) + sum(len(s) for s in case.get('samples', [])), 'corrupt' in case,
            case.get('order', 0), sum(m[0] for m in case.get('meas', [])), json.dumps(case, sort_keys=True))


# --------------------------------------------------------------------------- the check
def main(tier, seed, replay=None):
    out = common.Outcome(PROP, tier, seed)
    rng = random.Random(seed)
    out.assumptions = [
        'time stamps are integer ticks of 1 or 2^-10 s (offset 0 or 1.7e9 s), so the float comparison in match() is exact; '
        'decimal stamps whose sums round are not judged',
        'matcher window clauses are claimed for non-decreasing time stamps only; out-of-order lists are judged on the '
        'order-independent clauses (membership, one entry per base station, at most one group, input order, minimum size)',
        'when a base station is measured twice in a window any of its angle sets is accepted (the code keeps the last)',
        'estimator: samples with zero base stations are outside the quantifier; a used sample with one base station may be '
        'skipped or refused with LhException when the rest is linked; numeric poses are not judged, only ids/counts/'
        'identity of returned samples/exception type',
        'kept/ref/rounds are recorded by tracing wrappers around _angles_to_poses, _estimate_remaining_bs_poses, '
        '_map_pose_to_ref_frame, _avarage_poses, _estimate_cf_poses (no source hooks); synthetic noise-free angles from 6 '
        'base stations x 12 Crazyflie poses (numpy), some random cases with one inconsistent measurement',
    ]
    if replay:
        rp = json.load(open(replay))['replay']
        _init()
        t = execute(rp['case'])
        bad, _ = judge(out, [t], 'replay')
        for (_k, clause, at) in bad:
            out.violation(signature(t, clause), clause, {'event_index': at, 'trace': t}, {'case': rp['case']})
        return out.finish()

    import time
    from concurrent.futures import ThreadPoolExecutor
    phases = {}
    t_last = [time.time()]

    def lap(name):
        now = time.time()
        phases[name] = round(now - t_last[0], 1)
        t_last[0] = now
    out.extra['phase_wall_s'] = phases

    # 1. design spec: exhaustive; every seeded defect must be refuted.  (TLC runs side by side; 16 cores.)
    thorough = tier == 'thorough'
    mc = [('MC_LhSkeleton_quick.cfg', 6), ('MC_LhSkeleton_est_quick.cfg', 3)]
    if thorough:
        mc = [('MC_LhSkeleton_thorough.cfg', 6), ('MC_LhSkeleton_match_thorough.cfg', 5), ('MC_LhSkeleton_est_thorough.cfg', 2),
              ('MC_LhSkeleton_unsorted.cfg', 2)] + [(c, 1) for c, _w in mc]
    suffix = '_thorough' if thorough else ''
    case_cfgs = ['MC_LhSkeleton_cases_match%s.cfg' % suffix, 'MC_LhSkeleton_cases_est%s.cfg' % suffix,
                 'MC_LhSkeleton_cases_pipe%s.cfg' % suffix]
    bugs = ('single_crash', 'ge_window', 'sliding', 'no_final', 'min_strict', 'ref_last', 'eager_raise',
            'no_progress_check', 'cf_drop_first')
    nsim = 150 if tier == 'quick' else 1500
    sims = (('SIM_LhSkeleton.cfg', 90), ('SIM_LhSkeleton_est.cfg', 30))
    with ThreadPoolExecutor(max_workers=16) as ex:
        f_mc = [(cfg, ex.submit(tlc.check, 'MC_LhSkeleton.tla', cfg, workers=w, timeout=3000)) for cfg, w in mc]
        f_cases = [(cfg, ex.submit(tlc.check, 'MC_LhSkeleton.tla', cfg, workers=2, timeout=1800)) for cfg in case_cfgs]
        f_sims = [(cfg, ex.submit(tlc.simulate, 'MC_LhSkeleton.tla', cfg, num=nsim, depth=depth, seed=seed % 100000,
                                  timeout=1800)) for cfg, depth in sims]
        f_bugs = [(b, ex.submit(tlc.expect_violation, 'MC_LhSkeleton.tla', 'MC_LhSkeleton_bug_%s.cfg' % b, workers=1,
                                timeout=900)) for b in bugs]
        # 2. spec -> code.  (a) every case TLC enumerates under the cases_* configurations, (b) -simulate
        #    behaviours with larger constants; the real functions are run on each and the recorded projection is
        #    compared with the design spec's prediction.
        records = []
        for cfg, f in f_cases:
            r = f.result()
            out.add_tlc(cfg + ' (PrintCases)', r)
            got = tlc.printed_json(r.output, 'CASE')
            if not got:
                raise common.MachineryError('no CASE lines from %s' % cfg)
            records += got
        n_enum = len(records)
        for cfg, f in f_sims:
            rs, behs = f.result()
            out.add_tlc('%s (-simulate num=%d)' % (cfg, nsim), rs)
            for b in behs:
                st = b[-1][1]
                if st['pc'] == 'done':
                    records.append(_final_to_case_record(st))
        lap('tlc_cases_and_simulation')
        s2c_cases = [case_of(c, i) for i, c in enumerate(records)]
        m_cases, m_space = enumerate_match(tier)
        u_cases = enumerate_unsorted(tier)
        e_cases, e_space = enumerate_est(tier)
        r_cases = random_cases(tier, rng)
        cases = s2c_cases + m_cases + u_cases + e_cases + r_cases
        traces = run_cases(cases)
        lap('real_code_executions')
        for cfg, f in f_mc:
            out.add_tlc(cfg, f.result())
        for b, f in f_bugs:
            rb = f.result()
            out.sensitivity['spec:' + b] = 'refuted (%s) after %d states' % (rb.violated, rb.distinct)
        lap('tlc_design_spec_rest')
    # the comparison itself is made after the traces are judged (step 3): where the real numeric outlier test dropped a
    # sample, the environment choice O of EPoses differs from the one TLC took (O = {}), and the binding for that case is
    # the conformance verdict of its trace (design spec with the OBSERVED O must explain every event and the result)
    diffs = {}
    numeric_s2c = 0
    for k, (c, t) in enumerate(zip(records, traces)):
        if _is_numeric(t):
            numeric_s2c += 1
            continue
        exp, got = expected_of(c), project(t)
        if exp != got:
            diffs[k] = {'spec': exp, 'code': got}

    # 3. code -> spec: TLC's cases + own exhaustive enumerations + seeded random; all judged by TLC through the trace spec
    numeric = [k for k, t in enumerate(traces) if _is_numeric(t)]
    out.extra['numeric_layer'] = {
        'cases_not_judged_after_%d_pose_shifts' % MAX_SHIFTS: len(numeric),
        'cases_that_needed_a_pose_shift': sum(1 for t in traces if t.get('numeric_retries')),
        'exception_types': sorted({t['exc'] for t in traces if _is_numeric(t)}),
        'note': 'np.linalg.eig in _avarage_poses returns complex eigenvectors for (near-)degenerate Q^T Q (fewer than 4 poses, '
                'noise-free data); scipy Rotation.from_quat refuses them (ValueError).  Numerics are outside X03; such a '
                'case is run again with other synthetic poses'}
    numeric_set = set(numeric)
    keep = [k for k in range(len(traces)) if k not in numeric_set]
    cases = [cases[k] for k in keep]
    traces = [traces[k] for k in keep]
    bad, drift, as_found, unexplained = judge(out, traces, 'real code', as_found=True)
    new_index = {k: i for i, k in enumerate(keep)}
    drifting = {k for (k, _a) in drift}
    rejected = {k for (k, _c, _a) in bad}
    with_observed_env, s2c_drift, first_diff = 0, 0, None
    for k, dif in sorted(diffs.items()):
        i = new_index[k]
        observed_drop = any(e['e'] == 'e_poses' and len(e['kept']) < sum(
            1 for smp in next(x['samples'] for x in traces[i]['ev'] if x['e'] == 'e_call') if len(smp) >= 2)
            for e in traces[i]['ev'])
        if observed_drop and i not in drifting and i not in rejected:
            with_observed_env += 1
        else:
            s2c_drift += 1
            if first_diff is None:
                first_diff = dict(dif, rejected_by_monitor=(i in rejected))
    out.conformance['spec_to_code'] = {
        'cases_enumerated_by_tlc': n_enum, 'simulated_behaviours': len(records) - n_enum,
        'matched': len(records) - numeric_s2c - len(diffs),
        'matched_with_the_observed_outlier_choice': with_observed_env,
        'drift': s2c_drift, 'numeric_layer_failed': numeric_s2c, 'first_difference': first_diff}
    lap('tlc_trace_validation')
    out.conformance['code_to_spec'] = {'traces': len(traces),
                                       'explained_by_design_spec': len(traces) - len(drift),
                                       'explained_by_as_found_variant_single_crash': as_found,
                                       'unexplained': len(unexplained)}
    if unexplained:
        k, at = unexplained[0]
        out.conformance['code_to_spec']['first_unexplained'] = {
            'case': cases[k], 'event_index': at,
            'event': traces[k]['ev'][at - 1] if 0 < at <= len(traces[k]['ev']) else None}
    out.extra['numeric_outlier_drops_observed'] = sum(
        1 for t in traces for e in t['ev'] if e['e'] == 'e_poses' and
        len(e['kept']) < sum(1 for s in next(x['samples'] for x in t['ev'] if x['e'] == 'e_call') if len(s) >= 2))
    for (k, clause, at) in sorted(bad, key=lambda x: _size(cases[x[0]])):
        out.violation(signature(traces[k], clause), clause,
                      {'event_index': at, 'exception': traces[k].get('exc'), 'trace': traces[k]}, {'case': cases[k]})
    out.evaluations = len(traces)
    out.distinct = len({json.dumps([t['kind'], t['meas'], t['d'], t['minbs'],
                                    next((e['samples'] for e in t['ev'] if e['e'] == 'e_call'), None)], sort_keys=True)
                        for t in traces if t['meas'] or any(e['e'] == 'e_call' and e['samples'] for e in t['ev'])})
    out.exhaustive = True
    out.rule = ('case = (measurement list in ticks, max_time_diff, min_nr_of_bs_in_match) for match(), (list of base station '
                'sets) for estimate(), or both chained.  Exhaustive: every case TLC enumerates under %s (PrintCases); ' % case_cfgs +
                'match(): all lists up to %(n)d measurements, deltas %(deltas)s, base stations %(bs)s, d in %(ds)s, min in %(mins)s; '
                'out-of-order lists over deltas {-2,-1,0,1,3}; ' % m_space +
                'estimate(): all lists of up to %(max_samples)d samples over the %(sample_sets)d subsets with >= %(min_size)d '
                'of %(base_stations)d base stations.  Beyond: TLC -simulate behaviours and seeded random cases (up to 40 '
                'measurements / 8 samples / 6 base stations).  distinct = distinct non-empty inputs' % e_space)
    picks = [next((k for k, c in enumerate(cases) if c['kind'] == kind and len(traces[k]['ev']) > 6), 0)
             for kind in ('match', 'est', 'pipe')]
    out.samples = [{'case': cases[k], 'events': traces[k]['ev'][:14]} for k in picks]
    # observation outside the quantifier: samples without any base station
    _init()
    zero_bs = {}
    for smp in ([[1, 2], []], [[]]):
        t = execute({'kind': 'est', 'samples': smp})
        zero_bs[json.dumps(smp)] = '%s %s' % (t['ev'][-1]['kind'], t.get('exc'))
    out.extra['observation_zero_base_station_samples'] = zero_bs

    # 4. sensitivity: in-memory mutants must be rejected by the monitor (on cases the unmodified code passes)
    bad_idx = {k for (k, _c, _a) in bad}
    ok_idx = [k for k in range(len(cases)) if k not in bad_idx]
    per_kind = 150 if tier == 'quick' else 500
    sub = {}
    for kind in ('match', 'est', 'pipe'):
        ks = [k for k in ok_idx if cases[k]['kind'] == kind]
        rng.shuffle(ks)
        sub[kind] = [cases[k] for k in sorted(ks[:per_kind])]
    jobs, spans = [], []
    for name in sorted(MUTANTS):
        msub = (sub['match'] if MUTANTS[name][0] == 'M' else sub['est']) + sub['pipe']
        spans.append((name, len(jobs), len(jobs) + len(msub)))
        jobs += [(c, name) for c in msub]
    mtraces = common.pmap(_job, jobs, init=_init)
    mkeep = [k for k, t in enumerate(mtraces) if not _is_numeric(t)]
    o2 = common.Outcome(PROP, tier, seed)
    mbad, _ = judge(o2, [mtraces[k] for k in mkeep], 'in-memory mutants')
    out.tlc_runs += o2.tlc_runs
    rejected_at = {}
    for (k, clause, _a) in mbad:
        rejected_at.setdefault(mkeep[k], clause)
    for name, a, b in spans:
        rej = [rejected_at[k] for k in range(a, b) if k in rejected_at]
        out.sensitivity['mutant:' + name] = '%d of %d traces rejected %s' % (len(rej), b - a, sorted(set(rej)))
        if not rej:
            raise common.MachineryError('monitor did not reject in-memory mutant %s' % name)
    lap('mutants')
    # binding self-tests: corrupted traces must be rejected
    good = [k for k in ok_idx if cases[k]['kind'] == 'pipe' and sum(1 for e in traces[k]['ev'] if e['e'] == 'm_put') >= 3
            and any(e['e'] == 'e_round' for e in traces[k]['ev'])]
    if not good:
        raise common.MachineryError('no suitable trace for the binding self-test')
    base = traces[good[0]]
    corrupt = []
    t1 = copy.deepcopy(base)                    # one m_put event dropped
    del t1['ev'][next(i for i, e in enumerate(t1['ev']) if e['e'] == 'm_put')]
    corrupt.append(('drop-one-put-event', t1))
    t2 = copy.deepcopy(base)                    # a returned group claims the angles of another measurement
    g = next(e for e in t2['ev'] if e['e'] == 'm_ret')['groups']
    g[0]['mem'][0][1] = len(t2['meas']) if g[0]['mem'][0][1] != len(t2['meas']) else 1
    corrupt.append(('returned-member-changed', t2))
    t3 = copy.deepcopy(base)                    # a closure pass reports one averaged pose more
    next(e for e in t3['ev'] if e['e'] == 'e_round')['found'][0][1] += 1
    corrupt.append(('round-count-changed', t3))
    t4 = copy.deepcopy(base)                    # the result lacks a base station
    e4 = next(e for e in t4['ev'] if e['e'] == 'e_ret')
    e4['bs'] = e4['bs'][1:]
    corrupt.append(('result-lacks-a-base-station', t4))
    o2 = common.Outcome(PROP, tier, seed)
    cbad, cdrift = judge(o2, [t for _n, t in corrupt], 'corrupted')
    rejected = {k: c for (k, c, _a) in cbad}
    rejected.update({k: 'conformance' for (k, _a) in cdrift if k not in rejected})
    for k, (name, _t) in enumerate(corrupt):
        out.sensitivity['binding:' + name] = 'rejected (%s)' % rejected[k] if k in rejected else 'ACCEPTED'
    if len(rejected) != len(corrupt):
        raise common.MachineryError('trace spec accepted a corrupted trace: %s' % out.sensitivity)
    lap('binding_self_tests')
    return out.finish()


def _is_numeric(t):
    return any(e['e'] == 'e_ret' and e['kind'] == 'numeric' for e in t['ev'])
