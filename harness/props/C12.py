"""C12 -- flashing writes exactly the image, nowhere else.

spec/Flash.tla (design), spec/FlashProps.tla (the property), spec/FlashTrace.tla (monitor +
conformance for traces recorded from the real Bootloader._internal_flash / Cloader talking to a
simulated bootloader target over a fake link, under the virtual-time scheduler)."""
import contextlib
import copy
import inspect
import io
import itertools
import json
import random
import struct
import sys
import textwrap
import time
from concurrent.futures import ThreadPoolExecutor

from .. import common, tlc, vsched
from ..vsched import vqueue

STM32, NRF51 = 0xFF, 0xFE
TGT_NAME = {STM32: 'stm32', NRF51: 'nrf51'}
# geometries the two real bootloaders report (page size, buffer pages, flash pages, start page)
REAL_GEOM = {STM32: (1024, 10, 1024, 16), NRF51: (1024, 1, 232, 88)}
WRITTEN = ('ok', 'okdup', 'lostreply')
FATES = ('ok', 'okdup', 'nack', 'lostcmd', 'lostreply', 'stray')
NACK_ERR = 2
BUG_CFGS = ['final_page', 'flush_i', 'continue', 'nosizecheck', 'addr_overlap', 'retry8',
            'loopbound', 'ignore_status', 'chunk26', 'last_any']


# --------------------------------------------------------------------------- the simulated target
def _loader_locals():
    """ctr and i of the running _internal_flash frame (projection onto the spec's variables)."""
    f = sys._getframe(2)
    while f is not None:
        if f.f_code.co_name == '_internal_flash':
            loc = f.f_locals
            c, i = loc.get('ctr', -1), loc.get('i', -1)
            return (c if isinstance(c, int) else -1), (i if isinstance(i, int) else -1)
        f = f.f_back
    return -1, -1


class FakeBoot:
    """Link object + bootloader target(s) behind it.  Protocol (Bitcraze bootloader commands, as
    in FlashProps.tla): 0x10 get info, 0x12 get mapping, 0x14 load buffer, 0x18 write flash.
    Lenient on purpose: an upload outside the buffer is dropped, a write to any page is executed;
    the monitor judges the commands."""
    needs_resending = False

    def __init__(self, sc, ev):
        from cflib.crtp.crtpstack import CRTPPacket
        self._pk = CRTPPacket
        self.ev = ev
        self.rec = False
        self.q = vqueue.Queue()
        self.uri = 'fake://bootloader'
        other = NRF51 if sc['tgt'] == STM32 else STM32
        self.geom = {sc['tgt']: (sc['ps'], sc['bp'], sc['fp'], sc['tsp']), other: REAL_GEOM[other]}
        self.buf = {t: {} for t in self.geom}          # target -> buffer page -> list (lazy zeros)
        self.flash = {t: {} for t in self.geom}        # target -> page -> list
        self.fates = list(sc.get('fates', ()))
        self.nwrite = 0

    def _bufpage(self, t, b):
        pg = self.buf[t].get(b)
        if pg is None:
            pg = self.buf[t][b] = [0] * self.geom[t][0]
        return pg

    def _reply(self, data):
        self.q.put(self._pk(0xFF, bytearray(data)))

    # Like RadioDriver (out_queue.put(pk): the radio thread reads pk.header / pk.data later), the
    # link keeps the packet *object* and serialises it at the next link operation; a sender that
    # re-uses the object after handing it over therefore corrupts what goes on the air.
    def send_packet(self, pk):
        self._flush()
        self._held = (pk, _loader_locals())      # loader state at hand-off time
        if self._is_write(pk):      # the write-flash command is answered while the caller waits
            self._flush()
        return True

    def _is_write(self, pk):
        d = pk.data
        return pk.header == 0xFF and len(d) >= 2 and d[1] == 0x18

    def _flush(self):
        held, self._held = getattr(self, '_held', None), None
        if held is not None:
            self._transmit(*held)

    def _transmit(self, pk, loc):
        data = list(pk.data)
        if pk.header != 0xFF or len(data) < 2:
            return True
        t, cmd = data[0], data[1]
        if cmd == 0x10:
            if t in self.geom:
                ps, bp, fp, sp = self.geom[t]
                cpuid = [(t + 7 * k) & 0xFF for k in range(12)]
                self._reply(list(struct.pack('<BBHHHH', t, 0x10, ps, bp, fp, sp)) + cpuid + [0x10])
        elif cmd == 0x12:
            if t == STM32:      # STM32F405 sector map: 4 x 16 k, 1 x 64 k, 7 x 128 k
                self._reply([t, 0x12, 4, 16, 1, 64, 7, 128])
        elif cmd == 0x14 and len(data) >= 6:
            if self.rec:
                c, i = loc
                self.ev.append({'e': 'tx', 'data': data, 'recv': True, 'fate': 'deliv', 'ctr': c, 'i': i})
            if t in self.geom:
                ps, bp = self.geom[t][0], self.geom[t][1]
                b, a = data[2] | data[3] << 8, data[4] | data[5] << 8
                n = len(data) - 6
                if b < bp and a + n <= ps:
                    self._bufpage(t, b)[a:a + n] = data[6:]
        elif cmd == 0x18 and len(data) >= 8:
            fate = self.fates[self.nwrite] if self.nwrite < len(self.fates) else 'ok'
            self.nwrite += 1
            if self.rec:
                c, i = loc
                self.ev.append({'e': 'tx', 'data': data, 'recv': fate not in ('lostcmd', 'stray'), 'fate': fate,
                                'ctr': c, 'i': i})
            if t in self.geom:
                ps, bp = self.geom[t][0], self.geom[t][1]
                b, p, cnt = data[2] | data[3] << 8, data[4] | data[5] << 8, data[6] | data[7] << 8
                if fate in WRITTEN:
                    for k in range(cnt):
                        self.flash[t][p + k] = list(self._bufpage(t, b + k)) if b + k < bp else [0] * ps
                if fate in ('ok', 'okdup'):
                    self._reply([t, 0x18, 1, 0])
                    if fate == 'okdup':
                        self._reply([t, 0x18, 1, 0])
                elif fate == 'nack':
                    self._reply([t, 0x18, 0, NACK_ERR])
                elif fate == 'stray':       # the other target's positive write reply, late
                    self._reply([0xFE if t == 0xFF else 0xFF, 0x18, 1, 0])
        return True

    def receive_packet(self, wait=0):
        self._flush()
        try:
            if wait == 0:
                pk = self.q.get(False)
            elif wait < 0:
                pk = self.q.get(True)
            else:
                pk = self.q.get(True, wait)
        except vqueue.Empty:
            pk = None
        if self.rec:
            if pk is not None:
                self.ev.append({'e': 'rx', 'data': list(pk.data)})
            else:
                self.ev.append({'e': 'poll' if wait == 0 else 'timeout'})
        return pk

    def close(self):
        self._flush()


# --------------------------------------------------------------------------- the real code
def execute(sc, mutant=None):
    """One flashing of sc['image'] with the real Bootloader/Cloader against the simulated target.
    sc: tgt, ps, bp, fp, tsp, ovr (None | page), image (list of bytes), fates (fate of the k-th
    write-flash command transmitted; 'ok' afterwards), progress (use a progress callback).
    Returns the trace object for FlashTrace.tla."""
    import cflib.bootloader as blm
    restore = MUTANTS[mutant](blm) if mutant else None
    ev, st = [], {}
    try:
        with contextlib.redirect_stdout(io.StringIO()):
            with vsched.scheduler() as s:
                bl = blm.Bootloader(None)
                link = FakeBoot(sc, ev)
                bl._cload.link = link
                if sc.get('progress', True):
                    bl.progress_cb = lambda msg, pct: None

                def user():
                    if not bl._cload.check_link_and_get_info(sc['tgt']):      # real _update_info
                        st['info'] = False
                        return
                    t = bl._cload.targets[sc['tgt']]
                    st['geom'] = [t.page_size, t.buffer_pages, t.flash_pages, t.start_page]
                    art = blm.FlashArtifact(bytes(sc['image']),
                                            blm.Target('cf2', TGT_NAME[sc['tgt']], 'fw', [], []), None)
                    link.rec = True
                    ev.append({'e': 'call'})
                    try:
                        if sc.get('ovr') is None:
                            bl._internal_flash(art)
                        else:
                            bl._internal_flash(art, page_override=sc['ovr'])
                        res = 'ok'
                    except Exception as e:          # what a caller of the library sees
                        res = 'raised'
                        st['exc'] = '%s(%s)' % (type(e).__name__, str(e)[:60])
                    link._flush()
                    link.rec = False
                    ev.append({'e': 'ret', 'result': res})
                th = s.spawn(user, 'user')
                st['status'] = s.run(until=lambda: th.finished, horizon=1.0e6)
                st['t'] = s.now
                returned = bool(th.finished) and th.dead is None
    finally:
        if restore:
            restore()
    if st.get('info') is False:
        raise common.MachineryError('simulated target: get-info handshake failed for %r' % (sc['tgt'],))
    fl = link.flash[sc['tgt']]
    return {'tgt': sc['tgt'], 'ps': sc['ps'], 'bp': sc['bp'], 'fp': sc['fp'], 'tsp': sc['tsp'],
            'ovr': [] if sc.get('ovr') is None else [sc['ovr']], 'image': list(sc['image']),
            'ev': ev, 'flash': [[p, fl[p]] for p in sorted(fl)], 'returned': returned,
            'exc': st.get('exc', ''), 'geom_seen': st.get('geom'), 'vtime': st.get('t')}


# --------------------------------------------------------------------------- in-memory mutants
def _src_mutant(cls_name, fname, old, new):
    """Mutant = the method's own source with one textual change, compiled in the module's
    namespace and installed on the class for one execution (/repo is untouched)."""
    cache = {}

    def install(blm):
        import cflib.bootloader.cloader as clm
        mod, cls = (blm, blm.Bootloader) if cls_name == 'Bootloader' else (clm, clm.Cloader)
        orig = cls.__dict__[fname]
        if 'fn' not in cache:
            src = textwrap.dedent(inspect.getsource(orig))
            if old not in src:
                raise common.MachineryError('mutant %s.%s: text %r not found in the code under test'
                                            % (cls_name, fname, old))   # main() probes first
            ns = {}
            exec(compile(src.replace(old, new), '<C12 mutant of %s>' % fname, 'exec'), mod.__dict__, ns)
            cache['fn'] = ns[fname]
        setattr(cls, fname, cache['fn'])
        return lambda: setattr(cls, fname, orig)

    def applicable(blm):
        import cflib.bootloader.cloader as clm
        cls = blm.Bootloader if cls_name == 'Bootloader' else clm.Cloader
        return old in textwrap.dedent(inspect.getsource(cls.__dict__[fname]))
    install.applicable = applicable
    return install


MUTANTS = {
    'chunk26': _src_mutant('Cloader', 'upload_buffer', 'if count > 24:', 'if count > 25:'),
    'addr_overlap': _src_mutant('Cloader', 'upload_buffer', 'i + address + 1)', 'i + address)'),
    'final_page': _src_mutant('Bootloader', '_internal_flash', '(ctr - 1)), ctr):', 'ctr), ctr):'),
    'flush_i': _src_mutant('Bootloader', '_internal_flash', 'start_page + i - (ctr - 1),', 'start_page + i,'),
    'continue_after_fail': _src_mutant('Bootloader', '_internal_flash', 'raise Exception()', 'pass'),
    'sizecheck_one_page_late': _src_mutant('Bootloader', '_internal_flash',
                                           '((t_data.flash_pages - start_page) *',
                                           '((t_data.flash_pages + 1 - start_page) *'),
    'retry8': _src_mutant('Cloader', 'write_flash', 'retry_counter = 5', 'retry_counter = 7'),
    'loopbound': _src_mutant('Bootloader', '_internal_flash',
                             'range(0, int((len(image) - 1) / t_data.page_size) + 1)',
                             'range(0, int(len(image) / t_data.page_size) + 1)'),
    'ignore_status': _src_mutant('Cloader', 'write_flash', 'return pk.data[2] == 1', 'return True'),
    'override_ignored': _src_mutant('Bootloader', '_internal_flash', 'start_page = page_override',
                                    'start_page = target_info.start_page'),
    'ctr_not_reset': _src_mutant('Bootloader', '_internal_flash', '\n            ctr = 0\n',
                                 '\n            pass\n'),
}


# --------------------------------------------------------------------------- scenario sources
def _image(rng, n, kind=None):
    kind = kind or rng.choice(('rand', 'ramp', 'ramp'))
    if kind == 'ramp':
        return [(k % 251) + 1 for k in range(n)]
    return [rng.randrange(256) for _ in range(n)]


def _lens(ps, bp, cap, full_upto=40):
    if cap <= 0:
        return [1, ps + 1]
    if cap + 2 <= full_upto:
        return list(range(1, cap + 3))
    c = {1, 2, ps - 1, ps, ps + 1, 2 * ps - 1, 2 * ps, 2 * ps + 1, 24, 25, 26, 50, 51,
         bp * ps - 1, bp * ps, bp * ps + 1, (bp + 1) * ps, 2 * bp * ps - 1, 2 * bp * ps, 2 * bp * ps + 1,
         3 * bp * ps, 3 * bp * ps + 1, cap - ps, cap - 1, cap, cap + 1, cap + ps, 2 * cap + 3}
    return sorted(x for x in c if 1 <= x <= 2 * cap + 3)


def _sc(tgt, ps, bp, fp, tsp, ovr, image, fates=(), progress=True):
    return {'tgt': tgt, 'ps': ps, 'bp': bp, 'fp': fp, 'tsp': tsp, 'ovr': ovr, 'image': image,
            'fates': list(fates), 'progress': progress}


def scenarios_geometry(tier, rng):
    """Geometry sweep without faults: page sizes around the 25-byte chunk arithmetic and small
    ones, buffer counts, flash sizes, start pages, override pages, the interesting lengths."""
    out = []
    pss = [1, 2, 3, 4, 5, 7, 24, 25, 26, 49, 50, 51, 75, 76]
    fps = [1, 2, 3, 5, 8]
    for ps in pss:
        for bp in (1, 2, 3, 4):
            for fp in fps:
                for tsp in sorted({0, fp // 2, fp - 1}):
                    for ovr in [None] + sorted({0, fp - 1, fp}):
                        start = tsp if ovr is None else ovr
                        cap = (fp - start) * ps
                        for n in _lens(ps, bp, cap):
                            out.append(_sc(rng.choice((STM32, NRF51)), ps, bp, fp, tsp, ovr,
                                           _image(rng, n), progress=rng.random() < 0.8))
    if tier == 'quick':
        rng.shuffle(out)
        out = out[:1000]
    return out


def _flush_outcomes():
    """Fate sequences of one write_flash call: (fates, succeeds).  j lost transmissions of one
    kind, then a final answer; the 6th transmission is the last one."""
    res = []
    for kind in ('lostcmd', 'lostreply', 'stray'):
        for j in range(0, 6):
            if j == 0 and kind == 'lostreply':
                continue
            res.append(([kind] * j + ['ok'], j <= 4))
            res.append(([kind] * j + ['nack'], False))
        res.append(([kind] * 6, False))
        res.append((['lostcmd', 'lostreply', kind, 'okdup'], True))
    return res


def scenarios_faults(tier, rng):
    """Every combination of per-flush outcomes (lost x j then ok | nack, six losses, success on
    the 6th transmission) over flashings with up to three flushes."""
    geoms = [(3, 2, 8, 1, None, 17), (26, 1, 4, 0, 1, 3 * 26), (2, 3, 9, 2, None, 13)]
    if tier == 'thorough':
        geoms += [(5, 2, 7, 0, None, 21), (50, 2, 6, 1, None, 201), (1, 1, 5, 1, 2, 3), (4, 4, 12, 0, None, 36)]
    outs = _flush_outcomes()
    good = [o for o in outs if o[1]]
    out = []
    for gi, (ps, bp, fp, tsp, ovr, n) in enumerate(geoms):
        img = _image(rng, n)
        nfl = -(-(-(-n // ps)) // bp)          # ceil(ceil(n / ps) / bp)
        depth = min(nfl, 3 if (tier == 'thorough' or gi == 0) else 2)
        for d in range(1, depth + 1):
            # d-1 successful flushes followed by any outcome
            for prefix in itertools.product(good, repeat=d - 1):
                for last in outs:
                    if last[1] and d < depth:
                        continue            # all-success prefixes are extended at the next depth
                    fates = [f for o in prefix for f in o[0]] + last[0]
                    out.append(_sc(STM32 if gi % 2 == 0 else NRF51, ps, bp, fp, tsp, ovr, img, fates))
    if tier == 'quick':
        rng.shuffle(out)
        out = out[:600]
    return out


def scenarios_real(tier, rng):
    """The two real geometries (and the nRF51 with the S130 start page)."""
    out = []
    K = 1024
    stm = REAL_GEOM[STM32]
    nrf = REAL_GEOM[NRF51]
    lens_stm = [1, K + 1, 10 * K, 10 * K + 1] if tier == 'quick' else \
        [1, 24, 25, 26, K - 1, K, K + 1, 2 * K, 10 * K - 1, 10 * K, 10 * K + 1, 11 * K, 20 * K, 20 * K + 1,
         25 * K + 7]
    for n in lens_stm:
        out.append(_sc(STM32, *stm, None, _image(rng, n)))
    out.append(_sc(STM32, *stm, None, _image(rng, 10 * K + 5), ['lostreply', 'ok', 'lostcmd', 'nack']))
    out.append(_sc(STM32, *stm, 1022, _image(rng, 2 * K)))                 # override: the last two pages
    out.append(_sc(STM32, *stm, 1022, _image(rng, 2 * K + 1)))             # one byte too many
    out.append(_sc(STM32, *stm, 1024, _image(rng, 1)))                     # override = flash size
    lens_nrf = [K, K + 1] if tier == 'quick' else [1, 25, K - 1, K, K + 1, 2 * K, 3 * K + 1, 5 * K]
    for n in lens_nrf:
        out.append(_sc(NRF51, *nrf, None, _image(rng, n)))
    out.append(_sc(NRF51, 1024, 1, 232, 108, None, _image(rng, 2 * K + 9), ['lostcmd', 'ok', 'okdup', 'lostreply']))
    out.append(_sc(NRF51, *nrf, 229, _image(rng, 3 * K)))                  # as Bootloader.flash does for bl+sd
    out.append(_sc(NRF51, *nrf, 229, _image(rng, 3 * K + 1)))
    if tier == 'thorough':
        cap = (232 - 88) * K
        out.append(_sc(NRF51, *nrf, None, _image(rng, cap + 1, 'ramp')))   # does not fit, true geometry
        out.append(_sc(STM32, 1024, 10, 40, 16, None, _image(rng, 24 * K, 'ramp')))   # fills the flash exactly
        out.append(_sc(STM32, 1024, 10, 40, 16, None, _image(rng, 24 * K + 1, 'ramp')))
    return out


def scenarios_random(tier, rng):
    out = []
    for _ in range(600 if tier == 'quick' else 20000):
        ps = rng.choice((1, 2, 3, 5, 8, 13, 24, 25, 26, 27, 49, 50, 51, 64, 75, 100, 101, 125, 126))
        bp = rng.randint(1, 5)
        fp = rng.randint(1, 14)
        tsp = rng.randrange(fp)
        ovr = rng.choice((None, None, rng.randint(0, fp + 1)))
        start = tsp if ovr is None else ovr
        cap = (fp - start) * ps
        n = rng.randint(1, max(1, cap + 2)) if rng.random() < 0.7 else rng.choice(_lens(ps, bp, cap))
        p_fault = rng.choice((0.0, 0.15, 0.4))
        fates = [rng.choice(FATES[2:]) if rng.random() < p_fault else rng.choice(('ok', 'ok', 'okdup'))
                 for _ in range(rng.randint(0, 20))]
        out.append(_sc(rng.choice((STM32, NRF51)), ps, bp, fp, tsp, ovr, _image(rng, n), fates,
                       progress=rng.random() < 0.8))
    return out


def scenarios_mutant_core(rng):
    """Fixed scenarios that make each in-memory mutant visible (added to the sampled pool)."""
    return [
        _sc(NRF51, 51, 2, 6, 1, None, _image(rng, 160)),                   # two chunks + tail per page
        _sc(STM32, 26, 1, 5, 0, None, _image(rng, 78)),
        _sc(STM32, 3, 2, 8, 1, None, _image(rng, 7)),                      # loop flush + final flush
        _sc(STM32, 3, 2, 8, 1, None, _image(rng, 17)),                     # three loop flushes
        _sc(NRF51, 3, 2, 8, 1, None, _image(rng, 6)),                      # exact multiple of the page size
        _sc(NRF51, 3, 2, 8, 1, None, _image(rng, 17), ['nack']),           # negative reply, more to flash
        _sc(STM32, 3, 2, 8, 1, None, _image(rng, 17), ['ok', 'lostcmd', 'nack']),
        _sc(STM32, 3, 2, 8, 1, None, _image(rng, 17), ['lostcmd'] * 9),    # never answered
        _sc(NRF51, 3, 2, 8, 1, None, _image(rng, 17), ['lostreply'] * 9),
        _sc(STM32, 3, 2, 4, 1, None, _image(rng, 10)),                     # capacity 9: one byte too many
        _sc(STM32, 3, 2, 4, 1, None, _image(rng, 12)),                     # capacity 9: one page too many
        _sc(NRF51, 3, 2, 8, 1, 3, _image(rng, 11)),                        # override page
        _sc(NRF51, 3, 2, 8, 1, 6, _image(rng, 7)),                         # override page, too large there
    ]


# --------------------------------------------------------------------------- spec -> code
def _pages(v):
    """TLC prints a function with domain 1..n as a tuple."""
    if isinstance(v, dict):
        return {int(k): list(x) for k, x in v.items()}
    return {k + 1: list(x) for k, x in enumerate(v)}


def scenario_from_behaviour(beh):
    """A TLC behaviour of Flash -> (scenario, expected) ; None while still configuring."""
    last = beh[-1][1]
    if last['pc'] in ('c_tgt', 'c_ps', 'c_bp', 'c_fp', 'c_tsp', 'c_ovr', 'c_len'):
        return None
    fates, exp_tx = [], []
    for k in range(1, len(beh)):
        name, args = tlc.parse_label(beh[k][0])
        pre, post = beh[k - 1][1], beh[k][1]
        if name == 'WfSend':
            fates.append(args[0])
        if name in ('WfSend', 'SendChunk', 'SendTail'):
            exp_tx.append({'data': list(post['msg']), 'ctr': pre['ctr'], 'i': pre['i']})
    sc = _sc(last['tgt'], last['ps'], last['bp'], last['fp'], last['tsp'],
             None if last['ovr'] < 0 else last['ovr'], list(last['img']), fates)
    done = last['pc'] == 'done'
    return sc, {'tx': exp_tx, 'complete': done, 'result': last['result'] if done else None,
                'flash': _pages(last['flash']) if done else None}


def behaviour_matches(exp, t):
    tx = [{'data': e['data'], 'ctr': e['ctr'], 'i': e['i']} for e in t['ev'] if e['e'] == 'tx']
    if not exp['complete']:
        return tx[:len(exp['tx'])] == exp['tx']
    res = [e['result'] for e in t['ev'] if e['e'] == 'ret']
    return tx == exp['tx'] and res == [exp['result']] and {p: b for p, b in t['flash']} == exp['flash']


# --------------------------------------------------------------------------- running / judging
def _exec_job(job):
    sc, mutant = job
    return execute(sc, mutant)


def _init():
    vsched.load_cflib()


def run_scenarios(scs, mutant=None):
    jobs = [(sc, m) for sc, m in scs] if mutant == '*' else [(sc, mutant) for sc in scs]
    return common.pmap(_exec_job, jobs, init=_init, maxtasks=None)


def judge(out, traces, label, count=True):
    for k, t in enumerate(traces):
        t['id'] = k + 1
    # long traces first so that the batches are balanced
    order = sorted(traces, key=lambda t: -(len(t['ev']) * 40 + len(t['image'])))
    nb = min(common.NCPU if len(order) >= 4000 else max(1, common.NCPU // 2), max(1, len(order) // 8))
    rr = [t for b in range(nb) for t in order[b::nb]]
    chunk = max(1, -(-len(rr) // nb))
    verdicts, st = common.validate_traces('FlashTrace.tla', 'TRACE_Flash.cfg', rr, chunk=min(4000, chunk))
    if count:
        out.traces += len(traces)
        out.states += st['states']
        out.transitions += st['transitions']
    out.tlc_runs.append({'config': 'TRACE_Flash (%s)' % label, 'states': st['states'],
                         'transitions': st['transitions'], 'wall_s': round(st['wall_s'], 2),
                         'traces': len(traces)})
    return [verdicts[t['id']] for t in traces]


def signature(sc, clause):
    """Violated clause + the class of the witness: relation of the length to page and buffer
    size, override or not, fits or not, kinds of faults injected."""
    n, ps, bp = len(sc['image']), sc['ps'], sc['bp']
    start = sc['tsp'] if sc.get('ovr') is None else sc['ovr']
    rel = ('pageMultiple' if n % ps == 0 else 'partialPage') + \
          ('+bufferMultiple' if n % (ps * bp) == 0 else '')
    fits = 'fits' if n <= (sc['fp'] - start) * ps else 'tooLarge'
    faults = '+'.join(sorted(set(f for f in sc.get('fates', ()) if f not in ('ok',)))) or 'nofault'
    return '%s/%s/%s/%s/%s' % (clause, rel, fits, 'override' if sc.get('ovr') is not None else 'startpage',
                               faults)


def brief(sc, t=None):
    d = {k: sc[k] for k in ('tgt', 'ps', 'bp', 'fp', 'tsp', 'ovr', 'fates')}
    d['image_len'] = len(sc['image'])
    d['image_head'] = sc['image'][:8]
    if t is not None:
        evs = []
        for e in t['ev'][:10]:
            e = dict(e)
            if 'data' in e and len(e['data']) > 12:
                e['data'] = e['data'][:12] + ['... %d bytes' % len(e['data'])]
            evs.append(e)
        d['events_head'] = evs
        d['n_events'] = len(t['ev'])
        d['result'] = [e['result'] for e in t['ev'] if e['e'] == 'ret']
        d['pages_written'] = [p for p, _ in t['flash']]
    return d


def main(tier, seed, replay=None):
    out = common.Outcome('C12', tier, seed)
    rng = random.Random(seed)
    out.assumptions = [
        'bytes of the last flash page beyond the end of the image are unspecified (DESIGN 3.1(8))',
        '"touching" is judged on the write-flash commands the simulated target receives and on its resulting flash',
        '"bounded number of times" = at most 6 transmissions of one write command (anchor: "up to 6 attempts"); '
        'zero retries after a negative reply are accepted',
        'a write "fails or goes unanswered" when no transmission of it was answered positively; then no further '
        'upload/write may follow and the call must raise; a success reported as failure (6th transmission) is not '
        'forbidden by the property',
        '"refused" = the call raises and the target has received no write-flash command',
        'without any lost or negative reply a fitting image must be flashed completely and the call must return',
        'buffer uploads and the info handshake are never lost (the quantifier is about flash-write replies)',
        'the simulated target follows the Bitcraze bootloader command set as remembered (0x10/0x12/0x14/0x18); it is '
        'lenient (executes any write) so that wrong commands become visible',
        'image length >= 1 and buffer_pages >= 1 (quantifier)',
    ]
    if replay:
        rp = json.load(open(replay))['replay']
        _init()
        t = execute(rp['scenario'])
        v = judge(out, [t], 'replay')[0]
        if v[0] != 'ok':
            out.violation(signature(rp['scenario'], v[0]), v[0],
                          {'event_index': v[1], 'scenario': brief(rp['scenario'], t)}, {'scenario': rp['scenario']})
        return out.finish()

    # 1. design spec: exhaustive; every named breakage must be refuted (vacuity guards)
    quick = tier == 'quick'
    phase, t_ph = {}, [time.time()]

    def lap(name):
        phase[name] = round(time.time() - t_ph[0], 1)
        t_ph[0] = time.time()
    out.extra['phase_s'] = phase
    main_cfgs = ['MC_Flash_quick.cfg', 'MC_Flash_chunk25_quick.cfg'] if quick else \
        ['MC_Flash_thorough.cfg', 'MC_Flash_chunk25.cfg']

    def design(job):
        kind, name = job
        if kind == 'check':
            big = name == main_cfgs[0]
            return job, tlc.check('MC_Flash.tla', name, coverage=(name == 'MC_Flash_chunk25.cfg'), timeout=3000,
                                  workers=(8 if quick else 12) if big else 4, heap='4g' if big else '2g')
        return job, tlc.expect_violation('MC_Flash.tla', 'MC_Flash_bug_%s.cfg' % name, workers=2, timeout=900,
                                         heap='2g')
    with ThreadPoolExecutor(max_workers=4) as ex:
        for (kind, name), r in ex.map(design, [('check', c) for c in main_cfgs] + [('bug', b) for b in BUG_CFGS]):
            if kind == 'check':
                out.add_tlc(name, r)
                continue
            clause = r.error_trace[-1][1].get('h', {}).get('clause') if r.error_trace else '?'
            out.sensitivity['spec:Bug=' + name] = 'refuted (%s: %s) after %d states' % (r.violated, clause, r.distinct)
            if r.violated != 'PropOK':
                raise common.MachineryError('bug cfg %s refuted by %s, not by the property' % (name, r.violated))
    lap('design spec + bug cfgs')

    # 2. spec -> code: TLC behaviours driven through the real loader, everything compared
    nsim = 200 if quick else 3000
    rs, behs = tlc.simulate('MC_Flash.tla', 'SIM_Flash.cfg', num=nsim, depth=400, seed=seed % 100000, timeout=1500)
    out.add_tlc('SIM_Flash.cfg (-simulate num=%d)' % nsim, rs)
    sims = [x for x in (scenario_from_behaviour(b) for b in behs) if x is not None]
    sim_scs = [x[0] for x in sims]
    sim_traces = run_scenarios(sim_scs)
    matched = sum(1 for (sc, exp), t in zip(sims, sim_traces) if behaviour_matches(exp, t))
    out.conformance['spec_to_code'] = {'behaviours': len(sims), 'matched': matched,
                                       'complete': sum(1 for s in sims if s[1]['complete']),
                                       'compared': 'every transmitted packet (bytes), ctr and i at each '
                                                   'transmission, result, final flash'}

    lap('simulate + replay into the code')

    # 3. code -> spec: own enumerations and seeded random, judged by the monitor
    groups = [('tlc-behaviours', sim_scs, sim_traces)]
    for name, fn in (('geometry', scenarios_geometry), ('faults', scenarios_faults),
                     ('real-geometry', scenarios_real), ('random', scenarios_random)):
        scs = fn(tier, rng)
        groups.append((name, scs, run_scenarios(scs)))
    all_scs = [sc for _, scs, _ in groups for sc in scs]
    all_traces = [t for _, _, ts in groups for t in ts]
    lap('drive the real code')
    verdicts = judge(out, all_traces, 'real code')
    lap('TLC judges the traces')
    bad = [(sc, t, v) for sc, t, v in zip(all_scs, all_traces, verdicts) if v[0] != 'ok']
    drift = sum(1 for v in verdicts if v[0] == 'ok' and not v[2])
    geom_drift = sum(1 for sc, t in zip(all_scs, all_traces)
                     if t['geom_seen'] != [sc['ps'], sc['bp'], sc['fp'], sc['tsp']])
    out.conformance['code_to_spec'] = {'traces': len(all_traces),
                                       'explained_by_design_spec': len(all_traces) - drift - len(bad),
                                       'geometry_decoded_by__update_info_differs': geom_drift,
                                       'per_source': {name: len(scs) for name, scs, _ in groups}}
    for sc, t, v in bad:
        out.violation(signature(sc, v[0]), v[0], {'event_index': v[1], 'scenario': brief(sc, t),
                                                  'exception': t['exc']}, {'scenario': sc})
    out.evaluations = len(all_traces)
    out.distinct = len({(sc['tgt'], sc['ps'], sc['bp'], sc['fp'], sc['tsp'], sc['ovr'], len(sc['image']),
                         tuple(e['fate'] for e in t['ev'] if e['e'] == 'tx' and e['fate'] != 'deliv'))
                        for sc, t in zip(all_scs, all_traces)})
    out.rule = ('scenario = (target, page size, buffer pages, flash pages, start page, override page, image, fate of '
                'each write-flash transmission); sources: TLC -simulate behaviours of Flash; geometry sweep (14 page '
                'sizes x 4 buffer counts x 5 flash sizes x start pages x override pages x the interesting lengths, '
                'all lengths when the capacity is <= 38); every combination of per-flush outcomes over up to 3 '
                'flushes; the real STM32/nRF51 geometries; seeded random.  distinct = distinct (geometry, length, '
                'fates actually consumed)')
    out.exhaustive = False
    k_fault = len(groups[0][1]) + len(groups[1][1])
    picks = [0, k_fault + 3, len(all_scs) - len(groups[4][1]) - 3, len(all_scs) - 1]
    out.samples = [brief(all_scs[k], all_traces[k]) for k in picks if 0 <= k < len(all_scs)]
    out.extra['events_total'] = sum(len(t['ev']) for t in all_traces)

    # 4. sensitivity: in-memory mutants must be rejected by the monitor; corrupted traces too
    pool = scenarios_mutant_core(rng) + groups[1][1][::max(1, len(groups[1][1]) // (30 if quick else 300))] + \
        groups[2][1][::max(1, len(groups[2][1]) // (30 if quick else 300))]
    # a textual mutant whose site no longer exists in the tree under test is skipped, not an error
    _init()
    import cflib.bootloader as _blm
    usable = [m for m in sorted(MUTANTS) if MUTANTS[m].applicable(_blm)]
    for m in sorted(set(MUTANTS) - set(usable)):
        out.sensitivity['mutant:' + m] = 'skipped: the patched text is not in the code under test'
    jobs = [(sc, m) for m in usable for sc in pool]
    mtraces = run_scenarios(jobs, mutant='*')
    corrupted = corrupted_traces(all_scs, all_traces)
    cnames = sorted(corrupted)
    mver = judge(out, mtraces + [corrupted[n] for n in cnames], 'mutants + corrupted', count=False)
    cver = mver[len(mtraces):]
    for m in usable:
        vs = [v for (sc, mm), v in zip(jobs, mver) if mm == m]
        rej = [v[0] for v in vs if v[0] != 'ok']
        out.sensitivity['mutant:' + m] = '%d of %d traces rejected (%s)' % (
            len(rej), len(vs), ', '.join(sorted(set(rej))[:4]))
        if not rej:
            raise common.MachineryError('monitor did not reject in-memory mutant %s' % m)
    out.sensitivity.update(binding_selftest(cnames, cver))
    lap('mutants + corrupted traces')
    return out.finish()


def corrupted_traces(scs, traces):
    """Corrupted recordings of a correct run; each must be rejected (monitor or conformance)."""
    base = next(t for sc, t in zip(scs, traces)
                if len(t['flash']) >= 2 and sum(1 for e in t['ev'] if e['e'] == 'tx') >= 6
                and t['ev'][-1].get('result') == 'ok' and len(t['image']) < 400)
    variants = {}
    t1 = copy.deepcopy(base)            # one uploaded data byte changed
    k = next(j for j, e in enumerate(t1['ev']) if e['e'] == 'tx' and e['data'][1] == 0x14 and len(e['data']) > 6)
    t1['ev'][k]['data'][6] ^= 0x55
    variants['binding:upload-byte-changed'] = t1
    t2 = copy.deepcopy(base)            # one upload dropped
    del t2['ev'][k]
    variants['binding:upload-dropped'] = t2
    t3 = copy.deepcopy(base)            # the flash shows one more page
    last = t3['flash'][-1]
    t3['flash'].append([last[0] + 1, list(last[1])])
    variants['binding:extra-page-in-flash'] = t3
    t4 = copy.deepcopy(base)            # write command moved by one page
    kw = next(j for j, e in enumerate(t4['ev']) if e['e'] == 'tx' and e['data'][1] == 0x18)
    t4['ev'][kw]['data'][4] = (t4['ev'][kw]['data'][4] + 1) & 0xFF
    variants['binding:write-page-shifted'] = t4
    t5 = copy.deepcopy(base)            # conformance only: the loader's ctr differs
    t5['ev'][kw]['ctr'] += 1
    variants['binding:ctr-projection-changed'] = t5
    return variants


def binding_selftest(names, vs):
    res = {}
    for n, v in zip(names, vs):
        rejected = v[0] != 'ok' or not v[2]
        res[n] = ('rejected (%s)' % (v[0] if v[0] != 'ok' else 'conformance @%s' % v[3])) if rejected else 'ACCEPTED'
        if not rejected:
            raise common.MachineryError('trace spec accepted the corrupted trace %s' % n)
        if n != 'binding:ctr-projection-changed' and v[0] == 'ok':
            raise common.MachineryError('monitor accepted the corrupted trace %s' % n)
    return res
