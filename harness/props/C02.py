"""C02 -- connection lifecycle is well-formed and never hangs under any link fault.

spec/LifecycleProps.tla (the property), spec/Lifecycle.tla (design spec: Crazyflie + SyncCrazyflie
wrapper section), spec/LifecycleTrace.tla (monitor + conformance for traces of the real code).

Real code: cflib.crazyflie.Crazyflie (+ SyncCrazyflie on top) connected through sim:// to
simdev.standard_device with tiny tables; all cflib threads (dispatcher, _ParamUpdater, latency ping,
retry timers, the driver's error thread) run under the virtual scheduler."""
import json
import random
import re

from .. import common, tlc, vsched
from ..simdev import core as sd
from ..simdev import services as sv
from ..vsched import core as vcore

HORIZON = 30.0           # virtual seconds of silence after the last stimulus = "bounded time"
PUBLIC = ('connection_requested', 'connection_failed', 'link_established', 'connected', 'fully_connected',
          'disconnected', 'connection_lost', 'disconnected_link_error')
SHORT = {'connection_requested': 'requested', 'connection_failed': 'failed', 'link_established': 'established',
         'connected': 'connected', 'fully_connected': 'fully', 'disconnected': 'disconnected',
         'connection_lost': 'lost', 'disconnected_link_error': 'dle'}
ROLE_RE = [(re.compile(r'^_IncomingPacketHandler#'), 'disp'), (re.compile(r'^_ParamUpdater#'), 'upd'),
           (re.compile(r'^Thread:_ping_thread#'), 'ping'), (re.compile(r'^simdriver#'), 'err'),
           (re.compile(r'^user#'), 'user'), (re.compile(r'^closer#'), 'closer'), (re.compile(r'^epilogue#'), 'epi'),
           (re.compile(r'^Timer#'), 'timer'),
           (re.compile(r'^simdev#'), 'dev'), (re.compile(r'^_ExtendedTypeFetcher#'), 'ext')]


def role_of(name):
    if name is None:
        return 'ctl'
    for rx, r in ROLE_RE:
        if rx.match(name):
            return r
    return 'other'


def tname(name):
    """scheduler thread name -> short unique name: role + index (disp0, ping1, err0, ...)"""
    if name is None:
        return 'ctl'
    return role_of(name) + (name.rsplit('#', 1)[1] if '#' in name else '')


def att_of(uri):
    m = re.search(r'/(\d+)$', str(uri))
    return int(m.group(1)) if m else 0


# --------------------------------------------------------------------------- device side
class LFaults(sd.Faults):
    """Per attempt: connect failure, or link failure at the k-th uplink packet of the session,
    reported by the driver's own thread or synchronously from the sending thread."""

    def __init__(self):
        self.plan = {}          # attempt -> dict(fault=[k, by] | None, connfail=0|1)
        self.attempt = 0
        self.fired = set()
        self.mark = lambda c: None      # harness hook: annotate the operation that met the fault
        self.force = None               # replay mode: the next uplink packet / connect meets this fault

    def connect(self, dev, attempt):
        self.attempt = attempt
        p = self.plan.get(attempt)
        if self.force == 'cf1':
            self.force = None
            self.fired.add(attempt)
            self.mark('cf1')
            return Exception('simulated: driver cannot open the interface')
        if p and p.get('connfail') == 1:
            self.mark('cf1')
            return Exception('simulated: driver cannot open the interface')
        return None

    def uplink(self, dev, n, pk):
        if self.force in ('sender', 'driver'):
            by, self.force = self.force, None
            self.fired.add(self.attempt)
            self.mark(by)
            return 'fail_sender' if by == 'sender' else 'fail_driver'
        p = self.plan.get(self.attempt)
        if p and p.get('fault') and self.attempt not in self.fired and n == p['fault'][0]:
            self.fired.add(self.attempt)
            self.mark(p['fault'][1])
            return 'fail_sender' if p['fault'][1] == 'sender' else 'fail_driver'
        return 'ok'


class LifoPolicy:
    """Newest runnable thread first (the mirror image of FIFO): a freshly started thread -- the driver's error
    thread, a second user thread -- runs through before the older ones continue."""

    def choose(self, sched, runnable, timed):
        if runnable:
            return runnable[-1]
        return vsched.TICK


def make_policy(spec, est=300):
    kind = spec[0]
    if kind == 'fifo':
        return vsched.FifoPolicy()
    if kind == 'lifo':
        return LifoPolicy()
    if kind == 'script':
        return vsched.ScriptPolicy(spec[1], fallback=vsched.FifoPolicy())
    rng = random.Random(spec[1])
    if kind == 'random':
        return vsched.RandomPolicy(rng)
    if kind == 'randomt':
        return vsched.RandomPolicy(rng, tick_p=0.05)
    if kind == 'pct':
        return vsched.PCTPolicy(rng, depth=3, est_steps=est)
    if kind == 'pctt':
        return vsched.PCTPolicy(rng, depth=4, est_steps=est, tick_p=0.03)
    raise ValueError(kind)


def wait_until(s, pred, timeout):
    """Harness-side blocking wait of a virtual user thread: until pred() or the virtual timeout."""
    if pred():
        return True
    return s.yield_op(vcore.Op('harness.wait', None, pred, lambda: True, deadline=s.now + timeout,
                               timeout_result=lambda: bool(pred())))


def install_shared():
    import cflib.crazyflie as cfm
    if not isinstance(cfm.Crazyflie.__dict__.get('link'), vsched.shared_attr):
        cfm.Crazyflie.link = vsched.shared_attr('link')
        cfm.Crazyflie.state = vsched.shared_attr('state')


def _silent_when_closed(self, msg):
    # environment assumption: a driver object that has been closed does not report errors any more
    if self.closed or self.link_error_callback is None:
        return
    self.link_error_callback(msg)


def _init():
    vsched.load_cflib()
    sd.install()
    sd.SimDriver.report_error = _silent_when_closed
    install_shared()


# --------------------------------------------------------------------------- one execution
EV_DEFAULT = {'th': '', 'st': '', 'att': 0, 'name': '', 'cid': 0, 'res': '', 'tocs': 0, 'vals': 0, 'k': '', 'c': '-', 'x': ''}


def _norm_ev(e):
    d = dict(EV_DEFAULT)
    d.update(e)
    return d


def execute(sc, mutant=None, want_ops=False, want_schedule=False):
    """Run one scenario against the real Crazyflie / SyncCrazyflie.  Returns the trace dict.

    sc = {'mode': 'sync'|'thread', 'resend': bool, 'nparams': 1|2, 'policy': (kind, seed|script),
          'attempts': [ {'api': 'plain'|'sync', 'fault': None|[k, 'driver'|'sender'], 'connfail': 0|1|2,
                         'close': None|j (close_link once the j-th uplink packet of the session was sent; 0 = right away),
                         'closer': 'self'|'other', 'wait_params': bool, 'settle': float} ...]}"""
    import cflib.crazyflie as cfm
    from cflib.crazyflie.syncCrazyflie import SyncCrazyflie
    ev = []
    st = {'att': 0, 'calls': {}, 'over': set(), 'ncall': 0, 'stim_t': 0.0}
    policy = make_policy(sc['policy'])
    with vsched.scheduler(policy, site_info=True, max_steps=sc.get('max_steps', 40000)) as s:
        w = sd.set_world(sd.World())
        params = [
            {'group': b'ring', 'name': b'effect', 'type': 0x08, 'value': b'\x06', 'default': b'\x06', 'ext': 0},
            {'group': b'pid', 'name': b'kp', 'type': 0x06, 'value': b'\x00\x00\xc0\x3f', 'default': b'\x00\x00\x80\x3f', 'ext': 0},
        ][:sc.get('nparams', 2)]
        dev = sv.standard_device(param_entries=params, mode=sc.get('mode', 'sync'),
                                 needs_resending=bool(sc.get('resend')))
        faults = LFaults()
        dev.faults = faults
        w.add('0', dev)
        log_names = {'pm.vbat'}
        param_names = {'%s.%s' % (p['group'].decode(), p['name'].decode()) for p in params}
        cf = cfm.Crazyflie(rw_cache=None)
        undo = mutant(cf) if mutant else None
        if callable(undo):
            s.c02_undo = undo

        def me():
            r = s.current()
            return tname(r.name if r is not None else None)

        def facts():
            try:
                lt = cf.log.toc.toc if cf.log.toc is not None else {}
                have_l = {'%s.%s' % (g, n) for g in lt for n in lt[g]}
                pt = cf.param.toc.toc
                have_p = {'%s.%s' % (g, n) for g in pt for n in pt[g]}
                vals = {'%s.%s' % (g, n) for g in cf.param.values for n in cf.param.values[g]}
            except Exception:
                return 0, 0
            return int(have_l == log_names and have_p == param_names), int(param_names <= vals)

        def observer(name):
            def cb(*a):
                att = att_of(a[0]) if a else 0
                tocs, vals = facts()
                if name in ('disconnected', 'connection_failed'):
                    st['over'].add(att)
                ev.append({'e': 'cb', 'name': SHORT[name], 'att': att, 'th': me(), 'tocs': tocs, 'vals': vals})
            return cb
        for nm in PUBLIC:
            getattr(cf, nm).add_callback(observer(nm))

        def call(kind, att, fn):
            """bracket one API call / one failure report with begin/end events"""
            st['ncall'] += 1
            cid = st['ncall']
            th = me()
            ev.append({'e': kind, 'att': att, 'th': th, 'cid': cid})
            st['calls'][cid] = (kind, att, th)
            if kind in ('close', 'lerr'):
                st['stim_t'] = s.now
            try:
                fn()
                res = 'ret'
            except vcore.Kill:
                raise
            except Exception as ex:
                import traceback
                res = 'raise'
                st['last_exc'] = repr(ex)[:200]
                site, exc = _exc_site(traceback.format_exc())
                ev.append({'e': kind + '_end', 'att': att, 'th': th, 'cid': cid, 'res': res, 'x': '%s@%s' % (exc, site)})
                del st['calls'][cid]
                raise
            ev.append({'e': kind + '_end', 'att': att, 'th': th, 'cid': cid, 'res': res})
            del st['calls'][cid]
            return res

        def quiet_call(kind, att, fn):
            try:
                return call(kind, att, fn)
            except vcore.Kill:
                raise
            except Exception:
                return 'raise'

        def safe(fn):
            try:
                fn()
            except vcore.Kill:
                raise
            except Exception:
                pass

        # harness instrumentation of the three entry points of the lifecycle: instance attributes that
        # forward to the real bound methods (open_link hands cf._link_error_cb to the driver)
        real_lerr, real_open, real_close = cf._link_error_cb, cf.open_link, cf.close_link
        from harness.vsched import vthreading as _vt

        def lerr_entry(errmsg):
            # 1990dc5: a report made from inside send_packet is only remembered; send_packet calls _link_error_cb again
            # after it released _send_lock -- that second call is the report that is bracketed
            se = getattr(cf, '_sender_errors', None)
            if se is not None and se.get(_vt.current_thread()) is not None:
                return real_lerr(errmsg)
            return call('lerr', faults.attempt, lambda: real_lerr(errmsg))
        cf._link_error_cb = lerr_entry
        cf.open_link = lambda uri: call('open', att_of(uri), lambda: real_open(uri))
        cf.close_link = lambda: call('close', st['att'], real_close)

        scfs = {}

        def uri_for(n, a):
            return ('nodrv://0/%d' if a.get('connfail') == 2 else 'sim://0/%d') % n

        def session_sent(n, j):
            return faults.attempt == n and dev.session > 0 and dev.up_n >= j

        def do_attempt(n, a):
            st['att'] = n
            faults.plan[n] = a
            uri = uri_for(n, a)
            closer = None
            j = a.get('close')
            if j is not None and a.get('closer') == 'other':
                def closer_body():
                    wait_until(s, lambda: session_sent(n, j) or n in st['over'], 30.0)
                    safe(cf.close_link)
                closer = s.spawn(closer_body, 'closer')
            if a['api'] == 'sync':
                scf = scfs.get('scf')
                if scf is None:
                    scf = SyncCrazyflie(uri, cf=cf)
                    scfs['scf'] = scf
                scf._link_uri = uri
                res = quiet_call('sopen', n, scf.open_link)
                if res == 'ret' and a.get('wait_params'):
                    quiet_call('waitp', n, scf.wait_for_params)
                if a.get('closer') != 'other':
                    if res == 'ret':
                        wait_until(s, lambda: (j is not None and session_sent(n, j)) or n in st['over'],
                                   a.get('linger', 1.0))
                    # also after a raised open_link (Swarm.open_links closes every member after any failure)
                    quiet_call('sclose', n, scf.close_link)
            else:
                safe(lambda: cf.open_link(uri))
                if a.get('closer') != 'other':
                    if j is not None:
                        wait_until(s, lambda: session_sent(n, j) or n in st['over'], 30.0)
                        safe(cf.close_link)
                    else:
                        wait_until(s, lambda: n in st['over'], a.get('linger', 1.0))
            if closer is not None:
                wait_until(s, lambda: closer.finished, 60.0)
            if n not in st['over']:
                # nothing ended this attempt (fault position beyond the traffic): the user closes it
                wait_until(s, lambda: n in st['over'], a.get('linger', 1.0))
                if n not in st['over']:
                    safe(cf.close_link)
            if a.get('settle'):
                wait_until(s, lambda: False, a['settle'])

        def user():
            for i, a in enumerate(sc['attempts']):
                do_attempt(i + 1, a)

        err_atts = []
        orig_fail_driver = dev._fail_driver

        def fail_driver(link):
            err_atts.append(faults.attempt)
            return orig_fail_driver(link)
        dev._fail_driver = fail_driver
        if want_ops:
            install_op_log(s, ev, cf, scfs)

            def mark(c):
                if ev and ev[-1]['e'] == 'op' and ev[-1]['th'] == me():
                    ev[-1]['c'] = c
            faults.mark = mark
        rp = None
        if sc.get('script') is not None:
            u, rp = follow_script(s, sc, cf, ev, st, faults, err_atts, scfs, safe, quiet_call)
        else:
            u = s.spawn(user, 'user')
        # Virtual time may jump (tick policies), so every horizon is relative to the clock at the moment of the call
        # (an absolute horizon that is already past would set the clock BACK).  The user phase ends when the user program
        # is through or HORIZON+60 virtual seconds pass without any call / callback event.
        while True:
            n0 = sum(1 for e in ev if e['e'] != 'op')
            why = s.run(until=lambda: u.finished, horizon=s.now + HORIZON + 60.0)
            if why != 'horizon' or sum(1 for e in ev if e['e'] != 'op') == n0:
                break
        t_q = max(s.now, st['stim_t']) + HORIZON
        why2 = s.run(horizon=t_q)
        rep = s.report()
        q = quiescence(s, rep, cf, st, why, why2)
        ev.append({'e': 'quiet'})
        # epilogue: the same object must connect again (fault-free attempt N+1)
        n_epi = len(sc['attempts']) + 1

        def epilogue():
            faults.plan[n_epi] = {}
            st['att'] = n_epi
            safe(lambda: cf.open_link('sim://0/%d' % n_epi))
            wait_until(s, lambda: any(e['e'] == 'cb' and e['att'] == n_epi and e['name'] == 'fully' for e in ev), 45.0)
        e_th = s.spawn(epilogue, 'epilogue')
        # the epilogue runs under a schedule in which time advances only when no thread can run (its own bounded
        # wait must not be cut short by a "slow thread" tick)
        pk = sc['policy'][0]
        epi_pol = make_policy((pk[:-1], sc['policy'][1] + 1)) if pk in ('randomt', 'pctt') else None
        why3 = s.run(until=lambda: e_th.finished, horizon=s.now + 60.0, policy=epi_pol)
        names = [e['name'] for e in ev if e['e'] == 'cb' and e['att'] == n_epi]
        ev.append({'e': 'epi'})
        rep3 = s.report()
        epi = {'att': n_epi, 'connected': int('connected' in names), 'fully': int('fully' in names),
               'done': int(e_th.finished), 'run': why3,
               'blocked': [{'role': role_of(x['name']), 'op': x.get('op', ''), 'fn': (x.get('site') or ['', '', 0])[1]}
                           for x in rep3 if x['status'] == 'blocked' and not (x.get('op') == 'queue.get' and role_of(x['name']) in ('upd', 'ext', 'dev'))
                           and role_of(x['name']) not in ('user', 'closer')]}
        schedule = list(s.trace) if want_schedule else None
        detail = {'why': [why, why2, why3],
                  'threads': [(t['name'], t['status'], t.get('op'), t.get('site')) for t in rep if t['status'] != 'finished'],
                  'dead': [(t['name'], t.get('traceback', '')[-1200:]) for t in rep if t['status'] == 'dead'],
                  'exc': st.get('last_exc'), 'steps': s.steps}
    if getattr(s, 'c02_undo', None):
        s.c02_undo()
    return {'ev': finish_events(ev, sc, err_atts), 'n': len(sc['attempts']), 'q': q, 'epi': epi, 'detail': detail,
            'schedule': schedule, 'cm': int(bool(want_ops and conformable(sc))), 'replay': rp}


# --------------------------------------------------------------------------- spec -> code
SPEC_STATE = {'DISC': 0, 'INIT': 1, 'CONN': 2}


def follow_script(s, sc, cf, ev, st, faults, err_atts, scfs, safe, quiet_call):
    """Drive the real code along a TLC behaviour of Lifecycle (as-is variant).  sc['script'] is the
    behaviour: [[action name, args, post-state], ...].  A thread step grants exactly the named
    thread's pending visible operation and lets every thread run on through invisible operations;
    user calls are started through gated command lists.  After every step the real objects are
    projected onto the spec variables (state, link, _send_lock owner, callback words, dead threads)
    and compared with the post-state."""
    from cflib.crazyflie.syncCrazyflie import SyncCrazyflie
    script = sc['script']
    cmds = {'user': [], 'closer': []}
    rp = {'steps': 0, 'matched': 0, 'first': None, 'impossible': 0}

    def run_cmd(c):
        kind = c[0]
        if kind == 'open':
            st['att'] = c[1]
            faults.plan.setdefault(c[1], {})
            safe(lambda: cf.open_link(c[2]))
        elif kind == 'sopen':
            scf = scfs.get('scf')
            if scf is None:
                scf = SyncCrazyflie(c[2], cf=cf)
                scfs['scf'] = scf
            scf._link_uri = c[2]
            st['att'] = c[1]
            faults.plan.setdefault(c[1], {})
            quiet_call('sopen', c[1], scf.open_link)
        elif kind == 'close':
            safe(cf.close_link)
        elif kind == 'sclose':
            if scfs.get('scf') is not None:
                quiet_call('sclose', st['att'], scfs['scf'].close_link)
        elif kind == 'close_if_open':
            if st['att'] and st['att'] not in st['over']:
                safe(cf.close_link)

    def prog(name):
        def body():
            while True:
                wait_until(s, lambda: bool(cmds[name]), 1e9)
                c = cmds[name].pop(0)
                if c[0] == 'stop':
                    return
                run_cmd(c)
        return body
    recs = {'user': s.spawn(prog('user'), 'user')}
    if any(x[0] == 'CClose' for x in script):
        recs['closer'] = s.spawn(prog('closer'), 'closer')

    def real_thread(t):
        if t in recs:
            return recs[t]
        if t == 'disp':
            return s.by_name.get('_IncomingPacketHandler#0')
        if t == 'upd':
            return s.by_name.get('_ParamUpdater#0')
        if t == 'ping':
            k = s._name_ctr.get('Thread:_ping_thread', 0)
            return s.by_name.get('Thread:_ping_thread#%d' % (k - 1)) if k else None
        if t.startswith('err'):
            n = int(t[3:])
            idx = [i for i, a in enumerate(err_atts) if a == n]
            return s.by_name.get('simdriver#%d' % idx[-1]) if idx else None
        return None

    def spec_name(real_name):
        r = role_of(real_name)
        if r == 'err':
            i = int(real_name.rsplit('#', 1)[1])
            return 'err%d' % err_atts[i] if i < len(err_atts) else 'err?'
        return r

    def settle_all():
        for _round in range(50):
            progress = False
            for rec in list(s.threads):
                n = 0
                while rec.pending is not None and not rec.finished and n < 300:
                    op = rec.pending
                    k = op_kind(op, cf)
                    userlike = role_of(rec.name) in ('user', 'closer', 'epi')
                    if k is not None and not (k == 'begin' and userlike):
                        break
                    if not op.ready():
                        break
                    s.trace.append(rec.name)
                    s.step_thread(rec)
                    n += 1
                    progress = True
            if not progress:
                return

    def project():
        link = cf.__dict__.get('link')
        lock = cf._send_lock
        words = {}
        for e in ev:
            if e['e'] == 'cb':
                words.setdefault(e['att'], []).append(e['name'])
        dead = {spec_name(r.name) for r in s.threads if r.dead is not None}
        return {'state': cf.__dict__.get('state'), 'link': att_of(link.uri) if link is not None else 0,
                'lock': spec_name(lock._owner) if lock.locked() else 'free', 'words': words, 'dead': dead}

    def compare(post):
        g = post['g']
        pr = project()
        w_spec = {a: list(v) for a, v in enumerate(post['words']) if v} if isinstance(post['words'], list) else \
                 {a: list(v) for a, v in post['words'].items() if v}
        ok = (SPEC_STATE[g['state']] == pr['state'] and g['link'] == pr['link'] and g['lock'] == pr['lock'] and
              w_spec == {a: v for a, v in pr['words'].items() if v} and set(g['dead']) == pr['dead'])
        return ok, pr

    settle_all()
    for i, (name, args, post) in enumerate(script):
        if name == 'EOpen':
            break
        rp['steps'] += 1
        possible = True
        if name == 'Step':
            t, ch = args
            rec = real_thread(t)
            if rec is None or rec.finished or rec.pending is None or op_kind(rec.pending, cf) is None:
                possible = False
            else:
                op = rec.pending
                k = op_kind(op, cf)
                if not op.ready() and k not in ('recv', 'sleep'):
                    possible = False
                else:
                    if ch in ('sender', 'driver', 'cf1'):
                        faults.force = ch
                    if ch == 'to':
                        op.ready = lambda: False        # the poll times out although a packet may be there
                    s.trace.append(rec.name)
                    s.step_thread(rec)
                    faults.force = None
        else:
            n = st.get('next_att', 1)
            if name in ('UOpen', 'USOpen'):
                # the connect choice (ok / cf1 / cf2) is taken at the user's next 'ws' step: look ahead
                ch = '-'
                for (n2, a2, _p2) in script[i + 1:]:
                    if n2 == 'Step' and a2[0] == 'user':
                        ch = a2[1]
                        break
                uri = ('nodrv://0/%d' if ch == 'cf2' else 'sim://0/%d') % n
                st['next_att'] = n + 1
                cmds['user'].append(('open' if name == 'UOpen' else 'sopen', n, uri))
            elif name == 'UClose':
                cmds['user'].append(('close',))
            elif name == 'USClose':
                cmds['user'].append(('sclose',))
            elif name == 'CClose':
                cmds['closer'].append(('close',))
        if not possible:
            rp['impossible'] += 1
            if rp['first'] is None:
                rp['first'] = [i, name, args, 'thread cannot take this step']
            break
        settle_all()
        ok, pr = compare(post)
        if ok:
            rp['matched'] += 1
        elif rp['first'] is None:
            rp['first'] = [i, name, args, {k: (sorted(v) if isinstance(v, set) else v) for k, v in pr.items()},
                           {'state': post['g']['state'], 'link': post['g']['link'], 'lock': post['g']['lock'],
                            'dead': sorted(post['g']['dead']), 'words': post['words']}]
    rp['len'] = next((i for i, x in enumerate(script) if x[0] == 'EOpen'), len(script))
    # the scripted part is over: the user ends the last attempt if nothing did, everything runs on
    cmds['user'].append(('close_if_open',))
    cmds['user'].append(('stop',))
    cmds['closer'].append(('stop',))
    return recs['user'], rp


def conformable(sc):
    """scenarios whose executions the design spec is meant to explain event by event"""
    return (sc.get('mode', 'sync') == 'sync' and not sc.get('resend') and sc.get('nparams', 2) == 2 and
            len(sc['attempts']) <= 3 and not any(a.get('wait_params') for a in sc['attempts']))


def finish_events(ev, sc, err_atts):
    """normalise the records; name the design-spec thread of every event; drop the thread-begin
    operations of the harness' own user threads; mark the 'no driver' choice"""
    out = []
    cf2 = {i + 1 for i, a in enumerate(sc['attempts']) if a.get('connfail') == 2}
    pending_cf2 = {}
    for e in ev:
        th = e.get('th', '')
        m = re.match(r'^([a-z]+)(\d*)$', th)
        role, idx = (m.group(1), m.group(2)) if m else (th, '')
        if role == 'err':
            i = int(idx or 0)
            st = 'err%d' % err_atts[i] if i < len(err_atts) else 'err0'
        else:
            st = role
        if e['e'] == 'op' and role in ('user', 'closer', 'epi') and e['k'] == 'begin':
            continue
        d = _norm_ev(e)
        d['st'] = st
        if e['e'] == 'open' and e.get('att') in cf2:
            pending_cf2[th] = True
        if e['e'] == 'op' and e['k'] == 'ws' and pending_cf2.pop(th, False):
            d['c'] = 'cf2'
        out.append(d)
    return compress_idle(out)


def compress_idle(evs):
    """The dispatcher's idle poll while link is None (read link -> sleep(1)) returns the design spec to the same
    state; of every run of such pairs only the first is kept (the traces stay explainable step by step)."""
    keep = [True] * len(evs)
    disp_ops = [i for i, e in enumerate(evs) if e['e'] == 'op' and e['st'] == 'disp']
    seen_pair = False
    j = 0
    while j + 1 < len(disp_ops):
        a, b = disp_ops[j], disp_ops[j + 1]
        if evs[a]['k'] == 'rl' and evs[b]['k'] == 'sleep':
            if seen_pair:
                keep[a] = keep[b] = False
            seen_pair = True
            j += 2
        else:
            seen_pair = False
            j += 1
    return [e for e, k in zip(evs, keep) if k]


def quiescence(s, rep, cf, st, why, why2):
    """The scheduler's quiescence report as plain facts (judged by LifecycleProps, not here)."""
    threads = []
    for t in rep:
        if t['status'] == 'finished':
            continue
        site = t.get('site') or ['', '', 0]
        threads.append({'role': role_of(t['name']), 'name': tname(t['name']), 'status': t['status'],
                        'op': t.get('op', ''), 'file': site[0], 'fn': site[1]})
    pending = [{'kind': k, 'att': a, 'th': th} for (k, a, th) in st['calls'].values()]
    lock = cf._send_lock
    return {'run': why2, 'user_done': int(why == 'until'), 'threads': threads, 'pending': pending,
            'sendlock': int(bool(lock.locked())), 'owner': tname(lock._owner) if lock.locked() else '',
            'state': int(cf.__dict__.get('state', -1)), 'linknone': int(cf.__dict__.get('link') is None),
            'disp_alive': int(bool(cf.incoming.is_alive()) or not cf.incoming._vs_started)}


def op_kind(op, cf):
    """Classification of a pending scheduler operation: the visible kind, or None (invisible:
    runs as part of the thread's previous visible step in the design spec)."""
    k = op.kind
    if k.startswith('attr.'):
        return {'attr.read:link': 'rl', 'attr.write:link': 'wl', 'attr.read:state': 'rs', 'attr.write:state': 'ws'}.get(k)
    if k == 'lock.acquire' or k == 'lock.release':
        if op.obj is cf.__dict__.get('_send_lock'):
            return 'acq' if k == 'lock.acquire' else 'rel'
        pu = cf.__dict__.get('param')
        if pu is not None and op.obj is pu.param_updater.wait_lock:
            return 'wacq' if k == 'lock.acquire' else 'wrel'
        return None
    if k == 'queue.get':
        pu = cf.__dict__.get('param')
        if pu is not None and op.obj is pu.param_updater.request_queue:
            return 'qget'
        if op.site and op.site[1] == 'receive_packet':
            return 'recv'
        return None
    if k == 'queue.put':
        pu = cf.__dict__.get('param')
        if pu is not None and op.obj is pu.param_updater.request_queue:
            return 'qput'
        return None
    if k == 'thread.join':
        return 'join'
    if k == 'thread.begin':
        return 'begin'
    if k == 'sleep':
        return 'sleep'
    if k in ('event.wait', 'event.set') and op.site and op.site[0] == 'syncCrazyflie.py':
        return 'swait' if k == 'event.wait' else 'sset'
    return None


def install_op_log(s, ev, cf, scfs):
    """Log every visible scheduling operation at the moment it is granted (before the thread runs
    on), so that the callbacks it causes follow it in the event list."""
    orig = s.step_thread

    def step_thread(rec):
        op = rec.pending
        if op is not None:
            k = op_kind(op, cf)
            if k is not None:
                c = 'to' if (k == 'recv' and not op.ready()) else '-'
                ev.append({'e': 'op', 'th': tname(rec.name), 'k': k, 'c': c})
        return orig(rec)
    s.step_thread = step_thread


# --------------------------------------------------------------------------- which as-is behaviours does the tree have
# class E (lifecycle races) is not repaired in /repo; these two have no structural footprint of their own
ASSUMED_ASIS = ['dispStalePk']
_defects_cache = {}


def _probe_send_finally():
    """does send_packet leave _send_lock held when the driver's send_packet raises?"""
    import cflib.crazyflie as cfm
    from cflib.crtp.crtpstack import CRTPPacket

    class RaisingLink:
        needs_resending = False

        def send_packet(self, pk):
            raise ValueError('probe')

        def receive_packet(self, wait=0):
            return None

        def close(self):
            pass
    with vsched.scheduler(vsched.FifoPolicy(), max_steps=2000) as s:
        sd.set_world(sd.World())
        cf = cfm.Crazyflie(rw_cache=None)
        cf.link = RaisingLink()

        def body():
            try:
                cf.send_packet(CRTPPacket(0xF3, b''))
            except ValueError:
                pass
        u = s.spawn(body, 'user')
        s.run(until=lambda: u.finished, horizon=5.0)
        return bool(cf._send_lock.locked())


def _probe_upd_double_release():
    """does _ParamUpdater.run die when close() released wait_lock between its acquire and its release?"""
    import cflib.crazyflie as cfm
    from cflib.crtp.crtpstack import CRTPPacket
    with vsched.scheduler(vsched.FifoPolicy(), max_steps=2000) as s:
        sd.set_world(sd.World())
        cf = cfm.Crazyflie(rw_cache=None)
        pu = cf.param.param_updater
        rec = pu._vs_rec
        pk = CRTPPacket()
        pk.set_header(2, 1)
        pk.data = b'\x00\x00'
        pu.request_queue.put(pk)
        for _ in range(60):
            op = rec.pending
            if op is None or rec.finished or (op.kind == 'lock.release' and op.obj is pu.wait_lock) or not op.ready():
                break
            s.step_thread(rec)
        if rec.pending is None or rec.pending.kind != 'lock.release':
            return False
        pu.close()
        s.step_thread(rec)
        return rec.dead is not None


def detect_defects():
    """Which as-is behaviours (switches of Lifecycle.tla) does the tree under test have?  Every switch is measured:
    structurally (visible-operation patterns of reference runs) or behaviourally (a canonical witness scenario / a
    direct probe of the code site).  The conformance binding and the as-is counterexample searches use this set, so
    they follow repairs and regressions of /repo."""
    if 'd' in _defects_cache:
        return _defects_cache['d']

    def ops_of(t):
        by = {}
        for e in t['ev']:
            if e['e'] == 'op':
                by.setdefault(e['st'], []).append(e['k'])
        return by

    def has(seq, sub):
        return any(seq[i:i + len(sub)] == sub for i in range(len(seq)))
    d = list(ASSUMED_ASIS)
    # structural: close by the user, then a driver-reported failure after connected (ping thread exists)
    t = execute({'mode': 'sync', 'policy': ('fifo', 0),
                 'attempts': [{'api': 'plain', 'close': 12}, {'api': 'plain', 'fault': [14, 'driver']}]}, want_ops=True)
    by = ops_of(t)
    if has(by.get('user', []), ['acq', 'rl', 'rl', 'rel']):
        d.append('sendReread')
    if has(by.get('disp', []), ['rl', 'rl', 'recv']):
        d.append('dispReread')
    if has(by.get('user', []), ['rel', 'rl', 'rl', 'wl']):
        d.append('closeReread')
    if has(by.get('err2', []), ['rs', 'rl', 'rl', 'wl']):
        d.append('errReread')
    if has(by.get('user', []), ['ws', 'wl', 'rl']):
        d.append('openReread')
    if not has(by.get('disp', []), ['recv', 'rl', 'acq']):
        d.append('staleFetcher')            # no link-identity read in the TocFetcher callbacks
    if 'join' in by.get('err2', []):
        d.append('stopJoins')
    ev = t['ev']
    idx_disc = [i for i, e in enumerate(ev) if e['e'] == 'cb' and e['st'] == 'err2' and e['name'] == 'disconnected']
    idx_ws = [i for i, e in enumerate(ev) if e['e'] == 'op' and e['st'] == 'err2' and e['k'] == 'ws']
    if idx_disc and idx_ws and idx_ws[-1] > idx_disc[0]:
        d.append('errStateRace')            # state read before, written after the callbacks, no mutual exclusion
    # behavioural: canonical witnesses
    t = execute({'mode': 'sync', 'policy': ('fifo', 0), 'attempts': [{'api': 'plain', 'fault': [3, 'sender']}]}, want_ops=True)
    sender = next((e['st'] for e in t['ev'] if e['e'] == 'op' and e['c'] == 'sender'), None)
    so = [e for e in t['ev'] if e['e'] == 'op' and e['st'] == sender]
    k0 = next((i for i, e in enumerate(so) if e['c'] == 'sender'), None)
    if k0 is not None:
        after = [e['k'] for e in so[k0 + 1:]]
        if 'wl' in after and 'rel' in after and after.index('wl') < after.index('rel'):
            d.append('errInSender')         # the tear-down (link = None) runs before _send_lock is released
    t = execute({'mode': 'sync', 'policy': ('fifo', 0), 'attempts': [{'api': 'sync', 'fault': [2, 'sender']}]}, want_ops=True)
    if any(p_['kind'] == 'sopen' for p_ in t['q']['pending']):
        d.append('syncOpenNoWake')
    if 'stopJoins' in d:
        t = execute({'mode': 'sync', 'policy': ('fifo', 0), 'attempts': [{'api': 'plain', 'fault': [12, 'sender']}]}, want_ops=True)
        if any(role_of(n) == 'ping' and 'stop' in tb for (n, tb) in t['detail']['dead']):
            d.append('pingSelfJoin')
    if _probe_send_finally():
        d.append('sendNoFinally')
    if _probe_upd_double_release():
        d.append('updDoubleRelease')
    _defects_cache['d'] = sorted(d)
    return _defects_cache['d']


def scenario_from_behaviour(beh, policy=('fifo', 0)):
    """TLC behaviour [(label, state), ...] of Lifecycle -> scenario with a step script"""
    script, attempts = [], []
    for label, stt in beh[1:]:
        name, args = tlc.parse_label(label)
        script.append([name, list(args), {'g': stt['g'], 'words': stt['words']}])
    for i, (name, args, _post) in enumerate(script):
        if name in ('UOpen', 'USOpen'):
            ch = '-'
            for (n2, a2, _p2) in script[i + 1:]:
                if n2 == 'Step' and a2[0] == 'user':
                    ch = a2[1]
                    break
            attempts.append({'api': 'plain' if name == 'UOpen' else 'sync', 'connfail': 2 if ch == 'cf2' else 0})
    return {'mode': 'sync', 'policy': policy, 'attempts': attempts, 'script': script}


# --------------------------------------------------------------------------- in-memory mutants (sensitivity)
def _mut_lerr(variant):
    def install(cf):
        def lerr(errmsg):
            if cf.link is not None:
                cf.link.close()
            cf.link = None
            cf._answer_patterns = {}
            if cf.state == 1:
                if variant == 'failed_as_lost':
                    cf.disconnected.call(cf.link_uri)
                    cf.connection_lost.call(cf.link_uri, errmsg)
                else:
                    cf.connection_failed.call(cf.link_uri, errmsg)
            elif cf.state in (2, 3):
                if variant == 'no_lost':
                    cf.disconnected.call(cf.link_uri)
                elif variant == 'lost_first':
                    cf.connection_lost.call(cf.link_uri, errmsg)
                    cf.disconnected.call(cf.link_uri)
                elif variant == 'double_disconnected':
                    cf.disconnected.call(cf.link_uri)
                    cf.disconnected.call(cf.link_uri)
                    cf.connection_lost.call(cf.link_uri, errmsg)
                else:
                    cf.disconnected.call(cf.link_uri)
                    cf.connection_lost.call(cf.link_uri, errmsg)
            elif cf.state == 0:
                cf.disconnected_link_error.call(cf.link_uri, errmsg)
            cf.state = 0
        cf._link_error_cb = lerr
    return install


def _mut_connected_early(cf):
    orig = cf._log_toc_updated_cb

    def log_done():
        cf.connected.call(cf.link_uri)          # before the parameter table exists
        orig()
    cf._log_toc_updated_cb = log_done


def _mut_fully_early(cf):
    orig = cf._param_toc_updated_cb

    def param_done():
        orig()
        cf.fully_connected.call(cf.link_uri)    # before any value arrived
    cf._param_toc_updated_cb = param_done


def _mut_close_silent(cf):
    def close_link():
        if cf.link is not None:
            cf.commander.send_setpoint(0, 0, 0, 0)
            cf.link.close()
            cf.link = None
            cf._answer_patterns = {}
            if cf.state == 2:
                cf.disconnected.call(cf.link_uri)      # forgets the callback when closing during set-up
        cf.state = 0
    cf.close_link = close_link


def _mut_established_again(cf):
    orig = cf._disconnected

    def disc(uri):
        orig(uri)
        cf.link_established.call(uri)           # a set-up callback after the attempt's disconnected
    cbs = cf.disconnected.callbacks
    for i, cb in enumerate(cbs):
        if getattr(cb, '__name__', '') == '_disconnected' and getattr(cb, '__self__', None) is cf:
            cbs[i] = disc


# ---- the seven repairs of /repo (89ee29b 12cf4de 8221480 4d1c0f8 dab8b8e 6c1c06c 7e90fbe) reverted in memory --------
def _rev_sync_wake(cf):
    from cflib.crazyflie.syncCrazyflie import SyncCrazyflie
    orig = SyncCrazyflie._disconnected

    def _disconnected(self, link_uri):          # pre-fix: does not wake a pending open_link
        self._remove_callbacks()
        self._is_link_open = False
        if self._disconnect_event:
            self._disconnect_event.set()
    SyncCrazyflie._disconnected = _disconnected
    return lambda: setattr(SyncCrazyflie, '_disconnected', orig)


def _rev_disp_reread(cf):
    from harness.vsched import vtime
    inc = cf.incoming

    def run():                                  # pre-fix: test self.cf.link, then read it again
        while True:
            if inc.cf.link is None:
                vtime.sleep(1)
                continue
            pk = inc.cf.link.receive_packet(1)
            if pk is None:
                continue
            inc.cf.packet_received.call(pk)
            for cb in [cb for cb in inc.cb if cb.port == (pk.port & cb.port_mask) and cb.channel == (pk.channel & cb.channel_mask)]:
                try:
                    cb.callback(pk)
                except Exception:
                    pass
    inc.run = run


def _rev_close_reread(cf):
    def lerr(errmsg):                           # pre-fix _link_error_cb
        cf.state                                # (argument of the log message)
        if cf.link is not None:
            cf.link.close()
        cf.link = None
        cf._answer_patterns = {}
        if cf.state == 1:
            cf.connection_failed.call(cf.link_uri, errmsg)
        elif cf.state == 2 or cf.state == 3:
            cf.disconnected.call(cf.link_uri)
            cf.connection_lost.call(cf.link_uri, errmsg)
        elif cf.state == 0:
            cf.disconnected_link_error.call(cf.link_uri, errmsg)
        cf.state = 0

    def close_link():                           # pre-fix close_link
        if cf.link is not None:
            cf.commander.send_setpoint(0, 0, 0, 0)
        if cf.link is not None:
            cf.link.close()
            cf.link = None
        cf._answer_patterns = {}
        cf.disconnected.call(cf.link_uri)
        cf.state = 0
    cf._link_error_cb = lerr
    cf.close_link = close_link


def _rev_latency_join(cf):
    from harness.vsched import vthreading, vtime
    lat = cf.link_statistics.latency

    def start():                                # pre-fix Latency: shared stop event, stop() joins
        if lat._ping_thread_instance is None or not lat._ping_thread_instance.is_alive():
            lat._stop_event.clear()
            lat._ping_thread_instance = vthreading.Thread(target=_ping_thread)
            lat._ping_thread_instance.start()

    def stop():
        lat._stop_event.set()
        if lat._ping_thread_instance is not None:
            lat._ping_thread_instance.join()
            lat._ping_thread_instance = None

    def _ping_thread(interval=0.1):
        while not lat._stop_event.is_set():
            lat.ping()
            vtime.sleep(interval)
    lat.start, lat.stop = start, stop


def _rev_sender_deferral(cf):
    """1990dc5 reverted: _link_error_cb never finds a remembered-errors entry, so a report made from inside
    send_packet is handled at once, under _send_lock.  For C02 this is observable only together with the join in
    Latency.stop (dab8b8e reverted as well)."""
    class NoDefer(dict):
        def get(self, key, default=None):
            return None
    cf._sender_errors = NoDefer()
    _rev_latency_join(cf)


def _rev_send_finally(cf):
    from harness.vsched.vthreading import Timer
    _rev_close_reread(cf)                       # observable only together with an exception inside send_packet

    def send_packet(pk, expected_reply=(), resend=False, timeout=0.2):     # pre-fix: no try/finally
        if not pk.is_data_size_valid():
            raise Exception('Data part of packet is too large')
        cf._send_lock.acquire()
        link = cf.link
        answer_patterns = cf._answer_patterns
        if link is not None:
            if len(expected_reply) > 0 and not resend and link.needs_resending:
                pattern = (pk.header,) + expected_reply
                t = Timer(timeout, lambda: cf._no_answer_do_retry(pk, pattern, timeout))
                t.request = pk
                answer_patterns[pattern] = t
                t.start()
            elif resend:
                pattern = expected_reply
                pending = answer_patterns.get(pattern)
                if pending is not None and pending.request is pk:
                    t = Timer(timeout, lambda: cf._no_answer_do_retry(pk, pattern, timeout))
                    t.request = pk
                    answer_patterns[pattern] = t
                    t.start()
                else:
                    cf._send_lock.release()
                    return
            link.send_packet(pk)
            cf.packet_sent.call(pk)
        cf._send_lock.release()
    cf.send_packet = send_packet


def _rev_upd_release(cf):
    import sys
    from harness.vsched import vthreading
    pu = cf.param.param_updater

    class PreFixLock(vthreading.Lock):
        """_ParamUpdater.run's own release of an unlocked lock is not tolerated (pre-fix: no try/except there)"""
        def release(self):
            from_run = sys._getframe(1).f_code.co_name == 'run'

            def fire():
                if not self._locked:
                    if from_run:
                        raise AssertionError('release unlocked lock (pre-fix _ParamUpdater.run)')
                    raise RuntimeError('release unlocked lock')
                self._locked = False
                self._owner = None
            return vthreading._do(vcore.Op('lock.release', self, lambda: True, fire))
    pu.wait_lock = PreFixLock()


def _rev_fetcher_check(cf):
    """pre-fix TocFetcher: the link-identity lines are cut out of the current source (so also their reads of cf.link)"""
    import inspect
    import textwrap
    import cflib.crazyflie.toc as tocm
    TocFetcher = tocm.TocFetcher
    orig_cb, orig_start = TocFetcher._new_packet_cb, TocFetcher.start

    def strip(fn, drop_from, n):
        lines = textwrap.dedent(inspect.getsource(fn)).splitlines()
        i = next((k for k, ln in enumerate(lines) if drop_from in ln), None)
        if i is None:
            return fn
        j = i
        while j > 0 and lines[j - 1].strip().startswith('#'):
            j -= 1
        del lines[j:i + n]
        ns = {}
        exec(compile('\n'.join(lines), '<pre-fix TocFetcher>', 'exec'), tocm.__dict__, ns)
        return ns[fn.__name__]
    TocFetcher._new_packet_cb = strip(orig_cb, 'if self.cf.link is not self._link', 5)
    TocFetcher.start = strip(orig_start, 'self._link = self.cf.link', 1)

    def undo():
        TocFetcher._new_packet_cb, TocFetcher.start = orig_cb, orig_start
    return undo


# name -> (installer, switches of Lifecycle.tla it turns back on, cfg overrides, invariant that exposes it)
REVERTS = {
    'revert:89ee29b-sync-wake': (_rev_sync_wake, ['syncOpenNoWake'], {'UseSync': 'TRUE'}, 'QuietOK'),
    'revert:12cf4de-dispatcher-link-once': (_rev_disp_reread, ['dispReread'], {}, 'NoThreadDies'),
    'revert:8221480-close-link-once': (_rev_close_reread, ['closeReread', 'errReread'], {'Closer': 'TRUE'}, 'NoThreadDies'),
    'revert:1990dc5-sender-error-after-unlock': (_rev_sender_deferral, ['errInSender', 'stopJoins', 'pingSelfJoin'],
                                                 {'FaultBy': '{"sender"}', 'MaxPings': 1}, 'NoJoinUnderSendLock'),
    'revert:4d1c0f8-send-finally': (_rev_send_finally, ['sendNoFinally', 'closeReread', 'errReread', 'errInSender'],
                                    {'Closer': 'TRUE', 'FaultBy': '{"sender"}'}, 'NoLeakedSendLock'),
    'revert:dab8b8e-latency-no-join': (_rev_latency_join, ['stopJoins', 'pingSelfJoin'], {'FaultBy': '{"sender"}', 'MaxPings': 1},
                                       'NoThreadDies'),
    'revert:6c1c06c-updater-release': (_rev_upd_release, ['updDoubleRelease'], {'FaultBy': '{"driver"}', 'MaxPings': 0}, 'NoThreadDies'),
    'revert:7e90fbe-fetcher-link-check': (_rev_fetcher_check, ['staleFetcher'], {'FaultBy': '{"sender"}', 'MaxPings': 0},
                                          'NoEarlyConnected'),
}

MUTANTS = {
    'no_connection_lost': _mut_lerr('no_lost'),
    'lost_before_disconnected': _mut_lerr('lost_first'),
    'double_disconnected': _mut_lerr('double_disconnected'),
    'failed_reported_as_lost': _mut_lerr('failed_as_lost'),
    'connected_before_param_toc': _mut_connected_early,
    'fully_connected_before_values': _mut_fully_early,
    'close_link_without_disconnected': _mut_close_silent,
    'link_established_after_disconnected': _mut_established_again,
}
MUTANTS.update({k: v[0] for k, v in REVERTS.items()})


# --------------------------------------------------------------------------- scenario sources
KMAX = 16
POLICY_KINDS = ['fifo', 'random', 'pct', 'randomt', 'pctt']


def systematic(tier, rng):
    """Every fault position of the real handshake x reporter x API, every close position, connect failures;
    each under FIFO and seeded random / PCT schedules."""
    nseeds = 1 if tier == 'quick' else 6
    pols = [('fifo', 0), ('lifo', 0)] + [(k, rng.randrange(1 << 30)) for _ in range(nseeds) for k in ('random', 'pct')]
    out = []
    # histories on ONE SyncCrazyflie object: opened and closed once, then an open that loses the link; a failed open
    # followed by one that works; every open is followed by a close_link whether it returned or raised
    for pol in pols[:2] + pols[2:4]:
        ok = {'api': 'sync', 'close': 13}
        for first in (ok, {'api': 'sync', 'connfail': 1}, {'api': 'sync', 'connfail': 2}, {'api': 'sync', 'fault': [3, 'driver']},
                      {'api': 'sync', 'fault': [1, 'sender']}):
            seconds = [ok, dict(ok, wait_params=True)] + [{'api': 'sync', 'fault': [k, by]} for k in (2, 5, 8) for by in ('driver', 'sender')]
            for second in seconds:
                out.append({'mode': 'sync', 'policy': pol, 'attempts': [dict(first), dict(second)]})
        out.append({'mode': 'sync', 'policy': pol, 'attempts': [dict(ok), {'api': 'sync', 'close': 4, 'closer': 'other'}, dict(ok)]})
    for pol in pols:
        for api in ('plain', 'sync'):
            for by in ('driver', 'sender'):
                for k in range(1, KMAX + 1):
                    out.append({'mode': 'sync', 'policy': pol, 'attempts': [{'api': api, 'fault': [k, by]}]})
            for j in range(0, KMAX):
                out.append({'mode': 'sync', 'policy': pol, 'attempts': [{'api': api, 'close': j, 'closer': 'other'}]})
                if api == 'plain':
                    out.append({'mode': 'sync', 'policy': pol, 'attempts': [{'api': api, 'close': j}]})
            for cfk in (1, 2):
                out.append({'mode': 'sync', 'policy': pol, 'attempts': [{'api': api, 'connfail': cfk}, {'api': api, 'close': 12}]})
        out.append({'mode': 'sync', 'policy': pol, 'attempts': [{'api': 'sync', 'close': 13, 'wait_params': True}]})
    return out


def gen_random(rng):
    """connect/disconnect histories on one object: 1-3 attempts, each ended by a fault, a close (own thread or a
    second thread), both racing, or a connect failure; device in sync or thread mode, with or without resend timers."""
    def attempt():
        a = {'api': rng.choice(['plain', 'plain', 'sync'])}
        r = rng.random()
        if r < 0.35:
            a['fault'] = [rng.randint(1, KMAX + 4), rng.choice(['driver', 'sender'])]
        elif r < 0.6:
            a['close'] = rng.randint(0, KMAX)
            a['closer'] = rng.choice(['self', 'other'])
        elif r < 0.9:
            a['fault'] = [rng.randint(1, KMAX), rng.choice(['driver', 'sender'])]
            a['close'] = rng.randint(0, KMAX)
            a['closer'] = rng.choice(['self', 'other'])
        else:
            a['connfail'] = rng.choice([1, 2])
        if a['api'] == 'sync' and rng.random() < 0.2:
            a['wait_params'] = True
        a['settle'] = rng.choice([0, 0, 0.3])
        return a
    n = rng.choice([1, 2, 2, 3])
    kind = rng.choice(POLICY_KINDS)
    exotic = rng.random() < 0.25
    return {'mode': rng.choice(['sync', 'thread']) if exotic else 'sync', 'resend': exotic and rng.random() < 0.5,
            'policy': (kind, rng.randrange(1 << 30)), 'attempts': [attempt() for _ in range(n)]}


# --------------------------------------------------------------------------- running / judging
def _exec_job(job):
    sc, mutant = job
    try:
        return execute(sc, MUTANTS[mutant] if mutant else None, want_ops=True)
    except vcore.Kill:
        raise
    except Exception:
        import traceback
        return {'error': traceback.format_exc()[-1500:]}


def run_scenarios(scs, mutant=None):
    return run_jobs([(sc, mutant) for sc in scs])


def run_jobs(jobs):
    scs = [j[0] for j in jobs]
    res = common.pmap(_exec_job, jobs, init=_init, maxtasks=200)
    for r, sc in zip(res, scs):
        if 'error' in r:
            raise common.MachineryError('harness exception while executing %s:\n%s' % (json.dumps(sc)[:300], r['error']))
        if r['q']['run'] == 'budget' or 'budget' in r['detail']['why']:
            raise common.MachineryError('scheduler step budget exhausted (no verdict possible) in %s' % json.dumps(sc)[:300])
    return res


def judge(out, traces, label, defects, count=True):
    for i, t in enumerate(traces):
        t['id'] = i + 1
    slim = [{'id': t['id'], 'ev': t['ev'], 'n': t['n'], 'q': t['q'], 'epi': t['epi'], 'cm': t['cm'], 'defects': defects}
            for t in traces]
    verdicts, st = common.validate_traces('LifecycleTrace.tla', 'TRACE_Lifecycle.cfg', slim, chunk=max(1, min(400, (len(slim) + 15) // 16)))
    if count:
        out.traces += len(traces)
    out.states += st['states']
    out.transitions += st['transitions']
    out.tlc_runs.append({'config': 'TRACE_Lifecycle (%s)' % label, 'states': st['states'], 'transitions': st['transitions'],
                         'wall_s': round(st['wall_s'], 2), 'traces': len(traces)})
    return {t['id']: verdicts[t['id']] for t in traces}


def _exc_site(tb):
    """innermost /repo frame + exception type of a traceback text"""
    site = '?'
    for m in re.finditer(r'File "[^"]*/cflib/([^"]+)", line \d+, in (\w+)', tb or ''):
        site = '%s:%s' % (m.group(1).rsplit('/', 1)[-1], m.group(2))
    m = re.search(r'\n(\w+(?:Error|Exception))\b[^\n]*\s*$', (tb or '').rstrip() + '\n')
    return site, (m.group(1) if m else 'Exception')


LIFECYCLE = ('open', 'close', 'lerr')
RACE_CLAUSES = ('Grammar', 'ConnectedBeforeTables', 'FullyBeforeValues', 'AfterDisconnected', 'LostWithoutDisconnected',
                'FailureDisconnectedThenLost', 'FailureBeforeFirstPacketFails', 'CloseOneDisconnected',
                'SyncCallHangs', 'NotDisconnected', 'SpuriousDisconnected', 'ReconnectIncomplete')


def lifecycle_race(t, clause, at):
    """Class E (known, unrepaired): the lifecycle routines open_link / close_link / _link_error_cb and the
    dispatcher's set-up callbacks are not mutually exclusive.  A violation belongs to it iff, computed from the
    trace (1-based event index `at` of the violating callback / window end / quiescence report):
      R1  another thread is inside a lifecycle routine when the violating event happens, or
      R2  a lifecycle routine of the violating thread that contains the event overlapped one of another thread, or
      R3  the open_link call of the event's attempt overlapped a lifecycle routine of another thread, or
      R4  the dispatcher delivers link_established/connected/fully_connected while handling a packet it took from a
          link whose teardown (error report, close_link) had begun or that was replaced by a later open_link, or
      R5  earlier in the history the dispatcher handled a packet of a link that had already been REPLACED by a later
          open_link (a stale packet drives the set-up chain of the attempt the event belongs to);
      for the end-of-trace clauses: some overlap (R2) or R4/R5 anywhere in the history.
    Returns None or the variant: 'reconnect' (an open_link of attempt >= 2 happened before) | 'during-teardown'."""
    if clause not in RACE_CLAUSES:
        return None
    ev = t['ev']
    inf = len(ev) + 10
    wins = []
    for i, e in enumerate(ev):
        if e['e'] in LIFECYCLE:
            end = next((j + 1 for j in range(i + 1, len(ev)) if ev[j]['e'] == e['e'] + '_end' and ev[j]['cid'] == e['cid']), inf)
            wins.append({'k': e['e'], 'th': e['th'], 'b': i + 1, 'e': end, 'att': e['att']})

    def overlaps(w):
        return any(o['th'] != w['th'] and o['b'] <= w['e'] and w['b'] <= o['e'] for o in wins)

    # which attempt's driver object does Crazyflie.link hold after each event (0 = None), and which did the dispatcher
    # last read / take its current packet from
    link_at, disp_pkt_link, handling = [], [], []
    cur, rd, pkt, hnd = 0, 0, 0, 0
    for i, x in enumerate(ev):
        if x['e'] == 'op' and x['k'] == 'wl':
            w = [w_ for w_ in wins if w_['th'] == x['th'] and w_['b'] <= i + 1 <= w_['e']]
            cur = w[-1]['att'] if (w and w[-1]['k'] == 'open' and x['c'] != 'cf2') else 0
        if x['e'] == 'op' and x['st'] == 'disp':
            if x['k'] == 'rl':
                rd = cur
            elif x['k'] == 'recv' and x['c'] != 'to':
                pkt = hnd = rd
            elif x['k'] in ('recv', 'sleep'):
                hnd = 0             # back at the top of the loop: the previous packet has been handled
        link_at.append(cur)
        disp_pkt_link.append(pkt)
        handling.append(hnd)        # link of the packet the dispatcher is handling at this event (0 = none)

    def newest_open(upto):
        return max([x['att'] for x in ev[:upto] if x['e'] == 'open'] or [0])

    def stale_packet(i):
        """event i (0-based) is a set-up callback of the dispatcher for a packet of a link that is gone"""
        e = ev[i]
        if not (e['e'] == 'cb' and e['st'] == 'disp' and e['name'] in ('established', 'connected', 'fully')):
            return False
        a_r = disp_pkt_link[i]
        if a_r == 0:
            return False
        return any((x['e'] in ('lerr', 'close') and x['att'] == a_r) or (x['e'] == 'open' and x['att'] > a_r) for x in ev[:i])

    def replaced_link_packet(upto, att):
        """a packet of an older link object was handled after open_link of attempt `att` (or later) had begun"""
        newest = 0
        for i, x in enumerate(ev[:upto]):
            if x['e'] == 'open':
                newest = max(newest, x['att'])
            if x['st'] == 'disp' and 0 < handling[i] < newest and newest >= att > 0:
                return True
        return False
    variant = 'reconnect' if any(x['e'] == 'open' and x['att'] >= 2 for x in ev[:max(at, 0)]) else 'during-teardown'
    if clause == 'ReconnectIncomplete':
        # only R5: before quiescence the dispatcher was still handling a packet of a link that a later open_link had
        # replaced (e.g. it finishes request_update_of_all_params of the old attempt: the stale request is sent on the
        # new link, the failure of that attempt is reported as connection_failed, which does not release wait_lock)
        q_at = next((i for i, x in enumerate(ev) if x['e'] == 'quiet'), len(ev))
        return 'reconnect' if replaced_link_packet(q_at, 1) else None
    if clause in ('SyncCallHangs', 'NotDisconnected', 'SpuriousDisconnected'):
        # end-of-trace clauses: the attempt concerned (the one of the pending wrapper call, else the last one) must
        # itself have been raced: one of its lifecycle routines overlapped one of another thread, or its set-up was
        # driven by / delivered for a packet of a link that was gone
        upto = max(at, 0)
        if clause == 'SyncCallHangs':
            atts = {p_['att'] for p_ in t['q']['pending'] if p_['kind'] in ('sopen', 'sclose')}
        elif clause == 'NotDisconnected':
            atts = {t['n']}
        else:
            atts = {w['att'] for w in wins}
        race = any(w['att'] in atts and w['b'] <= upto and overlaps(w) for w in wins) or \
            any(stale_packet(i) and ev[i]['att'] in atts for i in range(min(upto, len(ev)))) or \
            any(replaced_link_packet(upto, a_) for a_ in atts)
        return variant if race else None
    if not 0 < at <= len(ev):
        return None
    e = ev[at - 1]
    if e.get('res') == 'raise':
        return None         # a routine that ends with an exception is never "just" the known race
    th, a = e['th'], e['att']
    r1 = any(w['th'] != th and w['b'] <= at <= w['e'] for w in wins)
    r2 = any(w['th'] == th and w['b'] <= at <= w['e'] and overlaps(w) for w in wins)
    r3 = any(w['k'] == 'open' and w['att'] == a and overlaps(w) for w in wins)
    r4 = stale_packet(at - 1)
    r5 = replaced_link_packet(at, a)
    return variant if (r1 or r2 or r3 or r4 or r5) else None


def signature(t, clause, at):
    """violated clause + canonical witness class (thread role / call site / word shape), stable across seeds"""
    race = lifecycle_race(t, clause, at)
    if race is not None:
        if clause in ('AfterDisconnected', 'ConnectedBeforeTables', 'FullyBeforeValues') and 0 < at <= len(t['ev']):
            return '%s/%s/lifecycle-race/%s' % (clause, t['ev'][at - 1].get('name', ''), race)
        return '%s/lifecycle-race/%s' % (clause, race)
    ev = t['ev']
    q = t['q']
    words = {}
    for e in ev[:max(at, 0)]:
        if e['e'] == 'cb':
            words.setdefault(e['att'], []).append(e['name'])
    if clause == 'ThreadDied':
        dead = sorted(t['detail']['dead'])
        if dead:
            site, exc = _exc_site(dead[0][1])
            return 'ThreadDied/%s/%s/%s' % (role_of(dead[0][0]), site, exc)
        return 'ThreadDied/?'
    if clause == 'Deadlock':
        bl = [x for x in q['threads'] if x['status'] == 'blocked' and not (x['op'] == 'queue.get' and x['role'] in ('upd', 'ext', 'dev'))
              and not (x['op'] == 'event.wait' and x['file'] == 'syncCrazyflie.py')]
        owner = role_of_t(q['owner']) if q['sendlock'] else 'free'
        mem = '/mem-write-lock' if any(x['fn'] in ('_call_all_failed_callbacks', 'write', '_handle_chan_write') for x in bl) else ''
        if q['sendlock'] and any(x['name'] == q['owner'] and x['op'] == 'thread.join' for x in bl):
            # the canonical cycle: the owner of _send_lock joins the ping thread, which waits for _send_lock
            return 'Deadlock/join-ping-thread-under-sendlock/owner=%s%s' % (owner, mem)
        if q['sendlock'] and not any(x['name'] == q['owner'] for x in bl):
            return 'Deadlock/sendlock-leaked-by-%s%s' % (owner, mem)
        parts = sorted({'%s:%s@%s' % (x['role'], x['op'], x['fn']) for x in bl})
        return 'Deadlock/%s%s/sendlock=%s' % ('+'.join(parts) or 'pending-call', mem, owner)
    if clause == 'SyncCallHangs':
        p = [x for x in q['pending'] if x['kind'] in ('sopen', 'sclose')]
        kind = p[0]['kind'] if p else '?'
        att = p[0]['att'] if p else 0
        w = words.get(att, [])
        cause = 'link-error' if 'lost' in w or any(e['e'] == 'lerr' and e['att'] == att for e in ev) else 'close'
        phase = 'before-connected' if 'connected' not in w else 'after-connected'
        return 'SyncCallHangs/%s/%s/%s' % (kind, cause, phase)
    if clause in ('ReconnectFails', 'ReconnectIncomplete'):
        names = [e['name'] for e in ev if e['e'] == 'cb' and e['att'] == t['epi']['att']]
        why = 'sendlock-held-by-%s' % role_of_t(q['owner']) if q['sendlock'] else ('dispatcher-dead' if not q['disp_alive'] else 'word-' + '-'.join(names))
        if clause == 'ReconnectIncomplete':
            bl = sorted('%s:%s@%s' % (x['role'], x['op'], x['fn']) for x in t['epi'].get('blocked', []))
            return 'ReconnectIncomplete/no-fully_connected/%s' % ('+'.join(bl) or 'nothing-blocked')
        return 'ReconnectFails/%s' % why
    if clause == 'NotDisconnected':
        return 'NotDisconnected/state=%d/link-%s' % (q['state'], 'none' if q['linknone'] else 'set')
    e = ev[at - 1] if 0 < at <= len(ev) else {}
    if clause in ('Grammar', 'ConnectedBeforeTables', 'FullyBeforeValues', 'AfterDisconnected', 'LostWithoutDisconnected'):
        a = e.get('att', 0)
        w = words.get(a, [])
        # was the attempt already being torn down (an error report or close_link of it had begun)?
        torn = any(x['e'] in ('lerr', 'close') and x['att'] == a for x in ev[:at])
        ctx = 'during-teardown' if torn else ('reconnect' if a > 1 else 'first-attempt')
        if clause == 'Grammar':
            shape = '-'.join(x for x in w if x in ('requested', 'failed', 'established', 'connected', 'fully'))
        else:
            shape = e.get('name', '')
        return '%s/%s/%s' % (clause, shape, ctx)
    if clause in ('FailureDisconnectedThenLost', 'FailureBeforeFirstPacketFails', 'CloseOneDisconnected'):
        # the thread that ran the report / the call, how it ended, and where an exception came from
        begin = next((x for x in reversed(ev[:at]) if x['e'] in ('lerr', 'close') and x['cid'] == e.get('cid')), {})
        win = [x['name'] for x in ev[ev.index(begin) if begin in ev else 0:at] if x['e'] == 'cb' and x['th'] == e.get('th')]
        return '%s/%s/%s/%s/%s' % (clause, role_of_t(e.get('th', '')), e.get('res', ''), e.get('x', '') or '-', '-'.join(win) or 'nothing')
    return clause


def role_of_t(tn):
    m = re.match(r'^([a-z]+)', tn or '')
    return m.group(1) if m else '?'


# --------------------------------------------------------------------------- TLC configurations built at run time
BUG_CFGS = ['syncOpenNoWake', 'errInSender', 'pingSelfJoin', 'sendNoFinally', 'sendReread', 'dispReread', 'closeReread',
            'errReread', 'staleFetcher', 'errStateRace', 'openReread', 'dispStalePk', 'updDoubleRelease', 'asis']


def _cfg_with(static_name, scratch, name, **over):
    """copy of a static cfg with some constants / the invariant list replaced (the as-is Defects set follows the
    tree under test, see detect_defects)"""
    import os
    txt = open(os.path.join(tlc.SPEC_DIR, static_name)).read()
    for k, v in over.items():
        if k == 'INVARIANTS':
            lines = [ln for ln in txt.splitlines() if not ln.startswith('INVARIANT')]
            i = lines.index('CHECK_DEADLOCK FALSE')
            lines[i:i] = ['INVARIANT ' + x for x in v]
            txt = '\n'.join(lines) + '\n'
        else:
            txt = re.sub(r'(?m)^  %s = .*$' % k, '  %s = %s' % (k, v), txt)
    p = os.path.join(scratch, name)
    with open(p, 'w') as f:
        f.write(txt)
    return p


def _tla_set(xs):
    return '{%s}' % ', '.join('"%s"' % x for x in xs)


def _replay_job(sc):
    try:
        return execute(sc, want_ops=True)
    except vcore.Kill:
        raise
    except Exception:
        import traceback
        return {'error': traceback.format_exc()[-1500:]}


def main(tier, seed, replay=None):
    import os
    import shutil
    out = common.Outcome('C02', tier, seed)
    rng = random.Random(seed)
    out.assumptions = [
        'attempt n is opened with URI sim://0/<n>; callbacks are attributed to attempts by the URI they carry',
        '"bounded time" = %d virtual seconds of silence after the last stimulus; idle waits of service threads '
        '(dispatcher poll, _ParamUpdater/_ExtendedTypeFetcher queue get) are not hangs (DESIGN 3.1(11))' % int(HORIZON),
        'a failure report / close_link overlapping another open/close/report of ANOTHER thread is racy: only the '
        'word-level clauses apply to it; "after the first packet" = link_established delivered before the report began',
        'link failure before the first packet: connection_failed must be in the attempt\'s word when the report ends '
        '(delivered by whichever report), not necessarily delivered by this report',
        'SyncCrazyflie.wait_for_params is not one of the blocking calls the property names (open, close): not judged',
        'a driver object that has been closed reports no more errors; one link fault per attempt; the user reopens only '
        'after it saw disconnected/connection_failed of the previous attempt',
        'the reconnect epilogue must reach `connected` (fully_connected is recorded, not demanded)',
        'simulated device (simdev.standard_device: 1 log variable, 2 parameters, no memories) stands for the firmware',
    ]
    _init()
    defects = detect_defects()
    out.extra['as_is_defect_switches'] = defects
    if replay:
        rp = json.load(open(replay))['replay']
        t = execute(rp['scenario'], want_ops=True)
        v = judge(out, [t], 'replay', defects)
        clause, at = v[1][0], v[1][1]
        if clause != 'ok':
            out.violation(signature(t, clause, at), clause,
                          {'event_index': at, 'events': [e for e in t['ev'] if e['e'] != 'op'][:60], 'q': t['q'], 'epi': t['epi'],
                           'dead': t['detail']['dead']}, rp)
        return out.finish()

    from concurrent.futures import ThreadPoolExecutor
    # self-tests (mutants, reverts, corrupted traces) that do not come out as expected on the tree under test must not
    # mask the verdict: the real traces are judged and reported first; only a run without any new violation ends with
    # a machinery failure because of them
    selftest = []
    ncpu = common.NCPU
    big = ThreadPoolExecutor(2)                      # exhaustive checks of the repaired design: 2 at a time
    small = ThreadPoolExecutor(max(2, ncpu // 2))    # bug cfgs and single-worker as-is searches
    w_big = int(os.environ.get('VERIF_TLC_WORKERS', '0')) or max(2, ncpu // 4)
    scratch = tlc.scratch_dir('c02cfg-')

    def search(name, static='MC_Lifecycle_asis.cfg', depth=None, timeout=900, nworkers=1, **over):
        """as-is counterexample search (one worker => deterministic).  Capped by a breadth-first depth bound
        (deterministic) and by a wall-clock timeout; nothing found within the cap = no counterexample."""
        p = _cfg_with(static, scratch, name + '.cfg', **over)
        if depth:
            with open(p, 'a') as f:
                f.write('CONSTRAINT Depth%d\n' % depth)
        try:
            # one worker = deterministic counterexample; the searches that are expected to find nothing may use more
            return tlc.run('MC_Lifecycle.tla', p, timeout=timeout, workers=nworkers, heap='3g')
        except tlc.TLCError as e:
            if 'timed out' in str(e):
                return None
            raise
    try:
        # 1. the design spec: the repaired design satisfies C02 exhaustively; every as-is code site, switched on alone,
        #    is refuted (vacuity guard / regression one cfg away)
        cfgs = ['MC_Lifecycle_quick.cfg', 'MC_Lifecycle_quick_sync.cfg'] if tier == 'quick' else \
               ['MC_Lifecycle_thorough.cfg', 'MC_Lifecycle_thorough_sync.cfg', 'MC_Lifecycle_thorough_long.cfg',
                'MC_Lifecycle_quick.cfg', 'MC_Lifecycle_quick_sync.cfg']
        f_checks = [(cfg, big.submit(tlc.check, 'MC_Lifecycle.tla', cfg, timeout=3000, workers=w_big, heap='4g',
                                     coverage=(cfg == 'MC_Lifecycle_quick.cfg' and tier == 'thorough'))) for cfg in cfgs]
        f_bugs = [(b, small.submit(tlc.expect_violation, 'MC_Lifecycle.tla', 'MC_Lifecycle_bug_%s.cfg' % b, timeout=1200,
                                   workers=2, heap='3g')) for b in BUG_CFGS]

        # 2. spec -> code.  (a) shortest counterexamples of the AS-IS spec (switches measured on the tree) with the
        #    constants of the real handshake, per invariant / API flavour / closer, replayed step by step
        scripted = []
        if tier == 'quick':
            combos = [(s_, 'FALSE', inv, 2, 1, 50) for s_ in ('FALSE', 'TRUE') for inv in ('HistoryOK', 'QuietOK')] + \
                     [('FALSE', 'FALSE', 'NoThreadDies+ReconnectOK', 2, 1, 50)] + \
                     [(s_, 'TRUE', 'HistoryOK', 2, 1, 30) for s_ in ('FALSE', 'TRUE')]
        else:
            combos = [(s_, c_, inv, 2, 1, 60 if c_ == 'FALSE' else 30) for s_ in ('FALSE', 'TRUE') for c_ in ('FALSE', 'TRUE')
                      for inv in ('HistoryOK', 'QuietOK', 'NoThreadDies+ReconnectOK')] + \
                     [('FALSE', 'FALSE', inv, 3, 2, 36) for inv in ('HistoryOK', 'QuietOK')]
        f_asis = [small.submit(search, 'asis%d' % i, depth=dp, nworkers=3 if '+' in inv else 1, UseSync=s_, Closer=c_, NAtt=natt, MaxFaults=mf,
                               Defects=_tla_set(defects), INVARIANTS=inv.split('+'))
                  for i, (s_, c_, inv, natt, mf, dp) in enumerate(combos)]
        #    the seven repairs of /repo, each reverted: the as-is spec with the pre-fix switch(es) back on gives the
        #    schedule, the real code with the fix reverted IN MEMORY is driven along it (step 4 judges the traces)
        f_rev = {}
        for name, (_inst, sw, over, inv) in sorted(REVERTS.items()):
            if set(sw) <= set(defects):
                out.sensitivity['mutant:' + name] = 'not applicable: the tree under test still has %s' % '+'.join(sw)
                continue
            o = dict(Defects=_tla_set(sorted(set(defects) | set(sw))), INVARIANTS=[inv])
            o.update(over)
            f_rev[name] = small.submit(search, 'rev' + name.split(':')[1].split('-')[0], nworkers=3 if '6c1c06c' in name else 1, **o)
        nsim = 60 if tier == 'quick' else 600
        p = _cfg_with('SIM_Lifecycle.cfg', scratch, 'sim.cfg', Defects=_tla_set(defects))
        f_sim = small.submit(tlc.simulate, 'MC_Lifecycle.tla', p, num=nsim, depth=160, seed=seed % 100000, timeout=1500, heap='2g')
        for cfg, f in f_checks:
            out.add_tlc(cfg, f.result())
        for b, f in f_bugs:
            rb = f.result()
            out.sensitivity['spec:' + b] = 'refuted (%s) after %d states' % (rb.violated, rb.distinct)
        for (s_, c_, inv, natt, mf, dp), f in zip(combos, f_asis):
            r = f.result()
            label = 'MC_Lifecycle_asis.cfg UseSync=%s Closer=%s NAtt=%d depth<=%d %s' % (s_, c_, natt, dp, inv)
            if r is None:
                out.tlc_runs.append({'config': label, 'violated': None, 'note': 'search timed out: no counterexample within the cap'})
                continue
            out.states += r.distinct
            out.transitions += r.generated
            out.tlc_runs.append(dict(r.summary(), config=label))
            if r.violated and r.error_trace:
                sc = scenario_from_behaviour(r.error_trace)
                sc['origin'] = 'tlc-counterexample %s sync=%s closer=%s natt=%d' % (inv, s_, c_, natt)
                scripted.append(sc)
        rev_scs = {}
        for name, f in f_rev.items():
            r = f.result()
            if r is None or not (r.violated and r.error_trace):
                selftest.append('the as-is spec with the switches of %s back on was not refuted' % name)
                continue
            out.states += r.distinct
            out.transitions += r.generated
            out.tlc_runs.append(dict(r.summary(), config='MC_Lifecycle_asis.cfg + %s' % name))
            rev_scs[name] = scenario_from_behaviour(r.error_trace)
        #    (b) random behaviours of the as-is spec (tlc -simulate), same constants
        rs, behs = f_sim.result()
        out.add_tlc('SIM_Lifecycle.cfg (-simulate num=%d depth=160)' % nsim, rs)
        for b in behs:
            sc = scenario_from_behaviour(b)
            if sc['attempts']:
                sc['origin'] = 'tlc-simulate'
                scripted.append(sc)
    finally:
        big.shutdown(wait=True)
        small.shutdown(wait=True)
        shutil.rmtree(scratch, ignore_errors=True)
    rtraces = common.pmap(_replay_job, scripted, init=_init, maxtasks=100)
    for r, sc in zip(rtraces, scripted):
        if 'error' in r:
            raise common.MachineryError('harness exception while replaying %s:\n%s' % (sc.get('origin'), r['error']))
    full = sum(1 for t in rtraces if t['replay']['matched'] == t['replay']['len'])
    out.conformance['spec_to_code'] = {
        'behaviours': len(scripted), 'fully_matched': full,
        'steps': sum(t['replay']['len'] for t in rtraces), 'steps_matched': sum(t['replay']['matched'] for t in rtraces),
        'first_mismatches': [str(t['replay']['first'])[:400] for t in rtraces if t['replay']['first']][:3]}

    # 3. code -> spec: systematic sweeps + seeded random histories, all judged by the monitor
    scs = systematic(tier, rng)
    nrand = 300 if tier == 'quick' else 6000
    scs += [gen_random(rng) for _ in range(nrand)]
    traces = run_scenarios(scs)
    all_scs = scripted + scs
    all_traces = rtraces + traces
    verdicts = judge(out, all_traces, 'real code', defects)
    drift = 0
    ncm = 0
    clauses = {}
    for t, sc in zip(all_traces, all_scs):
        clause, at, conf, conf_at = verdicts[t['id']][:4]
        clauses[clause] = clauses.get(clause, 0) + 1
        if t['cm']:
            ncm += 1
            if not conf:
                drift += 1
        if clause != 'ok':
            out.violation(signature(t, clause, at), clause,
                          {'event_index': at, 'origin': sc.get('origin', 'enumeration'),
                           'events': [{k: x for k, x in e.items() if x not in ('', 0, '-')} for e in t['ev'] if e['e'] != 'op'][:40],
                           'q': t['q'], 'epi': t['epi'], 'dead': t['detail']['dead']},
                          {'scenario': sc})
    out.conformance['code_to_spec'] = {'traces_with_conformance_mode': ncm, 'explained_by_design_spec': ncm - drift,
                                       'drift': drift}
    out.extra['verdict_histogram'] = clauses
    out.evaluations = len(all_traces)
    out.distinct = len({json.dumps([e for e in t['ev'] if e['e'] != 'op'], sort_keys=True) for t in all_traces})
    out.rule = ('scenario = (1-3 open_link attempts on one Crazyflie object, each with: API plain|SyncCrazyflie, link fault after '
                'the k-th uplink packet for k=1..%d reported by driver thread|sending thread, close_link after the j-th packet by the '
                'same or a second user thread, connect failure (driver raises | no driver), optional wait_for_params; device mode '
                'sync|thread; resend timers on|off; schedule FIFO|seeded random|PCT (with/without time advancing past runnable '
                'threads)|scripted from a TLC behaviour) + fault-free reconnect epilogue; distinct = distinct observable histories' % KMAX)
    out.exhaustive = False
    pick = [0, len(all_scs) // 2, len(all_scs) - 1]
    out.samples = [{'scenario': {k: v for k, v in all_scs[i].items() if k != 'script'}, 'verdict': verdicts[all_traces[i]['id']][:2],
                    'events': [{k: x for k, x in e.items() if x not in ('', 0, '-')} for e in all_traces[i]['ev'] if e['e'] != 'op'][:14]}
                   for i in pick]

    # 4. sensitivity: in-memory mutants on scenarios the unmutated code passes; corrupted traces
    good = [sc for sc, t in zip(scs, traces) if verdicts[t['id']][0] == 'ok']
    # the FIFO single-attempt sweeps are always part of the sample (a witness for every mutant), the rest is thinned
    core = [sc for sc in good if sc['policy'][0] == 'fifo' and len(sc['attempts']) == 1]
    core = [sc for i, sc in enumerate(core) if i % 2 == 0 or (sc['attempts'][0].get('fault') or [9])[0] <= 2]
    rest = [sc for sc in good if sc not in core]
    sub = core + rest[::max(1, len(rest) // (40 if tier == 'quick' else 250))]
    # all mutants are executed first, then judged by the monitor in ONE batch run (wall time)
    names = [n for n in sorted(MUTANTS) if n not in REVERTS]
    mt_all = run_jobs([(sc, name) for name in names for sc in sub])
    rev_names = sorted(rev_scs)
    rv_all = []
    for name in list(rev_names):
        try:
            tm_ = execute(rev_scs[name], mutant=MUTANTS[name], want_ops=True)        # the repair reverted in memory
            tu_ = execute(rev_scs[name], want_ops=True)                               # same schedule, tree as it is
        except vcore.Kill:
            raise
        except Exception as ex:
            selftest.append('in-memory revert %s could not be executed on this tree: %r' % (name, ex))
            rev_names.remove(name)
            continue
        rv_all += [tm_, tu_]
    o2 = common.Outcome('C02', tier, seed)
    mv = judge(o2, mt_all + rv_all, 'mutants and reverts', defects, count=False)
    for k, name in enumerate(names):
        mt = mt_all[k * len(sub):(k + 1) * len(sub)]
        bad = [mv[t['id']][0] for t in mt if mv[t['id']][0] != 'ok']
        out.sensitivity['mutant:' + name] = '%d of %d traces rejected (%s)' % (len(bad), len(mt), ','.join(sorted(set(bad))))
        if not bad:
            selftest.append('monitor did not reject in-memory mutant %s' % name)
    # each repair of /repo reverted in memory, driven along the TLC schedule of the corresponding as-is switch: the
    # monitor must reject the reverted code and accept the same schedule on the tree as it is
    for k, name in enumerate(rev_names):
        tm, tu = rv_all[2 * k], rv_all[2 * k + 1]
        cm_, cu_ = mv[tm['id']][0], mv[tu['id']][0]
        out.sensitivity['mutant:' + name] = 'rejected (%s; replay %d/%d steps matched); unreverted tree on the same schedule: %s' % (
            signature(tm, cm_, mv[tm['id']][1]) if cm_ != 'ok' else 'ok', tm['replay']['matched'], tm['replay']['len'],
            'ok' if cu_ == 'ok' else signature(tu, cu_, mv[tu['id']][1]))
        if cm_ == 'ok':
            selftest.append('monitor did not reject the in-memory revert %s' % name)
    import copy
    base = next((t for t in all_traces if verdicts[t['id']][0] == 'ok' and verdicts[t['id']][2] and t['cm'] and
                 any(e['e'] == 'cb' and e['name'] == 'lost' for e in t['ev']) and
                 any(e['e'] == 'op' and e['k'] == 'acq' for e in t['ev'])), None)
    if base is None:
        selftest.append('no conforming passing trace with a link failure found for the binding self-test')
    else:
        t1 = copy.deepcopy(base)
        idx = next(i for i, e in enumerate(t1['ev']) if e['e'] == 'cb' and e['name'] == 'disconnected')
        del t1['ev'][idx]
        t2 = copy.deepcopy(base)
        ops = [i for i, e in enumerate(t2['ev']) if e['e'] == 'op' and e['k'] == 'acq']
        del t2['ev'][ops[len(ops) // 2]]
        t3 = copy.deepcopy(base)
        t3['q']['threads'].append({'role': 'disp', 'name': 'disp0', 'status': 'blocked', 'op': 'lock.acquire', 'file': '__init__.py', 'fn': 'send_packet'})
        o2 = common.Outcome('C02', tier, seed)
        cv = judge(o2, [t1, t2, t3], 'corrupted', defects, count=False)
        res = {'drop-disconnected-callback': cv[1][0] != 'ok', 'drop-one-lock-acquire-op': not cv[2][2],
               'blocked-dispatcher-in-quiescence-report': cv[3][0] != 'ok'}
        for k, okk in res.items():
            out.sensitivity['binding:' + k] = 'rejected' if okk else 'ACCEPTED'
        if not all(res.values()):
            selftest.append('trace spec accepted a corrupted trace: %s' % res)
    if selftest:
        out.sensitivity['self-test failures'] = selftest
        known = common.known_findings('C02')
        if not any(v['sig'] not in known for v in out.violations):
            out.finish()
            raise common.MachineryError('; '.join(selftest))
    return out.finish()


# --------------------------------------------------------------------------- known-findings enumeration (offline tool)
def enumerate_known(natt=3, closer='TRUE', sync='FALSE', workers=16, timeout=3000, maxfaults=None, depth=None):
    """Which clauses can the AS-IS design spec (switches measured on the tree) violate, and in which variant
    (T = no open_link of attempt >= 2 had begun, R = it had)?  One exhaustive TLC run of MC_LifecycleEnum (small
    constants) that prints every key it meets.  `python -m harness.props.C02` prints the lists for reports/C02.md."""
    import os
    import shutil
    _init()
    defects = detect_defects()
    scratch = tlc.scratch_dir('c02enum-')
    try:
        txt = open(os.path.join(tlc.SPEC_DIR, 'MC_Lifecycle_quick.cfg')).read()
        txt = re.sub(r'(?m)^  Defects .*$', '  Defects = %s' % _tla_set(defects), txt)
        for k, v in (('NAtt', natt), ('Closer', closer), ('UseSync', sync),
                     ('MaxFaults', maxfaults if maxfaults is not None else (2 if natt >= 3 else 1))):
            txt = re.sub(r'(?m)^  %s = .*$' % k, '  %s = %s' % (k, v), txt)
        txt = re.sub(r'(?m)^  FaultBy .*$', '  FaultBy = {"sender", "driver"}', txt)
        lines = [ln for ln in txt.splitlines() if not ln.startswith('INVARIANT')]
        i = lines.index('CHECK_DEADLOCK FALSE')
        lines[i:i] = ['INVARIANT EnumInv', 'INVARIANT EnumQuiet'] + (['CONSTRAINT Depth%d' % depth] if depth else [])
        p = os.path.join(scratch, 'enum.cfg')
        with open(p, 'w') as f:
            f.write('\n'.join(lines) + '\n')
        r = tlc.run('MC_LifecycleEnum.tla', p, workers=workers, timeout=timeout)
        keys = sorted({v[0] for v in tlc.printed_tuples(r.output, 'KEY')})
        return keys, r.distinct, r.wall_s
    finally:
        shutil.rmtree(scratch, ignore_errors=True)


if __name__ == '__main__':
    for (na, cl, sy) in ((2, 'TRUE', 'FALSE'), (2, 'TRUE', 'TRUE'), (3, 'FALSE', 'FALSE')):
        k_, n_, w_ = enumerate_known(natt=na, closer=cl, sync=sy)
        print('NAtt=%d Closer=%s UseSync=%s: %s (%d states, %.0f s)' % (na, cl, sy, k_, n_, w_), flush=True)
