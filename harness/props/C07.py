"""C07 -- received packets reach exactly the matching callbacks, once, in order.

spec/Dispatch.tla (design), spec/DispatchProps.tla (the property), spec/DispatchTrace.tla
(monitor + conformance for traces recorded from the real _IncomingPacketHandler)."""
import itertools
import random

from .. import common, tlc, vsched
from ..vsched import vqueue

NREGS = 4           # callbacks are 1..5 in every trace; 5 is the one a script may add
EXTRA = NREGS + 1

PATTERNS = [(3, 255, 0, 0), (3, 255, 1, 255), (2, 2, 0, 0), (0, 0, 0, 0), (255, 255, 0, 0),
            (5, 255, 2, 2), (9, 255, 3, 255), (1, 1, 1, 1),
            # patterns with bits outside their own mask: never match (pattern == header & mask)
            (5, 4, 0, 0), (13, 255, 3, 0), (7, 0xF0, 1, 2)]
SCRIPTS = [('nop', 0), ('raise', 0), ('removeSelf', 0), ('addExtra', 0)] + \
          [('remove', w) for w in range(1, NREGS + 1)]

# How a scenario is made concrete (the spec's `raise` script and "a registration" are abstract):
#   style: 'func'   one closure per registration, the same object at add and at remove time
#          'method' a bound method of a holder object, taken afresh (`holder.cb`) at add and at remove
#                   time as every cflib service does (equal, not identical, objects)
#   exc:   which exception a `raise` script raises (with a message, without arguments, ...)
STYLES = ['func', 'method']


class _Scripted(Exception):
    pass


EXCEPTIONS = [lambda w: ValueError('scripted exception in callback %d' % w), lambda w: ValueError(),
              lambda w: AssertionError(), lambda w: KeyError(w), lambda w: StopIteration(),
              lambda w: IndexError(), lambda w: OSError(5, 'scripted'), lambda w: _Scripted(),
              lambda w: RuntimeError(('a', 'tuple'))]


def concretise(sc, i):
    """Deterministic style / exception kind for the i-th scenario of a list (kept in the scenario)."""
    import zlib
    h = zlib.crc32(repr((sc['pat'], sc['script'], sc['regs0'], sc['headers'], i)).encode())
    sc.setdefault('style', STYLES[h % 2])
    sc.setdefault('exc', (h // 2) % len(EXCEPTIONS))
    return sc


# --------------------------------------------------------------------------- the real code
class FakeLink:
    needs_resending = False

    def __init__(self, on_receive):
        self.q = vqueue.Queue()
        self.on_receive = on_receive

    def receive_packet(self, wait=0):
        self.on_receive()
        try:
            if wait == 0:
                return self.q.get(False)
            elif wait < 0:
                return self.q.get(True)
            return self.q.get(True, wait)
        except vqueue.Empty:
            return None

    def send_packet(self, pk):
        return True

    def close(self):
        pass


def execute(sc, mutant=None):
    """Run one scenario against the real dispatcher.  sc: pat (5 tuples), script (5 pairs),
    regs0 (list of who), headers (list).  Returns the trace dict."""
    import cflib.crazyflie as cfm
    from cflib.crtp.crtpstack import CRTPPacket
    ev = []
    state = {'in_packet': False, 'receives': 0}
    with vsched.scheduler() as s:
        cf = None
        ours = {}

        style = sc.get('style', 'func')
        exc_kind = sc.get('exc', 0)

        share = list(sc.get('share') or [])      # two registrations that use ONE callback object

        def who(callback):
            holder = getattr(callback, '__self__', None)
            if holder is not None and id(holder) in ours:
                return ours[id(holder)]
            return ours.get(id(callback))

        def who_entry(c):
            w = who(c.callback)
            if w is not None and w in share:
                for x in share:
                    p = sc['pat'][x - 1]
                    if (c.port, c.port_mask, c.channel, c.channel_mask) == (p[0], p[1], p[2], p[3]):
                        return x
            return w

        def project():
            try:
                return [who_entry(c) for c in cf.incoming.cb if who_entry(c) is not None]
            except Exception:
                return None

        def on_receive():
            state['receives'] += 1
            if state['in_packet']:
                state['in_packet'] = False
                ev.append({'e': 'end', 'cbs': project()})

        link = FakeLink(on_receive)
        cf = cfm.Crazyflie(link=None)
        if mutant:
            mutant(cf)
        cbs = {}
        holders = {}

        class Holder:
            def __init__(self, fn):
                self.fn = fn

            def cb(self, pk):
                return self.fn(pk)

        def the_cb(w):
            # 'method': a new bound-method object on every access, like `self._new_packet_cb`
            if w in share:
                w = share[0]              # both registrations hand in the same callback
            return holders[w].cb if style == 'method' else cbs[w]

        def register(w):
            p = sc['pat'][w - 1]
            if p[3] == 0 and p[2] == 0 and p[1] == 255:
                cf.add_port_callback(p[0], the_cb(w))
            else:
                cf.add_header_callback(the_cb(w), p[0], p[2], p[1], p[3])

        def unregister(w):
            p = sc['pat'][w - 1]
            if p[3] == 0 and p[2] == 0 and p[1] == 255:
                cf.remove_port_callback(p[0], the_cb(w))
            else:
                cf.remove_header_callback(the_cb(w), p[0], p[2], p[1], p[3])

        def make(w):
            k, t = sc['script'][w - 1]

            def cb(pk):
                ops = []
                try:
                    if k == 'removeSelf':
                        unregister(w)
                        ops.append(['remove', w])
                    elif k == 'remove':
                        unregister(t)
                        ops.append(['remove', t])
                    elif k == 'addExtra':
                        if EXTRA not in (project() or []):
                            register(EXTRA)
                            ops.append(['add', EXTRA])
                    elif k == 'raise':
                        raise EXCEPTIONS[exc_kind % len(EXCEPTIONS)](w)
                finally:
                    ev.append({'e': 'call', 'w': w, 'ops': ops, 'cbs': project(), 'h': pk.header})
            return cb

        for w in range(1, EXTRA + 1):
            cbs[w] = make(w)
        if share:
            # one callback for both registrations: the k-th time it is invoked for a packet it acts for the
            # k-th of its registrations (in list order, as found when the packet arrived) that match
            acts = {x: cbs[x] for x in share}
            turn = []
            state['turn'] = turn

            def shared(pk):
                w = turn.pop(0) if turn else share[0]
                return acts[w](pk)
            cbs[share[0]] = shared
        for w in range(1, EXTRA + 1):
            ours[id(cbs[w])] = w
            holders[w] = Holder(cbs[w])
            ours[id(holders[w])] = w
        for w in sc['regs0']:
            register(w)

        def begin(pk):
            state['in_packet'] = True
            if share:
                del state['turn'][:]
                for c in cf.incoming.cb:
                    if who(c.callback) in share and c.port == (pk.port & c.port_mask) and \
                            c.channel == (pk.channel & c.channel_mask):
                        state['turn'].append(who_entry(c))
            ev.append({'e': 'begin', 'h': pk.header})
        cf.packet_received.add_callback(begin)

        def feeder():
            for h in sc['headers']:
                pk = CRTPPacket(h, b'')       # as the link drivers construct received packets
                link.q.put(pk)
        cf.link = link
        cf.incoming.start()
        s.spawn(feeder, 'feeder')
        n = len(sc['headers'])
        s.run(until=lambda: link.q.empty() and not state['in_packet'] and state['receives'] >= n + 1,
              horizon=10.0 + n)
        alive = bool(cf.incoming.is_alive())
        dead = [t for t in s.report() if t['status'] == 'dead']
    delivered = sum(1 for e in ev if e['e'] == 'begin')
    if ev and state['in_packet']:
        pass    # dispatch never finished: no 'end' -> monitor reports PacketLost/DispatcherDied
    for e in ev:
        if e.get('cbs') is None:
            e['cbs'] = []
    return {'pat': [list(p) for p in sc['pat']], 'script': [list(x) for x in sc['script']],
            'regs0': list(sc['regs0']), 'npackets': n, 'ev': [_norm(e) for e in ev],
            'style': style, 'exc': exc_kind, 'share': share,
            'alive': alive and not dead, 'delivered': delivered}


def _norm(e):
    # headers are reported without the reserved bits (DESIGN 3: normalised in the projection)
    if 'h' in e:
        e = dict(e)
        e['h'] = e['h'] & 0xF3
    return e


# --------------------------------------------------------------------------- in-memory mutants
def _mutant_run(variant):
    """Replacement for _IncomingPacketHandler.run with a seeded defect (sensitivity self-test;
    /repo is untouched)."""
    def install(cf):
        import time as _unused  # noqa
        inc = cf.incoming

        def run():
            while True:
                if inc.cf.link is None:
                    from harness.vsched import vtime
                    vtime.sleep(1)
                    continue
                pk = inc.cf.link.receive_packet(1)
                if pk is None:
                    continue
                inc.cf.packet_received.call(pk)
                if variant == 'live':
                    it = (cb for cb in inc.cb if cb.port == (pk.port & cb.port_mask) and
                          cb.channel == (pk.channel & cb.channel_mask))
                elif variant == 'mask_both_sides':
                    it = [cb for cb in inc.cb if (cb.port & cb.port_mask) == (pk.port & cb.port_mask) and
                          (cb.channel & cb.channel_mask) == (pk.channel & cb.channel_mask)]
                elif variant == 'eqmask':
                    it = [cb for cb in inc.cb if cb.port == pk.port and
                          cb.channel == (pk.channel & cb.channel_mask)]
                else:
                    it = [cb for cb in inc.cb if cb.port == (pk.port & cb.port_mask) and
                          cb.channel == (pk.channel & cb.channel_mask)]
                for cb in it:
                    try:
                        cb.callback(pk)
                    except Exception as e:
                        if variant == 'abort_on_exc':
                            break
                        if variant == 'handler_needs_exc_args':
                            e.args[0]         # a log line that assumes the exception carries a message
                    if variant == 'first_only':
                        break
        inc.run = run
    return install


def _mutant_remove_by_identity(cf):
    inc = cf.incoming

    def remove_header_callback(cb, port, channel, port_mask=0xFF, channel_mask=0xFF):
        for port_callback in inc.cb:
            if port_callback.port == port and port_callback.port_mask == port_mask and \
                    port_callback.channel == channel and port_callback.channel_mask == channel_mask and \
                    port_callback.callback is cb:
                inc.cb.remove(port_callback)
    inc.remove_header_callback = remove_header_callback


def _mutant_remove_ignores_masks(cf):
    inc = cf.incoming

    def remove_header_callback(cb, port, channel, port_mask=0xFF, channel_mask=0xFF):
        for port_callback in inc.cb:
            if port_callback.port == port and port_callback.channel == channel and port_callback.callback == cb:
                inc.cb.remove(port_callback)
    inc.remove_header_callback = remove_header_callback


MUTANTS = {'remove_ignores_masks': _mutant_remove_ignores_masks, 'live': _mutant_run('live'), 'eqmask': _mutant_run('eqmask'),
           'abort_on_exc': _mutant_run('abort_on_exc'), 'first_only': _mutant_run('first_only'),
           'handler_needs_exc_args': _mutant_run('handler_needs_exc_args'),
           'mask_both_sides': _mutant_run('mask_both_sides'),
           'remove_by_identity': _mutant_remove_by_identity}


# --------------------------------------------------------------------------- scenario sources
def scenarios_enumerated(tier, rng):
    """Own exhaustive enumeration: every script assignment over 3 registered callbacks x a set of
    pattern assignments x header pairs; plus 256-header sweeps."""
    out = []
    pats3 = [PATTERNS[0], PATTERNS[1], PATTERNS[2]]
    headers = [48, 49, 114]
    scripts3 = [('nop', 0), ('raise', 0), ('removeSelf', 0), ('addExtra', 0),
                ('remove', 1), ('remove', 2), ('remove', 3)]
    pat_assign = list(itertools.product(pats3, repeat=3))
    if tier == 'quick':
        pat_assign = [pa for i, pa in enumerate(pat_assign) if i % 3 == 0]
    for pa in pat_assign:
        for sa in itertools.product(scripts3, repeat=3):
            for xs in (('nop', 0), ('removeSelf', 0)):
                if xs[0] == 'removeSelf' and not any(s[0] == 'addExtra' for s in sa):
                    continue
                hs = (rng.choice(headers), rng.choice(headers))
                out.append({'pat': list(pa) + [pats3[0], pa[0]], 'script': list(sa) + [('nop', 0), xs],
                            'regs0': [1, 2, 3], 'headers': list(hs)})
    # all 256 header bytes against every pattern at once (4 registered + extra), several scripts
    for k in range(6 if tier == 'quick' else 40):
        pa = [rng.choice(PATTERNS) for _ in range(EXTRA)]
        sa = [rng.choice(SCRIPTS) for _ in range(NREGS)] + [rng.choice([('nop', 0), ('removeSelf', 0)])]
        if k == 0:
            sa = [('nop', 0)] * EXTRA
        hs = list(range(256))
        rng.shuffle(hs)
        out.append({'pat': pa, 'script': sa, 'regs0': [1, 2, 3, 4], 'headers': hs})
    # random beyond: 4 registered callbacks, any registration order, 3 packets
    for k in range(2000 if tier == 'quick' else 40000):
        pa = [rng.choice(PATTERNS) for _ in range(EXTRA)]
        sa = [rng.choice(SCRIPTS) for _ in range(NREGS)] + [rng.choice([('nop', 0), ('removeSelf', 0)])]
        regs0 = rng.sample([1, 2, 3, 4], rng.randint(1, 4))
        hs = [rng.randrange(256) & 0xF3 for _ in range(3)]
        sc = {'pat': pa, 'script': sa, 'regs0': regs0, 'headers': hs}
        if k % 4 == 0:
            # a service that listens with two registrations of ONE callback: same port and channel,
            # different masks (e.g. a port callback and a header callback)
            a, b = rng.sample([1, 2, 3, 4], 2)
            pa[b - 1] = (pa[a - 1][0], pa[a - 1][1], pa[a - 1][2], pa[a - 1][3] ^ rng.choice([1, 2, 3]))
            sc['share'] = [a, b]
            # make sure some packets match both
            hs[0] = ((pa[a - 1][0] & 0x0F) << 4 | (pa[a - 1][2] & 3)) & 0xF3
        out.append(sc)
    return out


def scenario_from_behaviour(beh):
    """A TLC behaviour of Dispatch (list of (label, state)) -> scenario + expected per-dispatch
    results (the `done` history of the last state)."""
    st0 = beh[0][1]
    nregs = len(st0['cbs'])

    def pat(p):
        return (p['port'], p['pmask'], p['chan'], p['cmask'])
    cfgd = beh[-1][1]            # pattern/script are fixed once the Configure steps are through
    pats = [pat(p) for p in cfgd['pat']]
    scripts = [(x['k'], x['t']) for x in cfgd['script']]
    # spec callbacks 1..nregs, extra = nregs+1  ->  harness ids 1..nregs, EXTRA
    pa = pats[:nregs] + [PATTERNS[0]] * (NREGS - nregs) + [pats[nregs]]
    sa = scripts[:nregs] + [('nop', 0)] * (NREGS - nregs) + [scripts[nregs]]
    headers = []
    for label, _st in beh[1:]:
        name, args = tlc.parse_label(label)
        if name == 'Begin':
            headers.append(args[0])
    last = beh[-1][1]
    ren = {nregs + 1: EXTRA}
    expected = [{'hdr': d['hdr'], 'calls': [ren.get(w, w) for w in d['calls']]} for d in last['done']]
    complete = last['mode'] == 'idle'
    if not complete:
        headers = headers[:len(expected)]
    return ({'pat': pa, 'script': sa, 'regs0': list(range(1, nregs + 1)), 'headers': headers},
            expected, [ren.get(w, w) for w in last['cbs']] if complete else None)


def _exec_job(job):
    sc, mutant = job
    return execute(sc, MUTANTS[mutant] if mutant else None)


def _init():
    vsched.load_cflib()


def run_scenarios(scs, mutant=None):
    for i, sc in enumerate(scs):
        concretise(sc, i)
    return common.pmap(_exec_job, [(sc, mutant) for sc in scs], init=_init, maxtasks=None)


# --------------------------------------------------------------------------- the check
def judge(out, traces, scs, label):
    for i, t in enumerate(traces):
        t['id'] = i + 1
    verdicts, st = common.validate_traces('DispatchTrace.tla', 'TRACE_Dispatch.cfg', traces)
    out.traces += len(traces)
    out.states += st['states']
    out.transitions += st['transitions']
    out.tlc_runs.append({'config': 'TRACE_Dispatch (%s)' % label, 'states': st['states'],
                         'transitions': st['transitions'], 'wall_s': round(st['wall_s'], 2),
                         'traces': len(traces)})
    bad, drift = [], 0
    for t, sc in zip(traces, scs):
        clause, at, conf, conf_at = verdicts[t['id']]
        if clause != 'ok':
            bad.append((t, sc, clause, at))
        elif not conf:
            drift += 1
    return bad, drift


def signature(trace, clause, at):
    """Violated clause + the shape of the first failing dispatch (which scripts ran in it)."""
    kinds = []
    for e in trace['ev'][:max(at, 0)]:
        if e['e'] == 'begin':
            kinds = []
        elif e['e'] == 'call':
            kinds.append(trace['script'][e['w'] - 1][0])
    return '%s/%s' % (clause, '+'.join(sorted(set(kinds))) or 'none')


def main(tier, seed, replay=None):
    out = common.Outcome('C07', tier, seed)
    rng = random.Random(seed)
    out.assumptions = [
        'registrations in one scenario are distinct (property quantifier); a callback is a closure (same object at add '
        'and remove) or a bound method taken afresh at add and remove time (equal, not identical), alternating per scenario',
        'a `raise` script raises one of 9 Exception kinds (with message, without arguments, KeyError, StopIteration, OSError, '
        'custom subclass, tuple argument), chosen per scenario',
        'header equality is port+channel (the two reserved header bits are always set by CRTPPacket)',
        'a registration added or removed while a packet is dispatched may see that packet at most once (DESIGN 3.1(2))',
    ]
    if replay:
        import json
        rp = json.load(open(replay))['replay']
        _init()
        t = execute(rp['scenario'])
        bad, _ = judge(out, [t], [rp['scenario']], 'replay')
        for (t, sc, clause, at) in bad:
            out.violation(signature(t, clause, at), clause, {'event_index': at, 'trace': t}, {'scenario': sc})
        return out.finish()

    # 1. design spec: exhaustive, and the pre-fix variant must be refuted (vacuity guard)
    cfg = 'MC_Dispatch_quick.cfg' if tier == 'quick' else 'MC_Dispatch_thorough.cfg'
    r = tlc.check('MC_Dispatch.tla', cfg, coverage=(tier == 'thorough'), timeout=3000)
    out.add_tlc(cfg, r)
    rb = tlc.expect_violation('MC_Dispatch.tla', 'MC_Dispatch_bug.cfg', timeout=600)
    out.sensitivity['spec:LiveIteration'] = 'refuted (%s) after %d states' % (rb.violated, rb.distinct)

    # 2. spec -> code: TLC behaviours replayed into the real dispatcher, post-states compared
    nsim = 400 if tier == 'quick' else 4000
    rs, behs = tlc.simulate('MC_Dispatch.tla', 'SIM_Dispatch.cfg', num=nsim, depth=40, seed=seed % 100000,
                            timeout=900)
    out.add_tlc('SIM_Dispatch.cfg (-simulate num=%d)' % nsim, rs)
    sims = [scenario_from_behaviour(b) for b in behs if b[-1][1]['mode'] != 'setup']
    sim_scs = [x[0] for x in sims]
    sim_traces = run_scenarios(sim_scs)
    matched = 0
    for (sc, expected, cbs_end), t in zip(sims, sim_traces):
        got, cur = [], None
        for e in t['ev']:
            if e['e'] == 'begin':
                cur = {'hdr': e['h'], 'calls': []}
            elif e['e'] == 'call' and cur is not None:
                cur['calls'].append(e['w'])
            elif e['e'] == 'end' and cur is not None:
                got.append(cur)
                cur = None
        ends = [e['cbs'] for e in t['ev'] if e['e'] == 'end']
        if got == expected and (cbs_end is None or not ends or ends[-1] == cbs_end):
            matched += 1
    out.conformance['spec_to_code'] = {'behaviours': len(sims), 'matched': matched}

    # 3. code -> spec: own enumeration + random, judged by the monitor; conformance drift counted
    scs = scenarios_enumerated(tier, rng)
    traces = run_scenarios(scs)
    all_scs = sim_scs + scs
    all_traces = sim_traces + traces
    bad, drift = judge(out, all_traces, all_scs, 'real code')
    out.conformance['code_to_spec'] = {'traces': len(all_traces), 'explained_by_design_spec': len(all_traces) - drift - len(bad)}
    for (t, sc, clause, at) in bad:
        out.violation(signature(t, clause, at), clause, {'event_index': at, 'trace': t}, {'scenario': sc})
    out.evaluations = len(all_traces)
    out.distinct = len({repr((t['pat'], t['script'], t['regs0'], [e for e in t['ev'] if e['e'] == 'begin'])) for t in all_traces})
    out.rule = ('scenario = (pattern per callback, script per callback, initial registrations, header sequence); '
                'sources: TLC -simulate behaviours of Dispatch, exhaustive product of 7 scripts^3 x pattern assignments, '
                '256-header sweeps, seeded random; distinct = distinct scenarios; all are non-trivial (>=1 dispatch)')
    out.samples = [{'scenario': all_scs[i], 'events': all_traces[i]['ev'][:12]} for i in (0, len(all_scs) // 2, len(all_scs) - 1)]

    # 4. sensitivity: in-memory mutants of the dispatcher loop must be rejected by the monitor
    sub = scs[::max(1, len(scs) // (600 if tier == 'quick' else 3000))]
    for name in sorted(MUTANTS):
        mt = run_scenarios(sub, mutant=name)
        o2 = common.Outcome('C07', tier, seed)
        mbad, _ = judge(o2, mt, sub, 'mutant ' + name)
        out.sensitivity['mutant:' + name] = '%d of %d traces rejected' % (len(mbad), len(mt))
        if not mbad:
            raise common.MachineryError('monitor did not reject in-memory mutant %s' % name)
    # binding self-test: one recorded field corrupted must be rejected
    import copy
    t0 = copy.deepcopy(next(t for t in all_traces if any(e['e'] == 'call' for e in t['ev'])))
    idx = next(i for i, e in enumerate(t0['ev']) if e['e'] == 'call')
    del t0['ev'][idx]
    o2 = common.Outcome('C07', tier, seed)
    cbad, cdrift = judge(o2, [t0], [None], 'corrupted')
    out.sensitivity['binding:drop-one-call-event'] = 'rejected' if (cbad or cdrift) else 'ACCEPTED'
    if not (cbad or cdrift):
        raise common.MachineryError('trace spec accepted a trace with a call event removed')
    return out.finish()
