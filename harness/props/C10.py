"""C10 -- unanswered requests are retried until answered, and only then.

spec/Retry.tla (design), spec/RetryProps.tla, spec/RetryTrace.tla (monitor).
Real code: Crazyflie.send_packet / _no_answer_do_retry / _check_for_answers / close_link /
_link_error_cb with real (virtual-time) Timer threads on a sim:// link that never answers by
itself; replies are injected by the scenario."""
import json
import random

from .. import common, tlc, vsched
from ..simdev import core as sd
from ..vsched import vtime

PORT = 9
HDR = (PORT << 4)            # reserved bits normalised away (DESIGN 3)
PATS = {1: (1,), 2: (1, 2), 3: (3,)}          # expected_reply tails; header byte is prepended by the library
TMO = {1: 0.2, 2: 0.3, 3: 0.2}
PACKETS = [(1, 9), (1, 2, 9), (3,), (7, 1)]


class ParkPolicy:
    """Targeted schedules for the two races TLC found in Retry.tla: keep a thread parked at one
    particular yield point for as long as any other thread can run.
      'cancel': the dispatcher inside _check_for_answers, parked in Timer.cancel() (event.set)
      'start' : a retry timer thread inside send_packet, parked in Timer.start() (thread.start)
      'sent'  : the sending thread (application or retry timer) parked where it gives up the send
                lock, i.e. after the link has taken the packet and before send_packet returns --
                a device that answers at once is heard by the dispatcher in between
    Otherwise lowest thread id first; time advances only when nothing can run (strict)."""

    def __init__(self, which):
        self.which = which

    def _parked(self, r):
        op = r.pending
        if op is None:
            return False
        if self.which == 'cancel':
            return r.name.startswith('_IncomingPacketHandler') and op.kind == 'event.set'
        if self.which == 'sent':
            # from the moment the link has the packet until the application's next step
            return not r.name.startswith('_IncomingPacketHandler') and getattr(r, 'sent_mark', False)
        return r.name.startswith('Timer') and op.kind == 'thread.start'

    def choose(self, sched, runnable, timed):
        if not runnable:
            return vsched.TICK
        free = [r for r in runnable if not self._parked(r)]
        # library threads (dispatcher, timers) before the application thread, so that they reach
        # the parking point before the application goes on
        free.sort(key=lambda r: (r.name.startswith('user'), r.tid))
        return (free or runnable)[0]


def execute(sc, mutant=None):
    import cflib.crazyflie as cfm
    from cflib.crtp.crtpstack import CRTPPacket
    ev = []
    st = {'nreq': 0, 'sess': 0}
    pol = sc['policy']
    rng = random.Random(pol[1])
    strict = pol[0] in ('fifo', 'random0', 'pct0')
    if pol[0] == 'park':
        policy = ParkPolicy(pol[1])
        strict = True
    elif pol[0] == 'fifo':
        policy = vsched.FifoPolicy()
    elif pol[0] in ('random', 'random0'):
        policy = vsched.RandomPolicy(rng, tick_p=0.0 if strict else 0.15)
    else:
        policy = vsched.PCTPolicy(rng, depth=3, est_steps=120, tick_p=0.0 if strict else 0.1)
    with vsched.scheduler(policy, max_steps=30000) as s:
        w = sd.set_world(sd.World())
        dev = sd.Device({}, mode='sync', needs_resending=not sc['reliable'])
        w.add('0', dev)
        cf = cfm.Crazyflie(rw_cache=None)
        if mutant:
            mutant(cf)

        def ms():
            return int(round(s.now * 1000))

        # an application callback on packet_sent (the console, log and param clients use one): a
        # point inside send_packet, after the link has the packet, where other threads can run
        cf.packet_sent.add_callback(lambda pk: vtime.sleep(0))

        # The answer check is bracketed: 'ansb' is logged on entry (no yield point lies between the
        # entry and the snapshot of the pending patterns, so it fixes which request the packet
        # answers), 'ans' on exit (the matched timer is cancelled and the pattern deleted: from here
        # on the request counts as answered).  Logging only after the call attributed the packet
        # to requests registered while the dispatcher was parked inside Timer.cancel().
        cbs = cf.packet_received.callbacks
        ci = [i for i, cb in enumerate(cbs) if getattr(cb, '__name__', '') in ('_check_for_answers', 'check')]
        if len(ci) != 1:
            raise common.MachineryError('cannot find the _check_for_answers callback')
        inner = cbs[ci[0]]
        if sc.get('lines'):
            # pre-emption between the statements of the answer check and of send_packet
            s.yield_at_lines(inner, cf.send_packet)

        def checked(pk):
            mine = pk.port == PORT
            if mine:
                sess = dev.session if dev.link is not None else 0
                ev.append({'e': 'ansb', 'sess': sess, 'data': [HDR] + list(pk.data), 't': ms()})
            try:
                inner(pk)
            finally:
                if mine:
                    ev.append({'e': 'ans', 'sess': sess, 'data': [HDR] + list(pk.data), 't': ms()})
        cbs[ci[0]] = checked

        # every transmission, including those on closed / superseded link objects
        def on_event(kw):
            if kw.get('port') != PORT:
                return
            if kw['e'] == 'up':
                ev.append({'e': 'tx', 'req': kw['data'][0], 'sess': kw['session'], 't': kw['t'], 'strict': strict})
                ncopy = st.setdefault('copies', {})
                ncopy[kw['data'][0]] = ncopy.get(kw['data'][0], 0) + 1
                if ncopy[kw['data'][0]] >= st.get('auto', {}).get(kw['data'][0], 1 << 30) and dev.link is not None:
                    # a device that answers every copy at once: the reply is in the link's queue
                    # before link.send_packet() has returned to the library
                    dev.emit(sd.reply(PORT, 0, bytes(kw['data'][1:]) + b'\x09'))
                    me = s.current() if hasattr(s, 'current') else None
                    if me is not None:
                        me.sent_mark = True
            elif kw['e'] in ('up_closed', 'up_stale'):
                # handed to a link object that is already closed: a closed driver transmits nothing
                # (RadioDriver leaves it in the dead out_queue, UsbDriver returns, SimDriver drops)
                ev.append({'e': 'drop', 'req': kw['data'][0], 't': kw['t']})
        orig_event = w.event

        def event(**kw):
            r = orig_event(**kw)
            on_event(r)
            return r
        w.event = event

        nopen = [0]

        def do_open():
            if cf.link is None:
                nopen[0] += 1
                cf.open_link('sim://0/%d' % nopen[0])

        def do_send(k, p, after=0):
            # at most one request per pattern and session (assumption of the property check) -- except
            # the follow-up a reply handler issues for the pattern whose reply it is handling (after)
            if cf.link is None or (not after and (dev.session, p) in st.setdefault('sent', set())):
                return
            st.setdefault('sent', set()).add((dev.session, p))
            st['nreq'] += 1
            r = st['nreq']
            st.setdefault('sess_of', {})[r] = dev.session
            if k != 'send':      # answered at once from the first / from the second copy on
                st.setdefault('auto', {})[r] = 1 if k == 'sendq' else 2
            # after: id (last data byte) of the incoming packet whose handler issues this request, 0 = none;
            # that packet was received before the request existed and cannot be its answer
            ev.append({'e': 'send', 'req': r, 'sess': dev.session, 'pat': [HDR] + list(PATS[p]),
                       'tmo': int(round(TMO[p] * 1000)), 'after': after})
            pk = CRTPPacket()
            pk.set_header(PORT, 0)
            pk.data = bytes([r]) + bytes(PATS[p])
            cf.send_packet(pk, expected_reply=PATS[p], timeout=TMO[p])
            st.setdefault('done', set()).add((st['sess_of'].get(r), p))

        # an application that reconnects from inside the link-error notification (auto-reconnect)
        # and sends a request at once: the first `recb` notifications do that
        from harness.vsched import vthreading as _vt
        app_lock = _vt.RLock()
        if sc.get('recb'):
            left = [len(sc['recb'])]

            def on_link_error(uri, msg):
                if left[0] > 0:
                    p = sc['recb'][len(sc['recb']) - left[0]]
                    left[0] -= 1
                    with app_lock:
                        do_open()
                        do_send('send', p)
            cf.connection_failed.add_callback(on_link_error)
            cf.connection_lost.add_callback(on_link_error)
            cf.disconnected_link_error.add_callback(on_link_error)

        # an application that polls: the handler of a reply issues the next request for the same
        # data (the first `echo` replies on the port do that, pattern by the reply's leading bytes)
        if sc.get('echo'):
            eleft = [int(sc['echo'])]

            def on_reply(pk):
                d = tuple(pk.data)
                if eleft[0] <= 0 or len(d) < 2 or not (100 <= d[-1] < 250):
                    return
                # the follow-up is for the longest pattern the packet matches among the requests that
                # were completely sent before it arrived: that one the packet has answered (one
                # outstanding request per pattern, as everywhere in this check)
                for p in (2, 1, 3):                       # longest pattern first
                    if d[:len(PATS[p])] == PATS[p] and (dev.session, p) in st.get('snap', {}).get(d[-1], ()):
                        eleft[0] -= 1
                        with app_lock:
                            do_send('send', p, after=d[-1])
                        return
            cf.add_port_callback(PORT, on_reply)
        if getattr(cf, '_verif_check_last', False):      # in-memory mutant: answers checked after the port callbacks
            cbs.remove(checked)
            cf.add_port_callback(PORT, checked)

        def user():
            for op in sc['ops']:
                k = op[0]
                s.current().sent_mark = False
                # The application does not close / open / send while its own link-error handler is
                # still reconnecting in another thread: a send_packet() call racing with close +
                # open belongs to whichever session holds the link when it gets the send lock, and
                # the 'send' event (logged before the call) would name the wrong one.
                # (and two threads never open the same Crazyflie at once): the application's own
                # lock around its link operations
                if k == 'open':
                    with app_lock:
                        do_open()
                elif k in ('send', 'sendq', 'sendq2'):
                    with app_lock:
                        do_send(k, op[1])
                elif k == 'close':
                    with app_lock:
                        cf.close_link()
                elif k == 'lerr':
                    if dev.link is not None:
                        dev._fail_driver(dev.link)
                        vtime.sleep(0.001)
                elif k == 'lerr0':         # the same without letting time pass
                    if dev.link is not None:
                        dev._fail_driver(dev.link)
                        for _ in range(50):          # until the error report has been handled
                            if cf.link is None:
                                break
                            vtime.sleep(0)
                elif k == 'sleep':
                    vtime.sleep(op[1])
                elif k == 'inject':
                    if dev.link is not None:
                        # every injected packet ends in a unique id byte (patterns are prefixes)
                        st['pid'] = 100 + (st.get('pid', 100) - 100 + 1) % 150
                        # the requests whose send_packet() call had returned when this packet arrived
                        st.setdefault('snap', {})[st['pid']] = set(st.get('done', ()))
                        dev.emit(sd.reply(PORT, 0, bytes(op[1]) + bytes([st['pid']])))

        u = s.spawn(user, 'user')
        s.run(until=lambda: u.finished, horizon=60.0)
        # let the retry chains run on for a while, then stop at a time that is not a deadline
        t_end = s.now + 1.337
        s.run(horizon=t_end)
        rep = s.report()
        dead = [t for t in rep if t['status'] == 'dead']
        for t in dead:
            # a library thread that ended with an exception (the dispatcher, a retry timer): from
            # here on replies are not checked / the request is not retried any more
            ev.append({'e': 'died', 'thread': str(t.get('name', '?')).split('#')[0], 't': int(round(t_end * 1000))})
        ev.append({'e': 'end', 't': int(round(t_end * 1000)), 'sess': dev.session if dev.link is not None else 0,
                   'strict': strict and not dead and u.finished})
    return {'ev': ev, 'reliable': sc['reliable'],
            'detail': {'dead': [t.get('traceback', '')[-500:] for t in dead], 'user_finished': u.finished}}


# --------------------------------------------------------------------------- scenarios
def gen_scenario(rng, reliable=False):
    ops = [('open',)]
    n = rng.randint(3, 9)
    for _ in range(n):
        r = rng.random()
        if r < 0.30:
            ops.append((rng.choice(['send', 'send', 'sendq', 'sendq2']), rng.choice([1, 2, 3])))
        elif r < 0.55:
            ops.append(('inject', rng.choice(PACKETS)))
        elif r < 0.80:
            # sleeps that land exactly on, just before and just after the retry deadlines
            ops.append(('sleep', rng.choice([0.05, 0.1, 0.199, 0.2, 0.201, 0.3, 0.4, 0.6])))
        elif r < 0.88:
            ops.append(('close',))
            ops.append(('sleep', rng.choice([0.0, 0.05, 0.25])))
            ops.append(('open',))
        elif r < 0.94:
            ops.append(('lerr',))
            ops.append(('sleep', rng.choice([0.0, 0.05, 0.25])))
            ops.append(('open',))
        else:
            ops.append(('sleep', 0.0))
    kinds = ['fifo', 'random0', 'pct0', 'random', 'pct']
    sc = {'ops': ops, 'reliable': reliable, 'policy': (rng.choice(kinds), rng.randrange(1 << 30))}
    # (the polling handler 'echo' is used in the systematic family (f) only: combined with concurrent
    # application sends and delayed dispatch its follow-up can duplicate an outstanding pattern,
    # which this check assumes away -- seen as false RetryStopped alarms in thorough runs)
    if rng.random() < 0.25:
        sc['recb'] = [rng.choice([1, 2, 3]) for _ in range(rng.randint(1, 2))]
    return sc


def systematic():
    out = []
    for p in (1, 2, 3):
        for reliable in (False, True):
            out.append({'ops': [('open',), ('send', p), ('sleep', 1.0)], 'reliable': reliable, 'policy': ('fifo', 0)})
        for pk in PACKETS:
            for dt in (0.0, 0.1, 0.199, 0.2, 0.201, 0.45):
                for seed in range(3):
                    out.append({'ops': [('open',), ('send', p), ('sleep', dt), ('inject', pk), ('sleep', 0.7)],
                                'reliable': False, 'policy': ('random0', seed)})
    # shared prefixes pending together, every packet
    for pk in PACKETS:
        for order in ((1, 2), (2, 1), (1, 2, 3)):
            for seed in range(3):
                out.append({'ops': [('open',)] + [('send', p) for p in order] + [('sleep', 0.1), ('inject', pk), ('sleep', 0.9)],
                            'reliable': False, 'policy': ('pct0', seed)})
    # close / link error / reopen around pending timers; same pattern re-sent in the next session
    for how in ('close', 'lerr'):
        for dt in (0.0, 0.1, 0.2, 0.25):
            for p2 in (1, 2, 3):
                for seed in range(4):
                    out.append({'ops': [('open',), ('send', 1), ('send', 2), ('sleep', dt), (how,), ('sleep', 0.02), ('open',),
                                        ('send', p2), ('sleep', 0.05), ('inject', (1, 2, 9)), ('sleep', 0.8)],
                                'reliable': False, 'policy': (['fifo', 'random0', 'pct0', 'random'][seed], seed)})
    # races found through the design spec (Retry.tla, invariants ChainKept / NoCrossSession):
    # (a) the dispatcher parked inside _check_for_answers across close + open + a new request for
    #     the same pattern; (b) a resend in flight (timer thread parked inside send_packet) across
    #     link error + open.  Needs particular schedules: many PCT / random seeds each.
    race_a = [('open',), ('send', 3), ('inject', (3,)), ('close',), ('open',), ('send', 3), ('sleep', 1.0)]
    race_b = [('open',), ('send', 1), ('sleep', 0.2), ('lerr0',), ('open',), ('sleep', 0.5)]
    out.append({'ops': race_a, 'reliable': False, 'policy': ('park', 'cancel')})
    out.append({'ops': race_b, 'reliable': False, 'policy': ('park', 'start')})
    for p in (1, 2, 3):      # the same two shapes with the other patterns / a longer pattern pending too
        out.append({'ops': [('open',), ('send', p), ('send', 2 if p != 2 else 1), ('inject', PACKETS[1]), ('close',), ('open',),
                            ('send', p), ('sleep', 1.0)], 'reliable': False, 'policy': ('park', 'cancel')})
        out.append({'ops': [('open',), ('send', p), ('sleep', TMO[p]), ('lerr0',), ('open',), ('send', p), ('sleep', 0.7)],
                    'reliable': False, 'policy': ('park', 'start')})
    # (d) the application reconnects and sends from inside the link-error notification
    for how in ('lerr', 'lerr0'):
        for p in (1, 2, 3):
            for p0 in (1, 3):
                out.append({'ops': [('open',), ('send', p0), ('sleep', 0.05), (how,), ('sleep', 1.0)], 'recb': [p],
                            'reliable': False, 'policy': ('fifo', 0)})
                out.append({'ops': [('open',), ('send', p0), ('sleep', 0.05), (how,), ('sleep', 0.3), ('inject', PACKETS[1]),
                                    ('sleep', 0.3), (how,), ('sleep', 0.8)], 'recb': [p, p0],
                            'reliable': False, 'policy': ('random0', p)})
    # (e) statement-level pre-emption inside _check_for_answers / send_packet: the dispatcher checks a
    #     packet while the application registers another request
    for seed in range(24):
        for pk in (PACKETS[2], PACKETS[3], PACKETS[1]):
            out.append({'ops': [('open',), ('send', 1), ('inject', pk), ('send', 2), ('inject', pk), ('send', 3), ('sleep', 0.7)],
                        'lines': True, 'reliable': False, 'policy': (['random0', 'pct0'][seed % 2], seed)})
    # (f) a polling application: the handler of a reply sends the next request for the same pattern
    for p in (1, 2, 3):
        rep = {1: (1, 9), 2: (1, 2, 9), 3: (3,)}[p]
        for n in (1, 2):
            out.append({'ops': [('open',), ('send', p), ('sleep', 0.05), ('inject', rep), ('sleep', 0.9)], 'echo': n,
                        'reliable': False, 'policy': ('fifo', 0)})
            out.append({'ops': [('open',), ('send', p), ('sleep', 0.05), ('inject', rep), ('sleep', 0.45), ('inject', rep),
                                ('sleep', 0.6)], 'echo': n, 'reliable': False, 'policy': ('random0', n)})
    # (c) a device that answers at once: the reply is handled while the sending thread is still
    #     inside send_packet (first transmission and retransmission)
    for p in (1, 2, 3):
        for k in ('sendq', 'sendq2'):
            out.append({'ops': [('open',), (k, p), ('sleep', 1.0)], 'reliable': False, 'policy': ('park', 'sent')})
            out.append({'ops': [('open',), (k, p), (k, 2 if p != 2 else 3), ('sleep', 1.0)], 'reliable': False,
                        'policy': ('park', 'sent')})
            for seed in range(6):
                out.append({'ops': [('open',), (k, p), ('sleep', 1.0)], 'reliable': False,
                            'policy': (['pct0', 'random0'][seed % 2], seed)})
    for seed in range(40):
        for kind in ('pct0', 'random0'):
            out.append({'ops': race_a, 'reliable': False, 'policy': (kind, seed)})
        for kind in ('pct', 'random'):
            out.append({'ops': race_b, 'reliable': False, 'policy': (kind, seed)})
    return out


# --------------------------------------------------------------------------- mutants
def _send_packet_variant(variant):
    """Crazyflie.send_packet re-implemented with one seeded defect (in-memory, /repo untouched)."""
    def install(cf):
        from harness.vsched.vthreading import Timer

        def send_packet(pk, expected_reply=(), resend=False, timeout=0.2):
            cf._send_lock.acquire()
            try:
                link = cf.link
                pats = cf._answer_patterns
                if link is not None:
                    needs = link.needs_resending or variant == 'retry_on_reliable'
                    if len(expected_reply) > 0 and not resend and needs:
                        pattern = (pk.header,) + expected_reply
                        t = Timer(timeout, lambda: cf._no_answer_do_retry(pk, pattern, timeout))
                        t.request = pk
                        if variant == 'register_after_send':
                            link.send_packet(pk)
                            cf.packet_sent.call(pk)
                            pats[pattern] = t
                            t.start()
                            return
                        pats[pattern] = t
                        t.start()
                    elif resend:
                        pattern = expected_reply
                        cur = pats.get(pattern)
                        ok = cur is not None and (variant == 'no_identity' or getattr(cur, 'request', None) is pk)
                        if ok:
                            if variant != 'no_rearm':
                                tmo = 0.2 if variant == 'default_timeout' else timeout
                                t = Timer(tmo, lambda: cf._no_answer_do_retry(pk, pattern, timeout))
                                t.request = pk
                                pats[pattern] = t
                                t.start()
                                if variant == 'double_arm' and not getattr(pk, '_dbl', False):
                                    pk._dbl = True      # once per request: unbounded doubling would only exhaust OS threads
                                    t2 = Timer(tmo, lambda: cf._no_answer_do_retry(pk, pattern, timeout))
                                    t2.request = pk
                                    t2.start()
                        elif variant != 'resend_after_answer':
                            return
                    if variant == 'reread_link':
                        cf.link.send_packet(pk)       # pre-fix: the link is looked at again
                    else:
                        link.send_packet(pk)
                    cf.packet_sent.call(pk)
            finally:
                cf._send_lock.release()
        cf.send_packet = send_packet
        if variant == 'cancel_shortest':
            def check(pk):
                data = (pk.header,) + tuple(pk.data)
                m = [p for p in list(cf._answer_patterns) if len(p) <= len(data) and p == data[:len(p)]]
                if m:
                    p = min(m, key=len)
                    cf._answer_patterns[p].cancel()
                    del cf._answer_patterns[p]
            cbs = cf.packet_received.callbacks
            for i, cb in enumerate(cbs):
                if getattr(cb, '__name__', '') == '_check_for_answers':
                    cbs[i] = check
        if variant == 'live_patterns_iteration':
            def check3(pk):
                longest = ()
                ap = cf._answer_patterns
                if len(ap) > 0:
                    data = (pk.header,) + tuple(pk.data)
                    for p in ap:                      # the live dictionary, no snapshot of the keys
                        if len(p) <= len(data) and p == data[0:len(p)]:
                            if len(p) >= len(longest):
                                longest = p
                if len(longest) > 0:
                    ap[longest].cancel()
                    del ap[longest]
            check3.__name__ = 'check'
            cbs = cf.packet_received.callbacks
            for i, cb in enumerate(cbs):
                if getattr(cb, '__name__', '') == '_check_for_answers':
                    cbs[i] = check3
        if variant == 'reread_patterns':
            def check2(pk):
                data = (pk.header,) + tuple(pk.data)
                m = [p for p in list(cf._answer_patterns) if len(p) <= len(data) and p == data[:len(p)]]
                if m:
                    p = max(m, key=len)
                    cf._answer_patterns[p].cancel()
                    del cf._answer_patterns[p]          # pre-fix: dictionary read again after cancel()
            check2.__name__ = 'check'
            cbs = cf.packet_received.callbacks
            for i, cb in enumerate(cbs):
                if getattr(cb, '__name__', '') == '_check_for_answers':
                    cbs[i] = check2
    return install


MUTANTS = {k: _send_packet_variant(k) for k in
           ('retry_on_reliable', 'no_identity', 'no_rearm', 'default_timeout', 'double_arm',
            'resend_after_answer', 'cancel_shortest', 'reread_link', 'reread_patterns', 'register_after_send', 'live_patterns_iteration')}


def _mut_stale_patterns(cf):
    orig = cf._link_error_cb

    def patched(errmsg):
        saved = dict(cf._answer_patterns)
        orig(errmsg)
        cf._answer_patterns.update(saved)
    cf._link_error_cb = patched


MUTANTS['stale_patterns_after_link_error'] = _mut_stale_patterns


def _mut_reset_after_callbacks(cf):
    # the pending patterns are (also) thrown away after the link-error notifications have run:
    # requests sent by a callback that reconnects are forgotten
    orig = cf._link_error_cb

    def patched(errmsg):
        orig(errmsg)
        cf._answer_patterns = {}
    cf._link_error_cb = patched


MUTANTS['patterns_reset_after_callbacks'] = _mut_reset_after_callbacks


def _mut_check_after_callbacks(cf):
    # the dispatcher hands a packet to the port callbacks first and checks it for answers afterwards:
    # a request sent by the packet's own handler is taken as answered by it
    cf._verif_check_last = True


MUTANTS['check_after_port_callbacks'] = _mut_check_after_callbacks


def _exec_job(job):
    sc, mutant = job
    return execute(sc, MUTANTS[mutant] if mutant else None)


def _init():
    vsched.load_cflib()
    sd.install()


def run_scenarios(scs, mutant=None):
    return common.pmap(_exec_job, [(sc, mutant) for sc in scs], init=_init, maxtasks=500)


def judge(out, traces, label):
    bad = []
    for rel, cfg in ((False, 'TRACE_Retry.cfg'), (True, 'TRACE_Retry_reliable.cfg')):
        part = [t for t in traces if t['reliable'] == rel]
        if not part:
            continue
        slim = [{'id': t['id'], 'ev': t['ev']} for t in part]
        verdicts, st = common.validate_traces('RetryTrace.tla', cfg, slim)
        out.traces += len(part)
        out.states += st['states']
        out.transitions += st['transitions']
        out.tlc_runs.append({'config': '%s (%s)' % (cfg, label), 'states': st['states'], 'transitions': st['transitions'],
                             'wall_s': round(st['wall_s'], 2), 'traces': len(part)})
        for t in part:
            clause, at = verdicts[t['id']][0], verdicts[t['id']][1]
            if clause != 'ok':
                bad.append((t, clause, at))
    return bad


def signature(t, clause, at, sc):
    ops = [o[0] for o in sc['ops']] if sc else []
    shape = 'reopen' if ops.count('open') > 1 else 'single-session'
    how = 'lerr' if ('lerr' in ops or 'lerr0' in ops) else ('close' if 'close' in ops else 'none')
    return '%s/%s/%s' % (clause, shape, how)


# --------------------------------------------------------------------------- spec -> code
def replay_behaviour(beh):
    """Drive the real code along a TLC behaviour of Retry (quick constants).  Each action is applied
    by stepping exactly the thread the action names; afterwards the set of pending patterns, the
    link state and the transmission history are compared with the TLC state."""
    import cflib.crazyflie as cfm
    from cflib.crtp.crtpstack import CRTPPacket
    matched = total = 0
    first = None
    wire = []
    with vsched.scheduler(vsched.FifoPolicy(), max_steps=20000) as s:
        w = sd.set_world(sd.World())
        dev = sd.Device({}, mode='sync', needs_resending=True)
        w.add('0', dev)
        cf = cfm.Crazyflie(rw_cache=None)
        orig_event = w.event

        def event(**kw):
            r = orig_event(**kw)
            if r.get('port') == PORT and r['e'] == 'up':      # hand-offs to a closed link are not on the wire
                wire.append((r['data'][0], r.get('session', 0)))
            return r
        w.event = event

        def run_user(fn):
            u = s.spawn(fn, 'user')
            # only the user thread (and the threads it starts) may move: script = user until done
            while not u.finished:
                runnable, _timed = s.enabled()
                if u not in runnable:
                    return False
                s.trace.append(u.name)
                s.step_thread(u)
            return True

        def timer_rec(i):
            return s.by_name.get('Timer#%d' % (i - 1))

        run_user(lambda: cf.open_link('sim://0/1'))
        nopen = 1
        nreq = 0
        for (label, st) in beh[1:]:
            name, args = tlc.parse_label(label)
            total += 1
            ok = True
            if name == 'Send':
                p = args[0]
                nreq += 1
                r = nreq

                def do_send(p=p, r=r):
                    pk = CRTPPacket()
                    pk.set_header(PORT, 0)
                    pk.data = bytes([r]) + bytes(PATS[p])
                    cf.send_packet(pk, expected_reply=PATS[p], timeout=TMO[p])
                ok = run_user(do_send)
            elif name == 'TFire':
                rec = timer_rec(args[0])
                ok = rec is not None and rec.pending is not None and not rec.finished
                if ok:
                    s.step_thread(rec)          # the wait returns (deadline reached)
            elif name == 'TResendDecide':
                # _send_lock acquired, link and patterns looked at, next timer armed: the thread is
                # parked in Timer.start() (or has finished when nothing is to be sent)
                rec = timer_rec(args[0])
                ok = rec is not None and not rec.finished
                while ok and not rec.finished:
                    runnable, _ = s.enabled()
                    if rec not in runnable:
                        ok = False
                        break
                    if rec.pending is not None and rec.pending.kind == 'thread.start':
                        break
                    s.step_thread(rec)
            elif name == 'TResendTx':
                rec = timer_rec(args[0])
                ok = rec is not None and not rec.finished
                while ok and not rec.finished:
                    runnable, _ = s.enabled()
                    if rec not in runnable:
                        ok = False
                        break
                    s.step_thread(rec)
            elif name == 'AnswerBegin':
                # the dispatcher takes the packet and parks in Timer.cancel() (event.set) when a
                # pattern matched, otherwise it finishes the check
                d = args[0]
                dev.emit(sd.reply(PORT, 0, bytes(d[1:])))
                disp = s.by_name.get('_IncomingPacketHandler#0')
                for _ in range(50):
                    runnable, _ = s.enabled()
                    if disp not in runnable:
                        break
                    if disp.pending is not None and disp.pending.kind == 'event.set':
                        break
                    s.step_thread(disp)
            elif name == 'AnswerEnd':
                disp = s.by_name.get('_IncomingPacketHandler#0')
                for _ in range(50):
                    runnable, _ = s.enabled()
                    if disp not in runnable:
                        break
                    s.step_thread(disp)
            elif name == 'Close':
                ok = run_user(cf.close_link)
            elif name == 'LinkErr':
                ok = run_user(lambda: cf._link_error_cb('scripted link error'))
            elif name == 'Reopen':
                nopen += 1
                ok = run_user(lambda: cf.open_link('sim://0/%d' % nopen))
            elif name == 'Tick':
                s.now = args[0] / 1000.0
            # ---- projection
            try:
                pend = sorted(tuple(k[1:]) for k in cf._answer_patterns.keys())
            except AttributeError:
                continue
            spend = sorted(PATS[i + 1] for i, v in enumerate(st['pending']) if v != 0)
            swire = [(x['req'], x['sess']) for x in st['wire']]
            ok = ok and pend == spend and (cf.link is None) == (st['link'] == 0) and wire == swire
            if ok:
                matched += 1
            elif first is None:
                first = (total, label, pend, spend, wire, swire)
                break
    return matched, total, first


def _replay_job(beh):
    try:
        return replay_behaviour(beh)
    except Exception:
        import traceback
        return (0, max(1, len(beh) - 1), ('exception', traceback.format_exc()[-700:]))


# --------------------------------------------------------------------------- main
def main(tier, seed, replay=None):
    out = common.Outcome('C10', tier, seed)
    rng = random.Random(seed)
    out.assumptions = [
        'a reply is "received" when the dispatcher has run _check_for_answers on it; it answers the pending request of its '
        'session with the longest matching pattern (DESIGN 3.1(6))',
        'at most one outstanding request per pattern (as the library\'s own users ensure)',
        'retry-interval upper bounds are asserted only in executions where time advances only when no thread can run',
    ]
    if replay:
        rp = json.load(open(replay))['replay']
        if 'driver_scenario' in rp:
            from . import C10_drivers
            C10_drivers.replay(out, rp)
            return out.finish()
        _init()
        t = execute(rp['scenario'])
        t['id'] = 1
        for (t, clause, at) in judge(out, [t], 'replay'):
            out.violation(signature(t, clause, at, rp['scenario']), clause, {'event_index': at, 'events': t['ev'], 'detail': t['detail']}, rp)
        return out.finish()

    cfg = 'MC_Retry_%s.cfg' % tier
    r = tlc.check('MC_Retry.tla', cfg, timeout=3000)
    out.add_tlc(cfg, r)
    rel_cfg = 'MC_Retry_reliable_quick.cfg' if tier == 'quick' else 'MC_Retry_reliable.cfg'
    r2 = tlc.check('MC_Retry.tla', rel_cfg, timeout=1200)
    out.add_tlc(rel_cfg, r2)
    if tier != 'quick':
        r3 = tlc.check('MC_Retry.tla', 'MC_Retry_mid.cfg', timeout=3000)
        out.add_tlc('MC_Retry_mid.cfg', r3)
    for b in ('resendAfterAnswer', 'defaultTimeout', 'noIdentity', 'stalePatterns', 'rereadLink', 'rereadPatterns'):
        rb = tlc.expect_violation('MC_Retry.tla', 'MC_Retry_bug_%s.cfg' % b, timeout=1200)
        out.sensitivity['spec:' + b] = 'refuted (%s) after %d states' % (rb.violated, rb.distinct)

    nsim = 200 if tier == 'quick' else 2000
    rs, behs = tlc.simulate('MC_Retry.tla', 'SIM_Retry.cfg', num=nsim, depth=25, seed=seed % 100000, timeout=900)
    out.add_tlc('SIM_Retry.cfg (-simulate num=%d)' % nsim, rs)
    reps = common.pmap(_replay_job, behs, init=_init, maxtasks=300)
    out.conformance['spec_to_code'] = {
        'behaviours': len(behs), 'fully_matched': sum(1 for x in reps if x[0] == x[1]),
        'steps': sum(x[1] for x in reps), 'steps_matched': sum(x[0] for x in reps),
        'first_mismatches': [str(x[2])[:300] for x in reps if x[2]][:3]}

    scs = systematic()
    nrand = 1500 if tier == 'quick' else 30000
    for i in range(nrand):
        scs.append(gen_scenario(rng, reliable=(i % 10 == 0)))
    traces = run_scenarios(scs)
    for i, t in enumerate(traces):
        t['id'] = i + 1
    for (t, clause, at) in judge(out, traces, 'real code'):
        sc = scs[t['id'] - 1]
        out.violation(signature(t, clause, at, sc), clause, {'event_index': at, 'events': t['ev'][:80], 'detail': t['detail']},
                      {'scenario': sc})
    out.evaluations = len(traces)
    out.distinct = len({json.dumps(t['ev'], sort_keys=True) for t in traces})
    out.rule = ('scenario = (open/send/inject/sleep/close/link-error/reopen program with sleeps landing on, before and after the retry '
                'deadlines; three patterns with shared prefixes; schedule policy fifo|random|PCT, with and without time advancing past '
                'runnable threads; reliable and unreliable link); distinct = distinct observable histories')
    out.samples = [{'scenario': scs[i], 'events': traces[i]['ev'][:12]} for i in (0, 100, len(scs) - 1)]

    # "nothing is ever transmitted on a closed link" on the real driver objects (the simulated link
    # above only assumes it: its 'drop' events): spec/DriverClose*.tla
    from . import C10_drivers
    C10_drivers.run(out, tier, seed)

    sub = systematic()[::2] + [gen_scenario(random.Random(seed + 7 + i), reliable=(i % 5 == 0)) for i in range(200)]
    races = [sc for sc in systematic() if sc['policy'][0] == 'park']
    recbs = [sc for sc in systematic() if sc.get('recb')]
    liners = [sc for sc in systematic() if sc.get('lines')]
    echoes = [sc for sc in systematic() if sc.get('echo')]
    for name in sorted(MUTANTS):
        mt = run_scenarios(races if name in ('reread_link', 'reread_patterns', 'register_after_send') else
                           recbs if name == 'patterns_reset_after_callbacks' else
                           liners if name == 'live_patterns_iteration' else
                           echoes if name == 'check_after_port_callbacks' else sub, mutant=name)
        for i, t in enumerate(mt):
            t['id'] = i + 1
        o2 = common.Outcome('C10', tier, seed)
        mbad = judge(o2, mt, 'mutant ' + name)
        out.sensitivity['mutant:' + name] = '%d of %d traces rejected (%s)' % (
            len(mbad), len(mt), ','.join(sorted({c for (_t, c, _a) in mbad})))
        if not mbad:
            raise common.MachineryError('monitor did not reject in-memory mutant %s' % name)
    import copy
    t0 = copy.deepcopy(next(t for t in traces if sum(1 for e in t['ev'] if e['e'] == 'tx') >= 3 and not t['reliable']
                            and all(e['strict'] for e in t['ev'] if e['e'] == 'tx')))
    idx = [i for i, e in enumerate(t0['ev']) if e['e'] == 'tx'][1]
    t0['ev'][idx]['t'] -= 50
    t0['id'] = 1
    o2 = common.Outcome('C10', tier, seed)
    cb = judge(o2, [t0], 'corrupted')
    out.sensitivity['binding:retry-50ms-early'] = 'rejected' if cb else 'ACCEPTED'
    if not cb:
        raise common.MachineryError('trace spec accepted a corrupted trace')
    return out.finish()
