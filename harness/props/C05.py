"""C05 -- log blocks are created as configured and log data decodes to device values.

spec/LogBlocks.tla (design), spec/LogBlocksProps.tla (the property), spec/LogBlocksTrace.tla
(monitor + conformance for traces recorded from the real Log / LogConfig / SyncLogger).
Real code: cflib.crazyflie.log (Log, LogConfig, LogVariable, LogTocElement), syncLogger.SyncLogger,
toc.TocFetcher inside a real Crazyflie connected through sim:// to a simulated device whose log
service (LogDev below) decodes create/append messages the firmware way, holds its acknowledgements
until the scenario delivers them, can answer with error statuses and emits data packets.

Python only drives the code, records events and converts representations (Python int/float ->
exact canonical tuples, bytes -> integer lists); every verdict is LogBlocksProps evaluated by TLC."""
import copy
import inspect
import itertools
import json
import math
import os
import random
import shutil
import struct
import textwrap

from .. import common, tlc, vsched
from ..simdev import core as sd
from ..simdev import services as sv

TYPE_NAMES = {1: 'uint8_t', 2: 'uint16_t', 3: 'uint32_t', 4: 'int8_t', 5: 'int16_t', 6: 'int32_t',
              7: 'float', 8: 'FP16'}                      # [dis get_log_types] [fw log.h]
SIZES = {1: 1, 2: 2, 3: 4, 4: 1, 5: 2, 6: 4, 7: 4, 8: 2}
BY_SIZE = {1: [1, 4], 2: [2, 5, 8], 4: [3, 6, 7]}
NTOC = 32                                                 # standard table: v.x0 .. v.x31, type (i % 8) + 1


def std_toc(n=NTOC):
    return [('v.x%d' % i, (i % 8) + 1) for i in range(n)]


# --------------------------------------------------------------------------- device side
class HoldFaults(sd.Faults):
    """Settings acknowledgements (port 5, channel 1, not RESET) are held until the scenario delivers
    or drops them; everything else is delivered at once."""

    def __init__(self):
        self.held = []
        self.hold = True

    def downlink(self, dev, n, pk):
        if self.hold and pk.port == sv.PORT_LOG and pk.channel == 1 and len(pk.data) >= 1 and pk.data[0] != 5:
            self.held.append(pk)
            return []
        return ['deliver']


class LogDev(sv.LogService):
    """Log service with firmware-side decode (whole entries, trailing remainder ignored; table
    entry = type + u16 index, raw-memory entry = type + u32 address, kinds told by `kinds_for`),
    one-shot error injection (the message is then not performed) and data emission."""

    def __init__(self, table):
        super().__init__(table)
        self.msgs = []            # every settings message except RESET, as lists of ints
        self.inject_next = 0
        self.kinds_for = lambda bid: []
        self.emitted = []         # FIFO of (wire, types) of data packets sent

    def _decode(self, body, kinds, ki):
        out = []
        pos = 0
        while True:
            mem = ki < len(kinds) and kinds[ki] == 'mem'
            need = 5 if mem else 3
            if pos + need > len(body):
                return out
            out.append({'k': 'mem' if mem else 'toc', 't': body[pos], 'r': list(body[pos + 1:pos + need])})
            pos += need
            ki += 1

    def handle(self, pk):
        d = bytes(pk.data)
        if pk.channel != 1 or not d:
            return super().handle(pk)
        cmd = d[0]
        bid = d[1] if len(d) > 1 else 0
        if cmd == 5:
            self.blocks = {}
            return [sd.reply(sv.PORT_LOG, 1, bytes([5, bid, 0]))]
        self.msgs.append(list(d))
        if self.inject_next:
            st, self.inject_next = self.inject_next, 0
            return [sd.reply(sv.PORT_LOG, 1, bytes([cmd, bid, st]))]
        st = 0
        if cmd == 6:
            if bid in self.blocks:
                st = 17
            else:
                self.blocks[bid] = {'vars': self._decode(d[2:], self.kinds_for(bid), 0), 'started': False, 'period': 0}
        elif cmd == 7:
            if bid not in self.blocks:
                st = 2
            else:
                b = self.blocks[bid]
                b['vars'] += self._decode(d[2:], self.kinds_for(bid), len(b['vars']))
        elif cmd == 2:
            if bid in self.blocks:
                del self.blocks[bid]
            else:
                st = 2
        elif cmd == 3:
            if bid in self.blocks:
                self.blocks[bid]['started'] = True
                self.blocks[bid]['period'] = d[2] if len(d) > 2 else 0
            else:
                st = 2
        elif cmd == 4:
            if bid in self.blocks:
                self.blocks[bid]['started'] = False
            else:
                st = 2
        else:
            st = 8
        return [sd.reply(sv.PORT_LOG, 1, bytes([cmd, bid, st]))]

    def project(self):
        return [{'id': bid, 'vars': copy.deepcopy(b['vars']), 'started': bool(b['started']), 'period': b['period']}
                for bid, b in sorted(self.blocks.items())]

    def types_of(self, bid):
        return [v['t'] & 0x0F for v in self.blocks[bid]['vars']]


# --------------------------------------------------------------------------- value sources
EXT = {
    1: ['00', '01', '7f', '80', 'ff', 'fe'],
    4: ['00', '01', '7f', '80', 'ff', 'fe'],
    2: ['0000', '0100', 'ff7f', '0080', 'ffff', '00ff', 'ff00', '0001'],
    5: ['0000', '0100', 'ff7f', '0080', 'ffff', '00ff', 'ff00', 'feff'],
    8: ['0000', '0080', '007c', '00fc', '007e', '01fc', '0100', 'ff03', '0004', 'ff7b', 'fffb', '003c',
        '00c0', '0180', '5535', '0038'],
    3: ['00000000', '01000000', 'ffffff7f', '00000080', 'ffffffff', '0000ffff', 'ffff0000', '00000100',
        'feffffff'],
    6: ['00000000', '01000000', 'ffffff7f', '00000080', 'ffffffff', '0000ffff', 'ffff0000', '00000100',
        '01000080', 'feffffff'],
    7: ['00000000', '00000080', '0000807f', '000080ff', '0000c07f', '0100807f', '010080ff', '01000000',
        'ffff7f00', '00008000', 'ffff7f7f', 'ffff7fff', '0000803f', '0000c0bf', 'db0f4940', '01000080',
        '0000004b', 'ffffff4a', '00000034'],
}


def value_bytes(t, src, pos):
    """bytes the device encodes for a variable of fetch type t; src = ('ext', k) | ('rnd', seed) |
    ('sweep', t0, start) (consecutive patterns for type t0, others zero)"""
    n = SIZES.get(t, 0)
    if src[0] == 'ext':
        pats = EXT.get(t, ['00' * n])
        return bytes.fromhex(pats[(src[1] + pos) % len(pats)])
    if src[0] == 'rnd':
        r = random.Random(src[1] * 1000003 + pos)
        return bytes(r.randrange(256) for _ in range(n))
    if src[0] == 'sweep':
        v = (src[2] + pos) % (1 << (8 * n))
        return v.to_bytes(n, 'little')
    return bytes(n)


def canon(x):
    """Python value -> exact canonical tuple of LogBlocksProps (representation conversion only)."""
    if x is None:
        return ['missing', 0, 0, 0]
    if isinstance(x, bool):
        return ['bool', int(x), 0, 0]
    if isinstance(x, int):
        m = abs(x)
        if m >= 1 << 32:
            return ['big', 0, 0, 0]
        return ['int', 1 if x < 0 else 0, m >> 16, m & 0xFFFF]
    if isinstance(x, float):
        if math.isnan(x):
            return ['nan', 0, 0, 0]
        neg = 1 if math.copysign(1.0, x) < 0 else 0
        if math.isinf(x):
            return ['inf', neg, 0, 0]
        if x == 0:
            return ['zero', neg, 0, 0]
        n, d = abs(x).as_integer_ratio()
        e = -(d.bit_length() - 1)
        while n % 2 == 0:
            n //= 2
            e += 1
        if n >= 1 << 31:
            return ['big', 0, 0, 0]
        return ['fin', neg, n, e]
    return ['other', 0, 0, 0]


# --------------------------------------------------------------------------- in-memory mutants
def _patch_source(obj, fname, old, new, count=1):
    """Replace `old` by `new` in the source of obj.fname and install the recompiled function.
    Returns an undo closure.  /repo is untouched."""
    fn = obj.__dict__[fname]
    raw = fn.__func__ if isinstance(fn, (staticmethod, classmethod)) else fn
    src = getattr(raw, '_c05_src', None) or inspect.getsource(raw)      # (patches stack)
    if src.count(old) < 1:
        raise common.MachineryError('mutant: %r not found in %s.%s' % (old, obj.__name__, fname))
    raw_src = src.replace(old, new, count)
    src = textwrap.dedent(raw_src)
    mod = inspect.getmodule(obj)
    ns = {}
    exec(compile(src, '<mutant %s.%s>' % (obj.__name__, fname), 'exec'), mod.__dict__, ns)
    ns[fname]._c05_src = raw_src
    setattr(obj, fname, ns[fname])
    return lambda: setattr(obj, fname, fn)


def _mutants():
    import cflib.crazyflie.log as lg
    import cflib.crazyflie.syncLogger as sl

    def attr(obj, name, val):
        def install():
            old = getattr(obj, name)
            setattr(obj, name, val)
            return lambda: setattr(obj, name, old)
        return install

    def src(obj, fname, old, new):
        return lambda: _patch_source(obj, fname, old, new)

    def both(*installs):
        def install():
            undos = [i() for i in installs]
            return lambda: [u() for u in reversed(undos)]
        return install

    return {
        # the reset of default_fetch_as only when the configuration is accepted (seeded change r2m1)
        'reset_defaults_when_accepted': both(
            src(lg.Log, 'add_config', "        logconf.default_fetch_as = []\n", "        pass\n"),
            src(lg.Log, 'add_config', "            logconf.cf = self.cf\n",
                "            logconf.default_fetch_as = []\n            logconf.cf = self.cf\n")),
        # the data layout of a block frozen at its first data packet (like seeded change r2m2)
        'layout_cached_at_first_packet': src(lg.LogConfig, 'unpack_log_data', "for var in self.variables:",
                                             "for var in self.__dict__.setdefault('_c05_layout', list(self.variables)):"),
        'max_len_25': attr(lg.LogConfig, 'MAX_LEN', 25),
        'max_len_27': attr(lg.LogConfig, 'MAX_LEN', 27),
        'period_le_255': src(lg.Log, 'add_config', 'logconf.period < 0xFF', 'logconf.period <= 0xFF'),
        'skip_var_on_split': src(lg.LogConfig, '_setup_log_elements', '# Packet is full\n                        return False, i',
                                 '# Packet is full\n                        return False, i + 1'),
        'index_big_endian': src(lg.LogConfig, '_setup_log_elements',
                                'pk.data.append(element_id & 0x0ff)\n                        pk.data.append((element_id >> 8) & 0x0ff)',
                                'pk.data.append((element_id >> 8) & 0x0ff)\n                        pk.data.append(element_id & 0x0ff)'),
        'fetch_nibble_high': src(lg.LogVariable, 'get_storage_and_fetch_byte',
                                 'return (self.fetch_as | (self.stored_as << 4))',
                                 'return ((self.fetch_as << 4) | (self.stored_as >> 4 << 4))'),
        'timestamp_big_endian': src(lg.Log, '_new_packet_cb',
                                    'timestamps[0] | timestamps[1] << 8 | timestamps[2] << 16',
                                    'timestamps[2] | timestamps[1] << 8 | timestamps[0] << 16'),
        'unpack_stride_1': src(lg.LogConfig, 'unpack_log_data', 'data_index += size', 'data_index += 1'),
        'int8_as_uint8': attr(lg.LogTocElement, 'types', {**lg.LogTocElement.types, 0x04: ('int8_t', '<B', 1)}),
        'fp16_big_endian': attr(lg.LogTocElement, 'types', {**lg.LogTocElement.types, 0x08: ('FP16', '>e', 2)}),
        'added_on_any_status': src(lg.Log, '_new_packet_cb',
                                   'if error_status == 0 or error_status == errno.EEXIST:', 'if True:'),
        'started_on_start_call': src(lg.LogConfig, 'start',
                                     "                    CMD_START_LOGGING, self.id))",
                                     "                    CMD_START_LOGGING, self.id))\n                self.started = True"),
        'stop_ack_ignored': src(lg.Log, '_new_packet_cb', 'block.started = False\n\n            if (cmd == CMD_DELETE_BLOCK)',
                                'pass\n\n            if (cmd == CMD_DELETE_BLOCK)'),
        'ack_to_first_block': src(lg.Log, '_find_block', 'if block.id == id:', 'if True:'),
        'sync_put_twice': src(sl.SyncLogger, '_log_callback', 'self._queue.put((ts, data, logblock))',
                              'self._queue.put((ts, data, logblock)); self._queue.put((ts, data, logblock))'),
        'size_from_stored_type': src(lg.Log, 'add_config', 'get_size_from_id(var.fetch_as)', 'get_size_from_id(var.stored_as)'),
        'sync_marker_on_every_disconnect': src(sl.SyncLogger, 'disconnect', 'self._is_connected = False',
                                               'self._is_connected = False; self._queue.put(self.DISCONNECT_EVENT)'),
        'create_reuses_packet': both(
            src(lg.LogConfig, 'create', "        self.pending += 1\n",
                "        self.pending += 1\n        pk = CRTPPacket()\n        pk.set_header(5, CHAN_SETTINGS)\n"),
            src(lg.LogConfig, 'create', "            pk = CRTPPacket()\n            pk.set_header(5, CHAN_SETTINGS)\n", "")),
        'sync_stop_when_empty': src(sl.SyncLogger, '__next__', 'if not self._is_connected:',
                                    'if not self._is_connected or self._queue.empty():'),
        'sync_no_end_marker': src(sl.SyncLogger, '_disconnected', 'self._queue.put(self.DISCONNECT_EVENT)', 'pass'),
    }


# --------------------------------------------------------------------------- one execution
class Exec:
    """One scenario against the real code.  sc:
         toc    [(name, type)]  device log table (index = position)
         cfgs   [cfg1, cfg2]  cfg = {'period': ms, 'vars': [{'k','n','f','s','a'}]}  (f = 0: as stored)
         steps  [('add', c) | ('start'|'stop'|'delete', c) | ('deliver',) | ('drop',) | ('inject', st) |
                 ('reconnect',) | ('data', block id, [t0,t1,t2], value source) |
                 ('sync', [c, ...]) | ('race', block id, n, value source, seed)]"""

    def __init__(self, sc, s):
        import cflib.crazyflie as cfm
        from cflib.crazyflie.log import LogConfig
        self.sc = sc
        self.s = s
        self.ev = []
        self.cbs = []
        self.gots = []
        self.via = 'user'
        self.refnames = {}
        self.ndone = 0
        self.begin = None
        self.nsess = 0
        self.connected = 0
        self.logger = None
        self.consumer = None
        self.synccs = []
        self.racy = False
        self.errors = []
        self.last_flags = None
        w = sd.set_world(sd.World())
        entries = self._entries(sc['toc'])
        self.tocs = []                       # the device table of every session (a later session may find 'toc2')
        self.cfgs0 = copy.deepcopy(sc['cfgs'])
        params = [{'group': b'p', 'name': b'a', 'type': 0x08, 'value': b'\x06', 'default': b'\x06', 'ext': 0}]
        self.dev = dev = sv.standard_device(log_entries=entries, param_entries=params, mems=[], mode='sync',
                                            needs_resending=False, log_crc=0x5C050000 + len(entries))
        self.logsvc = LogDev(sv.TocTable(entries, 0x5C050000 + len(entries)))
        dev.services[sv.PORT_LOG] = self.logsvc
        self.faults = dev.faults = HoldFaults()
        w.add('0', dev)
        self.cf = cf = cfm.Crazyflie(rw_cache=sc.get('cache'))
        self.lcs = []
        for i, c in enumerate(sc['cfgs']):
            lc = LogConfig('cfg%d' % (i + 1), c['period'])
            for v in c['vars']:
                if v['k'] == 'mem':
                    lc.add_memory(v['n'], TYPE_NAMES[v['f']], TYPE_NAMES[v['s']], int.from_bytes(bytes(v['a']), 'little'))
                elif v['f'] == 0:
                    lc.add_variable(v['n'])
                else:
                    lc.add_variable(v['n'], TYPE_NAMES[v['f']])
            self._hook_config(i + 1, lc)
            self.lcs.append(lc)
        self.logsvc.kinds_for = self._kinds_for
        # sc['lazy']: like RadioDriver (out_queue.put(pk), the radio thread reads pk.data later) the link keeps the packet
        # *object* and serialises it at the next link operation (next send, end of the call, next packet handled)
        self.lazy = False
        self.held_up = None
        orig_uplink = dev.uplink

        def uplink(link, pk):
            if not self.lazy:
                return orig_uplink(link, pk)
            self.flush_up()
            self.held_up = (link, pk)

        def flush_up():
            h, self.held_up = self.held_up, None
            if h is not None:
                orig_uplink(*h)
        dev.uplink = uplink
        self.flush_up = flush_up
        cf.connected.add_callback(lambda uri: setattr(self, 'connected', self.connected + 1))
        cf.disconnected.add_callback(self._on_disconnected)
        cf.packet_received.add_callback(self._rx_begin)
        cf.add_port_callback(5, self._rx_end)               # after Log's own port callback
        orig_add = cf.log.add_config

        def add_config(lc):
            c = self.lcs.index(lc) + 1
            before = self.flags()
            res = 'ok'
            try:
                return orig_add(lc)
            except Exception as e:
                res = type(e).__name__
                raise
            finally:
                if res == 'ok' and c not in self.refnames:
                    self.refnames[c] = [v.name for v in lc.variables]
                self.ev.append({'e': 'add', 'c': c, 'via': self.via, 'res': res, 'vars': self.varproj(lc),
                                'ldef': list(lc.default_fetch_as), 'id': lc.id, 'before': before,
                                'after': self.flags(), 'ncbs': self._take_ncbs(), 'st': self.project()})
        cf.log.add_config = add_config

    @staticmethod
    def _entries(toc):
        return [{'group': n.split('.')[0].encode(), 'name': n.split('.')[1].encode(), 'type': t} for (n, t) in toc]

    def table_of(self, sess):
        return self.sc['toc2'] if sess >= 2 and self.sc.get('toc2') else self.sc['toc']

    # -- observation hooks (no behaviour change)
    def _hook_config(self, c, lc):
        lc.added_cb.add_callback(lambda *a: self.cbs.append({'c': c, 'w': 'added', 'v': bool(a[-1])}))
        lc.started_cb.add_callback(lambda *a: self.cbs.append({'c': c, 'w': 'started', 'v': bool(a[-1])}))
        lc.data_received_cb.add_callback(lambda ts, data, blk: self._sample(c, ts, data))
        for kind in ('start', 'stop', 'delete'):
            self._wrap_op(c, lc, kind)

    def _wrap_op(self, c, lc, kind):
        orig = getattr(lc, kind)

        def op():
            before = self.flags()
            n0 = len(self.logsvc.msgs)
            res = 'ok'
            try:
                return orig()
            except Exception as e:
                res = type(e).__name__
                raise
            finally:
                self.flush_up()
                self.ev.append({'e': kind, 'c': c, 'via': self.via, 'res': res,
                                'sent': [list(m) for m in self.logsvc.msgs[n0:]], 'before': before,
                                'after': self.flags(), 'ncbs': self._take_ncbs(), 'st': self.project()})
        setattr(lc, kind, op)

    def _kinds_for(self, bid):
        for lc in self.lcs:
            if lc.id == bid and lc.cf is not None:
                return ['toc' if v.is_toc_variable() else 'mem' for v in lc.variables]
        return []

    def _take_ncbs(self):
        n = len(self.cbs)
        self.cbs = []
        return n

    def _rec(self, c, ts, data):
        names = self.refnames.get(c, [])
        return {'c': c, 'ts': ts if isinstance(ts, int) and 0 <= ts < (1 << 31) else -1,
                'vals': [canon(data.get(n)) for n in names], 'nkeys': len(data)}

    def _sample(self, c, ts, data):
        rec = self._rec(c, ts, data)
        self.gots.append(rec)
        if self.synccs:
            self.ev.append({'e': 'sample', 's': rec})

    def _rx_begin(self, pk):
        if pk.port != 5 or pk.channel not in (1, 2) or (pk.channel == 1 and pk.data[0] == 5):
            return
        self.begin = {'before': self.flags(), 'n0': len(self.logsvc.msgs)}
        self.gots = []
        if not self.racy:
            self.cbs = []

    def _rx_end(self, pk):
        if pk.channel not in (1, 2) or (pk.channel == 1 and pk.data[0] == 5) or self.begin is None:
            return
        b, self.begin = self.begin, None
        d = list(pk.data)
        self.flush_up()
        if pk.channel == 1:
            cbs, self.cbs = self.cbs, []
            self.ev.append({'e': 'ack', 'cmd': d[0], 'id': d[1] if len(d) > 1 else 0, 'st_ack': d[2] if len(d) > 2 else 0,
                            'sent': [list(m) for m in self.logsvc.msgs[b['n0']:]], 'before': b['before'],
                            'after': self.flags(), 'cbs': cbs, 'st': self.project()})
        else:
            wire, types = self.logsvc.emitted.pop(0) if self.logsvc.emitted else (d, [])
            self.ev.append({'e': 'data', 'wire': d, 'types': types, 'gots': self.gots, 'before': b['before'],
                            'after': self.flags(), 'ncbs': self._take_ncbs(), 'st': self.project()})
            self.gots = []
        self.ndone += 1

    def _on_disconnected(self, uri):
        # runs before SyncLogger._disconnected (registered earlier); the link object is already gone
        lg = self.logger
        sync = lg is not None and lg._disconnected in self.cf.disconnected.callbacks
        drained = False
        if sync and not self.racy and self.consumer is not None and not self.consumer.finished:
            op = self.consumer.pending
            drained = bool(lg._queue.empty() and op is not None and op.kind.startswith('queue.get'))
        self.faults.held = []
        self.logsvc.inject_next = 0
        fl = self.flags()
        self.ev.append({'e': 'disc', 'before': self.last_flags if self.racy else fl, 'after': fl, 'sync': bool(sync),
                        'drained': drained, 'st': self.project()})

    # -- projections
    def flags(self):
        return [{'added': bool(lc.added), 'started': bool(lc.started)} for lc in self.lcs]

    def varproj(self, lc):
        out = []
        for v in lc.variables:
            mem = not v.is_toc_variable()
            out.append({'k': 'mem' if mem else 'toc', 'n': v.name, 'f': v.fetch_as, 's': v.stored_as if mem else 0,
                        'a': list(struct.pack('<I', v.address & 0xFFFFFFFF)) if mem else []})
        return out

    def project(self):
        lcs = self.lcs
        return {'pending': [int(lc.pending) for lc in lcs], 'valid': [bool(lc.valid) for lc in lcs],
                'cid': [lc.id for lc in lcs], 'hascf': [lc.cf is not None for lc in lcs],
                'blocks': [lcs.index(b) + 1 for b in self.cf.log.log_blocks if b in lcs],
                'idctr': self.cf.log._config_id_counter,
                'acks': [{'cmd': p.data[0], 'id': p.data[1], 'st': p.data[2]} for p in self.faults.held],
                'inject': self.logsvc.inject_next, 'dev': self.logsvc.project()}

    def project_full(self):
        st = self.project()
        st['lvars'] = [self.varproj(lc) for lc in self.lcs]
        st['ldef'] = [list(lc.default_fetch_as) for lc in self.lcs]
        st['link'] = self.cf.link is not None
        fl = self.flags()
        st['added'] = [f['added'] for f in fl]
        st['started'] = [f['started'] for f in fl]
        return st

    # -- driving
    def settle(self, horizon=5.0):
        s = self.s
        self.flush_up()
        return s.run(until=lambda: not s.enabled()[0], horizon=s.now + horizon)

    def call(self, fn, horizon=30.0):
        """run fn in a virtual user thread until it returns (blocking calls need a scheduled thread)"""
        box = {}

        def body():
            try:
                box['ret'] = fn()
            except Exception as e:
                box['exc'] = e
        u = self.s.spawn(body, 'user')
        r = self.s.run(until=lambda: u.finished, horizon=self.s.now + horizon)
        if r != 'until':
            self.errors.append('user call did not return (%s)' % r)
        return box

    def connect(self):
        self.nsess += 1
        toc = self.table_of(self.nsess)
        self.tocs.append(toc)
        if self.nsess >= 2 and self.sc.get('toc2'):
            ent = self._entries(toc)                       # firmware update between sessions: another table (and CRC)
            self.logsvc.table = sv.TocTable(ent, 0x5C050000 + len(ent))
        want = self.connected + 1
        self.call(lambda: self.cf.open_link('sim://0/%d' % self.nsess))
        r = self.s.run(until=lambda: self.connected >= want, horizon=self.s.now + 120.0)
        if r != 'until':
            raise common.MachineryError('simulated connect did not finish (%s)' % r)
        self.settle()
        self.lazy = bool(self.sc.get('lazy'))

    def bid(self, b):
        return self.lcs[int(b[1:]) - 1].id if isinstance(b, str) else b

    def step(self, st):
        k = st[0]
        lcs, cf = self.lcs, self.cf
        if k == 'drain':
            guard = 0
            while self.faults.held and guard < 64:
                guard += 1
                self.step(('deliver',))
            return
        if k == 'add':
            self.call(lambda: cf.log.add_config(lcs[st[1] - 1]))
        elif k in ('start', 'stop', 'delete'):
            self.call(getattr(lcs[st[1] - 1], k))
        elif k == 'addvar':
            v = st[2]
            lc = lcs[st[1] - 1]
            if v['k'] == 'mem':
                lc.add_memory(v['n'], TYPE_NAMES[v['f']], TYPE_NAMES[v['s']], int.from_bytes(bytes(v['a']), 'little'))
            elif v['f'] == 0:
                lc.add_variable(v['n'])
            else:
                lc.add_variable(v['n'], TYPE_NAMES[v['f']])
            self.refnames.pop(st[1], None)         # the next successful add_config fixes the list anew
            self.ev.append({'e': 'addvar', 'c': st[1], 'v': dict(v)})
        elif k == 'deliver':
            if self.faults.held and self.dev.link is not None:
                pk = self.faults.held.pop(0)
                n = self.ndone
                self.dev._deliver(self.dev.link, pk, 'deliver')
                r = self.s.run(until=lambda: self.ndone > n, horizon=self.s.now + 5.0)
                if r != 'until':
                    self.errors.append('ack not consumed (%s)' % r)
        elif k == 'drop':
            if self.faults.held:
                self.faults.held.pop(0)
                self.ev.append({'e': 'drop'})
        elif k == 'inject':
            if not self.logsvc.inject_next:
                self.logsvc.inject_next = st[1]
                self.ev.append({'e': 'inject', 'status': st[1]})
        elif k == 'reconnect':
            self.flush_up()
            self.lazy = False
            self.call(cf.close_link)
            self.logsvc.emitted = []
            self.settle()
            before = self.flags()
            self.connect()
            self.ev.append({'e': 'reconnect', 'before': before, 'after': self.flags(), 'st': self.project()})
        elif k == 'close':
            self.flush_up()
            self.lazy = False
            self.call(cf.close_link)
            self.logsvc.emitted = []
        elif k == 'open':
            before = self.flags()
            self.connect()
            self.ev.append({'e': 'reconnect', 'before': before, 'after': self.flags(), 'st': self.project()})
        elif k == 'data':
            n = self.ndone
            if self.emit(self.bid(st[1]), st[2], st[3]):
                r = self.s.run(until=lambda: self.ndone > n, horizon=self.s.now + 5.0)
                if r != 'until':
                    self.errors.append('data packet not consumed (%s)' % r)
        elif k == 'sync':
            self.start_sync(st[1])
        elif k == 'sync_new':
            self.start_sync(st[1], spawn=False)
        elif k == 'sync_connect':
            self.nconn = getattr(self, 'nconn', 0) + 1
            self.call(self._sync_connect)
        elif k == 'sync_iter':
            self.consumer = self.s.spawn(self._sync_iterate, 'consumer')
        elif k == 'sync_disconnect':
            self.ev.append({'e': 'sdisc'})
            self.call(self.logger.disconnect)
        elif k == 'race':
            self.race(self.bid(st[1]), st[2], st[3], st[4])
        self.settle()

    def emit(self, bid, ts, src):
        ls = self.logsvc
        if bid not in ls.blocks or not ls.blocks[bid]['started'] or self.dev.link is None:
            return False
        types = ls.types_of(bid)
        if src[0] == 'seq':
            payload = bytes(range(1, 1 + sum(SIZES.get(t, 0) for t in types)))
        else:
            payload = b''.join(value_bytes(t, src, i) for i, t in enumerate(types))
        wire = [bid] + list(ts) + list(payload)
        ls.emitted.append((wire, types))
        self.dev.emit(sd.reply(sv.PORT_LOG, 2, bytes(wire)))
        return True

    # -- SyncLogger
    def _sync_connect(self):
        self.ev.append({'e': 'sbegin'})
        self.via = 'sync'
        try:
            self.logger.connect()
        except Exception as e:
            self.ev.append({'e': 'sfail', 'exc': type(e).__name__})
            return False
        finally:
            self.via = 'user'
        self.ev.append({'e': 'sconnected'})
        return True

    def _sync_iterate(self):
        for entry in self.logger:
            ts, data, blk = entry
            c = self.lcs.index(blk) + 1 if blk in self.lcs else 0
            self.ev.append({'e': 'yield', 's': self._rec(c, ts, data)})
        self.ev.append({'e': 'sstop'})

    def start_sync(self, cs, spawn=True):
        from cflib.crazyflie.syncLogger import SyncLogger
        self.synccs = list(cs)
        cfgs = [self.lcs[c - 1] for c in cs]
        self.logger = lg = SyncLogger(self.cf, cfgs if len(cfgs) > 1 else cfgs[0])
        orig_cb = lg._log_callback

        def log_callback(ts, data, blk):          # observer: exactly what the logger's data callback receives
            c = self.lcs.index(blk) + 1 if blk in self.lcs else 0
            self.ev.append({'e': 'lsample', 's': self._rec(c, ts, data)})
            return orig_cb(ts, data, blk)
        lg._log_callback = log_callback           # connect()/disconnect() register/remove this very object

        def consumer():
            if self._sync_connect():
                self._sync_iterate()
        if spawn:
            self.consumer = self.s.spawn(consumer, 'consumer')

    def race(self, bid, n, src, seed):
        """n data packets in flight, then close_link from a user thread, all threads scheduled at random"""
        self.racy = True
        self.last_flags = self.flags()
        for i in range(n):
            self.emit(bid, [i & 0xFF, 1, 0], (src[0], src[1] + i) if src[0] != 'sweep' else src)
        self.flush_up()
        self.lazy = False
        closer = self.s.spawn(self.cf.close_link, 'closer')
        # uniform random choices, PCT priorities, or a starved consumer (samples are still queued at the disconnect)
        if seed % 3 == 0:
            pol = vsched.RandomPolicy(random.Random(seed))
        elif seed % 3 == 1:
            pol = vsched.PCTPolicy(random.Random(seed), depth=3, est_steps=150)
        else:
            pol = _StarvePolicy(random.Random(seed), 'consumer')
            pol.until = self.s.now + 5.0
        self.s.run(until=lambda: closer.finished and not self.s.enabled()[0], horizon=self.s.now + 30.0, policy=pol)
        self.logsvc.emitted = []
        self.begin = None
        self.racy = False
        before = self.flags()
        self.connect()
        self.ev.append({'e': 'reconnect', 'before': before, 'after': self.flags(), 'st': self.project()})


class _StarvePolicy:
    """seeded uniform choice among the runnable threads; the named one runs only when nothing else can run and no
    timer is pending (a slow consumer: virtual time passes before it gets the processor)"""

    def __init__(self, rng, starved):
        self.rng = rng
        self.starved = starved
        self.until = float('inf')

    def choose(self, sched, runnable, timed):
        if not runnable:
            return vsched.TICK
        others = [r for r in runnable if not r.name.startswith(self.starved)]
        if not others and timed and sched.now < self.until:
            return vsched.TICK
        pool = others or runnable
        return pool[self.rng.randrange(len(pool))]


def execute(sc, mutant=None):
    undo = None
    if mutant:
        undo = _mutants()[mutant]()
    try:
        with vsched.scheduler(vsched.FifoPolicy(), max_steps=400000) as s:
            x = Exec(sc, s)
            x.connect()
            for st in sc['steps']:
                x.step(tuple(st) if isinstance(st, list) else st)
            idle_end = False
            if x.consumer is not None and not x.consumer.finished:
                op = x.consumer.pending
                idle_end = bool(x.logger._queue.empty() and op is not None and op.kind.startswith('queue.get'))
            dead = [t for t in s.report() if t['status'] == 'dead']
            used = {v['n'] for c in sc['cfgs'] for v in c['vars']} | {st[2]['n'] for st in sc['steps'] if st[0] == 'addvar'}
            trace = {'tocs': [[{'n': n, 't': t, 'i': i} for i, (n, t) in enumerate(toc) if i < 4 or n in used]
                              for toc in x.tocs + [x.table_of(x.nsess + 1)]],
                     'cfgs': x.cfgs0, 'sync': bool(x.synccs), 'synccs': x.synccs, 'idle_end': idle_end,
                     'ev': x.ev, 'noconf': bool(sc.get('noconf')) or any(st[0] == 'race' for st in sc['steps']) or len(x.synccs) > 1 or any(st[0].startswith('sync_') for st in sc['steps']),
                     'detail': {'errors': x.errors, 'dead': [t.get('traceback', '')[-400:] for t in dead]}}
            return trace
    finally:
        if undo:
            undo()


# --------------------------------------------------------------------------- scenario sources
def V(n, f=0):
    return {'k': 'toc', 'n': n, 'f': f, 's': 0, 'a': []}


def M(n, f, s, addr=0x20001234):
    return {'k': 'mem', 'n': n, 'f': f, 's': s, 'a': list(struct.pack('<I', addr))}


def cfg(vars_, period=100):
    return {'period': period, 'vars': list(vars_)}


EMPTY = cfg([])


def build_vars(sizes, mode, salt=0, toc=None):
    """variables with the given fetch sizes and distinct names from the table; mode 'typed' (explicit
    fetch type, cycling through every type of that size), 'default' (as stored, where a name with a
    stored type of that size is left) or 'mixed'"""
    toc = toc or std_toc()
    free = list(range(len(toc)))
    out = []
    for p, sz in enumerate(sizes):
        want_default = mode == 'default' or (mode == 'mixed' and (p + salt) % 2 == 0)
        pick = None
        if want_default:
            for i in free:
                if SIZES[toc[i][1]] == sz:
                    pick = i
                    break
        if pick is not None:
            free.remove(pick)
            out.append(V(toc[pick][0], 0))
        else:
            i = free.pop(0) if mode == 'typed' else free.pop()
            ft = BY_SIZE[sz][(p + salt) % len(BY_SIZE[sz])]
            out.append(V(toc[i][0], ft))
    return out


def life(c, k=0, readd=False):
    """add, start, all acknowledgements, data with extreme and random values, stop, delete (+ re-add after reconnect)"""
    b = 'c%d' % c
    st = [('add', c), ('start', c), ('drain',), ('data', b, [k & 255, (k * 7) & 255, (k * 13) & 255], ('ext', k)),
          ('data', b, [255, 255, 255], ('rnd', k)), ('stop', c), ('drain',), ('delete', c), ('drain',)]
    if readd:
        st += [('reconnect',), ('add', c), ('start', c), ('drain',), ('data', b, [0, 0, 128], ('ext', k + 3)), ('data', b, [1, 0, 0], ('rnd', k + 1))]
    return st


def size_lists(maxlen):
    for n in range(0, maxlen + 1):
        for t in itertools.product((1, 2, 4), repeat=n):
            yield list(t)


def sc_static(tier, rng):
    """every size list up to length 6 over {1,2,4} (quick: up to 4 plus a seeded sample of the longer ones),
    typed / default / mixed variables, two lists per connection; uniform lists 0..27; periods; missing
    variables; raw-memory variables; large table indices"""
    out = []
    lists = list(size_lists(6))
    if tier == 'quick':
        lists = [x for x in lists if len(x) <= 4] + rng.sample([x for x in lists if len(x) > 4], 60)
    modes = ['typed', 'mixed', 'default']
    for j in range(0, len(lists), 2):
        a = lists[j]
        b = lists[j + 1] if j + 1 < len(lists) else []
        mode = modes[(j // 2) % 3]
        va = build_vars(a, mode, salt=j)
        vb = build_vars(b, modes[(j // 2 + 1) % 3], salt=j + 1)
        readd = (j // 2) % 4 == 0
        out.append({'toc': std_toc(), 'cfgs': [cfg(va, 10 * (1 + j % 254)), cfg(vb, 2540 - 10 * (j % 254))],
                    'steps': life(1, j, readd) + life(2, j + 1, False), 'kind': 'sizes', 'lazy': (j // 2) % 3 == 1})
    # uniform lists crossing 26 bytes and the 9/18/27-entry split points
    for sz in (1, 2, 4):
        for n in range(0, 28):
            if sz * n > 30 and n not in (9, 10, 18, 19, 26, 27):
                continue
            out.append({'toc': std_toc(), 'cfgs': [cfg(build_vars([sz] * n, 'typed', salt=n)), EMPTY],
                        'steps': life(1, n, True), 'kind': 'uniform', 'lazy': n % 2 == 0 or n in (19, 27)})
    for n in (1, 2, 8, 9):
        out.append({'toc': std_toc(), 'cfgs': [cfg(build_vars([2] * n, 'default', salt=n)), EMPTY],
                    'steps': life(1, n, True), 'kind': 'uniform-default'})
    # periods x payload sizes around the limit
    for per in (0, 9, 10, 11, 19, 20, 100, 2539, 2540, 2549, 2550, 2551, 5000, 65535, 100000):
        for sizes in ([], [4], [4] * 6 + [2], [4] * 6 + [2, 1], [1] * 26, [1] * 27):
            out.append({'toc': std_toc(), 'cfgs': [cfg(build_vars(sizes, 'typed'), per), EMPTY],
                        'steps': [('add', 1), ('start', 1), ('drain',), ('data', 'c1', [9, 9, 9], ('ext', per)), ('stop', 1),
                                  ('delete', 1), ('drain',)], 'kind': 'period'})
    # variables that are not in the table, at every position, typed and default
    for n in (1, 3):
        for pos in range(n):
            for f in (0, 1, 7):
                vs = build_vars([1, 2, 4][:n], 'mixed', salt=pos)
                vs[pos] = V('v.nope', f) if pos % 2 == 0 else V('nogroup.x0', f)
                out.append({'toc': std_toc(), 'cfgs': [cfg(vs), cfg([V('v.x1', 2)])],
                            'steps': [('add', 1), ('start', 1), ('stop', 1), ('delete', 1), ('add', 2), ('start', 2), ('drain',),
                                      ('add', 1), ('start', 1), ('drain',)], 'kind': 'missing'})
    for bad in ('nodot', 'a.b.c', ''):
        out.append({'toc': std_toc(), 'cfgs': [cfg([V('v.x0', 1), V(bad, 0)]), cfg([V(bad, 2)])],
                    'steps': [('add', 1), ('start', 1), ('add', 2), ('start', 2), ('drain',)], 'kind': 'missing'})
    # raw-memory variables: every (fetch, stored) pair alone; mixed with table variables at the packet boundary
    pairs = [(f, s) for f in range(1, 9) for s in range(1, 9)]
    if tier == 'quick':
        pairs = [(f, s) for (f, s) in pairs if f == s or (f + s) % 5 == 0]
    for (f, s) in pairs:
        out.append({'toc': std_toc(), 'cfgs': [cfg([M('mem.a', f, s, 0x20000000 + 257 * f + s)]), EMPTY],
                    'steps': life(1, f * 8 + s, False), 'kind': 'memory'})
    for nt in (0, 1, 8, 9):
        for nm in (1, 2, 6):
            vs = build_vars([1] * nt, 'typed') + [M('mem.m%d' % i, 3, 6, 0xE000ED00 + 4 * i) for i in range(nm)]
            if sum(SIZES[v['f']] for v in vs) <= 26:
                out.append({'toc': std_toc(), 'cfgs': [cfg(vs), EMPTY], 'steps': life(1, nt + nm, False), 'kind': 'memory'})
    out.append({'toc': std_toc(), 'cfgs': [cfg([M('mem.first', 1, 1), V('v.x0', 1)]), cfg([V('v.x3', 4), M('mem.last', 8, 7, 0xFFFFFFFF)])],
                'steps': life(1, 1, False) + life(2, 2, False), 'kind': 'memory'})
    # raw-memory variables whose stored type has another size than the fetched one, payload at and around 26 bytes
    # (the payload carries the fetched types): (fetch, stored, counts)
    for (f, st_, ns) in ((7, 1, (6, 7)), (3, 4, (6, 7)), (1, 3, (25, 26, 27)), (4, 7, (26, 27)), (2, 7, (13, 14)), (8, 6, (13, 14)), (5, 1, (13, 14))):
        for n in ns:
            vs = [M('mem.s%d' % i, f, st_, 0x20000000 + 4 * i) for i in range(n)]
            out.append({'toc': std_toc(), 'cfgs': [cfg(vs), EMPTY], 'steps': life(1, n + f, False), 'kind': 'memory-size',
                        'lazy': n % 2 == 0})
    out.append({'toc': std_toc(), 'cfgs': [cfg(build_vars([4] * 5, 'typed') + [M('mem.t', 7, 1), M('mem.u', 2, 6)]),
                                           cfg(build_vars([4] * 5, 'typed') + [M('mem.t', 7, 1), M('mem.u', 8, 3), M('mem.v', 1, 7)])],
                'steps': life(1, 3, False) + life(2, 4, False), 'kind': 'memory-size'})
    # minimal histories around re-add and raw memory
    out.append({'toc': std_toc(), 'cfgs': [cfg([V('v.x1', 0)]), EMPTY], 'steps': [('add', 1), ('reconnect',), ('add', 1)], 'kind': 'minimal'})
    out.append({'toc': std_toc(), 'cfgs': [cfg([V('v.x1', 2)]), EMPTY], 'steps': [('add', 1), ('reconnect',), ('add', 1)], 'kind': 'minimal'})
    out.append({'toc': std_toc(), 'cfgs': [cfg([M('mem.a', 1, 1)]), EMPTY], 'steps': [('add', 1), ('start', 1)], 'kind': 'minimal'})
    # table indices that need both index bytes
    big = std_toc(300)
    for names in (['v.x254', 'v.x255', 'v.x256', 'v.x257'], ['v.x299', 'v.x0', 'v.x255'], ['v.x256'] * 1):
        for mode in ('typed', 'default'):
            vs = [V(n, 0 if mode == 'default' else ((i % 8) + 1)) for i, n in enumerate(names)]
            out.append({'toc': big, 'cfgs': [cfg(vs), EMPTY], 'steps': life(1, 5, mode == 'typed'), 'kind': 'bigindex'})
    return out


HIST_ALPHA = [('add', 1), ('start', 1), ('stop', 1), ('delete', 1), ('deliver',), ('drop',), ('inject', 2), ('inject', 12),
              ('inject', 5), ('inject', 17), ('reconnect',), ('data', 'c1', [1, 2, 3], ('ext', 1))]
HIST_CFGS = [cfg([V('v.x0', 1)]), cfg(build_vars([1] * 10, 'typed')), cfg([V('v.x1', 0), V('v.x2', 6)]),
             cfg([M('mem.a', 3, 3)])]


def _drop_repeated_adds(seq):
    """a LogConfig is added once per session: a second add_config of the same object follows a reconnect"""
    out, inblocks = [], set()
    for st in seq:
        if st[0] == 'reconnect':
            inblocks = set()
        if st[0] == 'add':
            if st[1] in inblocks:
                continue
            inblocks.add(st[1])
        out.append(st)
    return out


def _adds_once(seq):
    return len(_drop_repeated_adds(seq)) == len(seq)


def sc_histories(tier, rng):
    """add/start/stop/delete/deliver/drop/inject/reconnect/data histories: exhaustive up to a length after the
    first add, seeded random up to 8 steps, with one and with two configurations"""
    out = []
    depth = 3 if tier == 'quick' else 4
    for n in range(0, depth + 1):
        for seq in itertools.product(HIST_ALPHA, repeat=n):
            # an injection is only interesting when a message follows; drop only when something is held
            if any(seq[i][0] == 'inject' and (i + 1 == len(seq) or seq[i + 1][0] in ('inject', 'drop', 'deliver', 'reconnect', 'data', 'add'))
                   for i in range(len(seq))):
                continue
            if not _adds_once([('add', 1)] + list(seq)):
                continue
            c = HIST_CFGS[(len(out)) % 2]
            out.append({'toc': std_toc(), 'cfgs': [c, EMPTY], 'steps': [('add', 1)] + list(seq) + [('drain',)], 'kind': 'history',
                        'lazy': len(out) % 4 == 1})
    # a few histories that do not start with add (calls on a never-added configuration)
    for seq in itertools.product([('start', 1), ('stop', 1), ('delete', 1), ('add', 1)], repeat=3):
        if not _adds_once(seq):
            continue
        out.append({'toc': std_toc(), 'cfgs': [HIST_CFGS[0], EMPTY], 'steps': list(seq) + [('drain',)], 'kind': 'history'})
    nrand = 400 if tier == 'quick' else 6000
    alpha2 = HIST_ALPHA + [('add', 2), ('start', 2), ('stop', 2), ('delete', 2), ('data', 'c2', [4, 5, 6], ('rnd', 3)), ('deliver',), ('deliver',),
                           ('start', 1), ('drain',)]
    for i in range(nrand):
        two = i % 3 == 0
        n = rng.randint(4, 8)
        seq = [rng.choice(alpha2 if two else HIST_ALPHA + [('deliver',), ('deliver',), ('start', 1)]) for _ in range(n)]
        if i % 5 == 1:
            late = [M('mem.r%d' % i, 1 + i % 8, 1 + (i // 8) % 8, 0x20000000 + i), V('v.x%d' % (16 + i % 8), 1 + i % 8), V('v.x%d' % (24 + i % 8), 0)][i % 3]
            at = rng.randint(1, len(seq))
            seq = seq[:at] + [('stop', 1), ('delete', 1), ('drain',), ('reconnect',), ('addvar', 1, late), ('add', 1)] + seq[at:]
        seq = _drop_repeated_adds([('add', 1)] + seq)[1:]
        c1 = HIST_CFGS[i % 4]
        out.append({'toc': std_toc(), 'cfgs': [c1, cfg([V('v.x9', 0), V('v.x4', 5)]) if two else EMPTY],
                    'steps': [('add', 1)] + seq + [('drain',)], 'kind': 'history-random', 'lazy': i % 2 == 1})
    return out


def sc_sweeps(tier, rng):
    """every byte pattern of the 1-byte types (and of the 2-byte types incl. FP16 in the thorough tier), seeded random
    patterns for the 4-byte types, every extreme pattern of every type, timestamp extremes"""
    out = []

    def sweep(t, count, start=0, chunk=700):
        n = 26 // SIZES[t]
        vs = [V('v.x%d' % i, t) for i in range(n)]
        steps = [('add', 1), ('start', 1), ('drain',)]
        k = start
        packets = 0
        while k < start + count:
            ts = [(k >> 3) & 255, (k >> 11) & 255, (k * 31) & 255]
            steps.append(('data', 'c1', ts, ('sweep', t, k)))
            k += n
            packets += 1
            if packets % chunk == 0 or k >= start + count:
                out.append({'toc': std_toc(), 'cfgs': [cfg(vs), EMPTY], 'steps': steps, 'kind': 'sweep'})
                steps = [('add', 1), ('start', 1), ('drain',)]
    for t in (1, 4):
        sweep(t, 256)
    for t in (2, 5, 8):
        if tier == 'thorough':
            sweep(t, 65536)
        else:
            sweep(t, 26 * 40, start=rng.randrange(0, 60000))
            sweep(t, 13 * 8, start=0x7BF0 if t == 8 else 0x7FF0)
            sweep(t, 13 * 8, start=0xFBF0 if t == 8 else 0xFFF0)
    # all types together: every extreme pattern against every position, random patterns, timestamp extremes
    vs = [V('v.x0', 1), V('v.x1', 2), V('v.x2', 3), V('v.x3', 4), V('v.x4', 5), V('v.x5', 6), V('v.x6', 7), V('v.x7', 8)]
    steps = [('add', 1), ('start', 1), ('drain',)]
    for k in range(24):
        steps.append(('data', 'c1', [[0, 0, 0], [255, 255, 255], [0, 0, 128], [255, 255, 127], [1, 0, 0], [0, 1, 0], [0, 0, 1]][k % 7], ('ext', k)))
    nr = 300 if tier == 'quick' else 6000
    for k in range(nr):
        steps.append(('data', 'c1', [rng.randrange(256), rng.randrange(256), rng.randrange(256)], ('rnd', rng.randrange(1 << 30))))
    out.append({'toc': std_toc(), 'cfgs': [cfg(vs), EMPTY], 'steps': steps, 'kind': 'values'})
    vs4 = [V('v.x%d' % i, 7) for i in range(6)]
    steps = [('add', 1), ('start', 1), ('drain',)]
    for k in range(len(EXT[7])):
        steps.append(('data', 'c1', [k, 0, 0], ('ext', k)))
    for k in range(nr):
        steps.append(('data', 'c1', [k & 255, (k >> 8) & 255, 0], ('rnd', rng.randrange(1 << 30))))
    out.append({'toc': std_toc(), 'cfgs': [cfg(vs4), EMPTY], 'steps': steps, 'kind': 'values'})
    return out


def sc_sync(tier, rng):
    """SyncLogger: connect, samples, disconnect by close_link (consumer drained / samples still queued), two
    configurations, samples after the disconnect, racy bursts (seeded random schedules)"""
    out = []
    c1 = cfg([V('v.x0', 1), V('v.x6', 7)])
    c2 = cfg([V('v.x1', 2), V('v.x7', 8)], 200)
    for n in (0, 1, 3, 7):
        steps = [('sync', [1]), ('drain',)] + [('data', 'c1', [k, 0, 0], ('ext', k)) for k in range(n)] + [('reconnect',)]
        out.append({'toc': std_toc(), 'cfgs': [c1, EMPTY], 'steps': steps, 'kind': 'sync'})
        out.append({'toc': std_toc(), 'cfgs': [c1, EMPTY], 'steps': steps[:-1], 'kind': 'sync'})
    for n in (1, 4):
        steps = [('sync', [1, 2]), ('drain',)]
        for k in range(n):
            steps += [('data', 'c1', [k, 1, 0], ('rnd', k)), ('data', 'c2', [k, 2, 0], ('ext', k)), ('data', 'c2', [k, 3, 0], ('rnd', k + 9))]
        out.append({'toc': std_toc(), 'cfgs': [c1, c2], 'steps': steps + [('reconnect',)], 'kind': 'sync'})
    # a second logger-less configuration logging at the same time must not leak into the iteration
    out.append({'toc': std_toc(), 'cfgs': [c1, c2], 'steps': [('add', 2), ('start', 2), ('drain',), ('sync', [1]), ('drain',),
                                                             ('data', 'c2', [1, 1, 1], ('ext', 0)), ('data', 'c1', [2, 2, 2], ('ext', 1)),
                                                             ('data', 'c2', [3, 3, 3], ('ext', 2)), ('reconnect',)], 'kind': 'sync'})
    # errors on the way: create refused, start refused
    for st in (12, 2):
        out.append({'toc': std_toc(), 'cfgs': [c1, EMPTY], 'steps': [('inject', st), ('sync', [1]), ('drain',), ('reconnect',)], 'kind': 'sync'})
    # rejected configuration: connect() raises
    out.append({'toc': std_toc(), 'cfgs': [cfg([V('v.nope', 1)]), EMPTY], 'steps': [('sync', [1]), ('drain',), ('reconnect',)], 'kind': 'sync'})
    # one SyncLogger object connected several times: user disconnect() of an idle / of a drained logger, link loss with a
    # blocked consumer, then connect() again (same session or the next) and iterate
    d1 = [('data', 'c1', [k, 4, 0], ('ext', k)) for k in range(2)]
    d2 = [('data', 'c1', [k, 5, 0], ('rnd', k)) for k in range(3)]
    out.append({'toc': std_toc(), 'cfgs': [c1, EMPTY], 'kind': 'sync-reuse',
                'steps': [('sync_new', [1]), ('sync_connect',), ('drain',), ('sync_disconnect',), ('drain',), ('sync_connect',), ('drain',)] + d2 +
                         [('sync_iter',), ('reconnect',)]})
    out.append({'toc': std_toc(), 'cfgs': [c1, EMPTY], 'kind': 'sync-reuse',
                'steps': [('sync_new', [1]), ('sync_connect',), ('drain',), ('sync_disconnect',), ('drain',), ('sync_connect',), ('drain',), ('sync_iter',)] + d2 +
                         [('reconnect',)]})
    out.append({'toc': std_toc(), 'cfgs': [c1, EMPTY], 'kind': 'sync-reuse',
                'steps': [('sync_new', [1]), ('sync_connect',), ('drain',)] + d1 + [('sync_disconnect',), ('drain',), ('reconnect',), ('sync_connect',), ('drain',)] +
                         d2 + [('sync_iter',), ('reconnect',)]})
    # link lost while the consumer waits; the block is gone on the device (delete -> ENOENT clears the flags), connect() again
    out.append({'toc': std_toc(), 'cfgs': [c1, EMPTY], 'kind': 'sync-reuse',
                'steps': [('sync_new', [1]), ('sync_connect',), ('drain',), ('sync_iter',)] + d1 + [('reconnect',), ('delete', 1), ('drain',),
                          ('sync_connect',), ('drain',), ('sync_iter',)] + d2 + [('reconnect',)]})
    out.append({'toc': std_toc(), 'cfgs': [c1, c2], 'kind': 'sync-reuse',
                'steps': [('sync_new', [1, 2]), ('sync_connect',), ('drain',), ('sync_iter',), ('data', 'c2', [1, 6, 0], ('ext', 1)), ('reconnect',),
                          ('delete', 1), ('delete', 2), ('drain',), ('sync_connect',), ('drain',), ('sync_iter',), ('data', 'c1', [2, 6, 0], ('ext', 2)),
                          ('data', 'c2', [3, 6, 0], ('rnd', 3)), ('reconnect',)]})
    nr = 60 if tier == 'quick' else 1500
    for i in range(nr):
        n = rng.randint(0, 6)
        pre = rng.randint(0, 2)
        steps = [('sync', [1]), ('drain',)] + [('data', 'c1', [k, 9, 0], ('rnd', k + i)) for k in range(pre)] + \
                [('race', 'c1', n, ('rnd', 100 + i), rng.randrange(1 << 30))]
        out.append({'toc': std_toc(), 'cfgs': [c1, EMPTY], 'steps': steps, 'kind': 'sync-race'})
    return out


# --------------------------------------------------------------------------- running and judging
def sc_evolve(tier, rng):
    """configurations and device tables that change over time:
       - add_config rejected (a typed or default-typed variable is missing from the first session's table, at every
         position among typed/default-typed/raw-memory neighbours), reconnect to a device whose table has it,
         add_config of the same LogConfig accepted, full life, and once more after another reconnect;
       - a block that has logged data is stopped and deleted (same session or across a reconnect), gets another
         variable by add_variable(typed) / add_variable(default) / add_memory, is added and started again, logs data"""
    out = []
    toc1, toc2 = std_toc(32), std_toc(40)
    new = ['v.x35', 'v.x36', 'v.x39']
    k = 0
    for ndef in (1, 2, 3):
        for nty in (0, 1):
            for miss_f in (0, 7):                       # the missing one default-typed / explicitly typed
                for pos in range(ndef + nty + 1):
                    k += 1
                    if tier == 'quick' and k % 2 and ndef > 1:
                        continue
                    vs = [V('v.x%d' % (1 + 3 * i), 0) for i in range(ndef)] + [V('v.x%d' % (20 + i), 5) for i in range(nty)]
                    if k % 3 == 0:
                        vs.append(M('mem.e', 2, 5, 0x20000100 + k))
                    vs.insert(pos, V(new[k % 3], miss_f))
                    out.append({'toc': toc1, 'toc2': toc2, 'cfgs': [cfg(vs, 100 + 10 * k), EMPTY],
                                'steps': [('add', 1), ('start', 1), ('reconnect',)] + life(1, k, True), 'kind': 'evolve-table'})
    # rejected for the table, second configuration untouched and alive across the same sessions
    out.append({'toc': toc1, 'toc2': toc2, 'cfgs': [cfg([V('v.x2', 0), V('v.x33', 3)]), cfg([V('v.x1', 0), V('v.x4', 5)], 200)],
                'steps': [('add', 1), ('add', 2), ('start', 2), ('drain',), ('data', 'c2', [1, 1, 1], ('ext', 2)), ('reconnect',),
                          ('add', 2), ('add', 1), ('delete', 2), ('drain',), ('start', 2), ('start', 1), ('drain',),
                          ('data', 'c1', [2, 2, 2], ('ext', 3)), ('data', 'c2', [3, 3, 3], ('rnd', 4))], 'kind': 'evolve-table'})
    bases = [[V('v.x0', 1)], [V('v.x1', 0), V('v.x2', 6), V('v.x7', 0)], [M('mem.first', 5, 2, 0x20000040), V('v.x3', 4)]]
    extras = [M('mem.late', 1, 1, 0x20000200), M('mem.late', 7, 3, 0xE0001000), V('v.x9', 8), V('v.x10', 0), V('v.x12', 0)]
    for bi, base in enumerate(bases):
        for xi, x in enumerate(extras):
            for across in (False, True):
                if tier == 'quick' and (bi + xi + across) % 2 and xi >= 2:
                    continue
                b = 'c1'
                steps = [('add', 1), ('start', 1), ('drain',), ('data', b, [1, 0, 0], ('ext', xi)), ('data', b, [2, 0, 0], ('rnd', xi)),
                         ('stop', 1), ('drain',), ('delete', 1), ('drain',)]
                steps += [('reconnect',)] if across else []
                steps += [('addvar', 1, x), ('add', 1), ('start', 1), ('drain',), ('data', b, [3, 0, 0], ('ext', xi + 1)),
                          ('data', b, [4, 0, 0], ('rnd', xi + 7)), ('stop', 1), ('delete', 1), ('drain',)]
                # ... and a second late variable placed after it
                steps += [('addvar', 1, V('v.x15', 8)), ('add', 1), ('start', 1), ('drain',), ('data', b, [5, 0, 0], ('ext', xi + 2))]
                out.append({'toc': std_toc(), 'cfgs': [cfg(base), EMPTY], 'steps': steps, 'kind': 'evolve-config'})
    # a variable added late to a configuration that was never added / was rejected before
    out.append({'toc': std_toc(), 'cfgs': [cfg([V('v.nope', 1)]), cfg([])],
                'steps': [('add', 1), ('addvar', 2, M('mem.only', 3, 3)), ('add', 2), ('start', 2), ('drain',),
                          ('data', 'c2', [7, 7, 7], ('ext', 5))], 'kind': 'evolve-config'})
    return out


def _whatif_fix():
    """Developer aid (VERIF_C05_WHATIF=fix, never set by the registered commands): apply the minimal patch proposed in
    reports/C05.md in memory (default-typed names are resolved all-or-nothing), to see that the check is green with it."""
    import cflib.crazyflie.log as lg
    _patch_source(lg.Log, 'add_config', "        for name in logconf.default_fetch_as:\n",
                  "        _resolved = []\n        for name in logconf.default_fetch_as:\n")
    _patch_source(lg.Log, 'add_config', "            logconf.add_variable(name, var.ctype)\n",
                  "            _resolved.append((name, var.ctype))\n")
    _patch_source(lg.Log, 'add_config', "        logconf.default_fetch_as = []\n",
                  "        for (_n, _t) in _resolved:\n            logconf.add_variable(_n, _t)\n        logconf.default_fetch_as = []\n")


_inited = []


def _init():
    vsched.load_cflib()
    sd.install()
    if not _inited:
        _inited.append(1)
        if os.environ.get('VERIF_C05_WHATIF') == 'fix':
            _whatif_fix()


def _exec_job(job):
    sc, mutant = job
    try:
        return execute(sc, mutant)
    except common.MachineryError as e:
        return {'machinery': str(e)}
    except Exception:
        import traceback
        return {'machinery': traceback.format_exc()[-1500:]}


def run_scenarios(scs, mutant=None):
    traces = common.pmap(_exec_job, [(sc, mutant) for sc in scs], init=_init, maxtasks=200)
    for t in traces:
        if 'machinery' in t:
            raise common.MachineryError('harness failure while executing a scenario: %s' % t['machinery'])
    return traces


_VARIANT = {}


def probe_variant():
    """Which of the pre-fix behaviours (duplicating re-add, TypeError on raw memory, partial resolution of default-typed
    names before a KeyError) does the code under test have?  Used only to pick the design-spec
    variant for the binding (conformance); the monitor does not depend on it."""
    if _VARIANT:
        return _VARIANT
    sc = {'toc': std_toc(), 'cfgs': [cfg([V('v.x1', 0)]), cfg([M('mem.a', 1, 1)])],
          'steps': [('add', 1), ('reconnect',), ('add', 1), ('add', 2), ('start', 2)]}
    t = run_scenarios([sc, sc, sc, sc])[0]
    adds = [e for e in t['ev'] if e['e'] == 'add' and e['c'] == 1]
    starts = [e for e in t['ev'] if e['e'] == 'start']
    _VARIANT['C05_DUP'] = '1' if len(adds[-1]['vars']) > 1 else '0'
    _VARIANT['C05_MEM'] = '1' if starts and starts[-1]['res'] == 'TypeError' else '0'
    sc = {'toc': std_toc(), 'cfgs': [cfg([V('v.x1', 0), V('v.nope', 0)]), EMPTY], 'steps': [('add', 1)]}
    t = run_scenarios([sc, sc, sc, sc])[0]
    _VARIANT['C05_PARTIAL'] = '1' if len(t['ev'][0]['vars']) > 0 else '0'
    return _VARIANT


def slim(t):
    return {k: t[k] for k in ('id', 'tocs', 'cfgs', 'sync', 'synccs', 'idle_end', 'ev')}


def judge(out, traces, label, count=True):
    """-> (bad [(trace, clause, at)], drift [(trace, at)]) ; verdicts come from TLC (LogBlocksTrace)"""
    for i, t in enumerate(traces):
        t['id'] = i + 1
    # long traces first so that the batches are balanced
    order = sorted(traces, key=lambda t: -len(t['ev']))
    nb = min(common.NCPU, max(1, len(order)))
    batches = [[] for _ in range(nb)]
    for i, t in enumerate(order):
        batches[i % nb].append(t)
    flat = [slim(t) for b in batches for t in b]
    chunk = max(1, min(4000, (len(flat) + nb - 1) // nb))
    verdicts, st = common.validate_traces('LogBlocksTrace.tla', 'TRACE_LogBlocks.cfg', flat, chunk=chunk,
                                          env=probe_variant(), timeout=3000)
    if count:
        out.traces += len(traces)
        out.states += st['states']
        out.transitions += st['transitions']
    out.tlc_runs.append({'config': 'TRACE_LogBlocks (%s)' % label, 'states': st['states'], 'transitions': st['transitions'],
                         'wall_s': round(st['wall_s'], 2), 'traces': len(traces)})
    bad, drift = [], []
    for t in traces:
        clause, at, cok, cok_at = verdicts[t['id']]
        if clause != 'ok':
            bad.append((t, clause, at))
        elif not cok and not t.get('noconf'):
            drift.append((t, cok_at))
    return bad, drift


def signature(t, clause, at):
    """violated clause + canonical witness class (event kind, variable kinds involved, ack command/status)"""
    ev = t['ev']
    e = ev[at - 1] if 0 < at <= len(ev) else {'e': 'end'}
    c = e.get('c', 1)
    cf = t['cfgs'][c - 1] if 1 <= c <= len(t['cfgs']) else {'vars': []}
    has_mem = any(v['k'] == 'mem' for v in cf['vars'])
    has_def = any(v['k'] == 'toc' and v['f'] == 0 for v in cf['vars'])
    kind = e['e']
    if kind == 'add':
        cls = ('re-add' if any(x['e'] == 'add' and x['c'] == c and x['res'] == 'ok' for x in ev[:at - 1]) else 'first-add')
        cls += '/default-typed' if has_def else ''
        # an earlier rejected add_config of the same object: what was missing from that session's table
        sess, why = 0, set()
        late = []
        for x in ev[:at - 1]:
            if x['e'] == 'reconnect':
                sess += 1
            elif x['e'] == 'addvar' and x['c'] == c:
                late.append(x['v'])
            elif x['e'] == 'add' and x['c'] == c and x['res'] != 'ok':
                names = {r['n'] for r in t['tocs'][min(sess, len(t['tocs']) - 1)]}
                for v in cf['vars'] + late:
                    if v['k'] == 'toc' and v['n'] not in names:
                        why.add('default-missing' if v['f'] == 0 else 'typed-missing')
                why = why or {x['res']}
        if why:
            cls += '/after-rejected(%s)' % '+'.join(sorted(why))
        if late:
            cls += '/late-variable'
    elif kind in ('start', 'stop', 'delete'):
        cls = kind + ('/raw-memory' if has_mem else '/table') + ('' if e['res'] == 'ok' else '/' + e['res'])
    elif kind == 'ack':
        cls = 'ack/cmd%d/st%d' % (e['cmd'], e['st_ack'])
    elif kind == 'data':
        bad_types = sorted({TYPE_NAMES.get(ty, '?') for ty in e['types']})
        cls = 'data/' + ('+'.join(bad_types) if len(bad_types) <= 2 else 'mixed')
    else:
        cls = kind
    return '%s/%s' % (clause, cls)


# --------------------------------------------------------------------------- spec -> code
SIM_TOC = [('v.%d' % j, ((j - 1) % 8) + 1) for j in range(1, 28)]       # = TocSim of MC_LogBlocks.tla


def _key(v):
    return (v['k'], v['n'], v['f'], 0, ()) if v['k'] == 'toc' else (v['k'], v['n'], v['f'], v['s'], tuple(v['a']))


def _spec_dev(d):
    """TLC prints a function with domain 1..n as a tuple"""
    if isinstance(d, list):
        d = {i + 1: x for i, x in enumerate(d)}
    return [{'id': k, 'vars': [{'k': v['k'], 't': v['t'], 'r': list(v['r'])} for v in d[k]['vars']],
             'started': d[k]['started'], 'period': d[k]['period']} for k in sorted(d)]


def behaviour_steps(beh):
    """TLC behaviour of LogBlocks -> (cfgs, [(step, post-state)])"""
    last = beh[-1][1]
    if last['phase'] != 'run':
        return None
    at_go = next(st for (_l, st) in beh if st['phase'] == 'run')

    def var(v):
        return {'k': v['k'], 'n': v['n'], 'f': v['f'], 's': v['s'], 'a': list(v['a'])}
    cfgs = [{'period': c['period'], 'vars': [var(v) for v in c['vars']]} for c in at_go['conf']]
    steps = []
    for label, st in beh[1:]:
        name, args = tlc.parse_label(label)
        if st['phase'] != 'run' or name in ('NewConfig', 'AddVariable', 'Go'):
            continue
        o = st['obs']
        if name == 'UAdd':
            step = ('add', args[0])
        elif name == 'UAddVar':
            step = ('addvar', args[0], var(st['conf'][args[0] - 1]['vars'][-1]))
        elif name in ('UStart', 'UStop', 'UDelete'):
            step = (name[1:].lower(), args[0])
        elif name == 'Deliver':
            step = ('deliver',)
        elif name == 'DropAck':
            step = ('drop',)
        elif name == 'Inject':
            step = ('inject', args[0])
        elif name == 'CloseLink':
            step = ('close',)
        elif name.startswith('OpenLink'):
            step = ('open',)
        elif o.get('e') == 'data':
            step = ('data', o['wire'][0], [1, 2, 3], ('seq',))
        else:
            return None
        steps.append((step, st))
    return cfgs, steps


def replay_behaviour(beh):
    """Drive the real code along a TLC behaviour (environment choices verbatim) and compare the projection of
    the real objects with the TLC state after every step.  -> (matched, total, first mismatch, trace)"""
    bs = behaviour_steps(beh)
    if bs is None:
        return (0, 0, 'unmapped behaviour', None)
    cfgs, steps = bs
    sc = {'toc': SIM_TOC, 'cfgs': cfgs, 'steps': [s for s, _ in steps], 'kind': 'tlc-behaviour'}
    matched = 0
    first = None
    with vsched.scheduler(vsched.FifoPolicy(), max_steps=400000) as s:
        x = Exec(sc, s)
        x.connect()
        for i, (step, want) in enumerate(steps):
            x.step(step)
            got = x.project_full()
            exp = {'pending': want['pending'], 'valid': want['valid'], 'cid': want['cid'], 'hascf': want['hascf'],
                   'blocks': want['blocks'], 'idctr': want['idctr'],
                   'acks': [{'cmd': a['cmd'], 'id': a['id'], 'st': a['st']} for a in want['acks']],
                   'inject': want['inject'], 'dev': _spec_dev(want['dev']), 'link': want['link'],
                   'added': want['added'], 'started': want['started'], 'ldef': want['ldef']}
            diff = [k for k in exp if exp[k] != got[k]]
            if [[_key(v) for v in vs] for vs in got['lvars']] != [[_key(v) for v in vs] for vs in want['lvars']]:
                diff.append('lvars')
            o = want['obs']
            if o.get('e') in ('start', 'stop', 'delete', 'ack') and x.ev and x.ev[-1].get('e') == o['e']:
                if [list(m) for m in o['sent']] != x.ev[-1]['sent']:
                    diff.append('sent')
            if o.get('e') in ('add', 'start', 'stop', 'delete') and x.ev and x.ev[-1].get('e') == o['e']:
                if o['res'] != x.ev[-1]['res']:
                    diff.append('res')
            if o.get('e') == 'data' and x.ev and x.ev[-1].get('e') == 'data':
                if o['gots'] != x.ev[-1]['gots'] or o['wire'] != x.ev[-1]['wire']:
                    diff.append('data')
            if diff:
                if first is None:
                    first = 'step %d %s: %s' % (i + 1, step, [(k, exp.get(k), got.get(k)) for k in diff[:3]])
            else:
                matched += 1
        simtoc = [{'n': n, 't': t, 'i': i} for i, (n, t) in enumerate(SIM_TOC)]
        trace = {'tocs': [simtoc] * (x.nsess + 1), 'cfgs': cfgs, 'sync': False,
                 'synccs': [], 'idle_end': False, 'ev': x.ev, 'noconf': False,
                 'detail': {'errors': x.errors, 'dead': []}}
    return (matched, len(steps), first, trace, sc)


def _replay_job(beh):
    try:
        return replay_behaviour(beh)
    except common.MachineryError as e:
        return (0, 1, 'machinery: %s' % e, None, None)
    except Exception:
        import traceback
        return (0, 1, 'exception: ' + traceback.format_exc()[-800:], None, None)


# --------------------------------------------------------------------------- sensitivity
def sc_sensitivity(rng):
    """compact scenario set every in-memory mutant is run against"""
    out = []
    for sizes, per in (([1] * 26, 10), ([4] * 6 + [2], 2540), ([1] * 27, 100), ([4] * 6 + [2, 1], 100), ([2] * 10, 2549), ([1], 2550),
                       ([4, 2, 1], 0), ([1] * 19, 100)):
        out.append({'toc': std_toc(), 'cfgs': [cfg(build_vars(sizes, 'typed', salt=3), per), EMPTY], 'steps': life(1, len(sizes), True)})
    out.append({'toc': std_toc(), 'cfgs': [cfg(build_vars([1, 2, 4, 1, 2, 4, 2], 'mixed')), cfg(build_vars([2, 2, 4], 'typed', salt=1), 50)],
                'steps': life(1, 1, False) + life(2, 2, False)})
    big = std_toc(300)
    out.append({'toc': big, 'cfgs': [cfg([V('v.x256', 1), V('v.x299', 7), V('v.x1', 2)]), EMPTY], 'steps': life(1, 5, False)})
    vs = [V('v.x0', 1), V('v.x1', 2), V('v.x2', 3), V('v.x3', 4), V('v.x4', 5), V('v.x5', 6), V('v.x6', 7), V('v.x7', 8)]
    out.append({'toc': std_toc(), 'cfgs': [cfg(vs), EMPTY],
                'steps': [('add', 1), ('start', 1), ('drain',)] + [('data', 'c1', [k, k + 1, k + 2], ('ext', k)) for k in range(20)]})
    # acknowledgements with error statuses, two blocks
    c1, c2 = cfg([V('v.x0', 1)]), cfg([V('v.x1', 2), V('v.x3', 4)], 300)
    for st in (12, 2, 7, 5):
        out.append({'toc': std_toc(), 'cfgs': [c1, c2], 'steps': [('add', 1), ('add', 2), ('inject', st), ('start', 1), ('drain',), ('start', 2),
                                                                 ('drain',), ('start', 1), ('drain',), ('inject', st), ('start', 2), ('drain',)]})
    out.append({'toc': std_toc(), 'cfgs': [c1, c2], 'steps': [('add', 1), ('add', 2), ('start', 2), ('drain',), ('start', 1), ('drain',), ('stop', 2),
                                                             ('drain',), ('data', 'c1', [1, 1, 1], ('ext', 1)), ('stop', 1), ('drain',),
                                                             ('start', 1), ('drain',), ('delete', 1), ('delete', 2), ('drain',)]})
    out.append({'toc': std_toc(), 'cfgs': [c1, c2], 'steps': [('add', 1), ('start', 1), ('drain',), ('start', 1), ('stop', 1), ('drain',)]})
    out.append({'toc': std_toc(), 'cfgs': [cfg(build_vars([1] * 20, 'typed', salt=1)), cfg(build_vars([2] * 11, 'typed', salt=2))],
                'steps': life(1, 2, False) + life(2, 3, False), 'lazy': True})
    out.append({'toc': std_toc(), 'cfgs': [cfg([M('mem.s%d' % i, 7, 1) for i in range(7)]), cfg([M('mem.r%d' % i, 1, 3) for i in range(26)])],
                'steps': life(1, 2, False) + life(2, 3, False)})
    out += [s for s in sc_sync('quick', rng) if s['kind'] == 'sync-reuse']
    ev = sc_evolve('quick', rng)
    out += [s for s in ev if s['kind'] == 'evolve-table'][:6] + [s for s in ev if s['kind'] == 'evolve-config'][:6]
    out += [s for s in sc_sync('quick', rng) if s['kind'] == 'sync'][:8]
    out += [s for s in sc_sync('quick', rng) if s['kind'] == 'sync-race'][:12]
    return out


def corrupted(traces):
    """binding self-test: recorded traces with one field changed / one event dropped"""
    out = []
    ok = [t for t in traces if not any(v['k'] == 'mem' or v['f'] == 0 for c in t['cfgs'] for v in c['vars'])]
    base = next(t for t in ok if any(e['e'] == 'start' and len(e['sent']) > 1 for e in t['ev']))
    t = copy.deepcopy(base)
    e = next(e for e in t['ev'] if e['e'] == 'start' and len(e['sent']) > 1)
    e['sent'][1][3] ^= 1                                  # one index byte of an append message
    out.append(('index-byte-flipped', t, base))
    base = next(t for t in ok if any(e['e'] == 'data' and e['gots'] for e in t['ev']))
    t = copy.deepcopy(base)
    e = next(e for e in t['ev'] if e['e'] == 'data' and e['gots'])
    e['wire'][2] ^= 0x80                                  # timestamp byte on the wire
    out.append(('timestamp-byte-flipped', t, base))
    base = next(t for t in ok if sum(1 for e in t['ev'] if e['e'] == 'ack') >= 2)
    t = copy.deepcopy(base)
    i = next(i for i, e in enumerate(t['ev']) if e['e'] == 'ack')
    del t['ev'][i]                                        # an acknowledgement event dropped
    out.append(('ack-event-dropped', t, base))
    base = next(t for t in ok if any(e['e'] == 'start' and e['sent'] for e in t['ev']) and not t.get('noconf'))
    t = copy.deepcopy(base)
    e = next(e for e in t['ev'] if e['e'] == 'start' and e['sent'])
    e['st']['pending'][e['c'] - 1] += 1                   # projection field changed: only the binding can see it
    out.append(('pending-projection-changed', t, base))
    return out


# --------------------------------------------------------------------------- the check
ASSUMPTIONS = [
    'device = simulated log service: firmware-side decode of create/append (whole entries, trailing remainder ignored; table entry 3 bytes, '
    'raw-memory entry type + u32 address); acknowledgements [cmd, id, status]; data packets [id, ts24, payload]; link without retransmission '
    '(needs_resending False: retries are C10)',
    'period = LogConfig.period = period_in_ms // 10 in 1..254 (2549 ms is accepted as 254 units)',
    'stored-type nibble demanded for raw-memory variables only; fetch nibble and 16-bit index for table variables',
    'order of a configuration\'s variables = LogConfig.variables after the first successful add_config (DESIGN 3.1(4)); content = the user\'s calls',
    'variable names within one configuration are distinct (dict-based data callback); a LogConfig is added once per session',
    'creation clause is per creation attempt (one start() call)',
    'flags follow acknowledgements: move only while an acknowledgement is processed, as it says; EEXIST on create / ENOENT on delete may or may not flip; '
    'nothing demanded of the flags across a reconnect',
    'SyncLogger: yields are a prefix of the decoded samples, the iteration ends after the disconnect and not before, nothing lost when the consumer had drained',
]


def _tlc_job(job):
    kind, cfg_name, kw = job
    if kind == 'check':
        return (kind, cfg_name, tlc.check('MC_LogBlocks.tla', cfg_name, **kw))
    return (kind, cfg_name, tlc.expect_violation('MC_LogBlocks.tla', cfg_name, **kw))


BUG_CFGS = ['dup_readd', 'mem_raises', 'skip_on_split', 'size_lt', 'period_le_255', 'optimistic_start', 'ack_any_block',
            'start_on_error', 'slice_by_stored', 'partial_resolve', 'reset_when_accepted', 'stale_layout', 'size_by_stored']


def _design_checks(tier):
    """exhaustive design-spec checks + every bug configuration (must be refuted), a few TLC runs at a time"""
    from concurrent.futures import ThreadPoolExecutor
    checks = ['MC_LogBlocks_static_%s.cfg' % tier, 'MC_LogBlocks_life_%s.cfg' % tier, 'MC_LogBlocks_evolve_%s.cfg' % tier, 'MC_LogBlocks_tables.cfg', 'MC_LogBlocks_memsize.cfg',
              'MC_LogBlocks_sync.cfg', 'MC_LogBlocks_sync_live.cfg']
    if tier == 'thorough':
        checks.append('MC_LogBlocks_two.cfg')
    jobs = [('check', c, {'workers': 6 if tier == 'thorough' else 4, 'timeout': 3000}) for c in checks]
    jobs += [('bug', 'MC_LogBlocks_bug_%s.cfg' % b, {'workers': 2, 'timeout': 3000}) for b in BUG_CFGS]
    with ThreadPoolExecutor(max_workers=4) as ex:
        res = list(ex.map(_tlc_job, jobs))
    for (_k, _n, r) in res:
        r.output = r.output[-2000:]
    return res


def _judge_tagged(tagged, variant, nproc):
    _VARIANT.update(variant)
    o2 = common.Outcome('C05', 'bg', 0)
    common.NCPU = nproc
    mbad, mdrift = judge(o2, tagged, 'mutants and corrupted traces', count=False)
    return ([(t['id'], signature(t, clause, at), at) for (t, clause, at) in mbad], [(t['id'], a) for (t, a) in mdrift], o2.tlc_runs)


class _Bg:
    """run fn(*args) in a forked process while the main process goes on"""
    live = []

    @classmethod
    def cleanup(cls):
        for b in cls.live:
            if b.p.is_alive():
                b.p.terminate()
                b.p.join(5)
        cls.live = []

    def __init__(self, fn, *args):
        import multiprocessing as mp
        ctx = mp.get_context('fork')
        self.rx, tx = ctx.Pipe(False)
        self.p = ctx.Process(target=self._run, args=(tx, fn, args))
        self.p.start()
        tx.close()
        _Bg.live.append(self)

    @staticmethod
    def _run(tx, fn, args):
        try:
            tx.send(('ok', fn(*args)))
        except (common.MachineryError, tlc.TLCError) as e:
            tx.send(('err', str(e)))
        except Exception:
            import traceback
            tx.send(('err', traceback.format_exc()[-3000:]))
        finally:
            tx.close()

    def get(self):
        try:
            kind, val = self.rx.recv()
        except EOFError:
            kind, val = 'err', 'background process died'
        self.p.join()
        if kind == 'err':
            raise common.MachineryError(val)
        return val


def main(tier, seed, replay=None):
    try:
        return _main(tier, seed, replay)
    finally:
        _Bg.cleanup()          # no TLC / worker process of this check survives a failure


def _main(tier, seed, replay=None):
    out = common.Outcome('C05', tier, seed)
    rng = random.Random(seed)
    out.assumptions = ASSUMPTIONS
    if replay:
        rp = json.load(open(replay))['replay']
        _init()
        t = run_scenarios([rp['scenario']])[0]
        bad, _ = judge(out, [t], 'replay')
        for (t, clause, at) in bad:
            out.violation(signature(t, clause, at), clause, _detail(t, at), rp)
        return out.finish()

    # 1. design spec: exhaustive configurations; every bug configuration must be refuted (in the background)
    design = _Bg(_design_checks, tier)
    variant = probe_variant()
    out.extra['code_variant_probed'] = dict(variant)

    # 2. spec -> code: TLC behaviours of the variant the code was probed to be, replayed into the real code
    nsim = 300 if tier == 'quick' else 3000
    bugs = [b for k, b in (('C05_DUP', 'dup_readd'), ('C05_MEM', 'mem_raises'), ('C05_PARTIAL', 'partial_resolve')) if variant[k] == '1']
    simdir = tlc.scratch_dir('c05sim-')
    try:
        simcfg = os.path.join(simdir, 'SIM_LogBlocks_probed.cfg')
        with open(simcfg, 'w') as f:             # SIM_LogBlocks_00.cfg with the Bugs the code was probed to have
            f.write(open(os.path.join(tlc.SPEC_DIR, 'SIM_LogBlocks_00.cfg')).read().replace(
                'Bugs = {}', 'Bugs = {%s}' % ', '.join('"%s"' % b for b in bugs)))
        rs, behs = tlc.simulate('MC_LogBlocks.tla', simcfg, num=nsim, depth=50, seed=seed % 100000, timeout=1200)
    finally:
        shutil.rmtree(simdir, ignore_errors=True)
    simcfg = 'SIM_LogBlocks_00.cfg with Bugs={%s}' % ','.join(bugs)
    out.add_tlc('%s (-simulate num=%d)' % (simcfg, nsim), rs)
    reps = common.pmap(_replay_job, behs, init=_init, maxtasks=200)
    mach = [x[2] for x in reps if x[2] and x[2].startswith(('machinery', 'exception'))]
    if mach:
        raise common.MachineryError('replay of a TLC behaviour failed: %s' % mach[0])
    out.conformance['spec_to_code'] = {
        'behaviours': len(reps), 'fully_matched': sum(1 for x in reps if x[0] == x[1]),
        'steps': sum(x[1] for x in reps), 'steps_matched': sum(x[0] for x in reps),
        'first_mismatches': [x[2][:300] for x in reps if x[2]][:3], 'sim_cfg': simcfg}
    sim_traces = [x[3] for x in reps if x[3] is not None]
    sim_scs = [x[4] for x in reps if x[3] is not None]

    # 3. code -> spec: enumerations and seeded random scenarios
    scs = sc_static(tier, rng) + sc_evolve(tier, rng) + sc_histories(tier, rng) + sc_sweeps(tier, rng) + sc_sync(tier, rng)
    traces = run_scenarios(scs)
    all_scs = sim_scs + scs
    all_traces = sim_traces + traces
    late = []            # machinery problems that must not mask the verdict on the real code: raised at the end, and
    #                      only when the monitor rejected nothing
    herr = [t['detail'] for t in all_traces if t['detail']['errors']]
    if herr:
        late.append('harness could not drive a scenario: %s' % herr[0])

    # 4. sensitivity: in-memory mutants of the code under test + corrupted traces (judged in the background)
    sens = sc_sensitivity(random.Random(seed + 1))
    names = sorted(_mutants_names())
    jobs = [(sc, m) for m in names for sc in sens]
    mt = common.pmap(_exec_job, jobs, init=_init, maxtasks=200)
    tagged = []
    for (sc, m), t in zip(jobs, mt):
        if 'machinery' in t:
            if 'not found in' in str(t['machinery']):
                # a textual mutant whose site is gone from the tree under test is skipped, not an error
                out.sensitivity['mutant:' + m] = 'skipped: the patched text is not in the code under test'
                continue
            out.sensitivity['mutant:' + m] = 'not applicable to the code under test: %s' % str(t['machinery'])[-200:]
            continue
        t['tag'] = 'mutant:' + m
        tagged.append(t)
    base_ids = {}
    try:
        for name, t, base in corrupted(traces):
            t['tag'] = 'binding:' + name
            base_ids[len(tagged)] = base
            tagged.append(t)
    except StopIteration:
        late.append('no base trace for a corrupted-trace self-test')
    ncpu = common.NCPU
    sens_bg = _Bg(_judge_tagged, tagged, dict(variant), max(2, ncpu // 3))

    # ... the verdict on the real code: every trace through TLC (LogBlocksTrace: monitor + conformance)
    common.NCPU = max(2, ncpu - ncpu // 3)
    try:
        bad, drift = judge(out, all_traces, 'real code')
    finally:
        common.NCPU = ncpu
    badset = {id(b[0]) for b in bad}
    out.conformance['code_to_spec'] = {
        'traces': len(all_traces), 'rejected_by_monitor': len(bad),
        'excluded_racy_or_multi_logger': sum(1 for t in all_traces if t.get('noconf') and id(t) not in badset),
        'explained_by_design_spec': sum(1 for t in all_traces if not t.get('noconf') and id(t) not in badset) - len(drift),
        'drift': len(drift), 'first_drift': [{'event': t['ev'][a - 1]['e'] if 0 < a <= len(t['ev']) else a} for (t, a) in drift[:3]]}
    pos = {id(t): i for i, t in enumerate(all_traces)}
    for (t, clause, at) in sorted(bad, key=lambda b: (len(b[0]['ev']), pos[id(b[0])])):      # shortest witness first
        out.violation(signature(t, clause, at), clause, _detail(t, at), {'scenario': all_scs[pos[id(t)]]})
    out.evaluations = sum(len(t['ev']) for t in all_traces)
    out.distinct = len({json.dumps([t['cfgs'], [(e['e'], e.get('c'), e.get('res'), e.get('cmd'), e.get('st_ack'), e.get('wire')) for e in t['ev']]],
                                   sort_keys=True) for t in all_traces})
    kinds = {}
    for sc in all_scs:
        kinds[sc.get('kind', '?')] = kinds.get(sc.get('kind', '?'), 0) + 1
    out.extra['scenario_kinds'] = kinds
    out.extra['data_packets_judged'] = sum(1 for t in all_traces for e in t['ev'] if e['e'] == 'data')
    out.extra['sync_races_with_samples_left_in_queue'] = sum(
        1 for t in all_traces if t['sync'] and sum(1 for e in t['ev'] if e['e'] == 'sample') > sum(1 for e in t['ev'] if e['e'] == 'yield'))
    out.rule = ('scenario = (device table, two LogConfig descriptions, steps add/start/stop/delete/deliver/drop/inject/close/open/data/SyncLogger); '
                'sources: TLC -simulate behaviours of LogBlocks; all size lists over {1,2,4} up to length 6 (quick: up to 4 + sample) in typed/default/mixed '
                'form; uniform lists 0..27; 15 periods x 6 payload sizes; missing variables; raw-memory variables; 16-bit indices; exhaustive histories '
                'after the first add (quick: length<=3, thorough: <=4) + seeded random histories up to 8 steps with one and two blocks; byte-pattern sweeps; '
                'SyncLogger step scenarios + seeded random schedules; evaluations = events judged; distinct = distinct (configuration, event skeleton)')
    out.exhaustive = False
    picks = [0, len(sim_traces) + 5, len(all_traces) - 1]
    out.samples = [{'scenario_kind': all_scs[i].get('kind'), 'cfgs': all_traces[i]['cfgs'],
                    'events': [{k: v for k, v in e.items() if k not in ('st', 'before', 'after')} for e in all_traces[i]['ev'][:6]]}
                   for i in picks if 0 <= i < len(all_traces)]

    # sensitivity and design-spec results: recorded; a failure here ends the run with exit 2 only when the monitor
    # rejected nothing (a self-test never masks the verdict on the real code)
    try:
        mbad, mdrift, runs = sens_bg.get()
        out.tlc_runs += runs
        per = {}
        for t in tagged:
            per.setdefault(t['tag'], [0, 0, set()])[0] += 1
        for (tid, clause, at) in mbad:
            tg = tagged[tid - 1]['tag']
            per[tg][1] += 1
            per[tg][2].add(clause)
        for (tid, a) in mdrift:
            tg = tagged[tid - 1]['tag']
            if tg.startswith('binding:'):
                per[tg][1] += 1
                per[tg][2].add('conformance@%d' % a)
        for idx, base in base_ids.items():
            if id(base) in badset:               # the base trace itself was rejected: the corruption proves nothing
                per.pop(tagged[idx]['tag'], None)
                out.sensitivity[tagged[idx]['tag']] = 'skipped (no clean base trace)'
        # what the unmutated code under test is rejected for does not count as rejecting a mutant (signatures)
        baseline = {signature(t, clause, a) for (t, clause, a) in bad}
        for tag in sorted(per):
            n, k, clauses = per[tag]
            out.sensitivity[tag] = '%d of %d traces rejected (%s)' % (k, n, ','.join(sorted(clauses)))
            if k == 0 or (tag.startswith('mutant:') and not (clauses - baseline)):
                out.sensitivity[tag] += ' -- SURVIVED'
                late.append('%s survived the monitor (%s)' % (tag, out.sensitivity[tag]))
    except (common.MachineryError, tlc.TLCError) as e:
        late.append('sensitivity self-tests failed: %s' % str(e)[-1500:])
    try:
        for kind, name, r in design.get():
            if kind == 'check':
                out.add_tlc(name, r)
            else:
                out.sensitivity['spec:' + name[len('MC_LogBlocks_bug_'):-4]] = 'refuted (%s) after %d states' % (r.violated, r.distinct)
    except (common.MachineryError, tlc.TLCError) as e:
        late.append('design-spec checks failed: %s' % str(e)[-1500:])
    if late:
        out.extra['machinery_problems'] = late
        if not out.violations:
            raise common.MachineryError('; '.join(late)[:3000])
        for m in late:
            print('MACHINERY-NOTE (verdict reported anyway): %s' % m[:400])
    return out.finish()


def _mutants_names():
    _init()
    return list(_mutants().keys())


def _detail(t, at):
    ev = t['ev']
    e = dict(ev[at - 1]) if 0 < at <= len(ev) else {}
    e.pop('st', None)
    return {'event_index': at, 'event': e, 'cfgs': t['cfgs'],
            'events_before': [{k: v for k, v in x.items() if k not in ('st', 'before', 'after', 'vars')} for x in ev[max(0, at - 6):max(0, at - 1)]]}
