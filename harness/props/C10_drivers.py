"""C10, the clauses about CLOSED links, bound to the REAL link drivers.

    "... nothing is ever transmitted on a closed link, and a request from one session is never
     transmitted in a later session."

harness/props/C10.py runs Crazyflie on the simulated driver and takes for granted that a closed
driver object transmits nothing (its 'drop' events).  This module discharges that assumption on
the real driver classes: spec/DriverCloseProps.tla (the two clauses over the observable history of
one driver object), spec/DriverClose.tla (design spec of the object's life: connect, send, comm
thread traffic, unplug / jam, close with failing device calls, send / close / connect on the closed
object), spec/DriverCloseTrace.tla (monitor + conformance for recorded traces).

What runs is the real code under vsched:
  usb    cflib.crtp.usbdriver.UsbDriver -> the real cflib.drivers.cfusb.CfUsb -> a scripted pyusb
         device (FakeUsbDev: bulk write / read, control transfers, dispose; any of them can fail)
  radio  cflib.crtp.radiodriver.RadioDriver -> RadioManager -> _SharedRadio thread -> the real
         cflib.drivers.crazyradio.Crazyradio -> a scripted pyusb device (FakeRadioDev); the
         _RadioDriverThread runs its real loop; one transfer takes 1 ms of virtual time, so close()
         regularly arrives while a transfer is in flight
  tcp    cflib.crtp.tcpdriver.TcpDriver -> real CPX / SocketTransport -> a scripted socket
  udp    cflib.crtp.udpdriver.UdpDriver -> a scripted datagram socket
The only observation points are the fake devices ("the device took a write") and the harness's
own calls into the public driver API.  Python drives and records; every verdict is TLC's.

Entry point for C10.check:   run(out, tier, seed)        (adds to the common.Outcome it is given)
Replay of a violation:       replay(out, replay_dict)    (for replay files with 'driver_scenario')
"""
import array
import contextlib
import copy
import io
import itertools
import json
import random
import types

from .. import common, tlc, vsched
from ..vsched import core as vcore
from ..vsched import vqueue, vthreading, vtime

KINDS = ('usb', 'radio', 'tcp', 'udp')
URI = {'usb': 'usb://0', 'radio': 'radio://0/80/2M', 'tcp': 'tcp://10.1.2.3:5000', 'udp': 'udp://10.1.2.3:7777'}
RETRIES = 3            # radio: lost frames in a row before 'Too many packets lost' (DriverCloseTrace.Retries)
JAMLEN = 4             # frames lost by one jam                                      (DriverCloseTrace.JamLen)
WAIT = 0.0035          # 'W': the application is busy elsewhere for 3.5 ms (lands inside a radio transfer)
PORT = 5


def _park(kind, obj, dt):
    """A yield point that takes dt of virtual time (device I/O, harness landmarks)."""
    return vthreading._do(vcore.Op(kind, obj, lambda: False, lambda: None, deadline=vthreading._deadline(dt),
                                   timeout_result=lambda: None))


def _usb_error(msg, code):
    import usb.core
    return usb.core.USBError(msg, error_code=code, errno=19 if code == -4 else 110)


# --------------------------------------------------------------------------- the world of one execution
class World:
    def __init__(self, sc):
        self.sc = sc
        self.kind = sc['kind']
        self.ev = []
        self.gone = False          # device unplugged / peer gone
        self.jam = 0               # radio: frames still to lose
        self.fault = 'none'        # armed for the close() in progress: 'f1' / 'f2' = 1st / 2nd device call raises
        self.down = []             # downlink packets waiting in the device
        self.nwr = 0
        self.nwx = 0
        self.nack = 0
        self.in_callback = False   # the link-error callback is running (inside the comm thread)
        self.landmarks = False     # replay mode (extra yield points that let the harness stop threads at the spec's grain)
        self.drv = None
        self.user = None           # ThreadRec of the application thread
        self.usbdev = FakeUsbDev(self)
        self.radiodev = FakeRadioDev(self)
        self.socks = []

    def log(self, e, a=0, **kw):
        d = {'e': e, 'a': int(a)}
        d.update(kw)
        self.ev.append(d)

    def take_fault(self, which):
        if self.fault == which:
            self.fault = 'none'
            return True
        return False

    # projections of the real object onto DriverClose.tla
    def held(self):
        d = self.drv
        if self.kind == 'usb':
            return int(getattr(d, 'cfusb', None) is not None)
        if self.kind == 'radio':
            return int(getattr(d, '_radio', None) is not None)
        if self.kind == 'tcp':
            return int(getattr(d, 'cpx', None) is not None)
        s = getattr(d, 'socket', None)
        return int(s is not None and not getattr(s, 'closed', False))

    def outq(self):
        q = getattr(self.drv, 'out_queue', None)
        if self.kind != 'radio' or q is None:
            return []
        return [req_of_pk(pk) for pk in list(q.queue)]


def req_of_pk(pk):
    try:
        d = pk.data
        return int(d[0]) if len(d) else 0
    except Exception:
        return 0


# --------------------------------------------------------------------------- scripted pyusb devices
class _Ctx:
    def __init__(self, w):
        self.w = w

    def dispose(self, dev, close_handle=True):
        _park('dev.ctl', dev, 0.0)
        if self.w.take_fault('f2'):
            raise _usb_error('dispose: pipe error', -9)


class FakeUsbDev:
    """The Crazyflie's own USB port, under the real cflib.drivers.cfusb.CfUsb."""
    bcdDevice = 0x0100
    manufacturer = 'Bitcraze AB'
    port_number = 1
    iSerialNumber = 3

    def __init__(self, w):
        self.w = w
        self._ctx = _Ctx(w)

    def __bool__(self):
        return True

    def set_configuration(self, n=None):
        pass

    def reset(self):
        pass

    def ctrl_transfer(self, bmRequestType, bRequest, wValue=0, wIndex=0, data_or_wLength=None, timeout=None):
        _park('dev.ctl', self, 0.0)
        if self.w.gone:
            raise _usb_error('No such device (it may have been disconnected)', -4)
        if self.w.take_fault('f1'):
            raise _usb_error('Operation timed out', -7)
        return 0

    def write(self, endpoint, data, timeout=None):
        _park('dev.write', self, 0.0)
        f = [int(x) for x in data]
        a = f[1] if len(f) > 1 else 0
        if self.w.gone:
            self.w.nwx += 1
            self.w.log('wx', a)
            raise _usb_error('No such device (it may have been disconnected)', -4)
        self.w.nwr += 1
        self.w.log('wr', a, o='A')

    def read(self, endpoint, n, timeout=None):
        self.w.log('rd', 0)
        if self.w.gone:
            _park('dev.read', self, 0.002)
        elif not self.w.down:
            _park('dev.read', self, 0.02)
        else:
            _park('dev.read', self, 0.0)
        if self.w.gone:
            raise _usb_error('No such device (it may have been disconnected)', -4)
        self.w.log('rr', 0)
        if self.w.landmarks:
            _park('dev.rdexit', self, 0.0)      # replay mode: the thread can be held just before the read returns
        if self.w.down:
            return array.array('B', self.w.down.pop(0))
        raise _usb_error('Operation timed out', -7)


class FakeRadioDev:
    """The Crazyradio dongle under the real cflib.drivers.crazyradio.Crazyradio, with a peer that
    acknowledges every frame (unless jammed) and accepts or ignores the safelink handshake."""
    bcdDevice = 0x0099
    serial_number = 'VERIF0001'

    def __init__(self, w):
        self.w = w
        self._ctx = _Ctx(w)
        self._reply = [0]

    def __bool__(self):
        return True

    def set_configuration(self, n=None):
        pass

    def reset(self):
        pass

    def ctrl_transfer(self, bmRequestType, bRequest, wValue=0, wIndex=0, data_or_wLength=None, timeout=None):
        # (an unplugged dongle would fail here too; that kills the _SharedRadio thread -- a hang, not a
        # transmission, outside this property -- so the scripted dongle only refuses data transfers)
        if bmRequestType & 0x80:
            return array.array('B', [0] * (data_or_wLength or 0))
        return 0

    def write(self, endpoint, data, timeout=None):
        w = self.w
        _park('dev.write', self, 0.02 if w.gone else 0.001)      # one transfer = 1 ms
        f = [int(x) for x in data]
        svc = len(f) == 3 and (f[0] & 0xF3) == 0xF3 and f[1] == 5
        null = len(f) == 1 and (f[0] & 0xF3) == 0xF3
        a = 0 if (svc or null or len(f) < 2) else f[1]
        if w.gone:
            w.nwx += 1
            w.log('wx', a)
            raise _usb_error('No such device (it may have been disconnected)', -4)
        w.nwr += 1
        if w.jam > 0:
            w.jam -= 1
            self._reply = [0]
            w.log('wr', a, o='L')
            return
        if svc:
            pay = [0xFF, 0x05, 0x01] if w.sc.get('sl', True) else []
        elif w.down:
            pay = w.down.pop(0)
        else:
            pay = []
        self._reply = [1] + pay
        w.log('wr', a, o='A')

    def read(self, endpoint, n, timeout=None):
        if self.w.gone:
            raise _usb_error('No such device (it may have been disconnected)', -4)
        return array.array('B', self._reply)


# --------------------------------------------------------------------------- scripted sockets
class FakeSock:
    def __init__(self, w, dgram):
        self.w = w
        self.dgram = dgram
        self.closed = False
        self.shut = False
        w.socks.append(self)

    def connect(self, addr):
        pass

    def settimeout(self, t):
        pass

    def setsockopt(self, *a):
        pass

    def _check(self):
        if self.closed:
            raise OSError(9, 'Bad file descriptor')
        if self.shut:
            raise BrokenPipeError(32, 'Broken pipe')

    # tcp: 2 bytes length, 2 bytes CPX routing (function in the low 6 bits of the second), payload
    def send(self, data):
        _park('dev.write', self, 0.0)
        self._check()
        b = bytes(data)
        a = 0
        if len(b) >= 6 and (b[3] & 0x3F) == 3:
            a = b[5]
        if self.w.gone:
            self.w.nwx += 1
            self.w.log('wx', a)
            raise ConnectionResetError(104, 'Connection reset by peer')
        self.w.nwr += 1
        self.w.log('wr', a, o='A')
        return len(b)

    sendall = send

    # udp: port byte, data, checksum; the driver's own frames start with 0xFF
    def sendto(self, data, addr=None):
        _park('dev.write', self, 0.0)
        self._check()
        b = bytes(data)
        a = 0 if (len(b) < 2 or b[0] in (0xFF, 0xC3)) else b[1]
        if self.w.gone:
            self.w.nwx += 1
            self.w.log('wx', a)
            raise ConnectionRefusedError(111, 'Connection refused')
        self.w.nwr += 1
        self.w.log('wr', a, o='A')
        return len(b)

    def recv(self, n):
        _park('dev.read', self, 0.05)
        if self.closed:
            raise OSError(9, 'Bad file descriptor')
        return b''

    def recvfrom(self, n):
        _park('dev.read', self, 0.01)
        if self.closed:
            raise OSError(9, 'Bad file descriptor')
        return b'', None

    def shutdown(self, how):
        _park('dev.ctl', self, 0.0)
        if self.closed:
            raise OSError(9, 'Bad file descriptor')
        if self.w.gone:
            raise OSError(107, 'Transport endpoint is not connected')
        if self.w.take_fault('f1'):
            raise OSError(107, 'Transport endpoint is not connected')
        self.shut = True

    def close(self):
        _park('dev.ctl', self, 0.0)
        if self.w.take_fault('f2'):
            raise OSError(5, 'Input/output error')
        self.closed = True


def _sock_module(w):
    import socket as real
    return types.SimpleNamespace(
        socket=lambda fam=None, typ=None, *a: FakeSock(w, typ == real.SOCK_DGRAM),
        AF_INET=real.AF_INET, SOCK_STREAM=real.SOCK_STREAM, SOCK_DGRAM=real.SOCK_DGRAM,
        SHUT_WR=real.SHUT_WR, SHUT_RDWR=real.SHUT_RDWR, error=OSError, timeout=real.timeout)


# --------------------------------------------------------------------------- observation of the radio thread's queues
class LogQueue(vqueue.Queue):
    """queue.Queue as radiodriver creates them.  Observation only: when the comm thread comes back
    from a get() this is logged from inside that thread -- 'og' for out_queue (capacity 1: the
    next packet, 0 = empty), 'ack' for its response queue (it now looks at the transfer's result)."""
    world = None
    thread_cls = None

    def get(self, block=True, timeout=None):
        w = LogQueue.world
        mine = w is not None and not w.in_callback and isinstance(vthreading.current_thread(), LogQueue.thread_cls or ())
        try:
            item = vqueue.Queue.get(self, block, timeout)
        except vqueue.Empty:
            if mine and self.maxsize == 1:
                w.log('og', 0)
            raise
        if mine:
            if self.maxsize == 1:
                w.log('og', req_of_pk(item))
            else:
                w.nack += 1
                w.log('ack', 0)
        return item


# --------------------------------------------------------------------------- installing the fakes
@contextlib.contextmanager
def installed(w, mutant=None):
    """The real driver modules on top of the scripted devices of world w (and one in-memory mutant)."""
    import cflib.crtp.radiodriver as rd
    import cflib.crtp.usbdriver as ud
    import cflib.crtp.tcpdriver as td          # noqa: F401
    import cflib.crtp.udpdriver as udp
    import cflib.drivers.cfusb as cfusb
    import cflib.drivers.crazyradio as cr
    import cflib.cpx.transports as tr

    class ScriptedCrazyradio(cr.Crazyradio):
        def __init__(self, device=None, devid=0, serial=None):
            cr.Crazyradio.__init__(self, device=w.radiodev, devid=devid)

    saved = [(rd, 'queue', rd.queue), (rd, 'Queue', rd.Queue), (rd, 'Crazyradio', rd.Crazyradio),
             (rd, '_nr_of_retries', rd._nr_of_retries), (cfusb, '_find_devices', cfusb._find_devices),
             (tr, 'socket', tr.socket), (udp, 'socket', udp.socket)]
    rd.queue = types.SimpleNamespace(Queue=LogQueue, Empty=vqueue.Empty, Full=vqueue.Full)
    rd.Queue = LogQueue
    rd.Crazyradio = ScriptedCrazyradio
    rd.RadioManager._radios = []
    rd.set_retries_before_disconnect(RETRIES)
    cfusb._find_devices = lambda: [w.usbdev]
    tr.socket = _sock_module(w)
    udp.socket = _sock_module(w)
    LogQueue.world = w
    LogQueue.thread_cls = rd._RadioDriverThread
    undo = None
    try:
        if mutant:
            undo = MUTANTS[mutant]()
        yield
    finally:
        if undo:
            undo()
        LogQueue.world = None
        for (mod, name, val) in saved:
            setattr(mod, name, val)
        rd.RadioManager._radios = []


def new_driver(kind):
    if kind == 'usb':
        from cflib.crtp.usbdriver import UsbDriver as D
    elif kind == 'radio':
        from cflib.crtp.radiodriver import RadioDriver as D
    elif kind == 'tcp':
        from cflib.crtp.tcpdriver import TcpDriver as D
    else:
        from cflib.crtp.udpdriver import UdpDriver as D
    return D()


def make_packet(r):
    from cflib.crtp.crtpstack import CRTPPacket
    pk = CRTPPacket()
    pk.set_header(PORT, 0)
    pk.data = bytes([r, 0x55])
    return pk


# --------------------------------------------------------------------------- the application side
class App:
    """The calls an application (or Crazyflie on its behalf) makes on one driver object.  API calls
    and the link-error callback's close() are serialised by `busy` (they never overlap each other;
    the comm threads run concurrently with all of them)."""

    def __init__(self, w, landmarks=False):
        self.w = w
        self.busy = vthreading.Lock()
        self.nreq = 0
        self.landmarks = landmarks          # replay mode: park before every begin / end event

    def _mark(self, kind):
        if self.landmarks:
            _park(kind, self, 0.0)

    def on_link_error(self, msg):
        w = self.w
        s = vcore.CUR
        me = s.current() if s is not None else None
        if me is w.user:
            w.log('lerru', 0)               # reported to the caller of send_packet (queue full): no comm thread involved
            return
        w.log('lerr', 0)
        try:
            self._link_error(w)
        finally:
            if w.kind == 'usb':
                _park('cb.end', self, 0.0)  # the application's callback takes its time before the read loop goes on

    def _link_error(self, w):
        if not w.sc.get('cb') or self.busy._locked:
            return
        self.busy._locked = True            # no yield point between the report and the decision
        w.in_callback = True
        try:
            w.log('closeb', 0, f='none', cb=1)
            ok = 1
            try:
                w.drv.close()
            except Exception:
                ok = 0
            w.log('close', ok, cb=1, hd=w.held(), q=w.outq())
        finally:
            w.in_callback = False
            self.busy._locked = False

    def connect(self):
        w = self.w
        with self.busy:
            self._mark('api.begin')
            if not (w.held() and w.kind in ('usb', 'radio')):
                w.gone = False              # the device is there (again) when the application connects
                w.jam = 0
            w.log('connb', 0)
            ok = 1
            try:
                w.drv.connect(URI[w.kind], None, self.on_link_error)
            except Exception:
                ok = 0
            self._mark('api.end')
            w.log('conn', ok, hd=w.held(), q=w.outq())

    def send(self):
        w = self.w
        with self.busy:
            self._mark('api.begin')
            self.nreq += 1
            r = self.nreq
            pk = make_packet(r)
            w.log('send', r)
            ok = 1
            try:
                res = w.drv.send_packet(pk)
                if res is False:
                    ok = 0
            except Exception:
                ok = 2
            self._mark('api.end')
            w.log('sent', r, ok=ok, hd=w.held(), q=w.outq())

    def close(self, fault):
        w = self.w
        with self.busy:
            self._mark('api.begin')
            w.fault = fault
            w.log('closeb', 0, f=fault, cb=0)
            ok = 1
            try:
                w.drv.close()
            except Exception:
                ok = 0
            w.fault = 'none'
            self._mark('api.end')
            w.log('close', ok, cb=0, hd=w.held(), q=w.outq())

    def unplug(self):
        w = self.w
        with self.busy:
            self._mark('api.begin')
            w.log('unplug', 0)
            w.gone = True
            w.jam = 0

    def jam(self):
        w = self.w
        with self.busy:
            self._mark('api.begin')
            w.log('jam', 0)
            w.jam = 0 if w.gone else JAMLEN

    def receive(self):
        w = self.w
        w.down.append([(PORT << 4) | 1, 7, 7])
        w.log('down', 0)
        vtime.sleep(WAIT)
        with self.busy:
            got = 0
            try:
                got = int(w.drv.receive_packet(0) is not None)
            except Exception:
                got = 0
            w.log('rx', got)

    def run_ops(self, ops):
        for op in ops:
            k = op[0]
            if k == 'C':
                self.connect()
            elif k == 'S':
                self.send()
            elif k == 'X':
                self.close(op[1] if len(op) > 1 else 'none')
            elif k == 'U':
                self.unplug()
            elif k == 'J':
                self.jam()
            elif k == 'R':
                self.receive()
            elif k == 'W':
                vtime.sleep(op[1] if len(op) > 1 else WAIT)
            else:
                raise common.MachineryError('unknown op %r' % (op,))


def _policy(pol):
    rng = random.Random(pol[1])
    if pol[0] == 'fifo':
        return vsched.FifoPolicy()
    if pol[0] == 'random':
        return vsched.RandomPolicy(rng)
    if pol[0] == 'pct':
        return vsched.PCTPolicy(rng, depth=3, est_steps=150)
    raise common.MachineryError('unknown policy %r' % (pol,))


def execute(sc, mutant=None):
    """One scenario against the real driver: {'kind', 'ops', 'cb', 'sl', 'policy'} -> trace dict."""
    w = World(sc)
    sink = io.StringIO()
    with contextlib.redirect_stdout(sink), installed(w, mutant):
        with vsched.scheduler(_policy(sc.get('policy', ('fifo', 0))), max_steps=20000) as s:
            w.drv = new_driver(sc['kind'])
            app = App(w)
            u = s.spawn(lambda: app.run_ops(sc['ops']), 'user')
            w.user = u
            r1 = s.run(until=lambda: u.finished, horizon=60.0)
            s.run(horizon=s.now + 0.03)
            rep = s.report()
            dead = [t for t in rep if t['status'] == 'dead']
            w.log('end', 0, user_finished=int(u.finished), run=r1, steps=s.steps)
    return {'kind': sc['kind'], 'cb': bool(sc.get('cb')), 'sl': bool(sc.get('sl', True)), 'ev': w.ev,
            'detail': {'dead': [t['name'] + ': ' + t.get('traceback', '')[-300:] for t in dead],
                       'user_finished': u.finished, 'writes': w.nwr, 'refused': w.nwx}}


# --------------------------------------------------------------------------- in-memory mutants
def _swap(cls, name, fn):
    orig = cls.__dict__[name]
    setattr(cls, name, fn)
    return lambda: setattr(cls, name, orig)


def _mut_usb_handle_kept_on_error():
    # the handle is dropped only when the device calls inside close() went through
    import cflib.crtp.usbdriver as ud

    def close(self):
        self._thread.stop()
        try:
            if self.cfusb:
                self.cfusb.set_crtp_to_usb(False)
                self.cfusb.close()
                self.cfusb = None
        except Exception:
            pass
    return _swap(ud.UsbDriver, 'close', close)


def _mut_usb_never_drops():
    # close() switches CRTP-over-USB off but keeps the open device
    import cflib.crtp.usbdriver as ud

    def close(self):
        self._thread.stop()
        try:
            if self.cfusb:
                self.cfusb.set_crtp_to_usb(False)
        except Exception:
            pass
    return _swap(ud.UsbDriver, 'close', close)


def _mut_tcp_handle_kept_on_error():
    import cflib.crtp.tcpdriver as td

    def close(self):
        self._thread.stop()
        try:
            self.cpx.close()
            self.cpx = None
        except Exception:
            pass
    return _swap(td.TcpDriver, 'close', close)


def _mut_radio_no_join():
    # close() asks the comm thread to stop but does not wait for it
    import cflib.crtp.radiodriver as rd

    def close(self):
        self._thread._sp = True
        if self._radio:
            self._radio.close()
        self._radio = None
        while not self.out_queue.empty():
            self.out_queue.get()
        self.link_error_callback = None
        self.radio_link_statistics_callback = None
    return _swap(rd.RadioDriver, 'close', close)


def _mut_radio_queue_kept():
    # out_queue survives close() and the next connect()
    import cflib.crtp.radiodriver as rd
    orig_connect = rd.RadioDriver.__dict__['connect']

    def close(self):
        self._thread.stop()
        if self._radio:
            self._radio.close()
        self._radio = None
        self.link_error_callback = None
        self.radio_link_statistics_callback = None

    def connect(self, uri, radio_link_statistics_callback, link_error_callback):
        old = self.out_queue
        orig_connect(self, uri, radio_link_statistics_callback, link_error_callback)
        if old is not None:
            self.out_queue = old
            self._thread._out_queue = old
    u1 = _swap(rd.RadioDriver, 'close', close)
    u2 = _swap(rd.RadioDriver, 'connect', connect)
    return lambda: (u1(), u2())


def _mut_udp_socket_kept():
    # UdpDriver as it stood before its close() closed the socket: the disconnect message is sent,
    # the socket stays usable
    import cflib.crtp.udpdriver as udp

    def close(self):
        self.socket.sendto('\xFF\x01\x02\x02'.encode(), self.addr)
    return _swap(udp.UdpDriver, 'close', close)


MUTANTS = {
    'usb_handle_kept_when_close_fails': _mut_usb_handle_kept_on_error,
    'usb_close_keeps_device_open': _mut_usb_never_drops,
    'tcp_handle_kept_when_close_fails': _mut_tcp_handle_kept_on_error,
    'radio_close_does_not_join': _mut_radio_no_join,
    'radio_out_queue_kept_across_sessions': _mut_radio_queue_kept,
    'udp_socket_kept_open': _mut_udp_socket_kept,
}
MUTANT_KIND = {'usb_handle_kept_when_close_fails': 'usb', 'usb_close_keeps_device_open': 'usb',
               'tcp_handle_kept_when_close_fails': 'tcp', 'radio_close_does_not_join': 'radio',
               'radio_out_queue_kept_across_sessions': 'radio', 'udp_socket_kept_open': 'udp'}


# --------------------------------------------------------------------------- scenario space
def alphabet(kind):
    a = [('C',), ('S',), ('W',), ('X', 'none'), ('U',)]
    if kind in ('usb', 'tcp'):
        a += [('X', 'f1'), ('X', 'f2')]
    if kind in ('usb', 'radio'):
        a += [('R',)]
    if kind == 'radio':
        a += [('J',)]
    return a


def enumerate_scenarios(kind, length):
    """ALL operation sequences of the given length after the first connect (every close() with
    every fault point), for both behaviours of the link-error callback (where the kind reports
    link errors) and, radio, both outcomes of the safelink handshake."""
    out = []
    cbs = (False, True) if kind in ('usb', 'radio') else (False,)
    sls = (True, False) if kind == 'radio' else (True,)
    al = alphabet(kind)
    for n in range(0, length + 1):
        for seq in itertools.product(al, repeat=n):
            # a wait changes nothing for drivers that have no transmitting thread and no error reports
            if kind in ('tcp', 'udp') and ('W',) in seq:
                continue
            for cb in cbs:
                if cb and ('U',) not in seq and ('J',) not in seq:
                    continue            # the callback is never invoked: same as cb = False
                for sl in sls:
                    if not sl and n > 3:
                        continue        # handshake refused: 10 attempts; the shorter sequences suffice
                    out.append({'kind': kind, 'ops': [('C',)] + list(seq), 'cb': cb, 'sl': sl, 'policy': ('fifo', 0)})
    return out


def targeted_scenarios(kind):
    """Longer histories on one object: several sessions, sends while closed, close twice, faults in
    the second session, close() at every phase of a radio transfer (random schedules)."""
    out = []
    faults = ('none', 'f1', 'f2') if kind in ('usb', 'tcp') else ('none',)
    for f1 in faults:
        for f2 in faults:
            ops = [('C',), ('S',), ('W',), ('X', f1), ('S',), ('S',), ('X', 'none'), ('S',), ('C',), ('S',), ('W',), ('S',),
                   ('X', f2), ('S',), ('W',), ('C',), ('S',), ('W',), ('X', 'none'), ('S',)]
            out.append({'kind': kind, 'ops': ops, 'cb': False, 'sl': True, 'policy': ('fifo', 0)})
            out.append({'kind': kind, 'ops': [('C',), ('S',), ('U',), ('W',), ('S',), ('X', f1), ('S',), ('C',), ('S',), ('W',),
                                              ('X', f2), ('S',), ('W',)], 'cb': kind in ('usb', 'radio'), 'sl': True,
                        'policy': ('fifo', 0)})
    if kind == 'radio':
        base = [('C',), ('S',), ('W', 0.0012), ('S',), ('X', 'none'), ('S',), ('W',), ('C',), ('W',), ('S',), ('W',), ('X', 'none'), ('S',)]
        for dt in (0.0, 0.0004, 0.001, 0.0013, 0.0021, 0.0107, 0.0125):
            ops = [('C',), ('W', dt), ('S',), ('W', dt), ('X', 'none'), ('S',), ('C',), ('W', dt), ('S',), ('X', 'none'), ('W',)]
            for sl in (True, False):
                out.append({'kind': kind, 'ops': ops, 'cb': False, 'sl': sl, 'policy': ('fifo', 0)})
        for seed in range(40):
            for polk in ('random', 'pct'):
                out.append({'kind': kind, 'ops': base, 'cb': False, 'sl': seed % 4 != 0, 'policy': (polk, seed)})
                out.append({'kind': kind, 'ops': [('C',), ('S',), ('J',), ('W', 0.006), ('S',), ('X', 'none'), ('S',), ('C',), ('S',), ('W',)],
                            'cb': seed % 2 == 0, 'sl': True, 'policy': (polk, seed)})
    if kind == 'usb':
        for seed in range(20):
            out.append({'kind': kind, 'ops': [('C',), ('S',), ('U',), ('W',), ('S',), ('X', 'f1'), ('S',), ('C',), ('S',), ('X', 'f2'), ('S',)],
                        'cb': seed % 2 == 0, 'sl': True, 'policy': ('random', seed)})
    return out


def random_scenarios(kind, n, rng):
    out = []
    al = alphabet(kind)
    for _ in range(n):
        ln = rng.randint(5, 12)
        ops = [('C',)] + [rng.choice(al) for _ in range(ln)]
        out.append({'kind': kind, 'ops': ops, 'cb': rng.random() < 0.5 and kind in ('usb', 'radio'),
                    'sl': rng.random() < 0.85, 'policy': (rng.choice(['fifo', 'random', 'pct']), rng.randrange(1 << 30))})
    return out


# --------------------------------------------------------------------------- judging
SLIM = ('e', 'a', 'o', 'f', 'cb', 'hd', 'q')
DROP = ('down', 'rx', 'lerru')          # bookkeeping events that neither the monitor nor the design spec looks at


def _init():
    vsched.load_cflib()


def _exec_job(job):
    sc, mutant = job
    return execute(sc, mutant)


def run_scenarios(scs, mutant=None):
    return common.pmap(_exec_job, [(sc, mutant) for sc in scs], init=_init, maxtasks=400)


def judge(out, traces, label):
    """All traces through the trace spec; returns [(trace, clause, event index, conf, confAt)] for
    every trace (verdict 'ok' included)."""
    slim = [{'id': t['id'], 'kind': t['kind'], 'cb': t['cb'], 'sl': t['sl'],
             'ev': [{k: e[k] for k in SLIM if k in e} for e in t['ev'] if e['e'] not in DROP]} for t in traces]
    nb = max(1, min(common.NCPU, 8, len(slim) // 1500 + 1))          # few, large batches: a TLC start costs ~3 CPU s
    verdicts, st = common.validate_traces('DriverCloseTrace.tla', 'TRACE_DriverClose.cfg', slim,
                                          chunk=min(4000, (len(slim) + nb - 1) // nb))
    out.traces += len(traces)
    out.states += st['states']
    out.transitions += st['transitions']
    out.tlc_runs.append({'config': 'TRACE_DriverClose.cfg (%s)' % label, 'states': st['states'], 'transitions': st['transitions'],
                         'wall_s': round(st['wall_s'], 2), 'traces': len(traces)})
    res = []
    for t in traces:
        v = verdicts[t['id']]
        res.append((t, v[0], v[1], v[2], v[3]))
    return res


def judged_events(t):
    """The events as the trace spec saw them (event indices in verdicts refer to this list)."""
    return [e for e in t['ev'] if e['e'] not in DROP]


def signature(t, clause, at):
    """clause / driver / what preceded the offending write."""
    ev = judged_events(t)
    i = max(0, min(len(ev), at) - 1)
    if clause == 'ClosedSilent':
        how = 'close'
        for j in range(i - 1, -1, -1):
            if ev[j]['e'] == 'closeb':
                gone = False
                for e in ev[:j]:
                    if e['e'] == 'unplug':
                        gone = True
                    elif e['e'] == 'conn' and e['a'] == 1:
                        gone = False
                if ev[j].get('f', 'none') != 'none':
                    how = 'close-raises'
                elif gone:
                    how = 'close-unplugged'
                if ev[j].get('cb'):
                    how += '-in-callback'
                break
        sig = 'ClosedSilent/%s/%s' % (t['kind'], how)
        if ev[i].get('a', 0) == 0:
            sig += '/own-frame'
        return sig
    if clause == 'NoCrossSession':
        r = ev[i].get('a', 0)
        st = 'fresh'
        for e in ev[:i]:
            if e['e'] == 'conn' and e['a'] == 1:
                st = 'open'
            elif e['e'] == 'close':
                st = 'closed'
            elif e['e'] == 'send' and e['a'] == r:
                break
        return 'NoCrossSession/%s/sent-while-%s' % (t['kind'], st)
    return '%s/%s' % (clause, t['kind'])


def report_violations(out, scs, res, mutant=None):
    n = 0
    for (t, clause, at, _conf, _confat) in res:
        if clause == 'ok':
            continue
        n += 1
        if mutant is None:
            sc = scs[t['id'] - 1]
            lo = max(0, at - 12)
            out.violation(signature(t, clause, at), clause,
                          {'event_index': at, 'events': judged_events(t)[lo:at + 1], 'ops': sc['ops'], 'detail': t['detail']},
                          {'driver_scenario': sc})
    return n


# --------------------------------------------------------------------------- spec -> code
class _Stuck(Exception):
    pass


class Only:
    """Run only the given thread records; let time pass only when one of them waits for time."""

    def __init__(self, recs):
        self.recs = list(recs)

    def choose(self, sched, runnable, timed):
        for r in runnable:
            if r in self.recs:
                return r
        if any(r in self.recs for r in timed):
            return vsched.TICK
        raise _Stuck()


H_EVENTS = ('connb', 'conn', 'closeb', 'close', 'send', 'sent', 'wr', 'lerr', 'unplug', 'jam')


def replay_behaviour(job):
    """Drive the real driver along one TLC behaviour of DriverClose (action labels + states): every
    action is applied by stepping exactly the thread it belongs to up to the matching landmark.
    After every action the real object is projected onto the spec's variables (handle held, queue
    content, history of observable events) and compared."""
    kind, cb, sl, beh = job
    sc = {'kind': kind, 'ops': [], 'cb': cb, 'sl': sl, 'policy': ('fifo', 0)}
    w = World(sc)
    matched = total = 0
    first = None
    sink = io.StringIO()
    with contextlib.redirect_stdout(sink), installed(w):
        with vsched.scheduler(vsched.FifoPolicy(), max_steps=200000) as s:
            w.drv = new_driver(kind)
            w.landmarks = True
            app = App(w, landmarks=True)
            todo = []

            def user_body():
                while True:
                    _park('api.idle', app, 0.0)
                    if not todo:
                        return
                    op = todo.pop(0)
                    app.run_ops([op])
            u = s.spawn(user_body, 'user')
            w.user = u

            def kind_of(rec):
                return rec.pending.kind if (rec is not None and rec.pending is not None and not rec.finished) else None

            def grant(rec):
                op = rec.pending
                if op.deadline is not None and op.deadline > s.now and not op.ready():
                    s.now = op.deadline
                s.step_thread(rec)

            def comm_recs():
                return [r for r in s.threads if r is not u and not r.finished]

            def radio_rec():
                th = getattr(w.drv, '_thread', None)
                return getattr(th, '_vs_rec', None)

            def user_to(landmarks, limit=400):
                """Step the application thread until it is parked at one of the landmark kinds (or is
                blocked on another thread)."""
                for _ in range(limit):
                    k = kind_of(u)
                    if k is None:
                        return None
                    if k in landmarks:
                        return k
                    op = u.pending
                    if not op.ready() and op.deadline is None:
                        return 'blocked:' + k
                    if k == 'queue.put' and not op.ready():
                        return 'blocked:' + k          # out_queue full: gives up only after its 2 s
                    grant(u)
                return 'limit'

            def radio_parked():
                """Where the radio comm thread is: 'tx' (about to hand a frame to the dongle), 'ack' (waiting
                for / about to look at the result), 'get' (about to take from out_queue), None."""
                rec = radio_rec()
                if rec is None or rec.finished or rec.pending is None:
                    return None
                op = rec.pending
                inst = getattr(w.drv._thread, '_radio', None)
                if op.kind == 'queue.put' and inst is not None and op.obj is getattr(inst, '_cmd_queue', None):
                    return 'tx'
                if op.kind == 'queue.get' and inst is not None and op.obj is getattr(inst, '_rsp_queue', None):
                    return 'ack'
                if op.kind == 'queue.get' and op.obj is w.drv._thread._out_queue:
                    return 'get'
                return 'other:' + op.kind

            def radio_settle(limit=200):
                """Let the radio thread run through the steps the spec does not name (thread start, the
                in_queue put) until it is at tx / ack / get or has ended."""
                rec = radio_rec()
                for _ in range(limit):
                    if rec is None or rec.finished:
                        return
                    p = radio_parked()
                    if p in ('tx', 'ack', 'get') and not w.in_callback:
                        return
                    if rec.pending is None:
                        return
                    grant(rec)

            def shared_rec():
                import cflib.crtp.radiodriver as rd
                rs = [x for x in rd.RadioManager._radios if x is not None]
                return rs[0]._vs_rec if rs else None

            def shared_until(pred, limit=300):
                rec = shared_rec()
                for _ in range(limit):
                    if pred():
                        return True
                    if rec is None or rec.finished or rec.pending is None:
                        return False
                    op = rec.pending
                    if not op.ready() and op.deadline is None:
                        return False
                    grant(rec)
                return pred()

            def shared_idle():
                """The dongle thread works off what is queued for it (SET_ARC, STOP: no transmissions)."""
                rec = shared_rec()
                for _ in range(300):
                    if rec is None or rec.finished or rec.pending is None:
                        return
                    op = rec.pending
                    if op.kind == 'queue.get' and not op.ready():
                        return
                    if op.kind == 'dev.write':
                        return
                    grant(rec)

            def usb_rec():
                th = getattr(w.drv, '_thread', None)
                return getattr(th, '_vs_rec', None)

            def nev(e):
                return sum(1 for x in w.ev if x['e'] == e)

            def drain_join(limit=400):
                """The application waits in join(): the comm thread it waits for runs to its end."""
                for _ in range(limit):
                    k = kind_of(u)
                    if k != 'thread.join' or u.pending.ready():
                        return
                    rec = getattr(u.pending.obj, '_vs_rec', None)
                    if rec is None or rec.finished or rec.pending is None:
                        return
                    grant(rec)

            def start_op(op):
                todo.append(op)
                if kind_of(u) != 'api.idle':
                    return False
                grant(u)
                k = user_to(('api.begin',))
                if k != 'api.begin':
                    return False
                grant(u)                         # the begin event is logged
                return True

            user_to(('api.idle',))
            for (label, st) in beh[1:]:
                name, args = tlc.parse_label(label)
                total += 1
                ok = True
                try:
                    if name == 'ConnB':
                        ok = start_op(('C',))
                        user_to(('dev.write', 'api.end'))
                        if kind == 'radio':
                            shared_idle()
                            radio_settle()
                    elif name in ('ConnW', 'SendWr', 'CloseW'):
                        ok = kind_of(u) == 'dev.write'
                        if ok:
                            grant(u)
                            user_to(('dev.write', 'api.end'))
                    elif name in ('ConnE', 'SendE', 'CloseE'):
                        k = user_to(('api.end',))
                        if k == 'blocked:thread.join' and name == 'CloseE':
                            drain_join()
                            k = user_to(('api.end',))
                        if k is not None and k.startswith('blocked:queue.put') and name == 'SendE':
                            grant(u)             # the 2 s are over: queue.Full
                            k = user_to(('api.end',))
                        ok = k == 'api.end'
                        if ok:
                            grant(u)             # the end event is logged
                            user_to(('api.idle',))
                        if kind == 'radio':
                            shared_idle()
                    elif name == 'SendB':
                        ok = start_op(('S',))
                        user_to(('dev.write', 'api.end', 'queue.put'))
                    elif name == 'CloseB':
                        ok = start_op(('X', args[0]))
                        user_to(('dev.write', 'api.end'))
                    elif name in ('Unplug', 'Jam'):
                        ok = start_op(('U',) if name == 'Unplug' else ('J',))
                        user_to(('api.idle',))
                    elif name in ('TWr', 'TWx'):
                        ok = radio_parked() == 'tx'
                        if ok:
                            n0 = w.nwr + w.nwx
                            grant(radio_rec())                       # SEND_PACKET handed to the dongle thread
                            ok = shared_until(lambda: w.nwr + w.nwx > n0)
                            shared_until(lambda: radio_rec().pending is not None and radio_rec().pending.ready())
                            ok = ok and radio_parked() == 'ack'
                    elif name == 'TAck':
                        ok = radio_parked() == 'ack'
                        if ok:
                            grant(radio_rec())
                            radio_settle()
                    elif name == 'TGet':
                        ok = radio_parked() == 'get'
                        if ok:
                            grant(radio_rec())
                            radio_settle()
                    elif name == 'TRead':
                        rec = usb_rec()
                        n0 = nev('rd')
                        ok = rec is not None and not rec.finished and kind_of(rec) in ('thread.begin', 'dev.rdexit', 'cb.end')
                        if ok:
                            for _ in range(50):
                                if rec.finished or (nev('rd') > n0 and kind_of(rec) == 'dev.read'):
                                    break
                                grant(rec)
                            ok = nev('rd') == n0 + 1 and kind_of(rec) == 'dev.read'
                    elif name == 'TRet':
                        rec = usb_rec()
                        ok = rec is not None and not rec.finished and kind_of(rec) == 'dev.read'
                        if ok:
                            grant(rec)
                            ok = kind_of(rec) == 'dev.rdexit'
                    elif name == 'TErr':
                        rec = usb_rec()
                        n0 = nev('lerr')
                        ok = rec is not None and not rec.finished and kind_of(rec) == 'dev.read'
                        if ok:
                            # the read fails; through the callback (and its close()) up to the callback's end
                            for _ in range(200):
                                if rec.finished or (nev('lerr') > n0 and kind_of(rec) == 'cb.end'):
                                    break
                                grant(rec)
                            ok = nev('lerr') == n0 + 1
                    elif name in ('CbCloseB', 'CbCloseE'):
                        pass                     # done inside the comm thread's step that reported the error
                    else:
                        ok = False
                except _Stuck:
                    ok = False
                # ---- projection (where the spec's macro-steps and the code's steps line up)
                if name not in ('CbCloseB',):
                    hist = [[e['e'], e['a']] for e in w.ev if e['e'] in H_EVENTS]
                    want = [[e['e'], e['a']] for e in st['h']]
                    if st['cbc'] == 'pend':        # the callback's close() runs inside the same step of the comm thread
                        want = want + [['closeb', 0], ['close', 1]]
                    if st['cbc'] in ('idle', 'pend'):
                        ok = ok and hist == want
                    if st['upc'] == 'idle' and st['cbc'] == 'idle':
                        ok = ok and bool(w.held()) == bool(st['handle'])
                        if kind == 'radio':
                            ok = ok and w.outq() == list(st['outq'])
                if ok:
                    matched += 1
                elif first is None:
                    first = {'step': total, 'action': label, 'real': [[e['e'], e['a']] for e in w.ev if e['e'] in H_EVENTS][-8:],
                             'spec': [[e['e'], e['a']] for e in st['h']][-8:], 'held': w.held(), 'handle': st['handle'],
                             'outq': w.outq(), 'soutq': list(st['outq'])}
                    break
            todo[:] = []
    return {'matched': matched, 'total': total, 'first': first, 'ev': w.ev, 'kind': kind, 'cb': cb, 'sl': sl}


def _replay_job(job):
    try:
        return replay_behaviour(job)
    except Exception:
        import traceback
        return {'matched': 0, 'total': max(1, len(job[3]) - 1), 'first': {'exception': traceback.format_exc()[-900:]},
                'ev': [], 'kind': job[0], 'cb': job[1], 'sl': job[2]}


def _tlc_jobs(tier, seed):
    """The TLC runs on the design spec.  They are independent of each other: run side by side."""
    mc = (('MC_DriverClose_quick.cfg', 'MC_DriverClose_radio_quick.cfg', 'MC_DriverClose_agree.cfg') if tier == 'quick' else
          ('MC_DriverClose_thorough.cfg', 'MC_DriverClose_radio_thorough.cfg', 'MC_DriverClose_agree.cfg'))
    nsim = 150 if tier == 'quick' else 1500
    jobs = [('check', cfg, lambda cfg=cfg: tlc.check('MC_DriverClose.tla', cfg, timeout=2400, heap='3g', workers=max(2, common.NCPU // 2)))
            for cfg in mc]
    jobs += [('bug', b, lambda b=b: tlc.expect_violation('MC_DriverClose.tla', 'MC_DriverClose_bug_%s.cfg' % b, timeout=900,
                                                         heap='1g', workers=2))
             for b in BUG_CFGS]
    jobs.append(('tour', 'MC_DriverClose_tour.cfg',
                 lambda: tlc.dump_graph('MC_DriverClose.tla', 'MC_DriverClose_tour.cfg', timeout=900, heap='2g', workers=4)))
    jobs.append(('sim', 'SIM_DriverClose.cfg (-simulate num=%d)' % nsim,
                 lambda: tlc.simulate('MC_DriverClose.tla', 'SIM_DriverClose.cfg', num=nsim, depth=45, seed=seed % 100000,
                                      timeout=900, heap='2g')))
    return jobs


BUG_CFGS = ('keepHandleOnError', 'keepHandleOnError_tcp', 'noDrop', 'noJoin', 'keepOutQueue')


def design_spec(out, tier, seed):
    """Exhaustive checks, bug configurations (each must be refuted), state graph for the transition
    tour, random behaviours.  Returns the replay jobs for spec_to_code."""
    from concurrent.futures import ThreadPoolExecutor
    jobs = _tlc_jobs(tier, seed)
    with ThreadPoolExecutor(max_workers=4) as ex:
        futs = [ex.submit(fn) for (_k, _n, fn) in jobs]
        results = []
        err = None
        for f in futs:
            try:
                results.append(f.result())
            except (tlc.TLCError, common.MachineryError) as e:
                results.append(None)
                err = err or e
        if err is not None:
            raise err
    replays = []
    tour_info = {}
    for (k, name, _fn), r in zip(jobs, results):
        if k == 'check':
            out.add_tlc(name, r)
        elif k == 'bug':
            out.sensitivity['drivers-spec:' + name] = 'refuted (%s) after %d states' % (r.violated, r.distinct)
        elif k == 'tour':
            rr, g = r
            out.add_tlc(name + ' (state graph for the transition tour)', rr)
            paths, covered, total = tlc.tour(g, max_len=80)
            tour_info = {'tour_paths': len(paths), 'tour_edges_covered': '%d/%d' % (covered, total)}
            for (init, path) in paths:
                st0 = g.states[init]
                beh = [('Init', st0)] + [(lab, g.states[dst]) for (lab, dst) in path]
                replays.append((st0['kind'], bool(st0['cbcl']), bool(st0['sl']), beh))
        else:
            rs, behs = r
            out.add_tlc(name, rs)
            for beh in behs:
                st0 = beh[0][1]
                replays.append((st0['kind'], bool(st0['cbcl']), bool(st0['sl']), beh))
    return replays, tour_info


def spec_to_code(out, replays, tour_info, kinds):
    """Behaviours of the design spec (graph tour of a small configuration: every transition at least
    once; plus random simulation of a large one) replayed into the real drivers."""
    jobs = [j for j in replays if j[0] in kinds]
    reps = common.pmap(_replay_job, jobs, init=_init, maxtasks=200)
    d = {'behaviours': len(jobs)}
    d.update(tour_info)
    d.update({'fully_matched': sum(1 for x in reps if x['matched'] == x['total']),
              'steps': sum(x['total'] for x in reps), 'steps_matched': sum(x['matched'] for x in reps),
              'first_mismatches': [x['first'] for x in reps if x['first']][:3]})
    out.conformance['drivers_spec_to_code'] = d
    traces = []
    for x in reps:
        if x['ev']:
            traces.append({'kind': x['kind'], 'cb': x['cb'], 'sl': x['sl'], 'ev': x['ev'] + [{'e': 'end', 'a': 0}],
                           'detail': {'source': 'replayed TLC behaviour'}})
    return traces


# --------------------------------------------------------------------------- main entry
DEPTH = {'quick': {'usb': 3, 'radio': 3, 'tcp': 3, 'udp': 4}, 'thorough': {'usb': 5, 'radio': 4, 'tcp': 5, 'udp': 6}}


def run(out, tier, seed, kinds=KINDS):
    """Adds the driver-level check of C10's closed-link clauses to `out`."""
    rng = random.Random(seed + 1010)
    out.assumptions += [
        'drivers: a link is closed from the normal return of close() until the next connect() call on the object; after a '
        'close() or connect() that raised nothing is claimed until the next close(); "transmitted" = the (scripted) device took '
        'the write',
        'drivers: the application\'s API calls on one driver object and the close() issued by the link-error callback do not '
        'overlap each other (the comm threads run concurrently with all of them)',
    ]
    phases = []
    import os
    import time as _time

    def mark(name, _last=[_time.time(), sum(os.times()[:4])]):
        now, cpu = _time.time(), sum(os.times()[:4])
        phases.append({'phase': name, 'wall_s': round(now - _last[0], 1), 'cpu_s': round(cpu - _last[1], 1)})
        _last[0], _last[1] = now, cpu
    _init()         # once, before the worker pools are forked (load_cflib is idempotent; the workers inherit it)
    # 1. design spec
    replays, tour_info = design_spec(out, tier, seed)
    mark('design spec: TLC runs')

    # 2. spec -> code
    traces = spec_to_code(out, replays, tour_info, kinds)
    scs = [None] * len(traces)
    mark('spec -> code: replays')

    # 3. code -> spec: exhaustive enumeration + targeted + seeded random
    depth = DEPTH[tier]
    nrand = 100 if tier == 'quick' else 3000
    space = {}
    own = []
    for k in kinds:
        e = enumerate_scenarios(k, depth[k])
        space[k] = len(e)
        own += e + targeted_scenarios(k) + random_scenarios(k, nrand, rng)
    got = run_scenarios(own)
    mark('code -> spec: executions')
    scs += own
    traces += got
    for i, t in enumerate(traces):
        t['id'] = i + 1
    res = judge(out, traces, 'real drivers')
    mark('trace validation by TLC')
    report_violations(out, scs_for_report(scs), res)
    nconf = sum(1 for x in res if x[3])
    out.conformance['drivers_code_to_spec'] = {
        'traces': len(res), 'explained_by_design_spec': nconf,
        'first_unexplained': [{'kind': x[0]['kind'], 'event_index': x[4], 'events': judged_events(x[0])[max(0, x[4] - 6):x[4] + 1],
                               'ops': (scs[x[0]['id'] - 1] or {}).get('ops')} for x in res if not x[3]][:3]}
    out.evaluations += len(traces)
    out.extra['drivers'] = {
        'exhaustive_sequences': {k: {'ops_after_first_connect_up_to': depth[k], 'scenarios': space[k]} for k in space},
        'distinct_histories': len({json.dumps([[e['e'], e['a']] for e in t['ev']]) for t in traces}),
        'device_writes_observed': sum(1 for t in traces for e in t['ev'] if e['e'] == 'wr'),
        'traces_with_writes_in_a_second_session': sum(1 for t in traces if _has_second_session_write(t)),
        'sends_on_closed_objects': sum(1 for t in traces for i, e in enumerate(t['ev']) if e['e'] == 'send' and _closed_before(t['ev'], i)),
        'radio_closes_overlapping_a_transfer': sum(_overlaps(t) for t in traces if t['kind'] == 'radio'),
        'closes_with_a_failing_device_call': sum(1 for t in traces for e in t['ev'] if e['e'] == 'closeb' and e.get('f', 'none') != 'none'),
    }
    if own:
        out.samples += [{'driver_scenario': own[i]['ops'], 'kind': own[i]['kind'], 'events': [[e['e'], e['a']] for e in got[i]['ev'][:14]]}
                        for i in (len(own) // 3, len(own) // 2)]

    # 4. sensitivity: in-memory mutants (all judged in one batch), corrupted trace
    mjobs = []
    owner = []
    for name in sorted(MUTANTS):
        k = MUTANT_KIND[name]
        if k not in kinds:
            continue
        try:                                # a mutant that does not fit the tree under test is skipped, not a failure
            MUTANTS[name]()()
        except Exception as e:
            out.sensitivity['drivers-mutant:' + name] = 'skipped (not applicable to this tree: %s)' % type(e).__name__
            continue
        sub = enumerate_scenarios(k, 2) + targeted_scenarios(k)
        mjobs += [(sc, name) for sc in sub]
        owner += [name] * len(sub)
    mt = common.pmap(_exec_job, mjobs, init=_init, maxtasks=400)
    good = next((t for t in traces if _movable(t)), None)
    if good is None:
        raise common.MachineryError('no trace with a request write followed by a close to corrupt')
    t0 = copy.deepcopy(good)
    i = next(i for i, e in enumerate(t0['ev']) if e['e'] == 'wr' and e['a'] != 0)
    j = next(j for j, e in enumerate(t0['ev']) if j > i and e['e'] == 'close' and e['a'] == 1)
    wr = t0['ev'].pop(i)
    t0['ev'].insert(j, wr)           # the write now comes after the return of close()
    mt.append(t0)
    owner.append('<corrupted>')
    for n, t in enumerate(mt):
        t['id'] = n + 1
    mark('mutant executions')
    o2 = common.Outcome('C10', tier, seed)
    mres = judge(o2, mt, 'mutants')
    out.tlc_runs.append(o2.tlc_runs[-1])
    mark('mutant trace validation')
    out.extra['drivers']['phases'] = phases
    for name in sorted(set(owner)):
        mine = [x for x, o in zip(mres, owner) if o == name]
        mbad = [x for x in mine if x[1] != 'ok']
        if name == '<corrupted>':
            out.sensitivity['drivers-binding:write-moved-behind-close'] = ('rejected (%s)' % mbad[0][1]) if mbad else 'ACCEPTED'
            if not mbad:
                raise common.MachineryError('driver trace spec accepted a corrupted trace')
            continue
        out.sensitivity['drivers-mutant:' + name] = '%d of %d traces rejected (%s)' % (
            len(mbad), len(mine), ','.join(sorted({x[1] for x in mbad})))
        if not mbad:
            raise common.MachineryError('monitor did not reject in-memory driver mutant %s' % name)
    return out


def scs_for_report(scs):
    return [sc if sc is not None else {'ops': None, 'kind': None, 'note': 'replayed TLC behaviour'} for sc in scs]


def _overlaps(t):
    """close() calls of this trace during which the dongle still took a frame (transfer in flight at closeb)."""
    n = 0
    inside = hit = False
    for e in t['ev']:
        if e['e'] == 'closeb':
            inside, hit = True, False
        elif e['e'] == 'close':
            n += int(inside and hit)
            inside = False
        elif e['e'] == 'wr' and inside:
            hit = True
    return n


def _movable(t):
    ev = t['ev']
    for i, e in enumerate(ev):
        if e['e'] == 'wr' and e['a'] != 0:
            return any(x['e'] == 'close' and x['a'] == 1 for x in ev[i + 1:])
    return False


def _closed_before(ev, i):
    for e in reversed(ev[:i]):
        if e['e'] == 'close' and e['a'] == 1:
            return True
        if e['e'] in ('connb',):
            return False
    return False


def _has_second_session_write(t):
    n = 0
    for e in t['ev']:
        if e['e'] == 'conn' and e['a'] == 1:
            n += 1
        if e['e'] == 'wr' and n >= 2:
            return True
    return False


def replay(out, rp):
    """Re-execute the scenario of a replay file written by this module and judge it again."""
    _init()
    sc = rp['driver_scenario']
    sc['ops'] = [tuple(o) for o in sc['ops']]
    sc['policy'] = tuple(sc.get('policy', ('fifo', 0)))
    t = execute(sc)
    t['id'] = 1
    res = judge(out, [t], 'replay')
    report_violations(out, [sc], res)
    return out
