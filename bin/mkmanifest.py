import json
claimed = {
 'C07': dict(text='TLC exhaustively checks the design spec Dispatch.tla (every script assignment over 3 callbacks x patterns x 2 packets) against DispatchProps; the same DispatchProps module judges traces recorded from the real _IncomingPacketHandler (TLC -simulate behaviours replayed into the code with post-states compared, an exhaustive script product, 256-header sweeps, seeded random), and every trace is also required to be explained step-by-step by the design spec actions.',
             note='Trusted: the virtual threading shims (harness/vsched), the closure scripts that drive add/remove through the public Crazyflie API, TLC. Registrations in one scenario are distinct. Reserved header bits are normalised.',
             ref='5/C07', tech='TLA+ design spec + TLC; trace validation (monitor + conformance) of real executions; spec behaviours replayed into the code'),
 'C06': dict(text='TLC exhaustively checks the design spec MemProto.tla (chunked reads, queued writes under the write lock, dispatcher handlers, device, duplicated/delayed/error replies, link drop) against completion, exactly-once notification, tiling, write-order and not-wedged invariants; the monitor MemProtoTrace.tla (own model of the device memory rebuilt from the chunk messages) judges traces of the real Memory subsystem run under the virtual scheduler against the simulated device: every read length 0..61 and write length 0..76, dup/error/drop at every chunk, seeded random programs x fault scripts x device modes x schedules; TLC -simulate behaviours are replayed step by step into the real object with its state projected and compared.',
             note='Trusted: simdev memory service as the firmware twin (validated against the monitor model on every trace), virtual scheduler shims, TLC. Exactness clauses are asserted for histories without duplicated replies (DESIGN 3.1(5a)). Two known findings (KNOWN_FINDINGS.txt) are reported as KNOWN-FINDING lines.',
             ref='5/C06', tech='TLA+ design spec + TLC; trace validation of real executions under a deterministic scheduler; spec behaviours replayed with state projection'),
}
na = {
 'C09': 'numeric: convergence of non-linear least squares to 1 mm / 1 mrad -- no discrete state for TLA+/TLC to enumerate (DESIGN 6)',
 'C15': 'numeric: real-valued trigonometric inverses and rigid-motion laws to float32 accuracy (DESIGN 6)',
 'C16': 'numeric: convergence/exactness of a 6-parameter least-squares alignment (DESIGN 6)',
}
allp = ['C%02d' % i for i in range(1, 21)]
checks = []
for pid in allp:
    if pid in claimed:
        c = claimed[pid]
        checks.append({
            'property_id': pid,
            'quick_cmd': 'bin/check %s --tier quick' % pid,
            'thorough_cmd': 'bin/check %s --tier thorough' % pid,
            'evidence_file': '/verif/evidence/%s.json' % pid,
            'replay_cmd_template': 'bin/check %s --replay {path}' % pid,
            'engine': 'tlc+vsched',
            'level_claimed': {'category': 'model_checking', 'text': c['text'], 'design_ref': c['ref']},
            'level_note': c['note'],
            'technique': c['tech'],
        })
    elif pid not in na:
        na[pid] = 'check not built yet (planned, see DESIGN.md 8b); no claim until it exists'
m = {
 'version': 1,
 'setup_cmd': 'true',
 'hooks': {'guard': 'CFLIB_VERIF', 'enable': 'no source hooks: cflib is imported unmodified under virtual threading/queue/time shims (harness/vsched); bin/check exports CFLIB_VERIF=1 for uniformity',
           'baseline_off_cmd': 'cd /repo && OPENBLAS_CORETYPE=Generic /venv/bin/python -m pytest -ra -q -p no:cacheprovider --timeout=900 --continue-on-collection-errors',
           'source_commits': [], 'add_only': True},
 'engines': [{'name': 'tlc+vsched', 'path': '/verif/harness', 'serves_properties': sorted(claimed),
              'kind_free_text': 'explicit TLA+ specs under spec/ checked by TLC; real cflib code executed under a deterministic virtual scheduler; traces validated by TLC trace specs; TLC behaviours replayed into the code'}],
 'checks': checks,
 'not_applicable': [{'property_id': k, 'reason': v} for k, v in sorted(na.items())],
 'notes': 'fix: commits in /repo are listed in KNOWN_FINDINGS.txt. On this sandbox CPU three numeric localization tests of the baseline fail with the default OpenBLAS kernel irrespective of any commit; they pass with OPENBLAS_CORETYPE=Generic (see DESIGN.md 7).',
}
json.dump(m, open('/verif/MANIFEST.json', 'w'), indent=1)
