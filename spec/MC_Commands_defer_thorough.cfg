SPECIFICATION Spec
CONSTANTS
  Versions <- DeferVersionsT
  Cmds <- DeferCmdsT
  ArgSets <- ArgSetsDeferT
  HdrPorts <- Ports16
  HdrChans <- Chans4
  PlatPackets <- NoPlat
  Links <- LinksBoth
  Cap = 1
  Chained = FALSE
  Bug = "none"
INVARIANT EmissionsOK
INVARIANT HeadersOK
INVARIANT RepresentableIsSent
INVARIANT TypeOK
CHECK_DEADLOCK FALSE
