SPECIFICATION Spec
CONSTANTS
  Kinds = {"usb", "tcp", "udp"}
  CbModes = {TRUE, FALSE}
  SlModes = {TRUE}
  Bug = "none"
  Faults = {"none", "f1", "f2"}
  MaxOps = 10
  MaxSess = 4
  MaxReq = 4
  MaxIdle = 2
  MaxErr = 3
  HsMax = 2
  Retries = 2
  JamLen = 3
  KeepHistory = TRUE
INVARIANT HistoryOK
INVARIANT Quiet
INVARIANT TypeOK
VIEW NoHistory
CHECK_DEADLOCK FALSE
