------------------------------ MODULE ParamFileProps ------------------------------
(* X02 (extra specification, DESIGN 8(4)) -- what a user of
   cflib.utils.param_file_helper.ParamFileHelper.store_params_from_file relies on, stated over
   the *observable history* of one helper object only.  There is no entry in properties.jsonl;
   the guarantees below are taken from the docstring ("synchronously write multiple parameters
   from a file and store them in persistent memory"), from the shape of the loop (set, store,
   wait, stop at the first failure, return the last success flag) and from evident intent.

   Vocabulary.  A parameter is a number 1..NP (0 = a name that is not in the device's table).
   Values travel as exact integers q = 4 * value (all test values are multiples of 1/4; the
   harness converts the bytes on the wire with the device's own type to that form); q = -1
   means "the file holds no stored value" (stored_value: null).
     file entry   [p, q]
     nature[p]    "ok" (read-write, persistent) | "ro" (read-only) | "nonpers" (not persistent)
     request      [k, p, q]   k = "set" (q = value written) | "store" (q = 0)

   Observable events of a helper (the monitor state M is rebuilt from them by Apply):
     call   f            store_params_from_file(file with entries f, in file order) is entered
     issue  n k p q      the helper handed a request to the parameter subsystem (Param.set_value /
                         Param.persistent_store put it on the updater's FIFO); n = 1, 2, ... numbers
                         the requests of the helper object
     tx     n k p q dv st  request n reached the device (again, if n was seen before: a
                         retransmission); dv = the device's value of p after it was processed,
                         st = status the device answers (store) or 0 (set)
     rx     k p q        the reply (set: echoed value q; store: status q) reached the library
     cb     p ok         the helper's stored-callback ran with success flag ok
     down                the connection went away (link error or close_link)
     ret    res          the call returned "true" / "false" or raised (res = exception class name)
   end of trace: blocked = the call has not returned although nothing can happen any more
   (virtual horizon), linkUp.

   Guarantees (clause names are what a failing check reports):
     G1 file order        IssuedOutOfOrder, WireOutOfOrder: the requests issued, and the requests
                          arriving at the device (retransmissions collapsed), are a prefix of
                          set(p1,q1) store(p1) set(p2,q2) store(p2) ... in file order, with the
                          file's values.
     G2 store after       StoreBeforeConfirm: a store request for p arrives at the device only
        confirm           after the reply to the write of p (echoing the file's value) reached the
                          library.  StoredWrongValue: what the device stores is the file's value.
     G3 stop at failure   IssuedAfterEnd: nothing is issued after a failed store was reported to
                          the helper, nor after the call returned or raised.
     G4 result            TrueButNotAllWritten / TrueButNotAllStored / TrueAfterFailure: True only
                          if every parameter of the file was written, confirmed and stored with
                          status 0.  FalseWithoutFailure: False only if a store failure was
                          reported or the connection went away.  RaisedWithoutCause: an exception only if the next parameter
                          of the file cannot be handled (not in the table, read-only, not
                          persistent, no value) or the connection went away.
                          Not demanded (documented reading): the result for an EMPTY file (the
                          code returns the stale flag of the previous call / False on a fresh
                          helper); returning False rather than raising for unusable entries.
     G5 no hang           HangAfterDisconnect: once the connection is gone the call does not stay
                          blocked for ever.  HangWithoutCause: the call does not stay blocked
                          while the link is up and every request that reached the device has been
                          answered to the library.  A call that waits for a reply that the
                          environment never delivered on a live link is NOT a violation (the
                          helper has no timeout and the library retransmits for ever; stated
                          limit).                                                            *)
EXTENDS Naturals, Integers, Sequences, FiniteSets

Req(k, p, q) == [k |-> k, p |-> p, q |-> q]

\* the request sequence the file prescribes
Expected(file) ==
    [j \in 1..(2 * Len(file)) |->
        IF j % 2 = 1 THEN Req("set", file[(j + 1) \div 2].p, file[(j + 1) \div 2].q)
        ELSE Req("store", file[j \div 2].p, 0)]

IsPrefix(s, t) == /\ Len(s) <= Len(t)
                  /\ \A j \in 1..Len(s) : s[j] = t[j]

FileQ(file, p) == IF \E j \in DOMAIN file : file[j].p = p
                  THEN file[CHOOSE j \in DOMAIN file : file[j].p = p].q
                  ELSE -2

Unusable(e, nature) == \/ e.p = 0
                       \/ e.p \notin DOMAIN nature
                       \/ nature[e.p] # "ok"
                       \/ e.q < 0

\* ---- monitor state -----------------------------------------------------------------------
\* nissued: requests issued by this helper so far; base: of those, before the current call;
\* lastn: highest request number seen at the device; lastreq: that request
M0(nature) == [nature |-> nature, active |-> FALSE, file |-> <<>>, issued |-> <<>>, wire |-> <<>>,
               confirmed |-> {}, stored |-> {}, cbs |-> <<>>, closed |-> TRUE, lost |-> FALSE,
               answered |-> TRUE, res |-> "none", nissued |-> 0, base |-> 0, lastn |-> 0,
               lastreq |-> Req("", 0, 0)]

Begin(M, f) == [M EXCEPT !.active = TRUE, !.file = f, !.issued = <<>>, !.wire = <<>>,
                         !.confirmed = {}, !.stored = {}, !.cbs = <<>>, !.closed = FALSE,
                         !.res = "none", !.base = M.nissued]

\* a request of an earlier call that was still queued when that call raised (its write request
\* is transmitted later; it was issued before the failure and is not this call's business)
Leftover(M, n) == n <= M.base
Retransmission(M, n) == n <= M.lastn

\* events are records with the fields e, n, k, p, q, dv, st, ok, res, f (unused ones 0 / "" / <<>>)
EvReq(ev) == Req(ev.k, ev.p, ev.q)

Apply(M, ev) ==
    CASE ev.e = "call"  -> Begin(M, ev.f)
      [] ev.e = "issue" -> [M EXCEPT !.issued = Append(@, EvReq(ev)), !.nissued = ev.n]
      [] ev.e = "tx"    ->
            LET r == EvReq(ev)
                M1 == IF Retransmission(M, ev.n) THEN M
                      ELSE [M EXCEPT !.lastn = ev.n, !.lastreq = r, !.answered = FALSE,
                                     !.wire = IF Leftover(M, ev.n) THEN @ ELSE Append(@, r)]
            IN  IF ~Leftover(M, ev.n) /\ ev.k = "store" /\ ev.st = 0 /\ ev.dv = FileQ(M.file, ev.p)
                THEN [M1 EXCEPT !.stored = @ \cup {ev.p}] ELSE M1
      [] ev.e = "rx"    ->
            LET last == M.lastreq
                match == /\ last.k = ev.k /\ last.p = ev.p
                         /\ (ev.k = "set" => ev.q = last.q)
                M1 == IF match THEN [M EXCEPT !.answered = TRUE] ELSE M
            IN  IF ev.k = "set" /\ ev.q = FileQ(M.file, ev.p)
                THEN [M1 EXCEPT !.confirmed = @ \cup {ev.p}] ELSE M1
      [] ev.e = "cb"    -> [M EXCEPT !.cbs = Append(@, [p |-> ev.p, ok |-> ev.ok]),
                                     !.closed = (@ \/ ~ev.ok)]
      [] ev.e = "down"  -> [M EXCEPT !.lost = TRUE]
      [] ev.e = "ret"   -> [M EXCEPT !.res = ev.res, !.closed = TRUE, !.active = FALSE]
      [] OTHER          -> M

\* ---- clauses -----------------------------------------------------------------------------
IssueClause(M, r) ==
    IF M.closed THEN "IssuedAfterEnd"
    ELSE IF ~IsPrefix(Append(M.issued, r), Expected(M.file)) THEN "IssuedOutOfOrder"
    ELSE "ok"

TxClause(M, n, r, dv, st) ==
    IF Leftover(M, n) \/ Retransmission(M, n) THEN "ok"
    ELSE IF ~IsPrefix(Append(M.wire, r), Expected(M.file)) THEN "WireOutOfOrder"
    ELSE IF r.k = "store" /\ r.p \notin M.confirmed THEN "StoreBeforeConfirm"
    ELSE IF r.k = "store" /\ st = 0 /\ dv # FileQ(M.file, r.p) THEN "StoredWrongValue"
    ELSE "ok"

NTrue(M) == Cardinality({j \in DOMAIN M.cbs : M.cbs[j].ok})
AnyFalse(M) == \E j \in DOMAIN M.cbs : ~M.cbs[j].ok

ResultClause(M, res) ==
    IF res = "true" THEN
        IF M.file = <<>> THEN "ok"
        ELSE IF M.wire # Expected(M.file) THEN "TrueButNotAllWritten"
        ELSE IF \E j \in DOMAIN M.file : M.file[j].p \notin M.stored THEN "TrueButNotAllStored"
        ELSE IF AnyFalse(M) THEN "TrueAfterFailure"
        ELSE "ok"
    ELSE IF res = "false" THEN
        IF M.file = <<>> THEN "ok"
        ELSE IF ~AnyFalse(M) /\ ~M.lost THEN "FalseWithoutFailure"
        ELSE "ok"
    ELSE \* raised
        IF M.lost THEN "ok"
        ELSE IF NTrue(M) < Len(M.file) /\ Unusable(M.file[NTrue(M) + 1], M.nature) THEN "ok"
        ELSE "RaisedWithoutCause"

EventClause(M, ev) ==
    CASE ev.e = "issue" -> IssueClause(M, EvReq(ev))
      [] ev.e = "tx"    -> TxClause(M, ev.n, EvReq(ev), ev.dv, ev.st)
      [] ev.e = "ret"   -> ResultClause(M, ev.res)
      [] OTHER          -> "ok"

\* end of the execution: nothing can move any more (or the virtual horizon passed)
EndClause(M, blocked, linkUp) ==
    IF ~blocked THEN "ok"
    ELSE IF M.lost \/ ~linkUp THEN "HangAfterDisconnect"
    ELSE IF M.answered THEN "HangWithoutCause"
    ELSE "ok"
=============================================================================
