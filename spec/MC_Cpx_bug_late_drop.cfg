SPECIFICATION Spec
CONSTANTS
  Packets <- PacketsRouteQ
  MaxPackets = 2
  NR = 2
  RFns <- RFnsRoute
  SendSets <- NoSenders
  MaxSends = 0
  Mode = "router"
  LateRegister = TRUE
  Bug = "none"
INVARIANT TypeOK
INVARIANT CodecOK
INVARIANT ReadsOK
INVARIANT RouteStrict
INVARIANT DownOK
INVARIANT UpOK
CHECK_DEADLOCK FALSE
