------------------------------ MODULE DispatchTrace ------------------------------
(* Trace spec for C07.  One TLC run validates a whole batch of traces recorded from the real
   _IncomingPacketHandler: Init picks a trace id, events are consumed one per step.

   monitor  (the verdict): the events rebuild the observable history and DispatchProps is
            evaluated at every "end" event.  Nothing of the design spec is assumed.
   conform  (the binding): the same events must be explained by the actions of Dispatch
            (repaired semantics).  conf = FALSE from the first event the spec cannot take.  *)
EXTENDS Naturals, Sequences, FiniteSets, Bitwise, TLC, Json, IOUtils

Traces == JsonDeserialize(IOEnv.TRACE_FILE)

VARIABLES tid, l,
          regs, mcur, bad, badAt,          \* monitor
          conf, confAt,                    \* conformance verdict
          pat, script, cbs, mode, hdr, idx, todo, left, cur, done   \* design-spec variables

CONSTANT NRegs          \* callbacks are 1..NRegs+1 in every trace of the batch; regs0 says which are registered
T == Traces[tid]
Patterns == {[port |-> 0, pmask |-> 0, chan |-> 0, cmask |-> 0]}  \* unused by the actions
Headers == 0..255
NPackets == 0           \* unused by the actions
LiveIteration == FALSE

D == INSTANCE Dispatch
P == INSTANCE DispatchProps

specvars == <<pat, script, cbs, mode, hdr, idx, todo, left, cur, done>>
Ev == T.ev[l]
ToPat(a) == [port |-> a[1], pmask |-> a[2], chan |-> a[3], cmask |-> a[4]]
ToSet(s) == {s[i] : i \in DOMAIN s}

Init == /\ tid \in 1..Len(Traces)
        /\ l = 1
        /\ regs = Traces[tid].regs0
        /\ mcur = [hdr |-> 0, before |-> <<>>, touched |-> {}, calls |-> <<>>]
        /\ bad = "ok" /\ badAt = 0
        /\ conf = TRUE /\ confAt = 0
        /\ pat = [w \in 1..(NRegs + 1) |-> ToPat(Traces[tid].pat[w])]
        /\ script = [w \in 1..(NRegs + 1) |->
                        [k |-> Traces[tid].script[w][1], t |-> Traces[tid].script[w][2]]]
        /\ cbs = Traces[tid].regs0
        /\ mode = "idle" /\ hdr = 0 /\ idx = 0 /\ todo = <<>>
        /\ left = Traces[tid].npackets
        /\ cur = [before |-> <<>>, touched |-> {}, calls |-> <<>>]
        /\ done = <<>>

Conform(A) == IF conf /\ ENABLED A
              THEN A /\ UNCHANGED <<conf, confAt>>
              ELSE /\ conf' = FALSE /\ confAt' = (IF conf THEN l ELSE confAt)
                   /\ UNCHANGED specvars

Fail(c) == IF bad = "ok" /\ c # "ok" THEN bad' = c /\ badAt' = l ELSE UNCHANGED <<bad, badAt>>

MBegin == /\ Ev.e = "begin"
          /\ mcur' = [hdr |-> Ev.h, before |-> regs, touched |-> {}, calls |-> <<>>]
          /\ UNCHANGED <<regs, bad, badAt>>
          /\ Conform(D!Begin(Ev.h))

\* a callback ran (logged when it returns or raises), with the API operations it performed
ApplyOps(r, ops) ==
    LET F[i \in 0..Len(ops)] ==
          IF i = 0 THEN [regs |-> r, touched |-> {}]
          ELSE LET o == ops[i] p == F[i - 1] IN
               IF o[1] = "remove"
               THEN [regs |-> SelectSeq(p.regs, LAMBDA x : x # o[2]),
                     touched |-> IF o[2] \in ToSet(p.regs) THEN p.touched \cup {o[2]} ELSE p.touched]
               ELSE [regs |-> Append(p.regs, o[2]), touched |-> p.touched \cup {o[2]}]
    IN F[Len(ops)]

MCall == /\ Ev.e = "call"
         /\ LET a == ApplyOps(regs, Ev.ops) IN
            /\ regs' = a.regs
            /\ mcur' = [mcur EXCEPT !.calls = Append(@, Ev.w), !.touched = @ \cup a.touched]
         /\ UNCHANGED <<bad, badAt>>
         /\ Conform(D!StepSnap /\ Head(todo) = Ev.w /\ cbs' = Ev.cbs)

MEnd == /\ Ev.e = "end"
        /\ Fail(IF Ev.cbs # regs THEN "RegistryDiverged" ELSE P!PacketClause(mcur, pat))
        /\ UNCHANGED <<regs, mcur>>
        /\ Conform(D!End /\ cbs = Ev.cbs)

Step == /\ l <= Len(T.ev)
        /\ l' = l + 1 /\ UNCHANGED tid
        /\ (MBegin \/ MCall \/ MEnd)

\* end of trace: the dispatcher thread must be alive and must have consumed every packet
Finish == /\ l = Len(T.ev) + 1
          /\ l' = l + 1
          /\ LET b == IF bad # "ok" THEN bad
                      ELSE IF ~T.alive THEN "DispatcherDied"
                      ELSE IF T.delivered # T.npackets THEN "PacketLost"
                      ELSE "ok"
             IN PrintT(<<"VERDICT", T.id, b, badAt, conf, confAt>>)
          /\ UNCHANGED <<tid, regs, mcur, bad, badAt, conf, confAt, specvars>>

Next == Step \/ Finish
Spec == Init /\ [][Next]_<<tid, l, regs, mcur, bad, badAt, conf, confAt, specvars>>
=============================================================================
