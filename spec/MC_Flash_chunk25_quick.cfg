SPECIFICATION Spec
CONSTANTS
  Chunk = 25
  MaxRetry = 5
  Targets = {254}
  PageSizes = {24, 25, 26, 51}
  BufCounts = {1, 2}
  FlashSizes = {2}
  MaxLen = 110
  Fates = {"ok", "lostcmd"}
  Bug = "none"
  Observe = TRUE
INVARIANT PropOK
INVARIANT TypeOK
INVARIANT FlashedWhenDone
INVARIANT NothingOutside
CHECK_DEADLOCK FALSE
