------------------------------ MODULE UriProps ------------------------------
(* C20 -- the listed property, over observations only (no variables).

   A link URI is a *token record* (the harness renders it to the string handed to the code; that
   rendering is the only trusted step):
      u = [scheme : STRING,            "radio","usb","serial","udp","prrt","tcp", anything else = unknown
           wf     : STRING,            "ok" = well formed; otherwise the name of a malformation
           dk, dn : "num"|"serial", Nat   radio dongle: number dn / the serial of the dn-th attached
                                           dongle (1-based); for usb:// dn is the device number
           nf     : 0..3,              how many of the trailing path fields channel/rate/address are present
           chan   : Nat, rate : "250K"|"1M"|"2M",
           addr   : Seq([d : 0..15, up : BOOLEAN]),   1..10 hex digits, either case
           rl     : Seq(Nat)]          <<>> = no rate_limit option, <<n>> = ?rate_limit=n

   env = [nd : number of Crazyradio dongles attached, nusb : Crazyflies on USB,
          prrt, pyserial : optional python modules present, serial : serial driver enabled]
   classes = cflib.crtp.CLASSES as a sequence of driver class names.

   Readings (DESIGN 3.1, weaker reading where the text leaves room):
   * data rate codes are the Crazyradio USB protocol values 0/1/2 for 250K/1M/2M;
     address bytes are the zero-left-padded 10 digit string, two digits per byte, in string order
     (the dongle takes the address most significant byte first);
   * "yields no driver": get_link_driver returns None *or* raises; after open_link the Crazyflie has no link;
   * "unknown scheme" is relative to the configured driver list (serial:// without the serial driver);
   * an unrecognised rate token, channels > 125, addresses > 10 digits, duplicate options are neither in
     the well-formed set of the quantifier nor used as "malformed" witnesses, except the malformations
     named in Malformed below, each of which no parser could give a value to. *)
EXTENDS Naturals, Sequences, FiniteSets

KnownSchemes == {"radio", "usb", "serial", "udp", "prrt", "tcp"}
DriverOf(s) == CASE s = "radio" -> "RadioDriver" [] s = "usb" -> "UsbDriver"
                 [] s = "serial" -> "SerialDriver" [] s = "udp" -> "UdpDriver"
                 [] s = "prrt" -> "PrrtDriver" [] s = "tcp" -> "TcpDriver"
                 [] OTHER -> "none"
DriverNames == {DriverOf(s) : s \in KnownSchemes}
Range(s) == {s[i] : i \in DOMAIN s}

DefaultAddr == <<231, 231, 231, 231, 231>>
RateCode(r) == CASE r = "250K" -> 0 [] r = "1M" -> 1 [] r = "2M" -> 2

\* ---- what a well-formed radio URI names
PadLeft(ds) == [i \in 1..10 |-> IF i <= 10 - Len(ds) THEN 0 ELSE ds[i - (10 - Len(ds))].d]
AddrBytes(ds) == LET p == PadLeft(ds) IN [i \in 1..5 |-> 16 * p[2 * i - 1] + p[2 * i]]
ExpDevid(u) == IF u.dk = "num" THEN u.dn ELSE u.dn - 1
ExpChan(u) == IF u.nf >= 1 THEN u.chan ELSE 2
ExpRate(u) == IF u.nf >= 2 THEN RateCode(u.rate) ELSE 2
ExpAddr(u) == IF u.nf >= 3 THEN AddrBytes(u.addr) ELSE DefaultAddr

WellFormed(u) == u.wf = "ok"
\* the device the URI names exists in this environment (a connect can succeed at all)
Reachable(u, env) ==
    CASE u.scheme = "radio" -> IF u.dk = "num" THEN u.dn < env.nd ELSE u.dn \in 1..env.nd
      [] u.scheme = "usb" -> u.dn < env.nusb
      [] u.scheme = "serial" -> env.pyserial
      [] u.scheme = "prrt" -> env.prrt
      [] OTHER -> TRUE
\* unknown scheme (for this driver list) or malformed: must end in "no driver" + connection_failed
MustFail(u, classes) == \/ u.scheme \notin KnownSchemes
                        \/ DriverOf(u.scheme) \notin Range(classes)
                        \/ ~WellFormed(u)

\* ---- clause 1: parse_uri returns what the URI names.   r = result of RadioDriver.parse_uri
\*      r = [ok, exc, devid, chan, rate, addr, rl]
ParseJudged(u, env) == /\ u.scheme = "radio" /\ WellFormed(u)
                       /\ u.dk = "serial" => u.dn \in 1..env.nd
ParseClause(u, env, r) ==
    IF ~ParseJudged(u, env) THEN "ok"
    ELSE IF ~r.ok THEN "ParseReturns"
    ELSE IF r.devid # ExpDevid(u) THEN "Dongle"
    ELSE IF r.chan # ExpChan(u) THEN "Channel"
    ELSE IF r.rate # ExpRate(u) THEN "DataRate"
    ELSE IF Len(r.addr) # 5 THEN "AddressLength"
    ELSE IF r.addr # ExpAddr(u) THEN "Address"
    ELSE IF r.rl # u.rl THEN "RateLimit"
    ELSE "ok"

\* ---- clause 2: the settings that reach the dongle with the first transmission.
\*      a = [present, dev, chan, rate, addr], lrl = rate limit of the link object
AppliedClause(u, a, lrl) ==
    IF ~a.present THEN "SettingsNotApplied"
    ELSE IF a.dev # ExpDevid(u) THEN "AppliedDongle"
    ELSE IF a.chan # ExpChan(u) THEN "AppliedChannel"
    ELSE IF a.rate # ExpRate(u) THEN "AppliedDataRate"
    ELSE IF a.addr # ExpAddr(u) THEN "AppliedAddress"
    ELSE IF lrl # u.rl THEN "AppliedRateLimit"
    ELSE "ok"

\* ---- clause 3: every scheme is claimed by exactly one driver.
\*      c = Seq([drv, out]) one entry per class of the list, out = "wrong" (WrongUriType) | "ok" | "error"
Claimers(c) == {c[i].drv : i \in {j \in DOMAIN c : c[j].out # "wrong"}}
ClaimCount(c) == Cardinality({j \in DOMAIN c : c[j].out # "wrong"})
ClaimClause(u, classes, c) ==
    IF u.scheme \notin KnownSchemes
    THEN (IF Claimers(c) # {} THEN "UnknownSchemeClaimed" ELSE "ok")
    ELSE IF Claimers(c) \ {DriverOf(u.scheme)} # {} THEN "ForeignClaim"
    ELSE IF WellFormed(u) /\ DriverOf(u.scheme) \in Range(classes) /\ Claimers(c) = {} THEN "Unclaimed"
    ELSE IF ClaimCount(c) > 1 THEN "ClaimedTwice"
    ELSE "ok"

\* ---- clause 4: get_link_driver selects the right driver (and, for radio, the right settings).
\*      sel = "none" | "exc" | driver class name
LookupClause(u, classes, env, sel, a, lrl) ==
    IF MustFail(u, classes) THEN (IF sel \in DriverNames THEN "NoDriverForBadUri" ELSE "ok")
    ELSE IF ~Reachable(u, env) THEN "ok"
    ELSE IF sel # DriverOf(u.scheme) THEN "RightDriver"
    ELSE IF u.scheme = "radio" THEN AppliedClause(u, a, lrl)
    ELSE "ok"

\* ---- clause 5: open_link: failure is a notification, never an escaping exception.
\*      o = [escaped, failed, link, ap, lrl]
OpenClause(u, classes, env, o) ==
    IF MustFail(u, classes)
    THEN IF o.escaped THEN "NoEscape"
         ELSE IF o.failed = 0 THEN "FailedNotified"
         ELSE IF o.link # "none" THEN "NoDriverAfterFailure"
         ELSE "ok"
    ELSE IF ~Reachable(u, env) \/ u.scheme # "radio" THEN "ok"
    ELSE IF o.link # "RadioDriver" THEN "RightDriver"
    ELSE AppliedClause(u, o.ap, o.lrl)

\* ---- clause 6: URIs reported by a scan parse back to a scanned (channel, rate, address).
\*      acked = Seq([chan, rate, addr]) probes the dongle got an answer to, rep = parse results of the reported URIs
ScanClause(acked, rep) ==
    IF \A i \in DOMAIN rep :
          /\ rep[i].ok
          /\ \E j \in DOMAIN acked : /\ acked[j].chan = rep[i].chan
                                     /\ acked[j].rate = rep[i].rate
                                     /\ acked[j].addr = rep[i].addr
    THEN "ok" ELSE "ScanParseBack"
=============================================================================
