SPECIFICATION Spec
CONSTANTS
  Kinds = {"usb", "tcp", "udp", "radio"}
  CbModes = {TRUE, FALSE}
  SlModes = {TRUE, FALSE}
  Bug = "none"
  Faults = {"none", "f1", "f2"}
  MaxOps = 12
  MaxSess = 4
  MaxReq = 6
  MaxIdle = 6
  MaxErr = 3
  HsMax = 10
  Retries = 3
  JamLen = 4
  KeepHistory = TRUE
INVARIANT HistoryOK
CHECK_DEADLOCK FALSE
