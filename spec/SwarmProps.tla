------------------------------ MODULE SwarmProps ------------------------------
(* C19 -- the listed property, over observable history only.

   Members of the swarm are 1..n, numbered in the iteration order of the URIs given to Swarm().
   One call of the public API ("op") is a record
     [kind    : "seq" | "par" | "psafe" | "open" | "close",
      n       : Nat,
      hasargs : BOOLEAN, argd : Seq(Seq(Nat)),   the argument dictionary given by the caller
                                                 (argd[m] = entry of member m's URI)
      wasOpen : BOOLEAN,       the swarm was open when the call was made (OpenNext below)
      h       : Seq([t, m, a, r, x]),            what happened because of this call, in order:
                 t = "call"   the action was invoked with connection m (0 = not a member's
                              connection) and the further positional arguments a
                 t = "end"    that invocation returned (r = "ok") or raised error x (r = "raise")
                 t = "open" / "opened" / "close"   member m's open_link was entered / left
                              (r, x as for "end") / member m's close_link was called
      returned: BOOLEAN, retAt : Nat (= Len(h) when the call came back to the caller),
      r       : "ok" | "raise",                  how it came back
      chain   : SUBSET Nat]    ids of the action/open errors found in the raised exception
                               itself and along its __cause__/__context__ chain

   Readings (the weaker one wherever the text leaves room):
   * sequential: the text fixes no error handling for it.  Demanded: one at a time, in URI
     order, nobody skipped; the run may stop after an action that raised.
   * "chaining one of the raised errors": the raised exception is, or reaches through
     __cause__/__context__, an error raised by an action of THIS call.
   * "returns only after every action has finished" is demanded of parallel_safe only;
     parallel still owes every member exactly one call (judged at the end of the execution).
   * "cannot be opened twice": open_links on an open swarm raises and enters no open_link.
   * "closed again": close_link(m) is called after m's open_link attempt is over, before
     open_links comes back.  *)
EXTENDS Naturals, Sequences, FiniteSets

Members(op) == 1..op.n
Ev(op, t) == {i \in DOMAIN op.h : op.h[i].t = t}
EvM(op, t, m) == {i \in DOMAIN op.h : op.h[i].t = t /\ op.h[i].m = m}
ExpArgs(op, m) == IF op.hasargs THEN op.argd[m] ELSE <<>>
Raised(op) == {op.h[i].x : i \in {j \in Ev(op, "end") : op.h[j].r = "raise"}}
OpenRaised(op) == {op.h[i].x : i \in {j \in Ev(op, "opened") : op.h[j].r = "raise"}}
IsAction(op) == op.kind \in {"seq", "par", "psafe"}
CE(op) == SelectSeq(op.h, LAMBDA e : e.t \in {"call", "end"})
Calls(op) == SelectSeq(op.h, LAMBDA e : e.t = "call")

\* ---- every action kind
OwnConnection(op) == \A i \in Ev(op, "call") : op.h[i].m \in Members(op)
OwnArgs(op) == \A i \in Ev(op, "call") :
                  op.h[i].m \in Members(op) => op.h[i].a = ExpArgs(op, op.h[i].m)
AtMostOnce(op) == \A m \in Members(op) : Cardinality(EvM(op, "call", m)) <= 1
EachOnce(op) == \A m \in Members(op) : Cardinality(EvM(op, "call", m)) = 1

\* ---- sequential
OneAtATime(op) == LET c == CE(op) IN
    \A i \in DOMAIN c : IF i % 2 = 1 THEN c[i].t = "call"
                        ELSE c[i].t = "end" /\ c[i].m = c[i - 1].m
NoneRunning(op) == Len(CE(op)) % 2 = 0
SeqOrder(op) == LET c == Calls(op) IN \A i \in DOMAIN c : c[i].m = i
SeqComplete(op) == LET c == CE(op) IN
    \/ Len(Calls(op)) = op.n
    \/ Len(c) > 0 /\ c[Len(c)].t = "end" /\ c[Len(c)].r = "raise"

\* ---- parallel_safe: everything that was started is over when the call comes back
Finished(op) ==
    /\ \A i \in Ev(op, "call") \cup Ev(op, "end") : i <= op.retAt
    /\ \A m \in 0..op.n : Cardinality(EvM(op, "call", m)) = Cardinality(EvM(op, "end", m))
RaisesIff(op) == (op.r = "raise") <=> (Raised(op) # {})
Chains(op) == op.r = "raise" => (op.chain \cap Raised(op)) # {}
NeverRaises(op) == op.r = "ok"

\* ---- open_links
OpenFailed(op) == ~op.wasOpen /\ OpenRaised(op) # {}
DoubleOpenRaises(op) == op.wasOpen => op.r = "raise"
NoReopen(op) == op.wasOpen => Ev(op, "open") = {}
ClosedAgain(op) == OpenFailed(op) =>
    \A m \in Members(op) : \E c \in EvM(op, "close", m) :
        /\ c <= op.retAt
        /\ \A j \in EvM(op, "open", m) \cup EvM(op, "opened", m) : j < c
FailureRaised(op) == OpenFailed(op) => op.r = "raise" /\ (op.chain \cap OpenRaised(op)) # {}

First(cs) == \* cs: sequence of <<name, holds>>; name of the first clause that does not hold
    LET F[i \in 1..(Len(cs) + 1)] ==
          IF i > Len(cs) THEN "ok" ELSE IF ~cs[i][2] THEN cs[i][1] ELSE F[i + 1]
    IN F[1]

\* judged when the call comes back to the caller
RetClause(op) ==
    CASE op.kind = "seq" ->
           First(<< <<"OwnConnection", OwnConnection(op)>>, <<"OwnArgs", OwnArgs(op)>>,
                    <<"AtMostOnce", AtMostOnce(op)>>, <<"OneAtATime", OneAtATime(op) /\ NoneRunning(op)>>,
                    <<"SeqOrder", SeqOrder(op)>>, <<"SeqComplete", SeqComplete(op)>> >>)
      [] op.kind = "psafe" ->
           First(<< <<"OwnConnection", OwnConnection(op)>>, <<"OwnArgs", OwnArgs(op)>>,
                    <<"AtMostOnce", AtMostOnce(op)>>, <<"JoinBeforeReturn", Finished(op)>>,
                    <<"EachOnce", EachOnce(op)>>, <<"RaisesIff", RaisesIff(op)>>,
                    <<"Chains", Chains(op)>> >>)
      [] op.kind = "par" ->
           First(<< <<"NeverRaises", NeverRaises(op)>> >>)
      [] op.kind = "open" ->
           First(<< <<"DoubleOpenRaises", DoubleOpenRaises(op)>>, <<"NoReopen", NoReopen(op)>>,
                    <<"ClosedAgain", ClosedAgain(op)>>, <<"FailureRaised", FailureRaised(op)>> >>)
      [] OTHER -> "ok"

\* judged at the end of the execution (everything the call caused has happened by then)
FinalClause(op) ==
    IF ~op.returned THEN "Returns"
    ELSE CASE op.kind = "seq" -> RetClause(op)
           [] op.kind = "psafe" ->
                First(<< <<"OwnConnection", OwnConnection(op)>>, <<"OwnArgs", OwnArgs(op)>>,
                         <<"AtMostOnce", AtMostOnce(op)>>, <<"JoinBeforeReturn", Finished(op)>>,
                         <<"EachOnce", EachOnce(op)>> >>)
           [] op.kind = "par" ->
                First(<< <<"OwnConnection", OwnConnection(op)>>, <<"OwnArgs", OwnArgs(op)>>,
                         <<"AtMostOnce", AtMostOnce(op)>>, <<"EachOnce", EachOnce(op)>>,
                         <<"NeverRaises", NeverRaises(op)>> >>)
           [] op.kind = "open" -> First(<< <<"NoReopen", NoReopen(op)>> >>)
           [] OTHER -> "ok"

\* "the swarm is open": the last open_links that was not refused came back without raising and
\* close_links has not been called since
OpenNext(wasOpen, op) ==
    CASE op.kind = "open" /\ op.returned /\ op.r = "ok" -> TRUE
      [] op.kind = "close" -> FALSE
      [] OTHER -> wasOpen
=============================================================================
