---- MODULE MC_LogBlocks ----
EXTENDS LogBlocks
\* variable templates (instantiated by position, see AddVariable)
T(f) == [k |-> "toc", f |-> f, s |-> 0, a |-> <<>>, miss |-> FALSE]          \* table variable, explicit fetch type
D == T(0)                                                                  \* table variable fetched as stored
X(f) == [k |-> "toc", f |-> f, s |-> 0, a |-> <<>>, miss |-> TRUE]          \* not in the table
M(f, s) == [k |-> "mem", f |-> f, s |-> s, a |-> <<16, 32, 0, 32>>, miss |-> FALSE]   \* raw memory
\* device table: 27 entries, stored types cycling through all eight; two entries with indices that
\* need both index bytes
Idx(j) == IF j = 2 THEN 300 ELSE IF j = 3 THEN 255 ELSE j - 1
TocMC == [j \in 1..27 |-> [n |-> "v." \o ToString(j), t |-> ((j - 1) % 8) + 1, i |-> Idx(j)]]
\* the same names with indices = positions (device table of the spec -> code replays)
TocSim == [j \in 1..27 |-> [n |-> "v." \o ToString(j), t |-> ((j - 1) % 8) + 1, i |-> j - 1]]
\* sizes 1, 2, 4 (explicit fetch types)
Basic == {T(1), T(5), T(7)}
\* + another type of each size incl. FP16, as stored, not in the table, raw memory
AlphaFull == Basic \cup {T(8), T(3), D, X(1), X(0), M(3, 6), M(1, 7)}
AlphaLife == {T(1), D, M(3, 6)}
BasicOne == {T(1)}
AlphaTwo == {T(1), D}
AlphaSim == Basic \cup {T(8), T(4), D, X(0), M(3, 6)}
PeriodsAll == {0, 9, 10, 2540, 2549, 2550}
PeriodsSim == {10, 100, 2540, 2549, 2550}
StatusesAll == {2, 5, 7, 8, 12, 17}
StatusesSim == {2, 5, 12, 17}
\* configurations that change over time / tables that grow between sessions: a 2-entry table, later sessions may
\* find the full one; templates: typed, as stored, raw memory, and a typed variable at a position that only the
\* longer table has (Instance names it by position)
TocShort == SubSeq(TocMC, 1, 2)
TocLonger == {TocMC}
AlphaEvolve == {T(1), D, M(3, 6)}
AlphaStale == {T(1), M(3, 6)}
\* raw-memory variables whose stored type has another size than the fetched one (payload counts the fetched one)
MemSizes == {M(7, 1), M(1, 3), M(8, 6)}
NoBugs == {}
====
