SPECIFICATION Spec
CONSTANTS
  Mode = "match"
  BsIds = {1, 2, 3}
  MaxMeas = 5
  Deltas <- DeltasThorough
  Diffs = {1, 2}
  MinBs = {0, 2}
  MaxSamples = 0
  SampleSets <- NoSampleSets
  MaxOutliers = 0
  Bug = "none"
  PrintCases = FALSE
INVARIANT MatchOK
INVARIANT EstOK
INVARIANT PipeMin2AllLinking
INVARIANT LinkMonotone
INVARIANT TypeOK
CHECK_DEADLOCK FALSE
