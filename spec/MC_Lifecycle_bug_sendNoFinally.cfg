SPECIFICATION Spec
CONSTANTS
  P = 2
  NPar = 1
  ErFrom = 2
  LogStart = 0
  LogEnd = 0
  ParStart = 1
  NAtt = 2
  MaxFaults = 1
  FaultBy <- LinkFaults
  MaxPings = 1
  UseSync = FALSE
  Closer = FALSE
  Defects <- Bug_sendNoFinally
INVARIANT ReconnectOK
CHECK_DEADLOCK FALSE
