SPECIFICATION Spec
CONSTANTS
  Configs <- ConfigsBugLog
  Budget = 1
  Window <- WindowAll
  Bug = "StaleFetcher"
INVARIANT TableAtDone
INVARIANT TableStaysOK
INVARIANT LookupsOK
CHECK_DEADLOCK FALSE
