SPECIFICATION Spec
CONSTANTS
  NUp = 1
  NDown = 1
  Retries = 2
  NegAttempts = 3
  MaxLoss = 2
  MaxNegLoss = 3
  MaxRestarts = 1
  MaxSlow = 0
  PeerModes <- ModesAll
  DenyReplies <- DenyOne
  AckTails <- TailsRssi
  Bug = "none"
INVARIANT PropertyHolds
INVARIANT StepFormHolds
INVARIANT CompleteAtRest
INVARIANT SafelinkIffEcho
INVARIANT NeedsResendingIsNotSafelink
INVARIANT Lockstep
INVARIANT TypeOK
CONSTRAINT InQBound
CHECK_DEADLOCK FALSE
