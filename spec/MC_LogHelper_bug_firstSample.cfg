SPECIFICATION Spec
CONSTANTS
  Mode = "estimator"
  Rates = {500}
  Scripts <- EScripts
  Vectors <- EVectors2
  MaxData = 2
  MaxQ = 2
  Times = {100}
  LinkLoss = FALSE
  HasKalman = {TRUE}
  Bug = "firstSample"
VIEW view
CHECK_DEADLOCK FALSE
INVARIANT NoReturnedBeforeConverged
