SPECIFICATION Spec
CONSTANTS
  Packets <- PacketsRoute
  MaxPackets = 3
  NR = 2
  RFns <- RFnsRoute
  SendSets <- NoSenders
  MaxSends = 0
  Mode = "router"
  LateRegister = FALSE
  Bug = "none"
INVARIANT TypeOK
INVARIANT CodecOK
INVARIANT ReadsOK
INVARIANT RouteOK
INVARIANT DownOK
INVARIANT UpOK
CHECK_DEADLOCK FALSE
