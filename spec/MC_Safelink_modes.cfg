SPECIFICATION Spec
CONSTANTS
  NUp = 1
  NDown = 1
  Retries = 3
  NegAttempts = 10
  MaxLoss = 4
  MaxNegLoss = 2
  MaxRestarts = 0
  MaxSlow = 0
  PeerModes <- ModesAll
  DenyReplies <- DenyMany
  AckTails <- TailsAll
  Bug = "none"
INVARIANT PropertyHolds
INVARIANT StepFormHolds
INVARIANT CompleteAtRest
INVARIANT SafelinkIffEcho
INVARIANT NeedsResendingIsNotSafelink
INVARIANT Lockstep
INVARIANT TypeOK
CHECK_DEADLOCK FALSE
