---- MODULE MC_LogHelper ----
EXTENDS LogHelper
RScripts == {<<"start", "stop">>, <<"enter", "exit">>, <<"enter", "exitexc">>, <<"start">>}
EScripts == {<<"reset">>}
\* ranger sample vectors (mm): below / at / above the 8 m limit, distinct per direction
RVectors == {<<100, 200, 300, 400, 500, 600>>, <<7999, 8000, 8001, 0, 65535, 7999>>, <<8000, 7999, 0, 8001, 1, 8000>>}
\* estimator samples (value * 65536): two close ones (difference 60 < 65.536) and a distant one
EVectors == {<<100, 100, 100>>, <<160, 100, 40>>, <<100, 170, 100>>}
EVectors2 == {<<100, 100, 100>>, <<100, 170, 100>>}
EVectorsNear == {<<100, 100, 100>>, <<160, 100, 40>>}
====
