------------------------------ MODULE LogBlocks ------------------------------
(* Design spec of cflib.crazyflie.log (LogConfig, Log) and syncLogger.SyncLogger (C05).

   One action per public call / per packet the dispatcher hands to Log._new_packet_cb:
     user        NewConfig, AddVariable (add_variable/add_memory), AddConfig (Log.add_config),
                 Start, Stop, Delete (LogConfig.start/stop/delete), CloseLink (close_link),
                 OpenLink (open_link: Log.refresh_toc resets the device and forgets log_blocks),
                 SyncConnect / SyncNext (SyncLogger.connect / __next__)
     dispatcher  Deliver (one settings acknowledgement through Log._new_packet_cb, including the
                 START it sends on a create acknowledgement), Data (one log data packet)
     environment Inject(st) (the device answers the next settings message with error st and does
                 not perform it), DropAck (an acknowledgement is lost)
   The device (twin of harness simdev LogService / C05 LogDevice) handles every settings message
   synchronously inside the sending action and queues its acknowledgement in `acks`.

   Bugs (a set of names) switches on pre-fix behaviour of the code and seeded defects:
     "dup_readd"   add_config resolves default_fetch_as by appending on every call (code as found)
     "mem_raises"  _setup_log_elements raises TypeError at a raw-memory variable (code as found, repaired since)
     "partial_resolve"  add_config appends the default-typed names before the first one missing from the table
                   and keeps default_fetch_as when it raises KeyError (code as found)
     "size_by_stored"   payload size summed from the stored types (seeded)
     "reset_when_accepted", "stale_layout"   seeded defects around configurations that change / are re-added
     "skip_on_split", "size_lt", "period_le_255", "optimistic_start", "ack_any_block",
     "start_on_error", "slice_by_stored"   seeded defects (vacuity guards)
   With Bugs = {} the spec is the repaired behaviour: default_fetch_as is cleared once resolved;
   raw-memory entries are appended as 5 bytes and a packet is closed before an entry that does not
   fit.  `obs` is the observable record of the last action; ObsOK applies LogBlocksProps to it. *)
EXTENDS Integers, Sequences, FiniteSets, TLC

CONSTANTS NC,            \* LogConfig objects 1..NC
          TocC,          \* the device's log table
          VarAlpha,      \* variables a configuration may be built from (any, lists up to MaxFree)
          BasicAlpha,    \* subset: lists over it up to MaxBasic; uniform lists up to MaxUniform
          MaxFree, MaxBasic, MaxUniform,
          Periods,       \* period_in_ms values
          Statuses,      \* error statuses the environment may inject
          MaxOps,        \* user calls + reconnects per behaviour
          MaxFaults,     \* injections + lost acknowledgements per behaviour
          MaxData,       \* data packets per behaviour
          MaxLate,       \* add_variable/add_memory calls on a configuration that was already added
          TocAlts,       \* device tables a later session may find instead (firmware update between sessions)
          IdMod,         \* 255 in the code
          Bugs,
          WithSync       \* configuration 1 is used through a SyncLogger

P == INSTANCE LogBlocksProps

Cs == 1..NC
Has(b) == b \in Bugs
Known(st) == st \in {12, 8, 2, 7, 17}        \* Log._err_codes

VARIABLES toc,
          conf,        \* [c -> [period, vars]]  what the user configured
          phase,       \* "config" | "run"
          cur,         \* configuration being built in phase "config"
          tpl,         \* templates it was built from (bookkeeping of the enumeration only)
          \* library
          lvars,       \* LogConfig.variables (resolved records)
          ldef,        \* LogConfig.default_fetch_as (names)
          valid, cid, hascf, added, started, pending,
          blocks,      \* Log.log_blocks (sequence of c)
          idctr,       \* Log._config_id_counter
          link,        \* the Crazyflie has an open link (connected, tables downloaded)
          \* device and channel
          dev,         \* id -> [vars : Seq(entry), started, period]
          acks,        \* acknowledgements on their way to the library
          inject,      \* 0 or the error status for the next settings message
          \* SyncLogger for configuration 1
          sync,        \* [on : _is_connected, q : the queue, st : "none"|"connecting"|"iter"|"stopped" (user thread),
                       \*  yields, samples, disc, early, cb/dcb : data/disconnected callback registered, drained]
          \* bounds and history
          nops, nfaults, ndata, nlate,
          layout,      \* only with Bugs "stale_layout": data layout cached by the LogConfig at its first data packet
          ref, hasref, \* variable list fixed by the first successful add_config
          lastok,      \* the last add_config of the LogConfig returned normally
          obs

vars == <<toc, conf, phase, cur, tpl, lvars, ldef, valid, cid, hascf, added, started, pending, blocks,
          idctr, link, dev, acks, inject, sync, nops, nfaults, ndata, nlate, layout, ref, hasref, lastok, obs>>

NoObs == [e |-> "none"]
Flags == [c \in Cs |-> [added |-> added[c], started |-> started[c]]]
EmptyFn == [x \in {} |-> 0]
InBlocks(c) == \E j \in DOMAIN blocks : blocks[j] = c
Sync0 == [on |-> FALSE, q |-> <<>>, st |-> "none", yields |-> <<>>, samples |-> <<>>,
          disc |-> FALSE, early |-> FALSE, cb |-> FALSE, dcb |-> FALSE, drained |-> FALSE]

Init == /\ toc = TocC
        /\ conf = [c \in Cs |-> [period |-> 0, vars |-> <<>>]]
        /\ phase = "config" /\ cur = 0 /\ tpl = [c \in Cs |-> <<>>]
        /\ lvars = [c \in Cs |-> <<>>] /\ ldef = [c \in Cs |-> <<>>]
        /\ valid = [c \in Cs |-> FALSE] /\ cid = [c \in Cs |-> 0] /\ hascf = [c \in Cs |-> FALSE]
        /\ added = [c \in Cs |-> FALSE] /\ started = [c \in Cs |-> FALSE]
        /\ pending = [c \in Cs |-> 0]
        /\ blocks = <<>> /\ idctr = 1 /\ link = TRUE
        /\ dev = EmptyFn /\ acks = <<>> /\ inject = 0
        /\ sync = Sync0
        /\ nops = 0 /\ nfaults = 0 /\ ndata = 0 /\ nlate = 0
        /\ layout = [c \in Cs |-> [set |-> FALSE, lt |-> <<>>]]
        /\ ref = [c \in Cs |-> <<>>] /\ hasref = [c \in Cs |-> FALSE]
        /\ lastok = [c \in Cs |-> FALSE]
        /\ obs = NoObs

\* ------------------------------------------------------------------ building configurations
libstate == <<lvars, ldef, valid, cid, hascf, added, started, pending, blocks, idctr, link>>
envstate == <<dev, acks, inject>>
bounds == <<nops, nfaults, ndata, nlate, layout>>

\* LogConfig(name, period_in_ms)
NewConfig(p) == /\ phase = "config" /\ cur < NC
                /\ cur' = cur + 1
                /\ conf' = [conf EXCEPT ![cur + 1] = [period |-> p, vars |-> <<>>]]
                /\ UNCHANGED <<toc, phase, tpl, libstate, envstate, sync, bounds, ref, hasref, lastok, obs>>

AllIn(s, A) == \A j \in DOMAIN s : s[j] \in A
Uniform(s, v) == \A j \in DOMAIN s : s[j] = v

\* add_variable(name, fetch_as) / add_variable(name) / add_memory(name, fetch_as, stored_as, addr).
\* VarAlpha holds templates [k, f, s, a, miss]; the p-th variable of a configuration gets the name of the
\* p-th table entry (names within one configuration are distinct: the dict handed to data_received_cb
\* cannot hold two values under one name), "x.y" when the template says "not in the table".
Instance(t, p) == [k |-> t.k, f |-> t.f, s |-> t.s, a |-> t.a,
                   n |-> IF t.miss THEN "x.y" ELSE IF t.k = "mem" THEN "m." \o ToString(p) ELSE "v." \o ToString(p)]
\* (the model's tables name their p-th entry "v.p"; with TocAlts one position beyond the current table may be used:
\* a variable that only a later session's table has)
MaxPos == Len(toc) + (IF TocAlts = {} THEN 0 ELSE 1)
AddVarBody(c, v) ==
    /\ conf' = [conf EXCEPT ![c].vars = Append(@, v)]
    /\ IF v.k = "toc" /\ v.f = 0
       THEN ldef' = [ldef EXCEPT ![c] = Append(@, v.n)] /\ UNCHANGED lvars
       ELSE lvars' = [lvars EXCEPT ![c] = Append(@, v)] /\ UNCHANGED ldef
AddVariable(t) ==
    /\ phase = "config" /\ cur >= 1 /\ Len(conf[cur].vars) < MaxPos
    /\ LET tv == tpl[cur] n == Len(tv) IN
       \/ n < MaxFree
       \/ n < MaxBasic /\ t \in BasicAlpha /\ AllIn(tv, BasicAlpha)
       \/ n < MaxUniform /\ t \in BasicAlpha /\ n >= 1 /\ Uniform(tv, t)
    /\ tpl' = [tpl EXCEPT ![cur] = Append(@, t)]
    /\ AddVarBody(cur, Instance(t, Len(conf[cur].vars) + 1))
    /\ UNCHANGED <<toc, phase, cur, valid, cid, hascf, added, started, pending, blocks, idctr, link,
                   envstate, sync, bounds, ref, hasref, lastok, obs>>

\* add_variable / add_memory on a LogConfig that has been used already (not live on the device): the next
\* successful add_config fixes its variable list anew
NotLive(c) == ~added[c] /\ ~started[c] /\ pending[c] = 0 /\ (hascf[c] => cid[c] \notin DOMAIN dev)
AddVarLate(c, v) ==
    /\ phase = "run" /\ nlate < MaxLate
    /\ nlate' = nlate + 1
    /\ AddVarBody(c, v)
    /\ hasref' = [hasref EXCEPT ![c] = FALSE]
    /\ layout' = IF Has("stale_layout") /\ v.k = "mem" THEN layout ELSE [layout EXCEPT ![c] = [set |-> FALSE, lt |-> <<>>]]
    /\ obs' = [e |-> "addvar"]
    /\ UNCHANGED <<toc, phase, cur, tpl, valid, cid, hascf, added, started, pending, blocks, idctr, link,
                   envstate, sync, nops, nfaults, ndata, ref, lastok>>

Go == /\ phase = "config" /\ cur = NC
      /\ phase' = "run"
      /\ UNCHANGED <<toc, conf, cur, tpl, libstate, envstate, sync, bounds, ref, hasref, lastok, obs>>

\* ------------------------------------------------------------------ the device
DevDecode(body, kinds, ki) == P!DecBody(body, 1, kinds, ki)

DevHandle(d, m, kinds) ==
    LET cmd == m[1]
        id == IF Len(m) >= 2 THEN m[2] ELSE 0
        body == SubSeq(m, 3, Len(m))
    IN CASE cmd = 6 ->
              IF id \in DOMAIN d THEN [dev |-> d, st |-> 17]
              ELSE [dev |-> (id :> [vars |-> DevDecode(body, kinds, 1), started |-> FALSE, period |-> 0]) @@ d,
                    st |-> 0]
         [] cmd = 7 ->
              IF id \notin DOMAIN d THEN [dev |-> d, st |-> 2]
              ELSE [dev |-> [d EXCEPT ![id].vars = @ \o DevDecode(body, kinds, Len(@) + 1)], st |-> 0]
         [] cmd = 2 ->
              IF id \notin DOMAIN d THEN [dev |-> d, st |-> 2]
              ELSE [dev |-> [x \in DOMAIN d \ {id} |-> d[x]], st |-> 0]
         [] cmd = 3 ->
              IF id \notin DOMAIN d THEN [dev |-> d, st |-> 2]
              ELSE [dev |-> [d EXCEPT ![id].started = TRUE, ![id].period = m[3]], st |-> 0]
         [] cmd = 4 ->
              IF id \notin DOMAIN d THEN [dev |-> d, st |-> 2]
              ELSE [dev |-> [d EXCEPT ![id].started = FALSE], st |-> 0]
         [] OTHER -> [dev |-> d, st |-> 8]

\* the library sends msgs in order; each is handled at once; the first one takes a pending injection
RECURSIVE SendAll(_, _, _, _)
SendAll(d, inj, msgs, kinds) ==
    IF msgs = <<>> THEN [dev |-> d, inj |-> inj, acks |-> <<>>]
    ELSE LET m == Head(msgs)
             h == IF inj # 0 THEN [dev |-> d, st |-> inj] ELSE DevHandle(d, m, kinds)
             r == SendAll(h.dev, 0, Tail(msgs), kinds)
         IN [dev |-> r.dev, inj |-> r.inj,
             acks |-> <<[cmd |-> m[1], id |-> m[2], st |-> h.st]>> \o r.acks]

\* ------------------------------------------------------------------ Log.add_config
SizeOf(vs) == P!SeqSum([j \in DOMAIN vs |-> P!TypeSize(IF Has("size_by_stored") /\ vs[j].k = "mem" THEN vs[j].s ELSE vs[j].f)])
FirstMissing(names) == IF \E j \in DOMAIN names : ~P!InToc(toc, names[j])
                       THEN CHOOSE j \in DOMAIN names : ~P!InToc(toc, names[j]) /\
                                                         \A k \in 1..(j - 1) : P!InToc(toc, names[k])
                       ELSE 0
TocVar(n) == [k |-> "toc", n |-> n, f |-> P!TocType(toc, n), s |-> 0, a |-> <<>>]

AddConfigBody(c) ==
    LET miss == FirstMissing(ldef[c])
        \* repaired: nothing is appended unless every default-typed name resolves; "partial_resolve" (code as found):
        \* the names before the first missing one are appended and stay, default_fetch_as is kept
        upto == IF miss = 0 THEN Len(ldef[c]) ELSE IF Has("partial_resolve") THEN miss - 1 ELSE 0
        \* default-typed names resolved (appended) until the first one that is not in the table
        lv1 == lvars[c] \o [j \in 1..upto |-> TocVar(ldef[c][j])]
        badvar == \E j \in DOMAIN lv1 : lv1[j].k = "toc" /\ ~P!InToc(toc, lv1[j].n)
        size == SizeOf(lv1)
        per == conf[c].period \div 10
        sizeok == IF Has("size_lt") THEN size < 26 ELSE size <= 26
        perok == per > 0 /\ (IF Has("period_le_255") THEN per <= 255 ELSE per < 255)
        res == IF miss # 0 \/ badvar THEN "KeyError"
               ELSE IF sizeok /\ perok THEN "ok" ELSE "AttributeError"
    IN /\ lvars' = [lvars EXCEPT ![c] = lv1]
       /\ ldef' = IF miss = 0 /\ ~Has("dup_readd") /\ (Has("reset_when_accepted") => res = "ok")
                THEN [ldef EXCEPT ![c] = <<>>] ELSE ldef
       /\ valid' = [valid EXCEPT ![c] = (res = "ok")]
       /\ IF res = "ok"
          THEN /\ hascf' = [hascf EXCEPT ![c] = TRUE]
               /\ cid' = [cid EXCEPT ![c] = idctr]
               /\ idctr' = (idctr + 1) % IdMod
               /\ blocks' = Append(blocks, c)
          ELSE UNCHANGED <<hascf, cid, idctr, blocks>>
       /\ ref' = IF res = "ok" /\ ~hasref[c] THEN [ref EXCEPT ![c] = lv1] ELSE ref
       /\ hasref' = IF res = "ok" THEN [hasref EXCEPT ![c] = TRUE] ELSE hasref
       /\ lastok' = [lastok EXCEPT ![c] = (res = "ok")]
       /\ obs' = [e |-> "add", c |-> c, res |-> res, first |-> ~hasref[c], readd |-> hasref[c] /\ ~InBlocks(c),
                  ref |-> ref[c],
                  vars |-> lv1, id |-> IF res = "ok" THEN idctr ELSE cid[c],
                  before |-> Flags, after |-> Flags, ncbs |-> 0]

AddConfig(c) ==
    /\ phase = "run" /\ link /\ nops < MaxOps
    /\ nops' = nops + 1
    /\ AddConfigBody(c)
    /\ UNCHANGED <<toc, conf, phase, cur, tpl, added, started, pending, link, envstate, sync, nfaults, ndata, nlate, layout>>

\* ------------------------------------------------------------------ LogConfig.create
TypeByte(v) == v.f + 16 * (IF v.k = "toc" THEN v.f ELSE v.s)
IdxBytes(v) == <<P!TocIdx(toc, v.n) % 256, P!TocIdx(toc, v.n) \div 256>>

\* _setup_log_elements(pk, next_to_add) -> [done, next, data, exc]
RECURSIVE Setup(_, _, _)
Setup(vs, i, data) ==
    IF i > Len(vs) THEN [done |-> TRUE, next |-> i, data |-> data, exc |-> "none"]
    ELSE LET v == vs[i] IN
         IF v.k = "mem"
         THEN IF Has("mem_raises") THEN [done |-> FALSE, next |-> i, data |-> data, exc |-> "TypeError"]
              ELSE IF 30 - Len(data) < 5 THEN [done |-> FALSE, next |-> i, data |-> data, exc |-> "none"]
              ELSE Setup(vs, i + 1, (data \o <<TypeByte(v)>>) \o v.a)
         ELSE IF Len(data) >= 30 THEN [done |-> FALSE, next |-> i, data |-> data, exc |-> "none"]
              ELSE LET d1 == Append(data, TypeByte(v)) IN
                   IF 30 - Len(d1) >= 2 THEN Setup(vs, i + 1, d1 \o IdxBytes(v))
                   ELSE [done |-> FALSE, next |-> (IF Has("skip_on_split") THEN i + 1 ELSE i),
                         data |-> d1, exc |-> "none"]

\* the send loop of create(): packets already completed are sent before an exception surfaces
RECURSIVE CreateMsgs(_, _, _, _)
CreateMsgs(vs, id, next, cmd) ==
    LET r == Setup(vs, next, <<cmd, id>>) IN
    IF r.exc # "none" THEN [msgs |-> <<>>, exc |-> r.exc]
    ELSE IF r.done THEN [msgs |-> <<r.data>>, exc |-> "none"]
    ELSE LET rest == CreateMsgs(vs, id, r.next, 7)
         IN [msgs |-> <<r.data>> \o rest.msgs, exc |-> rest.exc]

\* ------------------------------------------------------------------ user calls on a LogConfig
\* common tail of start/stop/delete: res, messages sent
UserOp(c, kind, res, msgs, newpending) ==
    LET r == SendAll(dev, inject, msgs, P!Kinds(lvars[c])) IN
    /\ dev' = r.dev /\ inject' = r.inj /\ acks' = acks \o r.acks
    /\ pending' = [pending EXCEPT ![c] = newpending]
    /\ obs' = [e |-> kind, c |-> c, res |-> res, sent |-> msgs, wasAdded |-> added[c],
               accepted |-> lastok[c], before |-> Flags,
               after |-> [Flags EXCEPT ![c].started =
                             IF Has("optimistic_start") /\ kind = "start" /\ res = "ok" THEN TRUE ELSE @],
               ncbs |-> 0]

StartBody(c) ==
    IF ~hascf[c] THEN UserOp(c, "start", "AttributeError", <<>>, pending[c]) /\ UNCHANGED started
    ELSE IF ~added[c]
    THEN LET cm == CreateMsgs(lvars[c], cid[c], 1, 6) IN
         /\ UserOp(c, "start", IF cm.exc = "none" THEN "ok" ELSE cm.exc, cm.msgs, pending[c] + 1)
         /\ started' = IF Has("optimistic_start") /\ cm.exc = "none" THEN [started EXCEPT ![c] = TRUE] ELSE started
    ELSE /\ UserOp(c, "start", "ok", << <<3, cid[c], conf[c].period \div 10>> >>, pending[c])
         /\ started' = IF Has("optimistic_start") THEN [started EXCEPT ![c] = TRUE] ELSE started

\* (without a link start/stop/delete do nothing; Next explores them only with a link)
Start(c) == /\ phase = "run" /\ nops < MaxOps
            /\ nops' = nops + 1
            /\ IF hascf[c] /\ ~link THEN UserOp(c, "start", "ok", <<>>, pending[c]) /\ UNCHANGED started
               ELSE StartBody(c)
            /\ UNCHANGED <<toc, conf, phase, cur, tpl, lvars, ldef, valid, cid, hascf, added, blocks, idctr, link,
                           sync, nfaults, ndata, nlate, layout, ref, hasref, lastok>>

Stop(c) == /\ phase = "run" /\ nops < MaxOps
           /\ nops' = nops + 1
           /\ IF ~hascf[c] THEN UserOp(c, "stop", "AttributeError", <<>>, pending[c])
              ELSE IF ~link THEN UserOp(c, "stop", "ok", <<>>, pending[c])
              ELSE UserOp(c, "stop", "ok", << <<4, cid[c]>> >>, pending[c])
           /\ UNCHANGED <<toc, conf, phase, cur, tpl, lvars, ldef, valid, cid, hascf, added, started, blocks,
                          idctr, link, sync, nfaults, ndata, nlate, layout, ref, hasref, lastok>>

Delete(c) == /\ phase = "run" /\ nops < MaxOps
             /\ nops' = nops + 1
             /\ IF ~hascf[c] THEN UserOp(c, "delete", "AttributeError", <<>>, pending[c])
                ELSE IF ~link THEN UserOp(c, "delete", "ok", <<>>, pending[c])
                ELSE UserOp(c, "delete", "ok", << <<2, cid[c]>> >>, pending[c])
             /\ UNCHANGED <<toc, conf, phase, cur, tpl, lvars, ldef, valid, cid, hascf, added, started, blocks,
                            idctr, link, sync, nfaults, ndata, nlate, layout, ref, hasref, lastok>>

\* close_link (or a link error): the link object is gone, acknowledgements in flight with it.
\* A SyncLogger whose disconnected callback is registered gets Crazyflie.disconnected: disconnect()
\* (only when connected: stop/delete are no-ops without a link, callbacks removed), then the
\* DISCONNECT marker is queued.  LogConfig objects and Log.log_blocks are not touched.
CloseLink ==
    /\ phase = "run" /\ link /\ nops < MaxOps
    /\ nops' = nops + 1
    /\ link' = FALSE /\ acks' = <<>> /\ inject' = 0
    /\ sync' = IF sync.dcb
               THEN [sync EXCEPT !.q = Append(@, [k |-> "disc"]), !.disc = TRUE, !.drained = (sync.q = <<>>),
                                 !.on = FALSE, !.cb = IF sync.on THEN FALSE ELSE @,
                                 !.dcb = IF sync.on THEN FALSE ELSE @]
               ELSE sync
    /\ obs' = [e |-> "disc", before |-> Flags, after |-> Flags]
    /\ UNCHANGED <<toc, conf, phase, cur, tpl, lvars, ldef, valid, cid, hascf, added, started, pending, blocks, idctr,
                   dev, nfaults, ndata, nlate, layout, ref, hasref, lastok>>

\* open_link: the handshake resets the device's log blocks (RESET) and Log.log_blocks, the table is
\* downloaded again; LogConfig objects keep id, flags and variables.
OpenLink(t) ==
    /\ phase = "run" /\ ~link
    /\ link' = TRUE /\ blocks' = <<>> /\ dev' = EmptyFn /\ toc' = t
    /\ obs' = [e |-> "reconnect", before |-> Flags, after |-> Flags]
    /\ UNCHANGED <<conf, phase, cur, tpl, lvars, ldef, valid, cid, hascf, added, started, pending, idctr,
                   acks, inject, sync, bounds, ref, hasref, lastok>>

\* ------------------------------------------------------------------ Log._new_packet_cb, settings channel
FindBlock(id) ==
    IF Has("ack_any_block") THEN (IF blocks = <<>> THEN 0 ELSE blocks[1])
    ELSE IF \E j \in DOMAIN blocks : cid[blocks[j]] = id
         THEN blocks[CHOOSE j \in DOMAIN blocks : cid[blocks[j]] = id /\ \A k \in 1..(j - 1) : cid[blocks[k]] # id]
         ELSE 0

SetFlag(f, c, v) == [f EXCEPT ![c] = v]
Cb(c, w, old, new) == IF old # new THEN << <<c, w, new>> >> ELSE <<>>

Deliver ==
    /\ phase = "run" /\ link /\ acks # <<>>
    /\ LET a == Head(acks)
           b == FindBlock(a.id)
           okc == a.st \in {0, 17} \/ Has("start_on_error")
           mk(ad, stt, pe, msgs, cbs) ==
               LET r == SendAll(dev, inject, msgs, <<>>) IN
               /\ added' = ad /\ started' = stt /\ pending' = pe
               /\ dev' = r.dev /\ inject' = r.inj /\ acks' = Tail(acks) \o r.acks
               /\ obs' = [e |-> "ack", cmd |-> a.cmd, id |-> a.id, st |-> a.st, sent |-> msgs,
                          mine |-> [c \in Cs |-> InBlocks(c) /\ cid[c] = a.id],
                          before |-> Flags,
                          after |-> [c \in Cs |-> [added |-> ad[c], started |-> stt[c]]],
                          cbs |-> cbs]
       IN IF b = 0 THEN mk(added, started, pending, <<>>, <<>>)
          ELSE IF a.cmd = 6
          THEN IF okc
               THEN IF ~added[b]
                    THEN mk(SetFlag(added, b, TRUE), started, [pending EXCEPT ![b] = 0],
                            << <<3, a.id, conf[b].period \div 10>> >>, << <<b, "added", TRUE>> >>)
                    ELSE mk(added, started, pending, <<>>, <<>>)
               ELSE IF Known(a.st) THEN mk(added, started, pending, <<>>, << <<b, "added", FALSE>> >>)
                    ELSE mk(added, started, pending, <<>>, <<>>)
          ELSE IF a.cmd = 3
          THEN IF a.st = 0 THEN mk(added, SetFlag(started, b, TRUE), pending, <<>>, Cb(b, "started", started[b], TRUE))
               ELSE IF Known(a.st) THEN mk(added, started, pending, <<>>, << <<b, "started", FALSE>> >>)
                    ELSE mk(added, started, pending, <<>>, <<>>)
          ELSE IF a.cmd = 4
          THEN IF a.st = 0 THEN mk(added, SetFlag(started, b, FALSE), pending, <<>>, Cb(b, "started", started[b], FALSE))
               ELSE mk(added, started, pending, <<>>, <<>>)
          ELSE IF a.cmd = 2
          THEN IF a.st \in {0, 2}
               THEN mk(SetFlag(added, b, FALSE), SetFlag(started, b, FALSE), pending, <<>>,
                       Cb(b, "started", started[b], FALSE) \o Cb(b, "added", added[b], FALSE))
               ELSE mk(added, started, pending, <<>>, <<>>)
          ELSE mk(added, started, pending, <<>>, <<>>)
    /\ UNCHANGED <<toc, conf, phase, cur, tpl, lvars, ldef, valid, cid, hascf, blocks, idctr, link, sync, bounds,
                   ref, hasref, lastok>>

\* ------------------------------------------------------------------ environment
Inject(st) == /\ phase = "run" /\ link /\ inject = 0 /\ nfaults < MaxFaults
              /\ inject' = st /\ nfaults' = nfaults + 1
              /\ obs' = NoObs
              /\ UNCHANGED <<toc, conf, phase, cur, tpl, libstate, dev, acks, sync, nops, ndata, nlate, layout, ref, hasref, lastok>>

DropAck == /\ phase = "run" /\ link /\ acks # <<>> /\ nfaults < MaxFaults
           /\ acks' = Tail(acks) /\ nfaults' = nfaults + 1
           /\ obs' = NoObs
           /\ UNCHANGED <<toc, conf, phase, cur, tpl, libstate, dev, inject, sync, nops, ndata, nlate, layout, ref, hasref, lastok>>

\* ------------------------------------------------------------------ log data
\* the device sends one data packet for a started block (in Next: payload byte j is j, so slices
\* identify themselves, timestamp bytes 1,2,3).  The library slices it by the fetch sizes of
\* LogConfig.variables; a short payload makes struct.unpack raise (no sample).
DevTypes(id) == [j \in DOMAIN dev[id].vars |-> dev[id].vars[j].t % 16]
DevSize(id) == P!SeqSum([j \in DOMAIN dev[id].vars |-> P!TypeSize(dev[id].vars[j].t % 16)])
Data(id, tsb, payload) ==
    /\ phase = "run" /\ link /\ ndata < MaxData
    /\ id \in DOMAIN dev /\ dev[id].started
    /\ Len(payload) = DevSize(id)
    /\ ndata' = ndata + 1
    /\ LET types == DevTypes(id)
           n == Len(payload)
           wire == (<<id>> \o tsb) \o payload
           b == FindBlock(id)
           cur_lt == IF b = 0 THEN <<>> ELSE
                 [j \in DOMAIN lvars[b] |-> IF Has("slice_by_stored") /\ lvars[b][j].k = "mem"
                                             THEN lvars[b][j].s ELSE lvars[b][j].f]
           lt == IF Has("stale_layout") /\ b # 0 /\ layout[b].set THEN layout[b].lt ELSE cur_lt
           sizes == [j \in DOMAIN lt |-> P!TypeSize(lt[j])]
           off(j) == P!SeqSum(SubSeq(sizes, 1, j - 1))
           fits == P!SeqSum(sizes) <= n
           val(j) == P!Canon(lt[j], SubSeq(wire, 4 + off(j) + 1, 4 + off(j) + sizes[j]))
           \* data_received_cb gets a dict name -> value (a repeated name keeps its last value); the
           \* observation lists the values under the names of the reference list
           last(nm) == CHOOSE j \in DOMAIN lt : lvars[b][j].n = nm /\ \A k \in (j + 1)..Len(lt) : lvars[b][k].n # nm
           sample == [c |-> b, ts |-> tsb[1] + 256 * tsb[2] + 65536 * tsb[3],
                      vals |-> [j \in DOMAIN ref[b] |->
                                  IF \E k \in DOMAIN lt : lvars[b][k].n = ref[b][j].n THEN val(last(ref[b][j].n))
                                  ELSE <<"missing", 0, 0, 0>>],
                      nkeys |-> Cardinality({lvars[b][j].n : j \in DOMAIN lt})]
           gots == IF b # 0 /\ fits THEN <<sample>> ELSE <<>>
           mine == IF \E c \in Cs : InBlocks(c) /\ cid[c] = id
                   THEN CHOOSE c \in Cs : InBlocks(c) /\ cid[c] = id ELSE 0
       IN /\ obs' = [e |-> "data", wire |-> wire, types |-> types, mine |-> mine, gots |-> gots,
                     before |-> Flags, after |-> Flags, ncbs |-> 0]
          /\ layout' = IF Has("stale_layout") /\ b # 0 /\ ~layout[b].set THEN [layout EXCEPT ![b] = [set |-> TRUE, lt |-> cur_lt]] ELSE layout
          /\ sync' = IF sync.cb /\ b = 1 /\ gots # <<>>
                     THEN [sync EXCEPT !.q = Append(@, [k |-> "sample", v |-> sample]), !.samples = Append(@, sample)]
                     ELSE sync
    /\ UNCHANGED <<toc, conf, phase, cur, tpl, libstate, envstate, nops, nfaults, nlate, ref, hasref, lastok>>

DataStd(id) == Data(id, <<1, 2, 3>>, [j \in 1..DevSize(id) |-> j])

\* ------------------------------------------------------------------ SyncLogger(cf, config 1)
\* connect(): add the disconnected callback, add_config (SyncConnect1); add the data callback, start,
\* _is_connected = True (SyncConnect2).  An exception from add_config / start propagates to the
\* caller and leaves _is_connected False.
SyncConnect1 ==
    /\ phase = "run" /\ link /\ nops < MaxOps /\ ~sync.on /\ sync.st = "none"
    /\ nops' = nops + 1
    /\ AddConfigBody(1)
    /\ sync' = [sync EXCEPT !.dcb = TRUE, !.st = IF valid'[1] THEN "connecting" ELSE "none"]
    /\ UNCHANGED <<toc, conf, phase, cur, tpl, added, started, pending, link, envstate, nfaults, ndata, nlate, layout>>

SyncConnect2 ==
    /\ phase = "run" /\ link /\ sync.st = "connecting"
    /\ StartBody(1)
    /\ sync' = [sync EXCEPT !.cb = TRUE, !.on = (obs'.res = "ok"),
                            !.st = IF obs'.res = "ok" THEN "iter" ELSE "none"]
    /\ UNCHANGED <<toc, conf, phase, cur, tpl, lvars, ldef, valid, cid, hascf, added, blocks, idctr, link,
                   bounds, ref, hasref, lastok>>

\* __next__: returns the next queued sample; StopIteration when not connected or at the marker;
\* blocks (not enabled) on an empty queue while connected
SyncNext ==
    /\ phase = "run" /\ sync.st = "iter"
    /\ \/ /\ ~sync.on
          /\ sync' = [sync EXCEPT !.st = "stopped", !.early = ~sync.disc]
       \/ /\ sync.on /\ sync.q # <<>>
          /\ IF Head(sync.q).k = "disc"
             THEN sync' = [sync EXCEPT !.st = "stopped", !.q = Tail(@)]
             ELSE sync' = [sync EXCEPT !.yields = Append(@, Head(sync.q).v), !.q = Tail(@)]
    /\ obs' = NoObs
    /\ UNCHANGED <<toc, conf, phase, cur, tpl, libstate, envstate, bounds, ref, hasref, lastok>>

\* ------------------------------------------------------------------ next-state relation
\* what the model checker explores: user calls only with a link; configuration 1 only through the
\* SyncLogger when WithSync
User(c) == link /\ ~(WithSync /\ c = 1)
\* (a LogConfig is added again in the same session only when it is not live; a configuration changed by a late
\* add_variable/add_memory is added again before it is started)
Changed(c) == lastok[c] /\ ~hasref[c]
\* (not explored: calls on a LogConfig that was accepted once and whose latest add_config was rejected -- it keeps
\* its Crazyflie and id, so start/stop/delete would still send; see report)
Stale(c) == hascf[c] /\ ~lastok[c]
UAdd(c) == User(c) /\ (~InBlocks(c) \/ NotLive(c)) /\ AddConfig(c)
UStart(c) == User(c) /\ ~Changed(c) /\ ~Stale(c) /\ Start(c)
UAddVar(c, t) == User(c) /\ NotLive(c) /\ Len(conf[c].vars) < MaxPos /\ AddVarLate(c, Instance(t, Len(conf[c].vars) + 1))
UStop(c) == User(c) /\ ~Stale(c) /\ Stop(c)
UDelete(c) == User(c) /\ ~Stale(c) /\ Delete(c)
SConnect1 == WithSync /\ ~Changed(1) /\ (~InBlocks(1) \/ NotLive(1)) /\ SyncConnect1
SConnect2 == WithSync /\ SyncConnect2
SNext == WithSync /\ SyncNext

Next == \/ \E p \in Periods : NewConfig(p)
        \/ \E v \in VarAlpha : AddVariable(v)
        \/ Go
        \/ \E c \in Cs : UAdd(c)
        \/ \E c \in Cs : UStart(c)
        \/ \E c \in Cs : UStop(c)
        \/ \E c \in Cs : UDelete(c)
        \/ \E c \in Cs, t \in VarAlpha : UAddVar(c, t)
        \/ CloseLink \/ OpenLink(toc) \/ Deliver \/ DropAck
        \/ \E t \in TocAlts : OpenLink(t)
        \/ \E st \in Statuses : Inject(st)
        \/ \E id \in DOMAIN dev : DataStd(id)
        \/ SConnect1 \/ SConnect2 \/ SNext

Spec == Init /\ [][Next]_vars
FairSpec == Spec /\ WF_vars(SyncNext)

\* ------------------------------------------------------------------ properties (C05)
FirstBad(f) == IF \E c \in Cs : f[c] # "ok" THEN f[CHOOSE c \in Cs : f[c] # "ok"] ELSE "ok"

ObsClause ==
    CASE obs.e = "add" ->
           LET a == P!AddClause(conf[obs.c], toc, obs.first, obs.readd, obs.ref, obs.res, obs.vars) IN
           IF a # "ok" THEN a ELSE P!QuietClause(obs.before, obs.after, obs.ncbs)
      [] obs.e \in {"start", "stop", "delete"} ->
           IF ~obs.accepted /\ obs.sent # <<>> THEN "SentForRejected"
           ELSE IF obs.e = "start" /\ obs.accepted /\ ~obs.wasAdded /\
                   P!CreateClause(ref[obs.c], toc, cid[obs.c], obs.sent) # "ok"
                THEN P!CreateClause(ref[obs.c], toc, cid[obs.c], obs.sent)
           ELSE P!QuietClause(obs.before, obs.after, obs.ncbs)
      [] obs.e = "ack" ->
           FirstBad([c \in Cs |-> P!AckClause(obs.cmd, obs.st, obs.mine[c], obs.before[c], obs.after[c],
                                              LET mine == SelectSeq(obs.cbs, LAMBDA x : x[1] = c)
                                              IN [j \in DOMAIN mine |-> <<mine[j][2], mine[j][3]>>])])
      [] obs.e = "data" ->
           LET d == P!PacketClause(obs.types, obs.wire, obs.mine, obs.gots,
                                   IF obs.mine = 0 THEN 0 ELSE Len(ref[obs.mine])) IN
           IF d # "ok" THEN d ELSE P!QuietClause(obs.before, obs.after, obs.ncbs)
      [] obs.e \in {"reconnect", "disc"} -> "ok"
      [] OTHER -> "ok"

ObsOK == ObsClause = "ok"
\* invariant part of the SyncLogger clause (the end of the iteration is the liveness property below)
SyncOK == P!SyncClause(sync.samples, sync.samples, sync.yields, sync.disc, TRUE, sync.early,
                       sync.drained /\ sync.st = "stopped") = "ok"
\* a consumer that keeps calling __next__ ends after the disconnect
SyncEnds == (sync.disc /\ sync.st = "iter") ~> (sync.st = "stopped")

TypeOK == /\ phase \in {"config", "run"}
          /\ idctr \in 0..(IdMod - 1)
          /\ \A c \in Cs : pending[c] \in 0..MaxOps
          /\ \A j \in DOMAIN acks : acks[j].cmd \in 0..7
=============================================================================
