SPECIFICATION Spec
CONSTANTS
  Helper = "PHC"
  DH = 400
  DV = 250
  DL = 200
CHECK_DEADLOCK FALSE
