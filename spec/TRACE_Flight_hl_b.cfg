SPECIFICATION Spec
CONSTANTS
  Helper = "PHC"
  DH = 400
  DV = 250
  DL = 200
  X0 = 0
  Y0 = 0
  Z0 = 0
CHECK_DEADLOCK FALSE
