SPECIFICATION Spec
CONSTANTS
  Helper = "PHC"
  Mode = "explicit"
  Prims <- HlSim
  MaxLen = 8
  DH = 500
  DV = 500
  DL = 200
  Period = 200
  X0 = 1000
  Y0 = 500
  Z0 = 200
  Lats = {}
  MaxLat = 0
  Bug = "none"
INVARIANT NoViolation
INVARIANT Ended
CHECK_DEADLOCK FALSE
INVARIANT PosTracks
