---- MODULE MC_ImagesSim ----
(* case sets for tlc -simulate (spec -> code) *)
EXTENDS MC_Images

CorPosSim == [f \in {"eeprom", "ow"} |-> IF f = "eeprom" THEN 1..21 ELSE 1..24]
EeSim == <<{<<v, ch, sp, p, a, fill, TRUE>> : v \in {0, 1}, ch \in {0, 80, 125}, sp \in {0, 2}, p \in 0..9, a \in {A1, A2}, fill \in {0, 255}}>>
OwSim == OwCases(<<{0}, 0..99, {0, 1, 2, 3, 4, 5, 30, 68, 70, 72, 95}, {0, 1, 2, 3, 20}>>, 17, 112, TRUE)
CasesSim == Cases(EeSim, OwSim, LhQuick, LhFileQuick, <<{<<a, b, n, 3>> : a \in {1, 3, 127, 0, 85}, b \in 0..3, n \in {0, 5, 18}}>>)
ValsSim == {0, 1, 2, 3, 5, 74, 128, 255}
====
