SPECIFICATION Spec
CONSTANT NRegs = 4
CHECK_DEADLOCK FALSE
