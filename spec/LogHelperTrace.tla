------------------------------ MODULE LogHelperTrace ------------------------------
(* Trace spec for X02 / log helpers (Multiranger, reset_estimator).  One TLC run judges a batch of
   traces recorded from the real helpers on a real Crazyflie connected to the simulated device.

   Trace object [id, rate, haskalman, script, ev, blocked, devblocks]; events are records with the fields
   e, op, cmd, id, vars, per, st, vals, read, v, t, res (see LogHelperProps); "emit" "take" "prx" "wake" "updclose" "disc" are
   needed by the binding only.  Mode (ranger / estimator) is a constant of the run: the harness sends the
   traces of the two helpers in separate batches.

   monitor: mmon/mbad rebuilt from the events with LogHelperProps; end-of-trace clause from the scheduler's
            report.   conform: every event must be the `obs` of an enabled action of LogHelper.          *)
EXTENDS Naturals, Integers, Sequences, FiniteSets, TLC, Json, IOUtils

CONSTANT Mode

Traces == JsonDeserialize(IOEnv.TRACE_FILE)

VARIABLES tid, l, mmon, mbad, mbadAt, conf, confAt,
          rate, haskalman, script, pc, op, excbody, rres, si, bid, ladded, pendstart, lccf, toc, pcpend, scb, discpend, sconn, vals, window, syncq,
          pq, pinfl, t1, now, dblk, inq, link, ndata, obs, mon, bad

T == Traces[tid]
Ev == T.ev[l]

Rates == {}
Scripts == {}
Vectors == {}
MaxData == 1000000
MaxQ == 1000000
Times == {}
LinkLoss == TRUE
HasKalman == {}
Bug == "none"

D == INSTANCE LogHelper
P == INSTANCE LogHelperProps

specvars == <<rate, haskalman, script, pc, op, excbody, rres, si, bid, ladded, pendstart, lccf, toc, pcpend, scb, discpend, sconn, vals, window, syncq,
              pq, pinfl, t1, now, dblk, inq, link, ndata, obs, mon, bad>>

Init == /\ tid \in 1..Len(Traces)
        /\ l = 1
        /\ mmon = P!M0(Mode, Traces[tid].rate, Traces[tid].haskalman) /\ mbad = "ok" /\ mbadAt = 0
        /\ conf = TRUE /\ confAt = 0
        /\ rate = Traces[tid].rate /\ haskalman = Traces[tid].haskalman /\ script = Traces[tid].script
        /\ pc = "idle" /\ op = "" /\ excbody = FALSE /\ rres = "" /\ si = 1
        /\ bid = 0 /\ ladded = FALSE /\ pendstart = FALSE /\ lccf = FALSE /\ toc = TRUE /\ pcpend = FALSE /\ scb = FALSE /\ discpend = FALSE /\ sconn = FALSE
        /\ vals = [j \in 1..6 |-> -1]
        /\ window = P!Window0 /\ syncq = <<>>
        /\ pq = <<>> /\ pinfl = FALSE /\ t1 = 0 /\ now = Traces[tid].t0
        /\ dblk = D!NoBlk /\ inq = <<>> /\ link = "up" /\ ndata = 0
        /\ obs = D!E0 /\ mon = P!M0(Mode, Traces[tid].rate, Traces[tid].haskalman) /\ bad = "ok"

Conform(A) == IF conf /\ ENABLED A
              THEN A /\ UNCHANGED <<conf, confAt>>
              ELSE /\ conf' = FALSE /\ confAt' = (IF conf THEN l ELSE confAt)
                   /\ UNCHANGED specvars

Step == /\ l <= Len(T.ev)
        /\ l' = l + 1 /\ UNCHANGED tid
        /\ mmon' = P!Apply(mmon, Ev)
        /\ LET c == P!EventClause(mmon, Ev) IN
           IF mbad = "ok" /\ c # "ok" THEN mbad' = c /\ mbadAt' = l ELSE UNCHANGED <<mbad, mbadAt>>
        /\ CASE Ev.e = "emit" -> Conform(D!EmitData(Ev.vals) /\ obs' = Ev)
             [] Ev.e = "wake" -> Conform(D!SleepWake(Ev.t - t1) /\ obs' = Ev)
             [] Ev.e = "pcall" -> Conform(D!PCall(Ev.v, Ev.t) /\ obs' = Ev)
             [] OTHER -> Conform((D!UserNoTime \/ D!Lib \/ D!LinkDrop) /\ obs' = Ev)

Finish == /\ l = Len(T.ev) + 1
          /\ l' = l + 1
          /\ LET b == IF mbad # "ok" THEN mbad ELSE P!EndClause(mmon, T.blocked, T.devblocks)
                 at == IF mbad # "ok" THEN mbadAt ELSE IF b # "ok" THEN l ELSE 0
             IN PrintT(<<"VERDICT", T.id, b, at, conf, confAt>>)
          /\ UNCHANGED <<tid, mmon, mbad, mbadAt, conf, confAt, specvars>>

Next == Step \/ Finish
Spec == Init /\ [][Next]_<<tid, l, mmon, mbad, mbadAt, conf, confAt, specvars>>
=============================================================================
