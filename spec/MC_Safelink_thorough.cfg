SPECIFICATION Spec
CONSTANTS
  NUp = 3
  NDown = 3
  Retries = 4
  NegAttempts = 10
  MaxLoss = 6
  MaxNegLoss = 3
  MaxRestarts = 0
  MaxSlow = 0
  PeerModes <- ModesSL
  DenyReplies <- DenyMany
  AckTails <- TailsRssi
  Bug = "none"
INVARIANT PropertyHolds
INVARIANT StepFormHolds
INVARIANT CompleteAtRest
INVARIANT SafelinkIffEcho
INVARIANT NeedsResendingIsNotSafelink
INVARIANT Lockstep
INVARIANT TypeOK
CHECK_DEADLOCK FALSE
