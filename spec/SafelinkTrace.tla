------------------------------ MODULE SafelinkTrace ------------------------------
(* Trace spec for C01.  One TLC run judges a batch of traces recorded from the real
   RadioDriver / _RadioDriverThread / _SharedRadio / Crazyradio stack driven over a scripted USB
   dongle (harness/props/C01.py).  Init picks a trace, one step per event.

   Events  (T.ev[l], field e):
     "tx"   one USB transfer: f = frame written, o = outcome "A"|"U"|"L", rep = bytes read back,
            d = milliseconds of (virtual) time the exchange with the dongle took,
            st = <<_curr_up, _curr_down, _has_safelink (0/1), _retry_before_disconnect,
                   link.needs_resending (0/1)>> of the driver at that moment
     "in"   the radio loop put the packet p into in_queue       "og"  it took p (or <<>>) from out_queue
     "sub"  RadioDriver.send_packet(p) returned True             "rcv" receive_packet returned p
     "cfq"  the Crazyflie queued p                               "err" link_error_callback was called
     "rej"  RadioDriver.send_packet returned False (not accepted)
     "preq" the application calls RadioDriver.pause() (stop(): _sp := True, then join)
     "pause" pause() has returned (the comm thread is gone)
     "reboot" the Crazyflie came back as a peer of kind `mode` (while paused)
     "restart" RadioDriver.restart() has returned: a new comm thread, a new start-up

   monitor (the verdict):  the events rebuild the observable history record of SafelinkProps; the
       peer's behaviour (which frames it takes as new, what it answers) is RE-DERIVED here with
       SafelinkProps!PeerRx from the frames and outcomes, and compared with the bytes the Python
       twin returned (mach # "ok" = the harness' peer twin disagrees with the TLA+ rule: a
       machinery failure, never a verdict).  StepClause after every event, FinalClause at the end.
   conform (the binding):  the same events must be explained by the actions of Safelink with the
       logged driver state equal to the spec state. *)
EXTENDS Integers, Sequences, TLC, Json, IOUtils

Traces == JsonDeserialize(IOEnv.TRACE_FILE)

VARIABLES tid, l,
          mh, mpeer, dataPhase, tail, nIn, nRcv, bad, badAt, mach,       \* monitor
          conf, confAt, errOwed,                                         \* conformance
          retries, negAtt, pc, sp, nPause, negLeft, hasSL, hUp, hDown, frame, retryLeft, pend, outQ, inQ,
          needsRes, peer, nSub, nQ, lossLeft, negLossLeft, usb, h        \* design-spec variables

T == Traces[tid]
\* constants of Safelink that its actions do not use
NUp == 0
MaxRestarts == 0
MaxSlow == 0
NDown == 0
Retries == 0
NegAttempts == 0
MaxLoss == 0
MaxNegLoss == 0
PeerModes == {}
DenyReplies == {}
AckTails == {}
Bug == "none"

D == INSTANCE Safelink
P == INSTANCE SafelinkProps

specvars == <<retries, negAtt, pc, sp, nPause, negLeft, hasSL, hUp, hDown, frame, retryLeft, pend, outQ, inQ,
              needsRes, peer, nSub, nQ, lossLeft, negLossLeft, usb, h>>
monvars == <<mh, mpeer, dataPhase, tail, nIn, nRcv>>
Ev == T.ev[l]

Init == /\ tid \in 1..Len(Traces)
        /\ l = 1
        /\ mh = D!H0(Traces[tid].mode)
        /\ mpeer = P!PeerInit(Traces[tid].mode, Traces[tid].tail, Traces[tid].deny)
        /\ dataPhase = FALSE /\ tail = 0 /\ nIn = 0 /\ nRcv = 0
        /\ bad = "ok" /\ badAt = 0 /\ mach = "ok"
        /\ conf = TRUE /\ confAt = 0 /\ errOwed = FALSE
        /\ D!InitWith(Traces[tid].retries, Traces[tid].negatt, Traces[tid].mode,
                      Traces[tid].tail, Traces[tid].deny)
        /\ lossLeft = 1000000 /\ negLossLeft = 1000000
        /\ usb = [stale |-> <<>>, slowLeft |-> 1000000]

Conform(A) == IF conf /\ ENABLED A
              THEN A /\ UNCHANGED <<conf, confAt>>
              ELSE /\ conf' = FALSE /\ confAt' = (IF conf THEN l ELSE confAt)
                   /\ UNCHANGED specvars

\* monitor bookkeeping: first failing clause sticks
Judge(hn) == LET c == P!StepClause(hn, T.retries) IN
             IF bad = "ok" /\ c # "ok" THEN bad' = c /\ badAt' = l ELSE UNCHANGED <<bad, badAt>>
Freeze(s, p) == IF P!Frozen(mh) THEN s ELSE P!AddPkt(s, p)

StOK == /\ hUp = Ev.st[1] /\ hDown = Ev.st[2] /\ hasSL = (Ev.st[3] = 1)
        /\ retryLeft = Ev.st[4] /\ needsRes = (Ev.st[5] = 1)

\* ---------------------------------------------------------------- one USB transfer
MTx ==
    /\ Ev.e = "tx"
    /\ LET startup == ~dataPhase /\ P!IsService(Ev.f)
           r == P!PeerRx(mpeer, Ev.f)
           rep == P!UsbReply(Ev.o, r.ack)
           acked == Ev.o = "A"
           hn == [mh EXCEPT
                    !.cf = IF Ev.o # "U" /\ r.new THEN Freeze(@, Ev.f) ELSE @,
                    !.echo = @ \/ (startup /\ P!IsEchoReply(Ev.rep)),
                    !.conf = @ \/ (startup /\ ~mh.closed /\ P!IsEchoReply(Ev.rep)),
                    !.link = IF startup THEN @ ELSE P!LinkAppend(@, IF acked THEN "A" ELSE "L"),
                    !.slUsed = @ \/ (~startup /\ P!Bit3(Ev.f[1]) + P!Bit2(Ev.f[1]) # 2),
                    !.nrFalse = @ \/ (~startup /\ Ev.st[5] = 0)]
       IN /\ mh' = hn
          /\ mpeer' = IF Ev.o = "U" THEN mpeer ELSE r.p
          /\ mach' = IF mach = "ok" /\ Ev.rep # rep THEN "PeerTwinMismatch" ELSE mach
          /\ dataPhase' = ~startup
          /\ tail' = IF startup THEN tail ELSE IF acked THEN tail + 1 ELSE 0
          /\ Judge(hn)
          /\ IF startup
             THEN Conform(D!NegTx(Ev.o) /\ StOK /\ Ev.f = P!NegFrame) /\ UNCHANGED errOwed
             ELSE /\ Conform(D!DataTx(Ev.o, Ev.d > 1000) /\ StOK /\ D!Wire = Ev.f /\ ~errOwed)
                  /\ errOwed' = (conf' /\ h'.link # <<>> /\ h'.link[Len(h'.link)] = "E")
    /\ UNCHANGED <<nIn, nRcv>>

MIn == /\ Ev.e = "in"
       /\ nIn' = nIn + 1
       /\ UNCHANGED <<mh, mpeer, dataPhase, tail, nRcv, bad, badAt, mach, errOwed>>
       /\ Conform(D!InPut /\ P!Norm(pend) = P!Norm(Ev.p))

MOg == /\ Ev.e = "og"
       /\ UNCHANGED <<monvars, bad, badAt, mach, errOwed>>
       /\ Conform(D!OutGet /\ outQ = (IF Ev.p = <<>> THEN <<>> ELSE <<Ev.p>>))

MSub == /\ Ev.e = "sub"
        /\ LET hn == [mh EXCEPT !.acc = Freeze(@, Ev.p)] IN mh' = hn /\ Judge(hn)
        /\ tail' = 0
        /\ UNCHANGED <<mpeer, dataPhase, nIn, nRcv, mach, errOwed>>
        /\ Conform(D!AppSubmit(Ev.p))

MRcv == /\ Ev.e = "rcv"
        /\ LET hn == [mh EXCEPT !.got = Freeze(@, Ev.p)] IN mh' = hn /\ Judge(hn)
        /\ nRcv' = nRcv + 1
        /\ UNCHANGED <<mpeer, dataPhase, tail, nIn, mach, errOwed>>
        /\ IF P!IsNull(Ev.p) THEN UNCHANGED <<specvars, conf, confAt>>
           ELSE Conform(D!AppRecv /\ P!Norm(Head(inQ)) = P!Norm(Ev.p))

MCfq == /\ Ev.e = "cfq"
        /\ LET hn == [mh EXCEPT !.cfq = Freeze(@, Ev.p)] IN mh' = hn /\ Judge(hn)
        /\ mpeer' = P!PeerQueue(mpeer, Ev.p)
        /\ tail' = 0
        /\ UNCHANGED <<dataPhase, nIn, nRcv, mach, errOwed>>
        /\ Conform(D!CfQueue(Ev.p))

MErr == /\ Ev.e = "err"
        /\ LET hn == [mh EXCEPT !.link = P!LinkAppend(@, "E"), !.failed = TRUE] IN mh' = hn /\ Judge(hn)
        /\ UNCHANGED <<mpeer, dataPhase, tail, nIn, nRcv, mach>>
        /\ errOwed' = FALSE
        /\ Conform(errOwed /\ UNCHANGED specvars)

\* ---------------------------------------------------------------- pause() / restart()
MPreq == /\ Ev.e = "preq"
         /\ LET hn == [mh EXCEPT !.closed = TRUE] IN mh' = hn /\ Judge(hn)
         /\ UNCHANGED <<mpeer, dataPhase, tail, nIn, nRcv, mach, errOwed>>
         /\ Conform(D!PauseReq)

\* the thread ended in the step that reached the loop top with _sp set; pause() returning is no step
\* of the design spec, but by then the spec must agree that there is no comm thread
MPause == /\ Ev.e = "pause"
          /\ UNCHANGED <<monvars, bad, badAt, mach, errOwed>>
          /\ Conform(pc = "paused" /\ UNCHANGED specvars)

MReboot == /\ Ev.e = "reboot"
           /\ mpeer' = P!PeerInit(Ev.mode, T.tail, T.deny)
           /\ UNCHANGED <<mh, dataPhase, tail, nIn, nRcv, bad, badAt, mach, errOwed>>
           /\ Conform(D!Reboot(Ev.mode))

MRestart == /\ Ev.e = "restart"
            /\ LET hn == P!SessionReset(mh) IN mh' = hn /\ Judge(hn)
            /\ dataPhase' = FALSE
            /\ UNCHANGED <<mpeer, tail, nIn, nRcv, mach, errOwed>>
            /\ Conform(D!Restart)

\* send_packet returned False: the packet was not accepted, nothing to record
MRej == /\ Ev.e = "rej"
        /\ UNCHANGED <<monvars, bad, badAt, mach, errOwed, specvars, conf, confAt>>

Step == /\ l <= Len(T.ev)
        /\ l' = l + 1 /\ UNCHANGED tid
        /\ (MTx \/ MIn \/ MOg \/ MSub \/ MRcv \/ MCfq \/ MErr \/ MRej \/ MPreq \/ MPause \/ MReboot \/ MRestart)

\* end of trace.  T.fin: quiet = every application sender has returned and the radio loop is
\* parked at its next transmission; inq = len(in_queue) (cross-checked against the events);
\* wedged = the execution had to be ended (step budget exhausted / a thread died)
Finish == /\ l = Len(T.ev) + 1
          /\ l' = l + 1
          /\ LET drained == \/ T.fin.quiet /\ T.fin.inq = 0 /\ tail >= P!DrainNeed(mh)
                            \/ T.fin.wedged      \* the harness gave up waiting for progress: what has not
                                                 \* arrived by now never will
                 c == IF bad # "ok" THEN bad
                      ELSE IF T.fin.quiet \/ T.fin.wedged THEN P!FinalClause(mh, T.retries, drained)
                      ELSE P!HistoryClause(mh, T.retries)
                 m == IF mach # "ok" THEN mach
                      ELSE IF T.fin.inq # nIn - nRcv THEN "InQueueCountMismatch" ELSE "ok"
             IN PrintT(<<"VERDICT", T.id, c, IF bad # "ok" THEN badAt ELSE l, conf /\ ~errOwed,
                         confAt, m, drained>>)
          /\ UNCHANGED <<tid, monvars, bad, badAt, mach, conf, confAt, errOwed, specvars>>

Next == Step \/ Finish
Spec == Init /\ [][Next]_<<tid, l, monvars, bad, badAt, mach, conf, confAt, errOwed, specvars>>
=============================================================================
