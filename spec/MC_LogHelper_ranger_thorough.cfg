SPECIFICATION Spec
CONSTANTS
  Mode = "ranger"
  Rates = {100, 50, 2540}
  Scripts <- RScripts
  Vectors <- RVectors
  MaxData = 4
  MaxQ = 3
  Times = {100}
  LinkLoss = TRUE
  HasKalman = {TRUE}
  Bug = "none"
VIEW view
CHECK_DEADLOCK FALSE
INVARIANT TypeOK
INVARIANT PropsOK
INVARIANT NoHang
INVARIANT NoBlockLeft
