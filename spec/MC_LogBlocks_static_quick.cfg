SPECIFICATION Spec
CONSTANTS
  NC = 1
  TocC <- TocMC
  VarAlpha <- AlphaFull
  BasicAlpha <- Basic
  MaxFree = 2
  MaxBasic = 3
  MaxUniform = 27
  Periods <- PeriodsAll
  Statuses = {}
  MaxOps = 3
  MaxFaults = 0
  MaxData = 1
  MaxLate = 0
  TocAlts = {}
  IdMod = 255
  Bugs <- NoBugs
  WithSync = FALSE
INVARIANT ObsOK
INVARIANT TypeOK
CHECK_DEADLOCK FALSE
