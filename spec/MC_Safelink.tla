---- MODULE MC_Safelink ----
EXTENDS Safelink
ModesSL == {"sl"}
ModesAll == {"sl", "nosl", "deny"}
DenyOne == {<<255, 5, 0>>}
DenyMany == {<<255, 5, 0>>, <<255, 5, 1, 0>>, <<243, 5, 1>>, <<255, 5>>}
TailsRssi == {<<1, 44>>}
TailsBoth == {<<1, 44>>, <<>>}
TailsAll == {<<1, 44>>, <<>>, <<1>>}
====
