SPECIFICATION Spec
CONSTANTS
  NUp = 4
  NDown = 4
  Retries = 3
  NegAttempts = 10
  MaxLoss = 40
  MaxNegLoss = 12
  MaxRestarts = 1
  MaxSlow = 1
  PeerModes <- ModesAll
  DenyReplies <- DenyMany
  AckTails <- TailsAll
  Bug = "none"
INVARIANT PropertyHolds
CHECK_DEADLOCK FALSE
