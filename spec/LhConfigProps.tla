------------------------------ MODULE LhConfigProps ------------------------------
(* X01 -- lighthouse configuration write/read sequencing: what a user of
   cflib.localization.lighthouse_config_manager.LighthouseConfigWriter and
   cflib.crazyflie.mem.lighthouse_memory.LighthouseMemHelper relies on, stated over the OBSERVABLE
   history only (user calls and their outcome, memory operations handed to the memory subsystem and
   their answers, parameter writes, persist packets and their acknowledgements, completion callbacks).

   The history is a sequence of events; the property is an observer: Step(m, ev) folds one event
   into the observer state m and StepClause(m, ev) names the first guarantee the event breaks
   ("ok" if none).  The design spec (LhConfig) and the trace spec (LhConfigTrace) use these very
   operators.

   Events (uniform records, see Ev):
     call    k op objs cobjs hasg hasc n sys   the user starts request k
                 op: "wg" write_geos, "wc" write_calibs, "rg" read_all_geos, "rc" read_all_calibs,
                     "st" write_and_store_config (n = nr_of_base_stations, sys = system type, 0 = None,
                     hasg/hasc = geos/calibs is not None); an object is <<base station, tag, valid>>
     ret     k ok            the call returned (ok = 1) or raised (ok = 0: the request is refused)
     mw      op(region g/c) bs tag val     a memory write was handed to the memory subsystem
     mr      op(region g/c) bs             a memory read was handed to the memory subsystem
     ans     op("w"/"r") ok bs tag val     the memory subsystem answers its oldest write / read
     param   sys             lighthouse.systemType was set
     sleep                   the writer waited (not constrained)
     persist pg pc           a persist packet left (lists of base stations)
     pack    ok              the persist acknowledgement arrived (ok = what the device reports)
     cb      k ok objs       completion callback of request k (ok = success flag of write-type
                             requests, objs = result of read-type requests sorted by base station)
     exc                     an exception escaped from the library into the deliverer of an answer
     fin                     quiescence: everything handed out has been answered

   Guarantees (clause names are what a failing check reports).  Readings taken (the weaker one
   wherever the docstrings leave room):
     (Refusing a request that overlaps another one is NOT demanded: the code accepts e.g.
      write_geos({}) at any time and a helper write while the config writer waits for the persist
      acknowledgement.  What is demanded is that everything ACCEPTED is served completely and
      correctly, that a refusal changes nothing, and that nothing is refused while nothing is going on.)
     ServedWhenIdle       a request is refused only while some request is in progress
     RefusedHadEffect     a refused request caused no memory operation, parameter write, persist packet
                          or callback
     SpuriousTraffic      every memory write/read, parameter write and persist packet belongs to a
                          request in progress.  Attribution: an operation that appears before the call
                          of a request has returned belongs to that request; otherwise to the oldest
                          request in progress that expects it next.
     OneAtATime           at most one memory write and one memory read is outstanding at any time (the
                          writes are issued with flush_queue=True: a second one would be dropped)
     UnexpectedOp         the operations of a request are exactly the ones its arguments name, each at
                          most once: st: the parameter write first, then every geometry (the given ones
                          and an invalid one for every other base station 0..n-1), then every
                          calibration; wg/wc: the given objects; rg/rc: base stations 0..NCh-1.  The
                          order inside one group is NOT constrained.
     PersistEarly/Twice/Mask   the persist packet leaves at most once, only after every operation of
                          the request was issued and answered, and names base stations 0..n-1 for
                          each kind of data that was given and none for the other
     CallbackForRefused, CallbackTwice, CallbackEarly (an operation or the persist acknowledgement is
                          still outstanding; read-type: not every base station was asked)
     SuccessButNotAllWritten, SuccessDespiteFailure, SuccessButNotPersisted   success = TRUE only if
                          every operation was issued and answered OK and (st, data given) the persist
                          packet was sent and acknowledged
     PersistResultIgnored success = TRUE although the device reported that persisting failed
     FailureWithoutCause  success = FALSE only if some operation (or the persist step) failed
     ReadResultWrong      the result of a read-type request is exactly the base stations answered OK
                          with the data delivered
     EscapedException     no exception escapes into the deliverer
     NeverCompleted       at quiescence every accepted request had its callback
   Not demanded: that nothing is sent after a failed write (the code evidently tries all objects and
   reports), the order inside a group, the wait after the parameter write. *)
EXTENDS Naturals, Sequences, FiniteSets

CONSTANT NCh            \* LighthouseMemHelper.NR_OF_CHANNELS: read-all asks base stations 0..NCh-1

Ev(e) == [e |-> e, k |-> 0, op |-> "", bs |-> 0, tag |-> 0, val |-> 0, ok |-> 0, sys |-> 0, n |-> 0,
          hasg |-> 0, hasc |-> 0, objs |-> <<>>, cobjs |-> <<>>, pg |-> <<>>, pc |-> <<>>]

Range(s) == {s[i] : i \in DOMAIN s}
IsWrite(op) == op \in {"wg", "wc", "st"}

\* ---- what the arguments of a request name: a sequence of groups, each a set of operations
\* an operation is <<kind, region, bs, tag, valid>>
Ids(objs) == {objs[i][1] : i \in DOMAIN objs}
WOps(reg, objs) == {<<"w", reg, objs[i][1], objs[i][2], objs[i][3]>> : i \in DOMAIN objs}
PadOps(reg, objs, n) == {<<"w", reg, b, 0, 0>> : b \in (0..(n - 1)) \ Ids(objs)}
Groups(ev) ==
    LET raw == CASE ev.op = "wg" -> <<WOps("g", ev.objs)>>
                 [] ev.op = "wc" -> <<WOps("c", ev.objs)>>
                 [] ev.op = "rg" -> <<{<<"r", "g", b, 0, 0>> : b \in 0..(NCh - 1)}>>
                 [] ev.op = "rc" -> <<{<<"r", "c", b, 0, 0>> : b \in 0..(NCh - 1)}>>
                 [] OTHER -> <<IF ev.sys # 0 THEN {<<"p", "", ev.sys, 0, 0>>} ELSE {},
                               IF ev.hasg = 1 THEN WOps("g", ev.objs) \cup PadOps("g", ev.objs, ev.n) ELSE {},
                               IF ev.hasc = 1 THEN WOps("c", ev.cobjs) \cup PadOps("c", ev.cobjs, ev.n) ELSE {}>>
    IN SelectSeq(raw, LAMBDA g : g # {})

\* ---- observer state
Init == [reqs |-> <<>>,                 \* per request: see NewReq
         owW |-> <<>>, owR |-> <<>>,    \* issuers of the outstanding memory writes / reads (FIFO)
         stack |-> <<>>,                \* requests whose call has not returned yet (innermost first)
         cnt |-> 0, bad |-> "ok", badAt |-> 0]

InProgress(m) == {k \in DOMAIN m.reqs : m.reqs[k].st # "refused" /\ ~m.reqs[k].done}

NewReq(m, ev) ==
    [op |-> ev.op, n |-> ev.n, hasg |-> ev.hasg, hasc |-> ev.hasc,
     st |-> "calling",
     busy |-> InProgress(m) # {},
     todo |-> Groups(ev), outst |-> 0, nissued |-> 0, nfail |-> 0, got |-> {},
     persist |-> 0, pok |-> 1, done |-> FALSE]

OpOf(ev) == IF ev.e = "param" THEN <<"p", "", ev.sys, 0, 0>>
            ELSE IF ev.e = "mw" THEN <<"w", ev.op, ev.bs, ev.tag, ev.val>>
            ELSE <<"r", ev.op, ev.bs, 0, 0>>

Min(S) == CHOOSE x \in S : \A y \in S : x <= y
PersistSet(has, n) == IF has = 1 THEN 0..(n - 1) ELSE {}

\* the request an operation / persist packet belongs to (0: none)
ClassOK(m, k, ev) == IF ev.e = "mr" THEN ~IsWrite(m.reqs[k].op)
                     ELSE IF ev.e = "mw" THEN IsWrite(m.reqs[k].op)
                     ELSE m.reqs[k].op = "st"
Owner(m, ev) ==
    IF m.stack # <<>> /\ Head(m.stack) \in InProgress(m) /\ ClassOK(m, Head(m.stack), ev) THEN Head(m.stack)
    ELSE LET cls == {k \in InProgress(m) : ClassOK(m, k, ev)}
             fit == IF ev.e = "persist"
                    THEN {k \in cls : m.reqs[k].persist = 0 /\ m.reqs[k].todo = <<>> /\ m.reqs[k].outst = 0}
                    ELSE {k \in cls : /\ m.reqs[k].todo # <<>> /\ m.reqs[k].persist = 0 /\ m.reqs[k].outst = 0
                                      /\ OpOf(ev) \in Head(m.reqs[k].todo)}
         IN IF fit # {} THEN Min(fit) ELSE IF cls # {} THEN Min(cls) ELSE 0

\* ---- the clause an event breaks in observer state m
OpClause(m, ev) ==
    LET k == Owner(m, ev) IN
    IF k = 0 THEN "SpuriousTraffic"
    ELSE LET r == m.reqs[k] IN
         IF (ev.e = "mw" /\ m.owW # <<>>) \/ (ev.e = "mr" /\ m.owR # <<>>) \/ r.outst > 0 THEN "OneAtATime"
         ELSE IF r.todo = <<>> \/ r.persist # 0 THEN "UnexpectedOp"
         ELSE IF OpOf(ev) \notin Head(r.todo) THEN "UnexpectedOp"
         ELSE "ok"

PersistClause(m, ev) ==
    LET k == Owner(m, ev) IN
    IF k = 0 THEN "SpuriousTraffic"
    ELSE LET r == m.reqs[k] IN
         IF r.persist # 0 THEN "PersistTwice"
         ELSE IF r.todo # <<>> \/ r.outst > 0 THEN "PersistEarly"
         ELSE IF Range(ev.pg) # PersistSet(r.hasg, r.n) \/ Range(ev.pc) # PersistSet(r.hasc, r.n)
                 \/ Len(ev.pg) # Cardinality(Range(ev.pg)) \/ Len(ev.pc) # Cardinality(Range(ev.pc))
              THEN "PersistMask"
         ELSE "ok"

CbClause(m, ev) ==
    IF ev.k \notin DOMAIN m.reqs THEN "CallbackForRefused"
    ELSE LET r == m.reqs[ev.k] IN
    IF r.st = "refused" THEN "CallbackForRefused"
    ELSE IF r.done THEN "CallbackTwice"
    ELSE IF r.outst > 0 \/ r.persist = 1 THEN "CallbackEarly"
    ELSE IF IsWrite(r.op) THEN
        IF ev.ok = 1 THEN
             IF r.todo # <<>> THEN "SuccessButNotAllWritten"
             ELSE IF r.nfail > 0 THEN "SuccessDespiteFailure"
             ELSE IF r.op = "st" /\ (r.hasg = 1 \/ r.hasc = 1) /\ r.persist # 2 THEN "SuccessButNotPersisted"
             ELSE IF r.op = "st" /\ r.persist = 2 /\ r.pok = 0 THEN "PersistResultIgnored"
             ELSE "ok"
        ELSE IF r.nfail = 0 /\ ~(r.persist = 2 /\ r.pok = 0) THEN "FailureWithoutCause"
             ELSE "ok"
    ELSE IF r.todo # <<>> THEN "CallbackEarly"
         ELSE IF Range(ev.objs) # r.got \/ Len(ev.objs) # Cardinality(r.got) THEN "ReadResultWrong"
         ELSE "ok"

RetClause(m, ev) ==
    LET r == m.reqs[ev.k] IN
    IF ev.ok = 0 THEN IF ~r.busy THEN "ServedWhenIdle"
                      ELSE IF r.nissued > 0 \/ r.persist # 0 \/ r.done THEN "RefusedHadEffect"
                      ELSE "ok"
    ELSE "ok"

FinClause(m) == IF InProgress(m) # {} THEN "NeverCompleted" ELSE "ok"

StepClause(m, ev) ==
    CASE ev.e \in {"mw", "mr", "param"} -> OpClause(m, ev)
      [] ev.e = "persist" -> PersistClause(m, ev)
      [] ev.e = "cb" -> CbClause(m, ev)
      [] ev.e = "ret" -> RetClause(m, ev)
      [] ev.e = "exc" -> "EscapedException"
      [] ev.e = "fin" -> FinClause(m)
      [] OTHER -> "ok"

\* ---- the observer state after an event (only used while bad = "ok")
RemoveOp(todo, o) == LET h == Head(todo) \ {o} IN IF h = {} THEN Tail(todo) ELSE <<h>> \o Tail(todo)
Acked(m) == {k \in DOMAIN m.reqs : m.reqs[k].op = "st" /\ m.reqs[k].persist = 1}

Advance(m, ev) ==
    CASE ev.e = "call" ->
            [m EXCEPT !.reqs = Append(@, NewReq(m, ev)),
                      !.stack = <<Len(m.reqs) + 1>> \o @]
      [] ev.e = "ret" ->
            [m EXCEPT !.reqs[ev.k].st = IF ev.ok = 1 THEN "active" ELSE "refused",
                      !.stack = SelectSeq(@, LAMBDA x : x # ev.k)]
      [] ev.e \in {"mw", "mr", "param"} ->
            LET k == Owner(m, ev) IN
            [m EXCEPT !.reqs[k].todo = RemoveOp(@, OpOf(ev)),
                      !.reqs[k].nissued = @ + 1,
                      !.reqs[k].outst = IF ev.e = "param" THEN @ ELSE @ + 1,
                      !.owW = IF ev.e = "mw" THEN Append(@, k) ELSE @,
                      !.owR = IF ev.e = "mr" THEN Append(@, k) ELSE @]
      [] ev.e = "ans" ->
            LET q == IF ev.op = "w" THEN m.owW ELSE m.owR IN
            IF q = <<>> THEN m
            ELSE LET k == Head(q) IN
                 [m EXCEPT !.owW = IF ev.op = "w" THEN Tail(@) ELSE @,
                           !.owR = IF ev.op = "r" THEN Tail(@) ELSE @,
                           !.reqs[k].outst = IF @ > 0 THEN @ - 1 ELSE 0,
                           !.reqs[k].nfail = IF ev.ok = 0 /\ ev.op = "w" THEN @ + 1 ELSE @,
                           !.reqs[k].got = IF ev.ok = 1 /\ ev.op = "r" THEN @ \cup {<<ev.bs, ev.tag, ev.val>>} ELSE @]
      [] ev.e = "persist" ->
            [m EXCEPT !.reqs[Owner(m, ev)].persist = 1]
      [] ev.e = "pack" ->
            IF Acked(m) = {} THEN m
            ELSE [m EXCEPT !.reqs[Min(Acked(m))].persist = 2, !.reqs[Min(Acked(m))].pok = ev.ok]
      [] ev.e = "cb" ->
            [m EXCEPT !.reqs[ev.k].done = TRUE]
      [] OTHER -> m

Step(m, ev) ==
    LET c == IF m.bad = "ok" THEN StepClause(m, ev) ELSE "ok"
        a == IF m.bad = "ok" /\ c = "ok" THEN Advance(m, ev) ELSE m
    IN [a EXCEPT !.cnt = m.cnt + 1,
                 !.bad = IF m.bad = "ok" THEN c ELSE m.bad,
                 !.badAt = IF m.bad = "ok" /\ c # "ok" THEN m.cnt + 1 ELSE m.badAt]

Fold(m, evs) ==
    LET F[i \in 0..Len(evs)] == IF i = 0 THEN m ELSE Step(F[i - 1], evs[i])
    IN F[Len(evs)]

HistoryClause(evs) == Fold(Init, evs).bad
=============================================================================
