SPECIFICATION Spec
CONSTANTS
  RC = 2
  WC = 3
  MaxLen = 4
  Mems = {0}
  Addrs = {0}
  NReq = 3
  NErr = 1
  NDup = 1
  MaxUid = 16
  Bug = "none"
  ErrSts = {1}
  HostSts = {1}
  DeckMems = {}
  SendFail = TRUE
INVARIANT UidBound
INVARIANT AtMostOnce
INVARIANT Limits
INVARIANT Tiling
INVARIANT WriteOrder
INVARIANT Complete
INVARIANT NotWedged
INVARIANT NoNoteForRefused
CHECK_DEADLOCK FALSE
