SPECIFICATION Spec
CONSTANT WaitMode = "forever"
CHECK_DEADLOCK FALSE
