SPECIFICATION Spec
CONSTANTS
  Bug = "ow_droplast"
  Fmts <- FmtsAll
  CaseSet <- CasesQuick
  MkCase <- MCMkCase
  MaxCorrupt = 1
  CorruptPos <- CorPosQuick
  CorruptVals <- AllBytes
INVARIANT CaseOK
INVARIANT EnvelopeGuard
INVARIANT TypeOK
CHECK_DEADLOCK FALSE
