---------------------------- MODULE CommandsTrace ----------------------------
(* Trace spec for C08.  One TLC run judges a whole batch of traces recorded from the real
   Crazyflie object (a recording link behind the real Crazyflie.send_packet).

   Events:  [e |-> "ver", v]        the firmware reported protocol version v (fed through
                                    PlatformService._platform_callback)
            [e |-> "xmode", v]      Commander.set_client_xmode(v)
            [e |-> "call", cmd, args, out, pks]   one API call and what reached the link
            [e |-> "hdr", port, chan, h]          a CRTPPacket given port/channel, header byte h

   monitor  (the verdict): CommandsProps evaluated on every call / header event; nothing of the
            design spec is assumed.  The version and x-mode in force are rebuilt from the events.
   conform  (the binding): the same event must be the step the design spec Commands takes:
            Call(cmd, args) must produce exactly the recorded outcome and bytes. *)
EXTENDS Integers, Sequences, FiniteSets, TLC, Json, IOUtils

Traces == JsonDeserialize(IOEnv.TRACE_FILE)

VARIABLES tid, l,
          mver, mxmode, bad, badAt, badField,     \* monitor
          conf, confAt,                           \* conformance verdict
          ver, xmode, last                        \* design-spec variables

T == Traces[tid]
Versions == -1..255
Cmds == {}             \* unused by the actions
ArgSets == <<>>        \* unused by the actions
HdrPorts == 0..15
HdrChans == 0..3
Chained == TRUE
Bug == "none"

D == INSTANCE Commands
P == INSTANCE CommandsProps

specvars == <<ver, xmode, last>>
Ev == T.ev[l]

Init == /\ tid \in 1..Len(Traces)
        /\ l = 1
        /\ mver = Traces[tid].ver0 /\ mxmode = Traces[tid].xmode0
        /\ bad = "ok" /\ badAt = 0 /\ badField = 0
        /\ conf = TRUE /\ confAt = 0
        /\ ver = Traces[tid].ver0 /\ xmode = Traces[tid].xmode0 /\ last = D!None

Conform(A) == IF conf /\ ENABLED A
              THEN A /\ UNCHANGED <<conf, confAt>>
              ELSE /\ conf' = FALSE /\ confAt' = (IF conf THEN l ELSE confAt)
                   /\ UNCHANGED specvars

Fail(c, f) == IF bad = "ok" /\ c # "ok" THEN bad' = c /\ badAt' = l /\ badField' = f
              ELSE UNCHANGED <<bad, badAt, badField>>

MVer == /\ Ev.e = "ver"
        /\ mver' = Ev.v /\ UNCHANGED <<mxmode, bad, badAt, badField>>
        /\ Conform(D!SetVersion(Ev.v))

MXMode == /\ Ev.e = "xmode"
          /\ mxmode' = Ev.v /\ UNCHANGED <<mver, bad, badAt, badField>>
          /\ Conform(D!SetXMode(Ev.v))

MCall == /\ Ev.e = "call"
         /\ LET r == [cmd |-> Ev.cmd, ver |-> mver, xmode |-> mxmode, args |-> Ev.args,
                      out |-> Ev.out, pks |-> Ev.pks]
            IN Fail(P!EmissionClause(r), P!EmissionField(r))
         /\ UNCHANGED <<mver, mxmode>>
         /\ Conform(D!Call(Ev.cmd, Ev.args) /\ last'.out = Ev.out /\ last'.pks = Ev.pks)

MHdr == /\ Ev.e = "hdr"
        /\ Fail(P!HeaderClause(Ev.port, Ev.chan, Ev.h), 0)
        /\ UNCHANGED <<mver, mxmode>>
        /\ Conform(D!MakeHeader(Ev.port, Ev.chan) /\ last'.h = Ev.h)

Step == /\ l <= Len(T.ev)
        /\ l' = l + 1 /\ UNCHANGED tid
        /\ (MVer \/ MXMode \/ MCall \/ MHdr)

Finish == /\ l = Len(T.ev) + 1
          /\ l' = l + 1
          /\ PrintT(<<"VERDICT", T.id, bad, badAt, conf, confAt, badField>>)
          /\ UNCHANGED <<tid, mver, mxmode, bad, badAt, badField, conf, confAt, specvars>>

Next == Step \/ Finish
Spec == Init /\ [][Next]_<<tid, l, mver, mxmode, bad, badAt, badField, conf, confAt, specvars>>
=============================================================================
