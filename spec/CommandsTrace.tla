---------------------------- MODULE CommandsTrace ----------------------------
(* Trace spec for C08.  One TLC run judges a whole batch of traces recorded from the real
   Crazyflie object (a recording link behind the real Crazyflie.send_packet).

   Events:  [e |-> "ver", v]        the firmware reported protocol version v (fed through
                                    PlatformService._platform_callback)
            [e |-> "plat", ch, d]   another packet on the PLATFORM port (channel ch, data bytes d) delivered to the
                                    registered port callbacks outside a fetch: never a negotiation
                                    (an unsolicited protocol-version answer is ignored since repair 11c63c8)
            [e |-> "xmode", v]      Commander.set_client_xmode(v)
            [e |-> "call", cmd, args, out, pks, nq]   one API call; pks = what the link serialised of this
                                    call's packet objects before the call returned, nq = how many of its
                                    packet objects the link still keeps (0 on a link that serialises at once)
            [e |-> "hdr", port, chan, h]          a CRTPPacket given port/channel, header byte h
            [e |-> "link", v]       a link of kind v ("now" | "later") is attached
            [e |-> "ser", pk]       the "later" link serialises the oldest packet object it keeps: pk is
                                    what that object holds at this moment = what goes on the wire for the
                                    call that handed it over (the link is FIFO)

   monitor  (the verdict): CommandsProps evaluated on every emission / header event; nothing of the
            design spec is assumed.  The version and x-mode in force are rebuilt from the events.  An
            emission is judged when it is complete: at the call event when nq = 0, otherwise when the
            last of its packet objects has been serialised (mpend: the calls still waiting, oldest first;
            the verdict position is the call event).
   conform  (the binding): the same event must be the step the design spec Commands takes:
            Call(cmd, args) must produce exactly the recorded outcome and bytes. *)
EXTENDS Integers, Sequences, FiniteSets, TLC, Json, IOUtils

Traces == JsonDeserialize(IOEnv.TRACE_FILE)

VARIABLES tid, l,
          mver, mxmode, mpend, bad, badAt, badField,     \* monitor
          conf, confAt,                           \* conformance verdict
          ver, nver, xmode, link, building, pend, heap, last     \* design-spec variables

T == Traces[tid]
Versions == -1..255
Cmds == {}             \* unused by the actions
ArgSets == <<>>        \* unused by the actions
HdrPorts == 0..15
HdrChans == 0..3
PlatPackets == {}      \* unused by the actions
Links == {"now", "later"}
Cap == 1
Chained == TRUE
Bug == "none"

D == INSTANCE Commands
P == INSTANCE CommandsProps

specvars == <<ver, nver, xmode, link, building, pend, heap, last>>
Ev == T.ev[l]

Init == /\ tid \in 1..Len(Traces)
        /\ l = 1
        /\ mver = Traces[tid].ver0 /\ mxmode = Traces[tid].xmode0
        /\ mpend = <<>>
        /\ bad = "ok" /\ badAt = 0 /\ badField = 0
        /\ conf = TRUE /\ confAt = 0
        /\ ver = Traces[tid].ver0 /\ nver = Traces[tid].ver0 /\ xmode = Traces[tid].xmode0 /\ last = D!None
        /\ link = "now" /\ building = D!NoCall /\ pend = <<>> /\ heap = [i \in 1..(Cap + 2) |-> D!NoPk]

Conform(A) == IF conf /\ ENABLED A
              THEN A /\ UNCHANGED <<conf, confAt>>
              ELSE /\ conf' = FALSE /\ confAt' = (IF conf THEN l ELSE confAt)
                   /\ UNCHANGED specvars

FailAt(c, f, at) == IF bad = "ok" /\ c # "ok" THEN bad' = c /\ badAt' = at /\ badField' = f
                    ELSE UNCHANGED <<bad, badAt, badField>>
Fail(c, f) == FailAt(c, f, l)

MVer == /\ Ev.e = "ver"
        /\ mver' = Ev.v /\ UNCHANGED <<mxmode, mpend, bad, badAt, badField>>
        /\ Conform(D!SetVersion(Ev.v))

MPlat == /\ Ev.e = "plat"
         /\ mver' = mver      \* outside a fetch nothing negotiates (repair 11c63c8); a negotiation is a "ver" event
         /\ UNCHANGED <<mxmode, mpend, bad, badAt, badField>>
         /\ Conform(D!PlatformPacket(Ev.ch, Ev.d))

MXMode == /\ Ev.e = "xmode"
          /\ mxmode' = Ev.v /\ UNCHANGED <<mver, mpend, bad, badAt, badField>>
          /\ Conform(D!SetXMode(Ev.v))

MLink == /\ Ev.e = "link"
         /\ UNCHANGED <<mver, mxmode, mpend, bad, badAt, badField>>
         /\ Conform(D!SetLink(Ev.v))

MCall == /\ Ev.e = "call"
         /\ LET r == [cmd |-> Ev.cmd, ver |-> mver, xmode |-> mxmode, args |-> Ev.args,
                      out |-> Ev.out, pks |-> Ev.pks]
            IN IF Ev.nq = 0
               THEN Fail(P!EmissionClause(r), P!EmissionField(r)) /\ UNCHANGED mpend
               ELSE /\ mpend' = Append(mpend, [r |-> r, need |-> Ev.nq, at |-> l])
                    /\ UNCHANGED <<bad, badAt, badField>>
         /\ UNCHANGED <<mver, mxmode>>
         /\ Conform(\/ D!Call(Ev.cmd, Ev.args) /\ last'.out = Ev.out /\ last'.pks = Ev.pks /\ Ev.nq = 0
                    \/ /\ D!CallLater(Ev.cmd, Ev.args) /\ last'.out = Ev.out /\ Ev.pks = <<>>
                       /\ Ev.nq = (IF last'.kind = "queued" THEN 1 ELSE 0))

\* the oldest waiting call gets the packet; complete -> judged (a packet nobody waits for cannot be
\* recorded by the harness's link; it would only stop the conformance)
MSer == /\ Ev.e = "ser"
        /\ IF mpend = <<>> THEN UNCHANGED <<mpend, bad, badAt, badField>>
           ELSE LET hd == mpend[1]
                    r2 == [hd.r EXCEPT !.pks = Append(@, Ev.pk)]
                IN IF hd.need <= 1
                   THEN /\ FailAt(P!EmissionClause(r2), P!EmissionField(r2), hd.at)
                        /\ mpend' = Tail(mpend)
                   ELSE /\ mpend' = [mpend EXCEPT ![1] = [r |-> r2, need |-> hd.need - 1, at |-> hd.at]]
                        /\ UNCHANGED <<bad, badAt, badField>>
        /\ UNCHANGED <<mver, mxmode>>
        /\ Conform(D!Ser /\ last'.pks = <<Ev.pk>> /\ mpend # <<>>)

MHdr == /\ Ev.e = "hdr"
        /\ Fail(P!HeaderClause(Ev.port, Ev.chan, Ev.h), 0)
        /\ UNCHANGED <<mver, mxmode, mpend>>
        /\ Conform(D!MakeHeader(Ev.port, Ev.chan) /\ last'.h = Ev.h)

Step == /\ l <= Len(T.ev)
        /\ l' = l + 1 /\ UNCHANGED tid
        /\ (MVer \/ MPlat \/ MXMode \/ MLink \/ MCall \/ MSer \/ MHdr)

Finish == /\ l = Len(T.ev) + 1
          /\ l' = l + 1
          /\ PrintT(<<"VERDICT", T.id, bad, badAt, conf, confAt, badField>>)
          /\ UNCHANGED <<tid, mver, mxmode, mpend, bad, badAt, badField, conf, confAt, specvars>>

Next == Step \/ Finish
Spec == Init /\ [][Next]_<<tid, l, mver, mxmode, mpend, bad, badAt, badField, conf, confAt, specvars>>
=============================================================================
