------------------------------ MODULE CodecsNum ------------------------------
(* Exact arithmetic for the codec specifications (C13).

   TLC integers are 32-bit, IEEE doubles carry 53-bit mantissas, so every number that comes
   from the real code travels as a *dyadic rational*  (-1)^s * n * 2^e  whose magnitude n is a
   little-endian sequence of 15-bit limbs (no high zero limb; zero = <<>>).  Everything here is
   exact: no rounding anywhere.  *)
EXTENDS Integers, Sequences

B == 32768                     \* limb base 2^15: limb*limb + carry < 2^31

Limb(a, i) == IF i <= Len(a) THEN a[i] ELSE 0

RECURSIVE NTop(_, _)
NTop(a, n) == IF n = 0 THEN 0 ELSE IF a[n] # 0 THEN n ELSE NTop(a, n - 1)
NNorm(a) == SubSeq(a, 1, NTop(a, Len(a)))

RECURSIVE NFromInt(_)
NFromInt(n) == IF n = 0 THEN <<>> ELSE <<n % B>> \o NFromInt(n \div B)

\* -1, 0, 1 ; arguments normalised
RECURSIVE NCmpR(_, _, _)
NCmpR(a, b, i) == IF i = 0 THEN 0
                  ELSE IF a[i] < b[i] THEN -1 ELSE IF a[i] > b[i] THEN 1 ELSE NCmpR(a, b, i - 1)
NCmp(a, b) == IF Len(a) < Len(b) THEN -1 ELSE IF Len(a) > Len(b) THEN 1 ELSE NCmpR(a, b, Len(a))

RECURSIVE NAddR(_, _, _, _)
NAddR(a, b, i, c) ==
    IF i > Len(a) /\ i > Len(b) THEN (IF c = 0 THEN <<>> ELSE <<c>>)
    ELSE LET t == Limb(a, i) + Limb(b, i) + c IN <<t % B>> \o NAddR(a, b, i + 1, t \div B)
NAdd(a, b) == NAddR(a, b, 1, 0)

\* a >= b required
RECURSIVE NSubR(_, _, _, _)
NSubR(a, b, i, br) ==
    IF i > Len(a) THEN <<>>
    ELSE LET t == a[i] - Limb(b, i) - br
         IN  <<IF t < 0 THEN t + B ELSE t>> \o NSubR(a, b, i + 1, IF t < 0 THEN 1 ELSE 0)
NSub(a, b) == NNorm(NSubR(a, b, 1, 0))

\* a * d for a single limb 0 <= d <= B
RECURSIVE NMulSR(_, _, _, _)
NMulSR(a, d, i, c) ==
    IF i > Len(a) THEN (IF c = 0 THEN <<>> ELSE <<c>>)
    ELSE LET t == a[i] * d + c IN <<t % B>> \o NMulSR(a, d, i + 1, t \div B)
NMulS(a, d) == IF d = 0 \/ a = <<>> THEN <<>> ELSE NMulSR(a, d, 1, 0)

NShiftLimbs(a, k) == IF a = <<>> \/ k = 0 THEN a ELSE [i \in 1..k |-> 0] \o a

RECURSIVE NMulR(_, _, _)
NMulR(a, b, j) == IF j > Len(b) THEN <<>>
                  ELSE NAdd(NShiftLimbs(NMulS(a, b[j]), j - 1), NMulR(a, b, j + 1))
NMul(a, b) == IF Len(a) >= Len(b) THEN NMulR(a, b, 1) ELSE NMulR(b, a, 1)

\* a * 2^k
NShl(a, k) == NShiftLimbs(NMulS(a, 2 ^ (k % 15)), k \div 15)

RECURSIVE BitLenS(_)
BitLenS(x) == IF x = 0 THEN 0 ELSE 1 + BitLenS(x \div 2)
NBitLen(a) == IF a = <<>> THEN 0 ELSE 15 * (Len(a) - 1) + BitLenS(a[Len(a)])
RECURSIVE NDivSR(_, _, _, _)
NDivSR(a, d, i, r) == IF i = 0 THEN <<>>
                      ELSE LET t == r * B + a[i] IN NDivSR(a, d, i - 1, t % d) \o <<t \div d>>
\* floor(a / 2^k)
NShr(a, k) == LET dropped == IF k \div 15 >= Len(a) THEN <<>> ELSE SubSeq(a, k \div 15 + 1, Len(a))
              IN NNorm(NDivSR(dropped, 2 ^ (k % 15), Len(dropped), 0))

\* ---------------------------------------------------------------- signed integers [s, n]
Z(s, n) == [s |-> IF n = <<>> THEN 0 ELSE s, n |-> n]
ZInt(i) == IF i < 0 THEN Z(1, NFromInt(-i)) ELSE Z(0, NFromInt(i))
ZNeg(a) == Z(1 - a.s, a.n)
ZAdd(a, b) == IF a.s = b.s THEN Z(a.s, NAdd(a.n, b.n))
              ELSE LET c == NCmp(a.n, b.n) IN
                   IF c = 0 THEN Z(0, <<>>)
                   ELSE IF c > 0 THEN Z(a.s, NSub(a.n, b.n)) ELSE Z(b.s, NSub(b.n, a.n))
ZSub(a, b) == ZAdd(a, ZNeg(b))
ZMul(a, b) == Z((a.s + b.s) % 2, NMul(a.n, b.n))
ZSgn(a) == IF a.n = <<>> THEN 0 ELSE IF a.s = 1 THEN -1 ELSE 1
ZCmp(a, b) == ZSgn(ZSub(a, b))

\* ---------------------------------------------------------------- dyadic rationals [s, n, e]
D(s, n, e) == [s |-> IF n = <<>> THEN 0 ELSE s, n |-> n, e |-> IF n = <<>> THEN 0 ELSE e]
DInt(i) == LET z == ZInt(i) IN D(z.s, z.n, 0)
DZ(z) == D(z.s, z.n, 0)
DNeg(x) == D(1 - x.s, x.n, x.e)
DAbs(x) == D(0, x.n, x.e)
DSgn(x) == IF x.n = <<>> THEN 0 ELSE IF x.s = 1 THEN -1 ELSE 1
\* the integer x * 2^(-e0) for e0 <= x.e
DAt(x, e0) == Z(x.s, NShl(x.n, x.e - e0))
DMinE(x, y) == IF x.n = <<>> THEN y.e ELSE IF y.n = <<>> THEN x.e ELSE IF x.e < y.e THEN x.e ELSE y.e
DAdd(x, y) == LET e0 == DMinE(x, y) z == ZAdd(DAt(x, e0), DAt(y, e0)) IN D(z.s, z.n, e0)
DSub(x, y) == DAdd(x, DNeg(y))
DMul(x, y) == D((x.s + y.s) % 2, NMul(x.n, y.n), x.e + y.e)
DMulI(x, i) == DMul(x, DInt(i))
DCmp(x, y) == DSgn(DSub(x, y))
DLe(x, y) == DCmp(x, y) <= 0
DLt(x, y) == DCmp(x, y) < 0
DEq(x, y) == DCmp(x, y) = 0
=============================================================================
