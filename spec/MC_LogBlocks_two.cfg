SPECIFICATION Spec
CONSTANTS
  NC = 2
  TocC <- TocMC
  VarAlpha <- BasicOne
  BasicAlpha <- BasicOne
  MaxFree = 1
  MaxBasic = 1
  MaxUniform = 1
  Periods = {100}
  Statuses = {12}
  MaxOps = 5
  MaxFaults = 1
  MaxData = 1
  MaxLate = 0
  TocAlts = {}
  IdMod = 255
  Bugs <- NoBugs
  WithSync = FALSE
INVARIANT ObsOK
INVARIANT TypeOK
CHECK_DEADLOCK FALSE
