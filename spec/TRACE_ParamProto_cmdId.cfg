SPECIFICATION Spec
CONSTANT Bug = "cmdId"
CHECK_DEADLOCK FALSE
