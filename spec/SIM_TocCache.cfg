SPECIFICATION Spec
CONSTANTS
  Crcs <- Crcs4
  CrcSeq <- CrcSeq4
  LogTables <- LogSim
  ParamTables <- ParSim
  FLen = 2
  Alias <- AliasBeef
  Bug = "none"
  MaxConnect = 6
  MaxCrash = 3
  MaxOther = 1
  OtherTables <- OtherTabs
  MaxEnv = 3
CHECK_DEADLOCK FALSE
