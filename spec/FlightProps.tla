------------------------------ MODULE FlightProps ------------------------------
(* C17 -- the listed property, over observable history only (no VARIABLES).

   Numbers.  TLC has 32-bit integers and no reals.  The code under test computes with floats,
   some of them irrational (circle primitives: pi).  A float enters a trace as an exact symbolic
   rational  Q = [n, d, p]  meaning (n/d) * pi^p, p \in {-1,0,1}; the harness produces it by
   snapping the float x (or x/pi, x*pi) to the nearest fraction with d <= 1000 and accepts the
   snap only if it is within relative 1e-9 of the float (DESIGN 3.1(9)); a float that is not
   within 1e-9 of any such number is marked p = 9 ("inexact") and never equals a requested value.
   Requested quantities are built here from the integer milli-unit program (mm, mm/s, deg, deg/s).
   Time stamps t are virtual microseconds (rounded to nearest), heights z micrometres (rounded).

   Program primitive  [op, a, b, c, v, w]  (integers):
     "move"   a,b,c = dx,dy,dz mm            v = velocity mm/s (0 = helper default)
     "turn"   a = +1 left / -1 right, b = angle deg, v = rate deg/s
     "circle" a = +1 left / -1 right, b = angle deg, c = radius mm, v = velocity mm/s
     "start"  a,b,c = vx,vy,vz mm/s, w = yaw rate deg/s      (non-blocking)
     "startcircle" a = +-1, c = radius mm, v = velocity mm/s (non-blocking)
     "stop" | "raise" (the body raises here)
     "wait"   a = ms: the body itself lets time pass (its own time.sleep) -- requests nothing
     PositionHlCommander only:  "goto" a,b,c = x,y,z mm, v = velocity (0 = default), w = 1: z default
                                "setv" v | "seth" c | "setl" c   (default velocity/height/landing height)
                                "land" c = landing height (w = 1: default), v | "takeoff" c = height (w = 1: default), v
                                (a further flight of the same object; st starts at the constructor's x, y, z)
     "raise" a = kind of exception (0 Exception subclass, 1 KeyboardInterrupt, 2 SystemExit, 3 GeneratorExit, 4 BaseException subclass)
   Readings fixed in DESIGN 3.1(9) and in harness/props/C17.py (assumptions).                        *)
EXTENDS Integers, Sequences, FiniteSets

\* ------------------------------------------------------------------ symbolic rationals
Abs(x) == IF x < 0 THEN -x ELSE x
RECURSIVE GCD(_, _)
GCD(a, b) == IF b = 0 THEN a ELSE GCD(b, a % b)

Q(n, d, p) == IF n = 0 THEN [n |-> 0, d |-> 1, p |-> 0]
              ELSE LET g == GCD(Abs(n), Abs(d))
                       s == IF d < 0 THEN -1 ELSE 1
                   IN  [n |-> s * (n \div g), d |-> s * (d \div g), p |-> p]
QNorm(q) == IF q.p = 9 THEN q ELSE Q(q.n, q.d, q.p)
QExact(q) == q.p # 9
QEq(a, b) == QExact(a) /\ QExact(b) /\ QNorm(a) = QNorm(b)
QZero(a) == QExact(a) /\ a.n = 0
QMul(a, b) == IF ~QExact(a) \/ ~QExact(b) THEN [n |-> 0, d |-> 1, p |-> 9]
              ELSE LET x == QNorm(a) y == QNorm(b)
                       g1 == GCD(Abs(x.n), y.d) g2 == GCD(Abs(y.n), x.d)
                       h1 == IF g1 = 0 THEN 1 ELSE g1
                       h2 == IF g2 = 0 THEN 1 ELSE g2
                   IN  Q((x.n \div h1) * (y.n \div h2), (x.d \div h2) * (y.d \div h1), x.p + y.p)
\* millimetres (or milli-anything) as a plain rational in base units
Milli(m) == Q(m, 1000, 0)
Whole(k) == Q(k, 1, 0)

\* floor(n * dt / d) for 0 <= dt, d > 0 without leaving 32 bits (n small, dt up to 2*10^9/|n|/1000 ms)
MulDiv(n, dt, d) ==
    LET s == IF n < 0 THEN -1 ELSE 1
        a == Abs(n) * (dt \div 1000)
        r == ((a % d) * 1000 + Abs(n) * (dt % 1000))
    IN  s * ((a \div d) * 1000 + r \div d)

\* integer square root of a perfect square, 0 if m is not one (bounded search)
ISqrt(m) == IF m = 0 THEN 0
            ELSE LET S == {r \in 1..20000 : r * r = m} IN IF S = {} THEN 0 ELSE CHOOSE r \in S : TRUE
Dist(a, b, c) == IF b = 0 /\ c = 0 THEN Abs(a) ELSE IF a = 0 /\ c = 0 THEN Abs(b)
                 ELSE IF a = 0 /\ b = 0 THEN Abs(c) ELSE ISqrt(a * a + b * b + c * c)

\* ------------------------------------------------------------------ MotionCommander
Blocking(p) == p.op \in {"move", "turn", "circle"}
\* nothing requested: commanding nothing at all satisfies "product = requested displacement"
ZeroRequest(p) == \/ p.op = "move" /\ p.a = 0 /\ p.b = 0 /\ p.c = 0
                  \/ p.op = "turn" /\ p.b = 0
                  \/ p.op = "circle" /\ (p.b = 0 \/ p.c = 0)
ZeroVel(c) == QZero(c.vx) /\ QZero(c.vy) /\ QZero(c.vz) /\ QZero(c.yaw)

(* Blocking primitive p (velocity default dv mm/s, rate default dr deg/s are resolved by the caller):
   c    = the velocity command [t, vx, vy, vz, yaw] it issued,
   dur  = the duration it waited (Q, seconds; the argument of its sleep),
   c2   = the command that ended the motion.
   "commands velocity and duration whose product is the requested displacement in the requested
   direction": component-wise, signs included.                                                   *)
PrimDisplacement(p, c, dur) ==
    CASE p.op = "move" ->
           /\ QEq(QMul(c.vx, dur), Milli(p.a)) /\ QEq(QMul(c.vy, dur), Milli(p.b))
           /\ QEq(QMul(c.vz, dur), Milli(p.c)) /\ QZero(c.yaw)
      [] p.op = "turn" ->
           /\ QEq(QMul(c.yaw, dur), Whole(p.a * p.b))
           /\ QZero(c.vx) /\ QZero(c.vy) /\ QZero(c.vz)
      [] p.op = "circle" ->       \* arc length 2 pi r angle/360 forwards, angle to the chosen side
           /\ QEq(QMul(c.vx, dur), Q(2 * p.c * p.b, 360000, 1))
           /\ QEq(QMul(c.yaw, dur), Whole(p.a * p.b))
           /\ QZero(c.vy) /\ QZero(c.vz)
      [] OTHER -> TRUE
\* the commanded duration really elapses between the two commands (2 us: two rounded stamps)
PrimElapsed(c, durUs, c2) == Abs((c2.t - c.t) - durUs) <= 2

PrimClause(p, c, dur, durUs, c2) ==
    IF ~PrimDisplacement(p, c, dur) THEN "PrimDisplacement"
    ELSE IF ~ZeroVel(c2) THEN "PrimNotStopped"
    ELSE IF ~PrimElapsed(c, durUs, c2) THEN "PrimDuration"
    ELSE "ok"

(* Height: the commanded vertical velocity is piecewise constant, changed by the velocity commands
   vels = <<[t, vx, vy, vz, yaw], ...>> (times non-decreasing); before the first command it is 0.
   ZAt = its integral from take-off to time t, micrometres (vz in m/s as n/d, dt in us).          *)
RECURSIVE ZAcc(_, _, _)
ZAcc(vels, i, t) ==      \* integral over the commands 1..i, the i-th lasting until t
    IF i = 0 THEN 0
    ELSE LET c == vels[i] IN
         ZAcc(vels, i - 1, c.t) + MulDiv(c.vz.n, t - c.t, c.vz.d)
ZAt(vels, t) == ZAcc(vels, Len(vels), t)
\* time.time() has ~0.24 us resolution at today's epoch and the stamps are rounded to 1 us: 1 um per
\* command at 1 m/s; allowed error 2 um per command issued so far (+2)
ZTol(vels) == 2 * (Len(vels) + 1)
HoverHeight(h, vels) == Abs(h.z - ZAt(vels, h.t)) <= ZTol(vels)

\* the horizontal velocities / yaw rate of a setpoint are those of the command in force: the last
\* command issued strictly before, or any command issued at the very same instant (both threads
\* act at that instant; either order is an interleaving)
SameXYW(h, c) == QNorm(h.vx) = QNorm(c.vx) /\ QNorm(h.vy) = QNorm(c.vy) /\ QNorm(h.yaw) = QNorm(c.yaw)
HoverVelocity(h, vels) ==
    LET before == {i \in DOMAIN vels : vels[i].t < h.t}
        same == {i \in DOMAIN vels : vels[i].t = h.t}
        last == IF before = {} THEN {} ELSE {CHOOSE i \in before : \A j \in before : j <= i}
    IN  \/ \E i \in last \cup same : SameXYW(h, vels[i])
        \/ last = {} /\ QZero(h.vx) /\ QZero(h.vy) /\ QZero(h.yaw)

\* "at least every update period" (+ slack us: scheduling quantum and stamp rounding, DESIGN 3.1(9));
\* prevT = the time the previous setpoint was handed over (when the link blocks the sender: the time that call
\* returned -- the time a send spends in the link is not the helper's), or the start of the streaming thread
HoverGap(t, prevT, period, slack) == t - prevT <= period + slack

HoverClause(h, vels, prevT, period, slack) ==
    IF ~HoverGap(h.t, prevT, period, slack) THEN "HoverGap"
    ELSE IF ~HoverVelocity(h, vels) THEN "HoverVelocity"
    ELSE IF ~HoverHeight(h, vels) THEN "HoverHeight"
    ELSE "ok"

(* Ending.  calls = the commander calls in order, as strings ("hover", "stop", "notify" for the
   MotionCommander; "takeoff", "goto", "land", "stop" for the PositionHlCommander);
   outcome = how the user's with-block / land() call ended: "ok" (returned), "scripted" (the
   body's own exception came out again), anything else = it did not end as it must.              *)
EndsWithStop(helper, calls, outcome) ==
    /\ outcome \in {"ok", "scripted"}
    /\ IF helper = "MC"
       THEN Len(calls) >= 2 /\ calls[Len(calls) - 1] = "stop" /\ calls[Len(calls)] = "notify"
       ELSE Len(calls) >= 1 /\ calls[Len(calls)] = "stop"
\* nothing streamed after the stop command (evaluated when a call arrives)
AfterStopOK(helper, calls, c) ==
    LET stopped == \E i \in DOMAIN calls : calls[i] = "stop"      \* (calls = those of the flight in progress)
    IN  IF helper = "MC" THEN ~stopped \/ (c = "notify" /\ calls[Len(calls)] = "stop")
        ELSE ~stopped

\* ------------------------------------------------------------------ PositionHlCommander
(* st = [x, y, z (mm), dv (mm/s), dh (mm), dl (mm)] : dead-reckoned position and defaults as the
   *program* determines them.  Target of primitive p from st; Next = st after p completed.         *)
Vel(p, st) == IF p.v = 0 THEN st.dv ELSE p.v
Target(p, st) ==
    CASE p.op = "move" -> [x |-> st.x + p.a, y |-> st.y + p.b, z |-> st.z + p.c]
      [] p.op = "goto" -> [x |-> p.a, y |-> p.b, z |-> IF p.w = 1 THEN st.dh ELSE p.c]
      [] OTHER -> [x |-> st.x, y |-> st.y, z |-> st.z]
NextSt(p, st) ==
    CASE p.op \in {"move", "goto"} -> [st EXCEPT !.x = Target(p, st).x, !.y = Target(p, st).y,
                                                 !.z = Target(p, st).z]
      [] p.op = "setv" -> [st EXCEPT !.dv = p.v]
      [] p.op = "seth" -> [st EXCEPT !.dh = p.c]
      [] p.op = "setl" -> [st EXCEPT !.dl = p.c]
      [] p.op = "takeoff" -> [st EXCEPT !.z = IF p.w = 1 THEN st.dh ELSE p.c]    \* the take-off command carries an absolute height
      [] p.op = "land" -> [st EXCEPT !.z = IF p.w = 1 THEN st.dl ELSE p.c]
      [] OTHER -> st
\* reported position (Q triple, metres) = start + sum of displacements
PosOK(pos, st) == QEq(pos.x, Milli(st.x)) /\ QEq(pos.y, Milli(st.y)) /\ QEq(pos.z, Milli(st.z))
\* a go-to g = [x, y, z, dur] issued by p from st: targets the position, lasts distance/velocity
GoToTarget(g, p, st) == LET T == Target(p, st) IN
    QEq(g.x, Milli(T.x)) /\ QEq(g.y, Milli(T.y)) /\ QEq(g.z, Milli(T.z))
GoToDuration(g, p, st) ==
    LET T == Target(p, st)
        L == QNorm(QMul(g.dur, Milli(Vel(p, st))))       \* metres flown at the velocity
        dd == (T.x - st.x) * (T.x - st.x) + (T.y - st.y) * (T.y - st.y) + (T.z - st.z) * (T.z - st.z)
    IN  /\ QExact(L) /\ L.p = 0 /\ L.n >= 0 /\ (L.n * 1000) % L.d = 0
        /\ LET mm == (L.n * 1000) \div L.d IN mm * mm = dd
GoToClause(g, p, st) ==
    IF p.op \notin {"move", "goto"} THEN "GoToSpurious"
    ELSE IF ~GoToTarget(g, p, st) THEN "GoToTarget"
    ELSE IF ~GoToDuration(g, p, st) THEN "GoToDuration"
    ELSE "ok"
\* a primitive that returned has commanded its displacement (distance > 0) exactly once; for a zero
\* displacement a go-to is not owed (one to the same position, judged like any other, is tolerated:
\* float residues of 1e-17 m make the code issue one)
GoToCount(p, st, n) ==
    IF p.op \in {"move", "goto"}
    THEN IF Target(p, st) # [x |-> st.x, y |-> st.y, z |-> st.z] THEN n = 1 ELSE n <= 1
    ELSE n = 0
=============================================================================
