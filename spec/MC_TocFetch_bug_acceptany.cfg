SPECIFICATION Spec
CONSTANTS
  Configs <- ConfigsBugSmall
  Budget = 2
  Window <- WindowAll
  Bug = "AcceptAny"
INVARIANT TableAtDone
INVARIANT TableStaysOK
INVARIANT LookupsOK
CHECK_DEADLOCK FALSE
