------------------------------ MODULE Cpx ------------------------------
(* Design spec of the CPX receive/transmit path (C18):
     cflib.cpx.CPXPacket (wireData getter/setter), cflib.cpx.transports.SocketTransport
     (writePacket, _readData, readPacket), cflib.cpx.CPXRouter (run, receivePacket),
     cflib.crtp.tcpdriver / serialdriver (_CPXReceiveThread.run, send_packet, receive_packet).

   One action per step of the code between two observable points:
     BeginRead  readPacket entered, _readData(2) entered                       (reader thread)
     Recv(k)    one socket.recv(need - len(data)) call that returned k bytes   (reader + peer)
     GotLen     _readData(2) returned, struct.unpack('H'), _readData(size) entered
     Deliver    _readData(size) returned, CPXPacket.wireData = data (decode, may raise),
                readPacket returned; in router modes: CPXRouter.run looks the function up in
                _rxQueues and puts the packet there or drops it / swallows the exception
     Register(r,f), Get(r)   CPXRouter.receivePacket(f): create the queue if missing; take head
                Get(0) in tcp mode is _CPXReceiveThread: it turns the CPX packet into a CRTPPacket
                and puts it into in_queue (nothing when the CPX payload is empty)
     Connect    TcpDriver.connect wrote its SYSTEM packet
     UserRecv   TcpDriver.receive_packet returned a packet
     SendBegin(s,it,fresh)  sender thread s enters TcpDriver.send_packet with a CRTP packet object
                (fresh: an object it has just built; otherwise the object of its previous call once
                more -- a cached set-point, the retry of an unanswered request), or enters
                CPX.sendPacket with a CPX packet of its own (an application using the same link)
     Write(s)   SocketTransport.writePacket: ONE socket write of length prefix + wire data (every
                socket write is a scheduling point: other senders' writes may come before and after)
     SendEnd(s) the call returned; the caller's packet object is what it was
   The environment chooses the packets (AddPacket), when the peer starts sending (Start) and
   the size k of every fragment: all ways of cutting the stream are all choices of k.

   Mode = "transport": a caller invokes readPacket in a loop (no router).
   Mode = "router":    CPXRouter thread + receivers 1..NR.
   Mode = "tcp":       TcpDriver: router + receiver 0 (= _CPXReceiveThread, function CRTP) + user.
   LateRegister = TRUE lets receivers register while the stream is already being read (the
   router then drops packets of functions nobody asked for yet: DESIGN 3.1(10), outside C18).
   Bug # "none" switches on named defects (vacuity guards for the invariants); uplink:
   "tx_no_header" (CRTP header byte missing), "split_write" (length prefix and wire data are two
   socket writes: another sender's write may come in between), "inplace_header" (send_packet
   inserts the CRTP header into the caller's packet object: wrong from the second hand-over on).  *)
EXTENDS Naturals, Sequences, FiniteSets, TLC

CONSTANTS Packets,        \* set of packets the peer may send
          MaxPackets,
          NR,             \* receivers 1..NR (router/tcp mode)
          RFns,           \* functions receivers may ask for
          SendSets,       \* sender thread -> items it may send (tcp mode), see CpxProps (5):
                          \* <<0, crtp>> through send_packet, <<1, outcome>> through CPX.sendPacket
          MaxSends,       \* calls in total
          Mode, LateRegister, Bug

P == INSTANCE CpxProps

VARIABLES mode,           \* = Mode (a variable so that the trace spec can set it per trace)
          phase,          \* "setup" | "run"
          pkts, stream,   \* what the peer sends
          rfn,            \* receiver -> function it asked for (0: has not called yet)
          hasq, queues,   \* CPXRouter._rxQueues: functions that have a queue; function -> sequence of outcomes
          pos,            \* bytes the socket has handed out
          rd, need, buf,  \* reader: pc, size argument and data of the running _readData
          inq,            \* TcpDriver.in_queue (CRTP packets)
          tx, sent,       \* bytes written to the socket (write order); <<sender, item, fresh>> per call
          spc, sobj,      \* per sender: "idle" | "called" | "lenw" | "done"; its packet object:
                          \* <<item as the caller built it, item as the object reads now>> or <<>>
          reads, deliv, crtps     \* histories (see CpxProps)

vars == <<mode, phase, pkts, stream, rfn, hasq, queues, pos, rd, need, buf, inq, tx, sent, spc, sobj, reads, deliv, crtps>>
Senders == DOMAIN spc

Rcv0 == IF Mode = "router" THEN 1..NR ELSE IF Mode = "tcp" THEN 0..NR ELSE {}
Rcv == DOMAIN rfn
Min(a, b) == IF a < b THEN a ELSE b
Last(s) == s[Len(s)]

\* CPXPacket._set_wire_data: struct.unpack on < 2 bytes raises, version check raises, unknown
\* enum values raise; everything else is taken apart
DecodeWire(w) ==
    IF Len(w) < 2 THEN P!Rejected
    ELSE LET u == P!Unwire(w) IN
         IF Bug # "no_version_check" /\ P!Ver(u) # 0 THEN P!Rejected
         ELSE IF P!Src(u) \notin P!Targets \/ P!Dst(u) \notin P!Targets \/ P!Fn(u) \notin P!Functions
              THEN P!Rejected
         ELSE IF Bug = "swap_targets" THEN <<1, P!Dst(u), P!Src(u), P!Fn(u), P!Last(u), P!Data(u)>>
         ELSE <<1, P!Src(u), P!Dst(u), P!Fn(u), P!Last(u), P!Data(u)>>

SystemHello == <<3, 1, 1, 0, 0, <<33, 1>>>>        \* TcpDriver.connect: SYSTEM [0x21, 0x01]
CrtpCpx(c) == <<3, 1, P!FnCRTP, 0, 0, <<c[1] * 16 + 12 + c[2]>> \o c[3]>>
\* the CPX packet (6-tuple of CpxProps) an item travels as
CpxOfItem(it) == IF it[1] = 0 THEN CrtpCpx(it[2])
                 ELSE <<it[2][2], it[2][3], it[2][4], it[2][5], 0, it[2][6]>>

Init == /\ mode = Mode /\ phase = "setup"
        /\ pkts = <<>> /\ stream = <<>>
        /\ rfn = [r \in Rcv0 |-> 0]
        /\ hasq = {} /\ queues = [f \in P!Functions |-> <<>>]
        /\ pos = 0 /\ rd = "idle" /\ need = 0 /\ buf = <<>>
        /\ inq = <<>> /\ tx = <<>> /\ sent = <<>>
        /\ spc = [s \in DOMAIN SendSets |-> "idle"] /\ sobj = [s \in DOMAIN SendSets |-> <<>>]
        /\ reads = <<>> /\ deliv = <<>> /\ crtps = <<>>

\* ---------------------------------------------------------------- environment
AddPacket(p) == /\ phase = "setup" /\ Len(pkts) < MaxPackets
                /\ pkts' = Append(pkts, p)
                /\ stream' = stream \o P!Frame(p)
                /\ UNCHANGED <<mode, phase, rfn, hasq, queues, pos, rd, need, buf, inq, tx, sent, spc, sobj, reads, deliv, crtps>>

Start == /\ phase = "setup"
         /\ mode = "tcp" => rfn[0] # 0 /\ tx # <<>>     \* connect() through, receive thread is up
         /\ phase' = "run"
         /\ UNCHANGED <<mode, pkts, stream, rfn, hasq, queues, pos, rd, need, buf, inq, tx, sent, spc, sobj, reads, deliv, crtps>>

\* ---------------------------------------------------------------- receivers
Register(r, f) == /\ r \in Rcv /\ rfn[r] = 0
                  /\ phase = "setup" \/ LateRegister
                  /\ r = 0 <=> (mode = "tcp" /\ f = P!FnCRTP)     \* the driver owns the CRTP queue
                  /\ rfn' = [rfn EXCEPT ![r] = f]
                  /\ hasq' = hasq \cup {f}
                  /\ UNCHANGED <<mode, phase, pkts, stream, queues, pos, rd, need, buf, inq, tx, sent, spc, sobj, reads, deliv, crtps>>

\* TcpDriver.connect: after starting its threads it sends the SYSTEM packet [0x21, 0x01]
Connect == /\ mode = "tcp" /\ phase = "setup" /\ tx = <<>>
           /\ tx' = P!Frame(SystemHello)
           /\ UNCHANGED <<mode, phase, pkts, stream, rfn, hasq, queues, pos, rd, need, buf, inq, sent, spc, sobj, reads, deliv, crtps>>

Get(r) == /\ r \in Rcv /\ rfn[r] # 0
          /\ queues[rfn[r]] # <<>>
          /\ LET o == IF Bug = "lifo" THEN Last(queues[rfn[r]]) ELSE Head(queues[rfn[r]]) IN
             /\ deliv' = Append(deliv, <<r, rfn[r], o>>)
             /\ inq' = IF r = 0 /\ Len(o[6]) > 0 THEN Append(inq, P!CrtpOfData(o[6])) ELSE inq
          /\ queues' = [queues EXCEPT ![rfn[r]] = IF Bug = "lifo" THEN SubSeq(@, 1, Len(@) - 1) ELSE Tail(@)]
          /\ UNCHANGED <<mode, phase, pkts, stream, rfn, hasq, pos, rd, need, buf, tx, sent, spc, sobj, reads, crtps>>

UserRecv == /\ mode = "tcp" /\ inq # <<>>
            /\ crtps' = Append(crtps, Head(inq)) /\ inq' = Tail(inq)
            /\ UNCHANGED <<mode, phase, pkts, stream, rfn, hasq, queues, pos, rd, need, buf, tx, sent, spc, sobj, reads, deliv>>

\* ---------------------------------------------------------------- senders
\* the bytes one call puts on the wire, from what the packet object reads at that moment
FrameOfObj(o) == IF Bug = "tx_no_header" /\ o[1] = 0 THEN P!Frame(<<3, 1, P!FnCRTP, 0, 0, o[2][3]>>)
                 ELSE P!Frame(CpxOfItem(o))
\* defect variant "inplace_header": send_packet inserts the CRTP header into the caller's data
Touched(o) == IF Bug = "inplace_header" /\ o[1] = 0
              THEN <<0, <<o[2][1], o[2][2], <<o[2][1] * 16 + 12 + o[2][2]>> \o o[2][3]>>>>
              ELSE o

SendBegin(s, it, fresh) ==
    /\ mode = "tcp" /\ tx # <<>> /\ Len(sent) < MaxSends
    /\ s \in Senders /\ spc[s] = "idle"
    /\ IF fresh THEN sobj' = [sobj EXCEPT ![s] = <<it, it>>]
                ELSE sobj[s] # <<>> /\ it = sobj[s][1] /\ it[1] = 0 /\ UNCHANGED sobj
    /\ sent' = Append(sent, <<s, it, fresh>>)
    /\ spc' = [spc EXCEPT ![s] = "called"]
    /\ UNCHANGED <<mode, phase, pkts, stream, rfn, hasq, queues, pos, rd, need, buf, inq, tx, reads, deliv, crtps>>

\* one socket write; the defect variant "split_write" writes the length prefix and the wire data
\* with two calls (two scheduling points)
Write(s) ==
    /\ s \in Senders
    /\ \/ /\ spc[s] = "called"
          /\ LET fr == FrameOfObj(sobj[s][2]) IN
             IF Bug = "split_write"
             THEN tx' = tx \o SubSeq(fr, 1, 2) /\ spc' = [spc EXCEPT ![s] = "lenw"]
             ELSE tx' = tx \o fr /\ spc' = [spc EXCEPT ![s] = "done"]
          /\ sobj' = [sobj EXCEPT ![s] = <<@[1], Touched(@[2])>>]
       \/ /\ spc[s] = "lenw"
          /\ LET fr == P!Frame(CpxOfItem(sobj[s][2])) IN tx' = tx \o SubSeq(fr, 3, Len(fr))
          /\ spc' = [spc EXCEPT ![s] = "done"]
          /\ UNCHANGED sobj
    /\ UNCHANGED <<mode, phase, pkts, stream, rfn, hasq, queues, pos, rd, need, buf, inq, sent, reads, deliv, crtps>>

SendEnd(s) == /\ s \in Senders /\ spc[s] = "done"
              /\ spc' = [spc EXCEPT ![s] = "idle"]
              /\ UNCHANGED <<mode, phase, pkts, stream, rfn, hasq, queues, pos, rd, need, buf, inq, tx, sent, sobj, reads, deliv, crtps>>

\* ---------------------------------------------------------------- reader
BeginRead == /\ rd = "idle"                 \* (the reader may block in recv before the peer sends)
             /\ rd' = "len" /\ need' = 2 /\ buf' = <<>>
             /\ UNCHANGED <<mode, phase, pkts, stream, rfn, hasq, queues, pos, inq, tx, sent, spc, sobj, reads, deliv, crtps>>

Recv(k) == /\ phase = "run" /\ rd \in {"len", "body"} /\ Len(buf) < need
           /\ k \in 1..Min(need - Len(buf), Len(stream) - pos)
           /\ buf' = buf \o SubSeq(stream, pos + 1, pos + k)
           /\ pos' = pos + k
           /\ UNCHANGED <<mode, phase, pkts, stream, rfn, hasq, queues, rd, need, inq, tx, sent, spc, sobj, reads, deliv, crtps>>

\* _readData returns when it has `need` bytes (the defect variant: after the first recv)
Filled == IF Bug = "single_recv" /\ rd = "body" THEN Len(buf) > 0 \/ need = 0 ELSE Len(buf) = need

GotLen == /\ rd = "len" /\ Filled
          /\ need' = IF Bug = "be_len" THEN buf[1] * 256 + buf[2] ELSE buf[1] + 256 * buf[2]
          /\ buf' = <<>> /\ rd' = "body"
          /\ UNCHANGED <<mode, phase, pkts, stream, rfn, hasq, queues, pos, inq, tx, sent, spc, sobj, reads, deliv, crtps>>

RouteKey(o) == IF Bug = "route_by_dst" THEN o[3] ELSE o[4]

Deliver == /\ rd = "body" /\ Filled
           /\ LET o == DecodeWire(buf) IN
              /\ reads' = Append(reads, o)
              /\ queues' = IF mode # "transport" /\ o[1] = 1 /\ RouteKey(o) \in hasq
                           THEN [queues EXCEPT ![RouteKey(o)] = Append(@, o)]
                           ELSE queues
           /\ rd' = "idle" /\ buf' = <<>> /\ need' = 0
           /\ UNCHANGED <<mode, phase, pkts, stream, rfn, hasq, pos, inq, tx, sent, spc, sobj, deliv, crtps>>

\* defect variant "recv_timeout": a recv() inside _readData times out while the peer pauses in the
\* middle of a frame; the bytes collected so far are thrown away with the exception
RecvTimeout == /\ Bug = "recv_timeout" /\ phase = "run" /\ rd \in {"len", "body"}
               /\ Len(buf) > 0 /\ Len(buf) < need /\ pos < Len(stream)
               /\ reads' = Append(reads, P!Rejected)
               /\ rd' = "idle" /\ buf' = <<>> /\ need' = 0
               /\ UNCHANGED <<mode, phase, pkts, stream, rfn, hasq, queues, pos, inq, tx, sent, spc, sobj, deliv, crtps>>
\* defect variant "trans_new_queue": makeTransaction by receiver r replaces the queue of its function
\* (unchanged code: makeTransaction = send the request + receivePacket, i.e. a Get)
Transact(r) == /\ Bug = "trans_new_queue" /\ r \in Rcv /\ rfn[r] # 0 /\ phase = "run"
               /\ queues' = [queues EXCEPT ![rfn[r]] = <<>>]
               /\ UNCHANGED <<mode, phase, pkts, stream, rfn, hasq, pos, rd, need, buf, inq, tx, sent, spc, sobj, reads, deliv, crtps>>

Next == \/ RecvTimeout \/ (\E r \in Rcv : Transact(r))
        \/ \E p \in Packets : AddPacket(p)
        \/ Start
        \/ \E r \in Rcv, f \in RFns \cup {P!FnCRTP} : Register(r, f)
        \/ \E r \in Rcv : Get(r)
        \/ UserRecv \/ Connect
        \/ \E s \in Senders : \/ \E it \in SendSets[s], fresh \in BOOLEAN : SendBegin(s, it, fresh)
                              \/ Write(s) \/ SendEnd(s)
        \/ BeginRead \/ (\E k \in 1..(need - Len(buf)) : Recv(k)) \/ GotLen \/ Deliver

Spec == Init /\ [][Next]_vars

\* ---------------------------------------------------------------- properties (C18)
\* nothing more can happen on the receive side
Quiescent == /\ phase = "run" /\ pos = Len(stream)
             /\ rd \in {"len", "body"} /\ ~Filled
             /\ \A f \in hasq : queues[f] = <<>> \/ \A r \in Rcv : rfn[r] # f
             /\ inq = <<>>
RegsAtStart == {rfn[r] : r \in Rcv} \ {0}

CodecOK == \A i \in DOMAIN pkts : P!CodecClause(pkts[i], DecodeWire(P!Wire(pkts[i]))) = "ok"
ReadsOK == P!ReadsClause(pkts, reads, Quiescent) = "ok"
RouteStrict == P!RouteClause(pkts, RegsAtStart, deliv, Quiescent) = "ok"
RouteOK == LateRegister \/ RouteStrict
\* with late registration packets that arrive before the first receivePacket(f) are dropped by
\* the router (DESIGN 3.1(10)); what remains: only own function, order kept (a subsequence)
RouteLate == \A i \in DOMAIN deliv :
                /\ deliv[i][3][1] = 1 /\ deliv[i][3][4] = deliv[i][2]
                /\ P!IsSubseq(P!HandedFor(deliv, deliv[i][2]), P!Accepted(pkts, deliv[i][2]))
DownOK == mode = "tcp" /\ ~LateRegister => P!DownClause(pkts, crtps, Quiescent) = "ok"
SentHist == [i \in DOMAIN sent |-> <<sent[i][1], sent[i][2]>>]
UpOK == mode = "tcp" /\ (\A s \in Senders : spc[s] = "idle") => P!UpClause(SentHist, tx) = "ok"
TypeOK == /\ mode = Mode /\ phase \in {"setup", "run"} /\ rd \in {"idle", "len", "body"}
          /\ pos \in 0..Len(stream) /\ Len(buf) <= need
          /\ stream = P!Stream(pkts)
          /\ \A s \in Senders : spc[s] \in {"idle", "called", "lenw", "done"}
          /\ P!OwnKeys(SentHist)
=============================================================================
