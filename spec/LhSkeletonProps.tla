------------------------------ MODULE LhSkeletonProps ------------------------------
(* X03 -- the discrete guarantees of the lighthouse geometry pipeline, over observable history
   only (plain arguments, no variables).  Stated from the docstrings, the tests under
   /repo/test/localization and the one caller (examples/lighthouse/multi_bs_geometry_estimation.py).

   Part 1  LighthouseSampleMatcher.match(samples, max_time_diff, min_nr_of_bs_in_match)
   ----------------------------------------------------------------------------------------
     meas   : Seq([ts : Nat, bs : Nat])      the input list, time stamps in integer ticks
     d      : Nat                            max_time_diff in ticks
     minbs  : Nat                            min_nr_of_bs_in_match
     out    : [kind   : "return" | "raise",
               groups : Seq([ts : Nat, mem : Seq(<<bs, idx>>)]),   the returned list; mem is the
                        angles_calibrated dict in its own order, idx = position (1-based) in the
                        input of the measurement whose angles OBJECT is stored (0 = not an input object)
               intact : BOOLEAN]             the input list and its elements are unchanged

   The property is formulated with TIME WINDOWS, not with the loop of the implementation:
   the earliest time stamp opens a window [s, s+d]; the next window is opened by the earliest
   time stamp that does not fit any more (> s+d); and so on.  A returned group is one such
   window: its time stamp is the opener, it holds one angle set for exactly the base stations
   measured in the window, every angle set comes from a measurement inside the window, windows
   with fewer than minbs base stations are dropped and all others are returned, in time order.
   Interpretive decisions (weaker readings):
     * the window clauses are claimed for time-ordered input only (non-decreasing time stamps:
       measurements are stamped with time.time() as they arrive).  For other input only the
       order-independent clauses are judged.
     * when a base station is measured more than once in a window, the group may hold ANY of
       those angle sets (the code keeps the last).
     * time stamps are exact multiples of a power-of-two tick so that float arithmetic is exact.

   Part 2  LighthouseInitialEstimator.estimate(matched_samples, sensor_positions), graph part
   ----------------------------------------------------------------------------------------
     samples : Seq(SUBSET Nat)               base station ids of every input sample
     obs     : [kind    : "return" | "LhException" | "other",
                bs      : Seq(Nat)           keys of the returned bs_poses
                ncf     : Nat                number of returned cf_poses
                cleaned : Seq(Nat)           returned cleaned sample list as input positions (0 = foreign)
                kept    : Seq(Nat)           input positions that survived the numeric outlier test
                                             (recorded at _angles_to_poses; all positions if unobserved)
                ref     : [bs, sample]       reference base station and the input position of the sample
                                             whose Crazyflie frame became the global frame (sample = 0: unobserved)
                intact  : BOOLEAN]
   A sample LINKS the base stations it contains when it contains at least two.  With
   M = linking samples (among the samples that are used) and V = base stations in M:
     * the only exception is LhException;
     * M empty, or V not connected by M  =>  LhException ("too little data" / "cannot link");
     * V connected and every used sample is a linking one  =>  a result;
       (used samples with a single base station present and V connected: either outcome is
        accepted -- the docstring does not say whether such a sample is skipped or refused)
     * a result has a pose for every base station of V and for no id that is not in the input,
       one Crazyflie pose per returned sample, the returned samples are input samples in input
       order, and the global frame is the Crazyflie frame of the first linking sample
       (docstring: "The pose of the Crazyflie in the first sample is used as a reference").
   Numeric values (poses) are not part of this module.                                        *)
EXTENDS Naturals, Sequences, FiniteSets

Range(s) == {s[i] : i \in DOMAIN s}
Min(S) == CHOOSE x \in S : \A y \in S : x <= y
Max(S) == CHOOSE x \in S : \A y \in S : x >= y
Increasing(s) == \A i \in 1..(Len(s) - 1) : s[i] < s[i + 1]

(* ------------------------------------------------------------------ matcher *)
Sorted(meas) == \A i \in 1..(Len(meas) - 1) : meas[i].ts <= meas[i + 1].ts
TsSet(meas) == {meas[i].ts : i \in DOMAIN meas}

RECURSIVE OpenersFrom(_, _, _)
OpenersFrom(T, s, d) == LET later == {t \in T : t > s + d}
                        IN  IF later = {} THEN <<s>> ELSE <<s>> \o OpenersFrom(later, Min(later), d)
Openers(meas, d) == IF meas = <<>> THEN <<>> ELSE OpenersFrom(TsSet(meas), Min(TsSet(meas)), d)

Window(meas, s, d) == {i \in DOMAIN meas : meas[i].ts >= s /\ meas[i].ts <= s + d}
BsIn(meas, I) == {meas[i].bs : i \in I}

AllWindows(meas, d) == LET op == Openers(meas, d)
                       IN  [k \in DOMAIN op |-> [ts |-> op[k], win |-> Window(meas, op[k], d)]]
BigEnough(meas, minbs, w) == Cardinality(BsIn(meas, w.win)) >= minbs
Expected(meas, d, minbs) == SelectSeq(AllWindows(meas, d), LAMBDA w : BigEnough(meas, minbs, w))

MemIdx(g) == {g.mem[j][2] : j \in DOMAIN g.mem}
MemBs(g) == {g.mem[j][1] : j \in DOMAIN g.mem}
TsSeq(gs) == [k \in DOMAIN gs |-> gs[k].ts]
\* a is obtained from b by deleting elements (both strictly increasing here)
SubSeqOf(a, b) == Range(a) \subseteq Range(b) /\ Len(a) <= Len(b)

\* ---- clauses that do not depend on the order of the time stamps
MembersFromInput(meas, out) ==
    \A k \in DOMAIN out.groups : \A j \in DOMAIN out.groups[k].mem :
        LET m == out.groups[k].mem[j] IN m[2] \in DOMAIN meas /\ meas[m[2]].bs = m[1]
OneEntryPerBs(out) ==
    \A k \in DOMAIN out.groups : Cardinality(MemBs(out.groups[k])) = Len(out.groups[k].mem)
NoEmptyGroup(out) == \A k \in DOMAIN out.groups : out.groups[k].mem # <<>>
AtMostOneGroup(out) ==
    \A k1, k2 \in DOMAIN out.groups : k1 < k2 => MemIdx(out.groups[k1]) \cap MemIdx(out.groups[k2]) = {}
InputOrder(out) ==
    \A k \in 1..(Len(out.groups) - 1) : Max(MemIdx(out.groups[k])) < Min(MemIdx(out.groups[k + 1]))
NoSmallGroup(out, minbs) == \A k \in DOMAIN out.groups : Len(out.groups[k].mem) >= minbs
GroupTsFromInput(meas, out) == \A k \in DOMAIN out.groups : out.groups[k].ts \in TsSet(meas)

\* ---- clauses for time-ordered input
WindowClause(meas, d, minbs, out) ==
    LET exp == Expected(meas, d, minbs)
        all == AllWindows(meas, d)
        got == TsSeq(out.groups)
    IN  IF got # TsSeq(exp)
        THEN IF \E k \in DOMAIN got : got[k] \notin Range(TsSeq(all)) THEN "WindowAnchor"
             ELSE IF \E k \in DOMAIN got : got[k] \notin Range(TsSeq(exp)) THEN "DroppedWindowReturned"
             ELSE IF SubSeqOf(got, TsSeq(exp)) /\ Increasing(got) THEN "GroupMissing"
             ELSE "GroupOrder"
        ELSE IF \E k \in DOMAIN exp : ~(MemIdx(out.groups[k]) \subseteq exp[k].win) THEN "MemberOutsideWindow"
        ELSE IF \E k \in DOMAIN exp : ~(BsIn(meas, exp[k].win) \subseteq MemBs(out.groups[k])) THEN "BsMissingFromGroup"
        ELSE "ok"

MatchClause(meas, d, minbs, out) ==
    IF out.kind # "return" THEN "MatcherRaised"
    ELSE IF ~out.intact THEN "MatchInputMutated"
    ELSE IF ~MembersFromInput(meas, out) THEN "MembersFromInput"
    ELSE IF ~OneEntryPerBs(out) THEN "OneEntryPerBs"
    ELSE IF ~NoEmptyGroup(out) THEN "EmptyGroup"
    ELSE IF ~AtMostOneGroup(out) THEN "AtMostOneGroup"
    ELSE IF ~InputOrder(out) THEN "InputOrder"
    ELSE IF ~NoSmallGroup(out, minbs) THEN "SmallGroupKept"
    ELSE IF ~GroupTsFromInput(meas, out) THEN "GroupTsFromInput"
    ELSE IF Sorted(meas) THEN WindowClause(meas, d, minbs, out)
    ELSE "ok"

MatchOK(meas, d, minbs, out) == MatchClause(meas, d, minbs, out) = "ok"

(* ------------------------------------------------------------------ estimator *)
Linking(samples, I) == {k \in I : Cardinality(samples[k]) >= 2}
BsOf(samples, I) == UNION {samples[k] : k \in I}
\* every cut of V is crossed by a linking sample
Connected(samples, M) ==
    LET V == BsOf(samples, M) IN
    \A S \in SUBSET V : (S # {} /\ S # V) => \E k \in M : samples[k] \cap S # {} /\ samples[k] \ S # {}

IdxSeqOK(samples, s) == Increasing(s) /\ Range(s) \subseteq DOMAIN samples

EstClause(samples, obs) ==
    IF ~obs.intact THEN "EstInputMutated"
    ELSE IF obs.kind = "other" THEN "OnlyLhException"
    ELSE IF obs.kind = "return" /\ ~IdxSeqOK(samples, obs.cleaned) THEN "CleanedNotSubsequence"
    ELSE IF obs.kind # "return" /\ ~IdxSeqOK(samples, obs.kept) THEN "KeptNotSubsequence"
    ELSE LET used == IF obs.kind = "return" THEN Range(obs.cleaned) ELSE Range(obs.kept)
             M == Linking(samples, used)
             V == BsOf(samples, M)
             mustRaise == M = {} \/ ~Connected(samples, M)
             mustReturn == ~mustRaise /\ M = used
         IN  IF mustRaise /\ obs.kind = "return" THEN "MissedUnlinked"
             ELSE IF mustReturn /\ obs.kind = "LhException" THEN "SpuriousLhException"
             ELSE IF obs.kind # "return" THEN "ok"
             ELSE IF ~(V \subseteq Range(obs.bs)) THEN "MissingBsPose"
             ELSE IF ~(Range(obs.bs) \subseteq BsOf(samples, DOMAIN samples)) THEN "InventedBsPose"
             ELSE IF Cardinality(Range(obs.bs)) # Len(obs.bs) THEN "DuplicateBsPose"
             ELSE IF obs.ncf # Len(obs.cleaned) THEN "CfPosePerSample"
             ELSE IF obs.ref.sample # 0 /\ (obs.ref.sample # Min(M) \/ obs.ref.bs \notin samples[Min(M)])
                  THEN "ReferenceNotFirstSample"
             ELSE "ok"

EstOK(samples, obs) == EstClause(samples, obs) = "ok"
=============================================================================
