SPECIFICATION Spec
CONSTANTS
  Versions <- AllVersions
  Cmds <- AllCmds
  ArgSets <- ArgSetsSim
  HdrPorts <- Ports16
  HdrChans <- Chans4
  Links <- LinksBoth
  Cap = 1
  Chained = FALSE
  Bug = "none"
INVARIANT EmissionsOK
CHECK_DEADLOCK FALSE
