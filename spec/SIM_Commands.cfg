SPECIFICATION Spec
CONSTANTS
  Versions <- AllVersions
  Cmds <- AllCmds
  ArgSets <- ArgSetsSim
  HdrPorts <- Ports16
  HdrChans <- Chans4
  PlatPackets <- PlatSim
  Links <- LinksBoth
  Cap = 1
  Chained = FALSE
  Bug = "none"
INVARIANT EmissionsOK
CHECK_DEADLOCK FALSE
