------------------------------ MODULE ParamProtoTrace ------------------------------
(* Trace spec for C04.  One TLC run judges a batch of traces recorded from the real
   cflib Param / _ParamUpdater / dispatcher running against the simulated device.

   Trace object  [id, cfg, ev]; cfg as in ParamProtoProps plus default, stored0; events:
     step  [a, u, op | n | i]  a scheduler grant / device action = one design-spec action (binding only);
                            Tick (the virtual clock advances to the next deadline) and DispIdle (the dispatcher's
                            1 s poll returns nothing) are stuttering steps of the design spec
     call  [rid, u, k, p, v]            an API call starts            (user thread)
     issue [rid, chan, data]            request handed to the updater's FIFO (inside call rid)
     ret   [rid, exc]                   the call returned / raised
     got   [rid, p, val, nrx]           get_value result
     tx    [chan, data]                 the device received a port-2 request
     ans   [chan, data, w]              the device emitted the answer to its w-th request
     ntf   [chan, data]                 the device emitted an unsolicited value-changed packet
     dup   [chan, data, w]              the link delivered a second copy of the answer to request w
     rx    [chan, data]                 the dispatcher starts dispatching a port-2 packet
     upd   [cb, p, arg, cache, get, ops] update callback cb ran (argument, Param.values, get_value; ops = the
                                        registrations it added / removed through the API while running)
     cb    [rid, pay]                   the reply callback given to call rid ran
     ext   [p, dev, lib]                after connecting: extended type the device answered for p, and
                                        whether the library marked p persistent
     final [p, cache, get]              after the run
     end   [budget, dead]               nothing can move any more (budget: run cut off instead)

   monitor (the verdict): rebuilds the history from the observable events and evaluates the
            clauses of ParamProtoProps; the first failing clause is kept in bad/badAt.
   conform (the binding): every step must be an enabled action of ParamProto (constant Bug:
            "none" = the repaired code, "cmdOnly"/"cmdId" = pre-fix trees; the harness detects which
            one the tree under test implements), and before every step
            the history the design spec computed must equal the recorded one.                 *)
EXTENDS Naturals, Sequences, FiniteSets, TLC, Json, IOUtils

CONSTANT Bug

Traces == JsonDeserialize(IOEnv.TRACE_FILE)

VARIABLES tid, l,
          mcalls, missued, mwire, mdown, mrxs, mgots, mregs, bad, badAt,   \* monitor (mregs: registered update callbacks)
          conf, confAt,                                                 \* conformance verdict
          cf, ust, ucur, oneShots, reqQ, upc, cur, waitLock, lockPat, replyCb, dcb, devq, dval, dstored, inq,
          dpc, snap, dpk, cache, regs, nextRid, nnotif, ndup, calls, issued, wire, down, rxs, gots   \* design spec

T == Traces[tid]
Ev == T.ev[l]
Users == 1..3
Cfg0 == [np |-> 0]      \* unused (Init takes the configuration from the trace)
Ops == {}
Notifs == {}
MaxOps == 100000
MaxNotif == 100000
MaxDup == 100000
DistinctPatterns == FALSE     \* (the harness keeps the release patterns distinct in runs with duplicates)
OneQueryPerCmd == FALSE

D == INSTANCE ParamProto
P == INSTANCE ParamProtoProps

specvars == <<cf, ust, ucur, oneShots, reqQ, upc, cur, waitLock, lockPat, replyCb, dcb, devq, dval, dstored, inq,
              dpc, snap, dpk, cache, regs, nextRid, nnotif, ndup, calls, issued, wire, down, rxs, gots>>
monvars == <<mcalls, missued, mwire, mdown, mrxs, mgots, mregs>>

Reg0(c) == SelectSeq([i \in DOMAIN c.updcbs |-> c.updcbs[i].id], LAMBDA id : P!CbById(c, id).reg0)

Init == /\ tid \in 1..Len(Traces)
        /\ l = 1
        /\ mcalls = <<>> /\ missued = <<>> /\ mwire = <<>> /\ mdown = <<>> /\ mrxs = <<>> /\ mgots = <<>>
        /\ mregs = Reg0(Traces[tid].cfg)
        /\ bad = "ok" /\ badAt = 0
        /\ conf = TRUE /\ confAt = 0
        /\ cf = Traces[tid].cfg
        /\ ust = [u \in Users |-> "idle"] /\ ucur = [u \in Users |-> D!NoReq]
        /\ oneShots = <<>> /\ reqQ = <<>>
        /\ upc = "get" /\ cur = D!NoReq /\ waitLock = FALSE /\ lockPat = <<>> /\ replyCb = D!NoCb /\ dcb = D!NoCb
        /\ devq = <<>> /\ dval = Traces[tid].cfg.init /\ dstored = Traces[tid].cfg.stored0
        /\ inq = <<>>
        /\ dpc = "recv" /\ snap = <<>> /\ dpk = [chan |-> 0, data |-> <<>>]
        /\ cache = Traces[tid].cfg.init
        /\ regs = Reg0(Traces[tid].cfg)
        /\ nextRid = 1 /\ nnotif = 0 /\ ndup = 0
        /\ calls = <<>> /\ issued = <<>> /\ wire = <<>> /\ down = <<>> /\ rxs = <<>> /\ gots = <<>>

Fail(c) == IF bad = "ok" /\ c # "ok" THEN bad' = c /\ badAt' = l ELSE UNCHANGED <<bad, badAt>>

\* ------------------------------------------------------------------ binding: history equality
TypeOfP(p) == T.cfg.type[p]
SameVal(p, mv, dv) == P!SameTyped(TypeOfP(p), mv, dv.b)
SameUpd(mu, du) == /\ mu.cb = du.cb /\ mu.p = du.p /\ mu.ops = du.ops
                   /\ SameVal(du.p, mu.arg, du.arg) /\ SameVal(du.p, mu.cache, du.cache) /\ SameVal(du.p, mu.get, du.get)
SameRx(mr, dr) == /\ mr.chan = dr.chan /\ mr.data = dr.data
                  /\ Len(mr.upds) = Len(dr.upds) /\ \A i \in DOMAIN mr.upds : SameUpd(mr.upds[i], dr.upds[i])
                  /\ mr.cbs = dr.cbs /\ mr.before = dr.before
SameCall(mc, dc) == /\ mc.rid = dc.rid /\ mc.u = dc.u /\ mc.k = dc.k /\ mc.p = dc.p
                    /\ (mc.exc = "") = (dc.exc = "") /\ mc.done = dc.done
SameGot(mg, dg) == mg.rid = dg.rid /\ mg.p = dg.p /\ mg.nrx = dg.nrx /\ SameVal(dg.p, mg.val, dg.val)
\* (sequences that only grow are compared by length and newest element: the older elements were the
\* newest at an earlier step; calls and the newest dispatch record can still change and are compared whole)
LastSame(ms, ds) == Len(ms) = Len(ds) /\ (Len(ds) > 0 => ms[Len(ms)] = ds[Len(ds)])
HistSame == /\ Len(mcalls) = Len(calls) /\ \A i \in DOMAIN calls : SameCall(mcalls[i], calls[i])
            /\ LastSame(missued, issued) /\ LastSame(mwire, wire) /\ LastSame(mdown, down)
            /\ Len(mrxs) = Len(rxs) /\ (Len(rxs) > 0 => SameRx(mrxs[Len(rxs)], rxs[Len(rxs)]))
            /\ Len(mgots) = Len(gots) /\ (Len(gots) > 0 => SameGot(mgots[Len(gots)], gots[Len(gots)]))

Conform(A) == IF conf /\ HistSame /\ ENABLED A
              THEN A /\ UNCHANGED <<conf, confAt>>
              ELSE /\ conf' = FALSE /\ confAt' = (IF conf THEN l ELSE confAt)
                   /\ UNCHANGED specvars

EStep == /\ Ev.e = "step"
         /\ UNCHANGED <<monvars, bad, badAt>>
         /\ CASE Ev.a = "UBegin" -> Conform(D!UBegin(Ev.u, Ev.op))
              [] Ev.a = "UPut" -> Conform(D!UPut(Ev.u))
              [] Ev.a = "UpdGet" -> Conform(D!UpdGet)
              [] Ev.a = "UpdLock" -> Conform(D!UpdLock)
              [] Ev.a = "UpdLockTimeout" -> Conform(D!UpdLockTimeout)
              [] Ev.a \in {"Tick", "DispIdle"} -> Conform(UNCHANGED specvars)    \* time passes / the 1 s poll comes back empty
              [] Ev.a = "UpdSend" -> Conform(D!UpdSend)
              [] Ev.a = "UpdDone" -> Conform(D!UpdDone)
              [] Ev.a = "DevAnswer" -> Conform(D!DevAnswer)
              [] Ev.a = "DevNotify" -> Conform(D!DevNotify(Ev.n))
              [] Ev.a = "DevDup" -> Conform(D!DevDup(Ev.i))
              [] Ev.a = "DispRecv" -> Conform(D!DispRecv)
              [] Ev.a = "DispRel" -> Conform(D!DispRel)
              [] OTHER -> Conform(FALSE /\ UNCHANGED specvars)

\* ------------------------------------------------------------------ monitor
Keep == UNCHANGED <<specvars, conf, confAt>>
CallIdx(rid) == CHOOSE i \in DOMAIN mcalls : mcalls[i].rid = rid
LastRxClause == IF mrxs = <<>> THEN "ok"
                ELSE P!RxClause(T.cfg, Len(mrxs), mrxs[Len(mrxs)], mdown, missued, mcalls)
NAns == Cardinality({i \in DOMAIN mdown : mdown[i].kind = "ans"})

ECall == /\ Ev.e = "call"
         /\ mcalls' = Append(mcalls, [rid |-> Ev.rid, u |-> Ev.u, k |-> Ev.k, p |-> Ev.p, v |-> Ev.v,
                                      exc |-> "", done |-> FALSE])
         /\ UNCHANGED <<missued, mwire, mdown, mrxs, mgots, mregs, bad, badAt>> /\ Keep
EIssue == /\ Ev.e = "issue"
          /\ missued' = Append(missued, [rid |-> Ev.rid, chan |-> Ev.chan, data |-> Ev.data])
          /\ UNCHANGED <<mcalls, mwire, mdown, mrxs, mgots, mregs, bad, badAt>> /\ Keep
ERet == /\ Ev.e = "ret"
        /\ LET i == CallIdx(Ev.rid)
               c == [mcalls[i] EXCEPT !.exc = Ev.exc, !.done = TRUE]
           IN /\ mcalls' = [mcalls EXCEPT ![i] = c]
              /\ Fail(P!CallClause(T.cfg, c, missued))
        /\ UNCHANGED <<missued, mwire, mdown, mrxs, mgots, mregs>> /\ Keep
EGot == /\ Ev.e = "got"
        /\ mgots' = Append(mgots, [rid |-> Ev.rid, p |-> Ev.p, val |-> Ev.val, nrx |-> Ev.nrx])
        /\ Fail(IF Ev.nrx # Len(mrxs) THEN "TraceMalformed"
                ELSE P!FreshClause(T.cfg, Ev.p, Ev.val, mdown, Ev.nrx))
        /\ UNCHANGED <<mcalls, missued, mwire, mdown, mrxs, mregs>> /\ Keep
ETx == /\ Ev.e = "tx"
       /\ LET w2 == Append(mwire, [chan |-> Ev.chan, data |-> Ev.data, nans |-> NAns])
          IN mwire' = w2 /\ Fail(P!WireClause(missued, w2))
       /\ UNCHANGED <<mcalls, missued, mdown, mrxs, mgots, mregs>> /\ Keep
EDown == /\ Ev.e \in {"ans", "ntf", "dup"}
         /\ mdown' = Append(mdown, [kind |-> Ev.e, chan |-> Ev.chan, data |-> Ev.data,
                                    w |-> IF Ev.e = "ntf" THEN 0 ELSE Ev.w])
         /\ UNCHANGED <<mcalls, missued, mwire, mrxs, mgots, mregs, bad, badAt>> /\ Keep
ERx == /\ Ev.e = "rx"
       /\ Fail(LastRxClause)                       \* the previous dispatch is over now
       /\ mrxs' = Append(mrxs, [chan |-> Ev.chan, data |-> Ev.data, upds |-> <<>>, cbs |-> <<>>, before |-> mregs])
       /\ UNCHANGED <<mcalls, missued, mwire, mdown, mgots, mregs>> /\ Keep
\* the registrations after a callback performed ops
RECURSIVE ApplyOps(_, _, _)
ApplyOps(rg, ops, i) ==
    IF i > Len(ops) THEN rg
    ELSE ApplyOps(IF ops[i][1] = "remove" THEN SelectSeq(rg, LAMBDA x : x # ops[i][2]) ELSE Append(rg, ops[i][2]), ops, i + 1)
EUpd == /\ Ev.e = "upd"
        /\ IF mrxs = <<>> THEN Fail("SpuriousUpdate") /\ UNCHANGED mrxs
           ELSE /\ mrxs' = [mrxs EXCEPT ![Len(mrxs)].upds =
                              Append(@, [cb |-> Ev.cb, p |-> Ev.p, arg |-> Ev.arg, cache |-> Ev.cache, get |-> Ev.get,
                                         ops |-> Ev.ops])]
                /\ UNCHANGED <<bad, badAt>>
        /\ mregs' = ApplyOps(mregs, Ev.ops, 1)
        /\ UNCHANGED <<mcalls, missued, mwire, mdown, mgots>> /\ Keep
ECb == /\ Ev.e = "cb"
       /\ IF mrxs = <<>> THEN Fail("ReplyToOtherRequest") /\ UNCHANGED mrxs
          ELSE /\ mrxs' = [mrxs EXCEPT ![Len(mrxs)].cbs = Append(@, [rid |-> Ev.rid, pay |-> Ev.pay])]
               /\ UNCHANGED <<bad, badAt>>
       /\ UNCHANGED <<mcalls, missued, mwire, mdown, mgots, mregs>> /\ Keep
EExt == /\ Ev.e = "ext"
        /\ Fail(P!ExtClause(Ev.dev, Ev.lib))
        /\ UNCHANGED monvars /\ Keep
EFinal == /\ Ev.e = "final"
          /\ Fail(P!First(<<LastRxClause,
                            P!FreshClause(T.cfg, Ev.p, Ev.cache, mdown, Len(mrxs)),
                            P!FreshClause(T.cfg, Ev.p, Ev.get, mdown, Len(mrxs))>>))
          /\ UNCHANGED monvars /\ Keep
EEnd == /\ Ev.e = "end"
        /\ Fail(P!First(<<LastRxClause,
                          IF Ev.budget THEN "ok" ELSE P!EndClause(missued, mwire, mdown, Len(mrxs))>>))
        /\ UNCHANGED monvars
        /\ conf' = (conf /\ HistSame) /\ confAt' = (IF conf /\ ~HistSame THEN l ELSE confAt)
        /\ UNCHANGED specvars

Step == /\ l <= Len(T.ev)
        /\ l' = l + 1 /\ UNCHANGED tid
        /\ (EStep \/ ECall \/ EIssue \/ ERet \/ EGot \/ ETx \/ EDown \/ ERx \/ EUpd \/ ECb \/ EExt \/ EFinal \/ EEnd)

Finish == /\ l = Len(T.ev) + 1
          /\ l' = l + 1
          /\ PrintT(<<"VERDICT", T.id, bad, badAt, conf, confAt>>)
          /\ UNCHANGED <<tid, monvars, bad, badAt, conf, confAt, specvars>>

Next == Step \/ Finish
Spec == Init /\ [][Next]_<<tid, l, monvars, bad, badAt, conf, confAt, specvars>>
=============================================================================
