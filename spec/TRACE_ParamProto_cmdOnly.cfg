SPECIFICATION Spec
CONSTANT Bug = "cmdOnly"
CHECK_DEADLOCK FALSE
