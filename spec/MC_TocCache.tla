---- MODULE MC_TocCache ----
(* Constants for the exhaustive / simulation runs of TocCache.  The tables are written in the
   very representation the harness projects real cflib tables to (harness/props/C11.py: proj_value):
   "i:<n>" int, "b:T"/"b:F" bool, "s:<text>" str, "-" attribute absent.  The harness turns each
   table below into a simdev device table, so TLC behaviours can be driven through the real code
   and the post-states compared literally. *)
EXTENDS TocCache

E(kg, kn, ident, ctype, pytype, access, ext) ==
    [kg |-> "s:" \o kg, kn |-> "s:" \o kn, ident |-> ident, group |-> "s:" \o kg, name |-> "s:" \o kn,
     ctype |-> "s:" \o ctype, pytype |-> "s:" \o pytype, access |-> access, ext |-> ext]

\* log tables (LogTocElement has no `extended` attribute: "-"); canonical order = sorted by (kg, kn)
LogT1 == << E("pm", "vbat", "i:0", "float", "<f", "i:0", "-") >>
LogT2 == << E("pm", "state", "i:1", "uint8_t", "<B", "i:0", "-"),
            E("pm", "vbat", "i:0", "float", "<f", "i:0", "-") >>
LogT3 == << E("acc", "x", "i:0", "FP16", "<e", "i:0", "-"),
            E("acc", "y", "i:1", "int16_t", "<h", "i:0", "-"),
            E("stab", "roll", "i:2", "uint32_t", "<L", "i:0", "-") >>
\* parameter tables: access i:0 = RW, i:1 = RO; ext = extended marker
ParT1 == << E("ring", "effect", "i:0", "uint8_t", "<B", "i:0", "b:F") >>
ParT2 == << E("pid", "kp", "i:1", "float", "<f", "i:1", "b:T"),
            E("ring", "effect", "i:0", "uint8_t", "<B", "i:0", "b:F") >>
ParT3 == << E("imu", "bias", "i:2", "double", "<d", "i:0", "b:F"),
            E("imu", "mode", "i:0", "int8_t", "<b", "i:1", "b:F"),
            E("sys", "tick", "i:1", "uint64_t", "<Q", "i:1", "b:T") >>
Empty == << >>

LogQuick == {LogT1, LogT2}
ParQ1 == {ParT2}        \* the quick exhaustive runs: one (extended, read-only) parameter table
ParQuick == {ParT1, ParT2}
\* the empty table is stored as {} and read back as a falsy value: a miss (`if (cache_data)`)
LogEmpty == {LogT1, Empty}
ParEmpty == {ParT1, Empty}
LogSim == {LogT1, LogT2, LogT3, Empty}
ParSim == {ParT1, ParT2, ParT3, Empty}

\* thorough: three connections; the parameter side is kept to one (extended, read-only) table
LogThor == {LogT1, LogT2}
ParThor == {ParT2}

ParOnlyEmpty == {Empty}

\* what the other cache object on the same directory stores (under a checksum of Crcs)
OtherTabs == {LogT2}

Crcs2 == {"1111BEEF", "2222BEEF"}
CrcSeq2 == <<"1111BEEF", "2222BEEF">>
Crcs3 == {"1111BEEF", "2222BEEF", "00000000"}
CrcSeq3 == <<"00000000", "1111BEEF", "2222BEEF">>
Crcs4 == {"1111BEEF", "2222BEEF", "00000000", "FFFFFFFF"}
CrcSeq4 == <<"FFFFFFFF", "00000000", "2222BEEF", "1111BEEF">>
\* under the short-suffix bug the two ....BEEF checksums are indistinguishable
AliasBeef == [c \in Crcs4 |-> IF c = "2222BEEF" THEN "1111BEEF" ELSE c]
====
