SPECIFICATION Spec
CONSTANTS
  Configs <- ConfigsSmall4
  Budget = 4
  Window <- WindowAll
  Bug = "none"
INVARIANT TableAtDone
INVARIANT TableStaysOK
INVARIANT LookupsOK
INVARIANT Progress
INVARIANT OnePattern
INVARIANT TypeOK
CHECK_DEADLOCK FALSE
