---- MODULE MC_ParamFile ----
EXTENDS ParamFile
NaturesAll == {"ok", "ro", "nonpers"}
NaturesOk == {"ok"}
StatusesQuick == {0, 2}
StatusesAll == {0, 2, 12}       \* ENOENT, ENOMEM
ValsQuick == {4}
ValsThorough == {4, 10}
====
