------------------------------ MODULE ParamProto ------------------------------
(* Design spec of the parameter subsystem of cflib (C04): cflib/crazyflie/param.py Param +
   _ParamUpdater, the dispatcher thread of cflib/crazyflie/__init__.py as far as port 2 is
   concerned, and the device's parameter service (twin of harness/props/C04.py ParamDev).

   One action per yield-to-yield region of the code under the virtual scheduler (a thread runs
   from one synchronisation operation to the next):
     user u        UBegin(u, op)   the API call up to request_queue.put (TOC lookup, refusals,
                                   struct.pack, registration of the one-shot port callback)
                   UPut(u)         request_queue.put and return
     updater       UpdGet          request_queue.get
                   UpdLock         wait_lock.acquire, _lock_pattern := ... and (misc requests)
                                   _reply_callback := the request's reply callback, up to _send_lock.acquire
                   UpdSend         _send_lock.acquire, link.send_packet (device receives it)
                   UpdDone         _send_lock.release, back to request_queue.get
     dispatcher    DispRecv        link.receive_packet, packet_received callbacks, snapshot of the
                                   port callbacks, _ParamUpdater._new_packet_cb up to
                                   wait_lock.release (or, without a lock match, all callbacks)
                   DispRel         wait_lock.release, then the reply callback taken in DispRecv (pre-fix
                                   variants: the one-shot port callbacks of the snapshot)
     device (env)  DevAnswer       serve the oldest received request, emit the reply
                   DevNotify(n)    change a value, emit an unsolicited value-changed packet
     link (env)    DevDup(i)       deliver a second copy of the answer down[i] (what a retransmitting link does
                                   when a reply is late) -- at any later point

   Not modelled: the connection phase (TOC download, extended types, first fetch of all values) -- the
   real code runs it before every recorded execution; its extended-type outcome is judged by the
   monitor directly (ParamProtoProps!ExtClause).  Disconnects, retransmission timers, protocol V1.

   Bug = "none"     the code as repaired (/repo 90bc5a0): the reply callback of persistent_store/clear/
                    get_state/get_default_value travels with its request (pk.reply_callback in the
                    request-queue entry); _ParamUpdater.run copies it to _reply_callback next to
                    _lock_pattern; the MISC branch of _new_packet_cb takes it when the lock pattern
                    matches, releases wait_lock, then calls it with the packet.  Nothing is registered
                    as a port callback.
         "cmdOnly"  pre-fix: the callback is registered as a one-shot port callback at call time and
                    matches on channel and command byte only
         "cmdId"    pre-fix variant matching on command byte and parameter index (a partial repair)
         "noReset"  the read/write branch of _new_packet_cb does not reset _lock_pattern after a match:
                    a duplicated reply matches again                  (sensitivity; seeded change m3)
         "liveIter" Caller.call iterates the live callback list: a callback that unregisters itself makes the
                    next one miss the update                          (sensitivity; seeded change r2-m3)
         "waitTimeout" the updater gives up waiting for wait_lock after a timeout and sends the next request
                    (abstractly: whenever the lock is still held)     (sensitivity; seeded change r2-m1)
         "noWait"   the updater does not wait for wait_lock          (sensitivity)
         "lifo"     the updater takes the newest request first       (sensitivity)
         "wrap"     out-of-range integers are wrapped, not refused   (sensitivity)
         "roSend"   read-only parameters are not refused             (sensitivity)
         "anyRelease" any port-2 packet releases the outstanding request (sensitivity)
         "cbTwice"  update callbacks run twice per answer             (sensitivity)           *)
EXTENDS Naturals, Sequences, FiniteSets, TLC

CONSTANTS Cfg0,       \* [np, type, ro, pers, group, init, updcbs (ParamProtoProps), default, stored0]:
                      \* default[p] bytes; stored0[p] bytes | <<>> stored value at the start (<<>> = none)
          Users,      \* set of user threads
          Ops,        \* set of [k, p, v] a user may call
          MaxOps,     \* total number of API calls
          Notifs,     \* set of [p, v] unsolicited notifications
          MaxNotif,
          MaxDup,          \* number of duplicated answers
          DistinctPatterns,\* TRUE: no two requests of a behaviour share a release pattern (read/write: the index;
                           \* misc: command + index).  Duplicates are only meaningful then: the protocol has no
                           \* sequence numbers, a second copy of an old answer is indistinguishable from the
                           \* answer to a later request with the same pattern.
          Bug,
          OneQueryPerCmd   \* TRUE: users never have two queries of the same misc command pending

P == INSTANCE ParamProtoProps

VARIABLES cf,                             \* the configuration (never changes; a variable so that the
                                          \* trace spec can take it from each trace)
          ust, ucur,                      \* users: "idle" | "put", request being put
          oneShots,                       \* pre-fix variants only: registered one-shot port callbacks, in order:
                                          \* [cmd, p, rid]
          reqQ,                           \* _ParamUpdater.request_queue: [rid, chan, data]; a misc entry carries its
                                          \* reply callback (pk.reply_callback, identified here by the entry's rid)
          upc, cur, waitLock, lockPat,
          replyCb,                        \* _ParamUpdater._reply_callback: [cmd, p, rid] of the misc request in flight (rid 0 = None)
          devq, dval, dstored,            \* device: received, not yet served; values; stored values
          inq,                            \* link.in_queue (emitted, not yet dispatched)
          dpc, snap, dpk, dcb,            \* dispatcher (dcb: reply callback taken, to be called after the release)
          cache,                          \* Param.values (typed bytes)
          regs,                           \* ids of the registered update callbacks, in registration order
          nextRid, nnotif, ndup,
          calls, issued, wire, down, rxs, gots     \* history (ParamProtoProps)

vars == <<cf, ust, ucur, oneShots, reqQ, upc, cur, waitLock, lockPat, replyCb, dcb, devq, dval, dstored, inq,
          dpc, snap, dpk, cache, regs, nextRid, nnotif, ndup, calls, issued, wire, down, rxs, gots>>

NoReq == [rid |-> 0, chan |-> 0, data |-> <<>>]
NoCb == [cmd |-> 0, p |-> 0, rid |-> 0]
PreFix == Bug \in {"cmdOnly", "cmdId"}
Raw(x) == [k |-> "raw", b |-> x]
Known(p) == p \in 1..cf.np
Remove(s, e) == SelectSeq(s, LAMBDA x : x # e)

Init ==
    /\ cf = Cfg0
    /\ ust = [u \in Users |-> "idle"] /\ ucur = [u \in Users |-> NoReq]
    /\ oneShots = <<>> /\ reqQ = <<>>
    /\ upc = "get" /\ cur = NoReq /\ waitLock = FALSE /\ lockPat = <<>>
    /\ replyCb = NoCb /\ dcb = NoCb
    /\ devq = <<>> /\ dval = cf.init /\ dstored = cf.stored0
    /\ inq = <<>>
    /\ dpc = "recv" /\ snap = <<>> /\ dpk = [chan |-> 0, data |-> <<>>]
    /\ cache = cf.init
    /\ regs = SelectSeq([i \in DOMAIN cf.updcbs |-> cf.updcbs[i].id], LAMBDA id : P!CbById(cf, id).reg0)
    /\ nextRid = 1 /\ nnotif = 0 /\ ndup = 0
    /\ calls = <<>> /\ issued = <<>> /\ wire = <<>> /\ down = <<>> /\ rxs = <<>> /\ gots = <<>>

\* ------------------------------------------------------------------ users
WrapBytes(t, v) == LET w == P!Width(t) full == P!Pad(v.mag, 9)
                   IN IF v.neg /\ ~P!IsZero(v.mag) THEN SubSeq(P!Negate(full), 1, w) ELSE SubSeq(full, 1, w)

ExcOf(op) ==
    LET known == Known(op.p) IN
    CASE op.k = "set" -> IF ~known THEN "KeyError"
                         ELSE IF cf.ro[op.p] /\ Bug # "roSend" THEN "AttributeError"
                         ELSE IF ~P!Accepts(cf.type[op.p], op.v) /\ ~(Bug = "wrap" /\ op.v.k = "int") THEN "range"
                         ELSE ""
      [] op.k \in {"store", "clear", "getstate"} ->
                         IF ~known THEN "error" ELSE IF ~cf.pers[op.p] THEN "AttributeError" ELSE ""
      [] OTHER -> IF ~known THEN "error" ELSE ""

PacketOf(op) ==
    CASE op.k = "set" -> [chan |-> 2, data |-> P!IdBytes(op.p) \o
                            (IF P!Accepts(cf.type[op.p], op.v) THEN P!Encode(cf.type[op.p], op.v)
                             ELSE WrapBytes(cf.type[op.p], op.v))]
      [] op.k = "read" -> [chan |-> 1, data |-> P!IdBytes(op.p)]
      [] OTHER -> [chan |-> 3, data |-> <<P!CmdOf(op.k)>> \o P!IdBytes(op.p)]

LockPatOf(r) == IF r.chan = 3 THEN SubSeq(r.data, 1, 3) ELSE SubSeq(r.data, 1, 2)
FreshPattern(op) ==
    IF ExcOf(op) # "" \/ op.k = "get" THEN TRUE
    ELSE LET lp == LockPatOf(PacketOf(op)) IN
         /\ \A i \in DOMAIN issued : LockPatOf(issued[i]) # lp
         /\ \A v \in Users : ust[v] = "put" => LockPatOf(ucur[v]) # lp

UBegin(u, op) ==
    /\ ust[u] = "idle" /\ nextRid <= MaxOps
    /\ DistinctPatterns => FreshPattern(op)
    /\ (OneQueryPerCmd /\ P!IsMisc(op.k)) => \A i \in DOMAIN oneShots : oneShots[i].cmd # P!CmdOf(op.k)
    /\ LET rid == nextRid
           exc == ExcOf(op)
           c == [rid |-> rid, u |-> u, k |-> op.k, p |-> op.p, v |-> op.v, exc |-> exc, done |-> TRUE]
       IN
       /\ nextRid' = rid + 1
       /\ IF exc # ""
          THEN /\ calls' = Append(calls, c)
               /\ UNCHANGED <<ust, ucur, oneShots, gots>>
          ELSE IF op.k = "get"
          THEN /\ calls' = Append(calls, c)
               /\ gots' = Append(gots, [rid |-> rid, p |-> op.p, val |-> Raw(cache[op.p]), nrx |-> Len(rxs)])
               /\ UNCHANGED <<ust, ucur, oneShots>>
          ELSE /\ calls' = Append(calls, [c EXCEPT !.done = FALSE])
               /\ ust' = [ust EXCEPT ![u] = "put"]
               /\ ucur' = [ucur EXCEPT ![u] = [rid |-> rid, chan |-> PacketOf(op).chan, data |-> PacketOf(op).data]]
               /\ oneShots' = IF P!IsMisc(op.k) /\ PreFix
                              THEN Append(oneShots, [cmd |-> P!CmdOf(op.k), p |-> op.p, rid |-> rid])
                              ELSE oneShots
               /\ UNCHANGED gots
    /\ UNCHANGED <<regs, ndup, cf, replyCb, dcb, reqQ, upc, cur, waitLock, lockPat, devq, dval, dstored, inq, dpc, snap, dpk,
                   cache, nnotif, issued, wire, down, rxs>>

UPut(u) ==
    /\ ust[u] = "put"
    /\ reqQ' = Append(reqQ, ucur[u])
    /\ issued' = Append(issued, ucur[u])
    /\ calls' = [i \in DOMAIN calls |-> IF calls[i].rid = ucur[u].rid THEN [calls[i] EXCEPT !.done = TRUE] ELSE calls[i]]
    /\ ust' = [ust EXCEPT ![u] = "idle"]
    /\ ucur' = [ucur EXCEPT ![u] = NoReq]
    /\ UNCHANGED <<regs, ndup, cf, replyCb, dcb, oneShots, upc, cur, waitLock, lockPat, devq, dval, dstored, inq, dpc, snap, dpk,
                   cache, nextRid, nnotif, wire, down, rxs, gots>>

\* ------------------------------------------------------------------ updater thread
UpdGet ==
    /\ upc = "get" /\ reqQ # <<>>
    /\ IF Bug = "lifo"
       THEN cur' = reqQ[Len(reqQ)] /\ reqQ' = SubSeq(reqQ, 1, Len(reqQ) - 1)
       ELSE cur' = Head(reqQ) /\ reqQ' = Tail(reqQ)
    /\ upc' = "lock"
    /\ UNCHANGED <<regs, ndup, cf, replyCb, dcb, ust, ucur, oneShots, waitLock, lockPat, devq, dval, dstored, inq, dpc, snap, dpk,
                   cache, nextRid, nnotif, calls, issued, wire, down, rxs, gots>>

UpdLock ==
    /\ upc = "lock" /\ (~waitLock \/ Bug = "noWait")
    /\ waitLock' = TRUE
    /\ lockPat' = LockPatOf(cur)
    /\ replyCb' = IF cur.chan = 3 /\ ~PreFix
                   THEN [cmd |-> cur.data[1], p |-> P!IdOf(SubSeq(cur.data, 2, 3)), rid |-> cur.rid]
                   ELSE replyCb                    \* (read/write requests leave _reply_callback alone)
    /\ upc' = "send"
    /\ UNCHANGED <<regs, ndup, cf, dcb, ust, ucur, oneShots, reqQ, cur, devq, dval, dstored, inq, dpc, snap, dpk, cache,
                   nextRid, nnotif, calls, issued, wire, down, rxs, gots>>

\* Time: the repaired code has no timed wait in this subsystem except the dispatcher's 1 s poll, which changes
\* nothing; replies may take any (virtual) time.  A clock is therefore not part of the state: "each answered
\* before the next is sent" holds for every delay because no action depends on a delay.  The harness does
\* advance the virtual clock (device holds replies 0.5 .. 10 s); its Tick / DispIdle steps are stuttering steps.
\* The seeded timeout is the variant below.
UpdLockTimeout ==
    /\ Bug = "waitTimeout" /\ upc = "lock" /\ waitLock
    /\ lockPat' = LockPatOf(cur)
    /\ replyCb' = IF cur.chan = 3 /\ ~PreFix
                   THEN [cmd |-> cur.data[1], p |-> P!IdOf(SubSeq(cur.data, 2, 3)), rid |-> cur.rid]
                   ELSE replyCb
    /\ upc' = "send"
    /\ UNCHANGED <<regs, ndup, cf, dcb, waitLock, ust, ucur, oneShots, reqQ, cur, devq, dval, dstored, inq, dpc, snap, dpk, cache,
                   nextRid, nnotif, calls, issued, wire, down, rxs, gots>>

NAns == Cardinality({i \in DOMAIN down : down[i].kind = "ans"})

UpdSend ==
    /\ upc = "send"
    /\ wire' = Append(wire, [chan |-> cur.chan, data |-> cur.data, nans |-> NAns])
    /\ devq' = Append(devq, [chan |-> cur.chan, data |-> cur.data, w |-> Len(wire) + 1])
    /\ upc' = "unlock"
    /\ UNCHANGED <<regs, ndup, cf, replyCb, dcb, ust, ucur, oneShots, reqQ, cur, waitLock, lockPat, dval, dstored, inq, dpc, snap,
                   dpk, cache, nextRid, nnotif, calls, issued, down, rxs, gots>>

UpdDone ==
    /\ upc = "unlock"
    /\ upc' = "get" /\ cur' = NoReq
    /\ UNCHANGED <<regs, ndup, cf, replyCb, dcb, ust, ucur, oneShots, reqQ, waitLock, lockPat, devq, dval, dstored, inq, dpc, snap,
                   dpk, cache, nextRid, nnotif, calls, issued, wire, down, rxs, gots>>

\* ------------------------------------------------------------------ device (firmware twin)
\* [fw param_logic.c] read: id, 0, value; write: id, value after the write (read-only: unchanged);
\* store/clear: cmd, id, status; get state: cmd, id, 0|1, default (, stored); default: cmd, id, default
\* (read-only: ENOENT)
DevAnswer ==
    /\ devq # <<>>
    /\ LET q == Head(devq)
           p == IF q.chan = 3 THEN P!IdOf(SubSeq(q.data, 2, 3)) ELSE P!IdOf(SubSeq(q.data, 1, 2))
           hdr == IF q.chan = 3 THEN SubSeq(q.data, 1, 3) ELSE SubSeq(q.data, 1, 2)
           newv == IF q.chan = 2 /\ ~cf.ro[p] /\ Len(q.data) - 2 = P!Width(cf.type[p])
                   THEN SubSeq(q.data, 3, Len(q.data)) ELSE dval[p]
           cmd == IF q.chan = 3 THEN q.data[1] ELSE 0
           rdata == CASE q.chan = 1 -> hdr \o <<0>> \o dval[p]
                      [] q.chan = 2 -> hdr \o newv
                      [] cmd = 3 \/ cmd = 5 -> hdr \o <<0>>
                      [] cmd = 4 -> IF dstored[p] = <<>> THEN hdr \o <<0>> \o cf.default[p]
                                    ELSE hdr \o <<1>> \o cf.default[p] \o dstored[p]
                      [] OTHER -> IF cf.ro[p] THEN hdr \o <<2>> ELSE hdr \o cf.default[p]
       IN /\ dval' = [dval EXCEPT ![p] = newv]
          /\ dstored' = CASE cmd = 3 -> [dstored EXCEPT ![p] = dval[p]]
                          [] cmd = 5 -> [dstored EXCEPT ![p] = <<>>]
                          [] OTHER -> dstored
          /\ inq' = Append(inq, [chan |-> q.chan, data |-> rdata])
          /\ down' = Append(down, [kind |-> "ans", chan |-> q.chan, data |-> rdata, w |-> q.w])
    /\ devq' = Tail(devq)
    /\ UNCHANGED <<regs, ndup, cf, replyCb, dcb, ust, ucur, oneShots, reqQ, upc, cur, waitLock, lockPat, dpc, snap, dpk, cache,
                   nextRid, nnotif, calls, issued, wire, rxs, gots>>

DevNotify(n) ==
    /\ nnotif < MaxNotif
    /\ nnotif' = nnotif + 1
    /\ dval' = [dval EXCEPT ![n.p] = n.v]
    /\ LET data == <<1>> \o P!IdBytes(n.p) \o n.v IN
       /\ inq' = Append(inq, [chan |-> 3, data |-> data])
       /\ down' = Append(down, [kind |-> "ntf", chan |-> 3, data |-> data, w |-> 0])
    /\ UNCHANGED <<regs, ndup, cf, replyCb, dcb, ust, ucur, oneShots, reqQ, upc, cur, waitLock, lockPat, devq, dstored, dpc, snap, dpk,
                   cache, nextRid, calls, issued, wire, rxs, gots>>

DevDup(i) ==
    /\ ndup < MaxDup /\ i \in DOMAIN down /\ down[i].kind = "ans"
    /\ ndup' = ndup + 1
    /\ inq' = Append(inq, [chan |-> down[i].chan, data |-> down[i].data])
    /\ down' = Append(down, [kind |-> "dup", chan |-> down[i].chan, data |-> down[i].data, w |-> down[i].w])
    /\ UNCHANGED <<regs, cf, replyCb, dcb, ust, ucur, oneShots, reqQ, upc, cur, waitLock, lockPat, devq, dval, dstored, dpc, snap, dpk,
                   cache, nextRid, nnotif, calls, issued, wire, rxs, gots>>

\* ------------------------------------------------------------------ dispatcher thread
\* update callbacks in the order the code calls them: per-parameter, per-group, all
CbOf(id) == P!CbById(cf, id)
\* the Caller objects _param_updated goes through, in this order: per parameter, per group, all
CallerKeys(p) == <<<<"param", p>>, <<"group", cf.group[p]>>, <<"all", 0>>>>
CallerList(rg, key) == SelectSeq(rg, LAMBDA id : CbOf(id).scope = key[1] /\ (key[1] = "all" \/ CbOf(id).ref = key[2]))
\* what callback c does to the registrations when it runs: [regs, ops]
ApplyScript(c, rg) ==
    LET sc == CbOf(c).script
        here(id) == \E i \in DOMAIN rg : rg[i] = id
    IN CASE sc[1] = "removeSelf" /\ here(c) -> [regs |-> Remove(rg, c), ops |-> <<<<"remove", c>>>>]
         [] sc[1] = "remove" /\ here(sc[2]) -> [regs |-> Remove(rg, sc[2]), ops |-> <<<<"remove", sc[2]>>>>]
         [] sc[1] = "add" /\ ~here(sc[2]) -> [regs |-> Append(rg, sc[2]), ops |-> <<<<"add", sc[2]>>>>]
         [] OTHER -> [regs |-> rg, ops |-> <<>>]
UpdEv(c, p, x, ops) == [cb |-> c, p |-> p, arg |-> Raw(x), cache |-> Raw(x), get |-> Raw(x), ops |-> ops]
\* Caller.call: the callbacks of a copy of the list taken at the start (Bug "liveIter", seeded change r2-m3:
\* the live list with a running index, so a removal shifts the rest)
RECURSIVE RunCopy(_, _, _, _, _, _)
RunCopy(snp, i, rg, acc, p, x) ==
    IF i > Len(snp) THEN [regs |-> rg, upds |-> acc]
    ELSE LET a == ApplyScript(snp[i], rg)
             e == UpdEv(snp[i], p, x, a.ops)
         IN RunCopy(snp, i + 1, a.regs, IF Bug = "cbTwice" THEN acc \o <<e, [e EXCEPT !.ops = <<>>]>> ELSE Append(acc, e), p, x)
RECURSIVE RunLive(_, _, _, _, _, _)
RunLive(key, i, rg, acc, p, x) ==
    LET lst == CallerList(rg, key) IN
    IF i > Len(lst) THEN [regs |-> rg, upds |-> acc]
    ELSE LET a == ApplyScript(lst[i], rg) IN RunLive(key, i + 1, a.regs, Append(acc, UpdEv(lst[i], p, x, a.ops)), p, x)
RECURSIVE RunCallers(_, _, _, _, _, _)
RunCallers(keys, k, rg, acc, p, x) ==
    IF k > Len(keys) THEN [regs |-> rg, upds |-> acc]
    ELSE LET r == IF Bug = "liveIter" THEN RunLive(keys[k], 1, rg, acc, p, x)
                  ELSE RunCopy(CallerList(rg, keys[k]), 1, rg, acc, p, x)
         IN RunCallers(keys, k + 1, r.regs, r.upds, p, x)
UpdRun(p, x) == RunCallers(CallerKeys(p), 1, regs, <<>>, p, x)

\* what a one-shot callback of entry e makes of packet data d (as the code decodes it, with the
\* width of ITS OWN parameter): [ok, pay]; ~ok = struct.error, the callback stays registered
Decode(e, d) ==
    LET w == P!Width(cf.type[e.p])  rest == P!SubSeqSafe(d, 5, Len(d)) IN
    CASE e.cmd = 3 \/ e.cmd = 5 -> [ok |-> Len(d) >= 4, pay |-> <<IF Len(d) >= 4 /\ d[4] = 0 THEN <<1>> ELSE <<0>>>>]
      [] e.cmd = 4 -> IF Len(d) < 4 THEN [ok |-> FALSE, pay |-> <<>>]
                      ELSE IF d[4] = 2 THEN [ok |-> TRUE, pay |-> <<>>]
                      ELSE IF d[4] # 1 THEN [ok |-> Len(rest) = w, pay |-> <<<<0>>, rest>>]
                      ELSE [ok |-> Len(rest) = 2 * w,
                            pay |-> <<<<1>>, P!SubSeqSafe(rest, 1, w), P!SubSeqSafe(rest, w + 1, 2 * w)>>]
      [] OTHER -> IF Len(d) < 4 THEN [ok |-> FALSE, pay |-> <<>>]
                  ELSE IF d[4] = 2 THEN [ok |-> TRUE, pay |-> <<>>]       \* errno.ENOENT test on data[3]
                  ELSE [ok |-> Len(d) - 3 = w, pay |-> <<P!SubSeqSafe(d, 4, Len(d))>>]

\* pre-fix variants: which registered one-shot callbacks take the packet
Fires(e, pk) ==
    /\ pk.chan = 3 /\ Len(pk.data) >= 3 /\ pk.data[1] = e.cmd
    /\ (Bug = "cmdId" => P!IdOf(SubSeq(pk.data, 2, 3)) = e.p)

RECURSIVE Shots(_, _, _, _, _)
Shots(pk, sn, i, os, acc) ==
    IF i > Len(sn) THEN [os |-> os, cbs |-> acc]
    ELSE LET e == sn[i]  dec == Decode(e, pk.data) IN
         IF Fires(e, pk) /\ dec.ok
         THEN Shots(pk, sn, i + 1, Remove(os, e), Append(acc, [rid |-> e.rid, pay |-> dec.pay]))
         ELSE Shots(pk, sn, i + 1, os, acc)

\* repaired code: the reply callback c taken from _reply_callback is called with the packet (the closure
\* still looks at channel and command byte and decodes with its own parameter's type)
OwnCb(c, pk) ==
    IF c.rid # 0 /\ pk.chan = 3 /\ Len(pk.data) >= 3 /\ pk.data[1] = c.cmd /\ Decode(c, pk.data).ok
    THEN <<[rid |-> c.rid, pay |-> Decode(c, pk.data).pay]>> ELSE <<>>

DispRecv ==
    /\ dpc = "recv" /\ inq # <<>>
    /\ LET pk == Head(inq)
           d == pk.data
           rp == IF pk.chan = 3 THEN P!SubSeqSafe(d, 1, 3) ELSE P!SubSeqSafe(d, 1, 2)
           match == (lockPat # <<>> /\ lockPat = rp) \/ (Bug = "anyRelease" /\ waitLock)
           isNtf == pk.chan = 3 /\ Len(d) > 3 /\ d[1] = 1
           p == IF pk.chan = 3 THEN P!IdOf(P!SubSeqSafe(d, 2, 3)) ELSE P!IdOf(P!SubSeqSafe(d, 1, 2))
           x == IF pk.chan = 2 THEN P!SubSeqSafe(d, 3, Len(d)) ELSE P!SubSeqSafe(d, 4, Len(d))
           doUpd == ((pk.chan \in {1, 2} /\ match) \/ isNtf) /\ Known(p) /\ Len(x) = P!Width(cf.type[p])
           run == IF doUpd THEN UpdRun(p, x) ELSE [regs |-> regs, upds |-> <<>>]
           upds == run.upds
       IN
       /\ cache' = IF doUpd THEN [cache EXCEPT ![p] = x] ELSE cache
       /\ regs' = run.regs
       /\ dpk' = pk
       /\ IF match
          THEN /\ lockPat' = IF Bug = "noReset" /\ pk.chan \in {1, 2} THEN lockPat ELSE <<>>
               /\ IF pk.chan = 3 THEN dcb' = replyCb /\ replyCb' = NoCb ELSE UNCHANGED <<dcb, replyCb>>
               /\ snap' = oneShots
               /\ dpc' = "rel"
               /\ rxs' = Append(rxs, [chan |-> pk.chan, data |-> d, upds |-> upds, cbs |-> <<>>, before |-> regs])
               /\ UNCHANGED oneShots
          ELSE LET r == Shots(pk, oneShots, 1, oneShots, <<>>) IN
               /\ oneShots' = r.os
               /\ rxs' = Append(rxs, [chan |-> pk.chan, data |-> d, upds |-> upds, cbs |-> r.cbs, before |-> regs])
               /\ UNCHANGED <<lockPat, snap, dpc, dcb, replyCb>>
    /\ inq' = Tail(inq)
    /\ UNCHANGED <<ndup, cf, ust, ucur, reqQ, upc, cur, waitLock, devq, dval, dstored, nextRid, nnotif,
                   calls, issued, wire, down, gots>>

DispRel ==
    /\ dpc = "rel"
    /\ waitLock' = FALSE
    /\ LET r == Shots(dpk, snap, 1, oneShots, <<>>) IN
       /\ oneShots' = r.os
       /\ rxs' = [rxs EXCEPT ![Len(rxs)].cbs = OwnCb(dcb, dpk) \o r.cbs]
    /\ dpc' = "recv" /\ snap' = <<>> /\ dcb' = NoCb
    /\ UNCHANGED <<regs, ndup, cf, replyCb, ust, ucur, reqQ, upc, cur, lockPat, devq, dval, dstored, inq, dpk, cache,
                   nextRid, nnotif, calls, issued, wire, down, gots>>

Next == \/ \E u \in Users, op \in Ops : UBegin(u, op)
        \/ \E u \in Users : UPut(u)
        \/ UpdGet \/ UpdLock \/ UpdLockTimeout \/ UpdSend \/ UpdDone
        \/ DevAnswer
        \/ \E n \in Notifs : DevNotify(n)
        \/ \E i \in 1..(MaxOps + MaxNotif + MaxDup) : DevDup(i)
        \/ DispRecv \/ DispRel

Spec == Init /\ [][Next]_vars

\* ------------------------------------------------------------------ properties (C04)
NComplete == IF dpc = "rel" THEN Len(rxs) - 1 ELSE Len(rxs)
Quiescent == /\ \A u \in Users : ust[u] = "idle"
             /\ reqQ = <<>> /\ upc = "get" /\ devq = <<>> /\ inq = <<>> /\ dpc = "recv"

\* (history clauses are evaluated for the newest element only: every prefix of a behaviour is a
\* reachable state of its own, where the older elements were the newest)
CallsOK == \A i \in DOMAIN calls : P!CallClause(cf, calls[i], issued) = "ok"
WireOK  == P!WireClause(issued, wire) = "ok"
RxOK    == NComplete > 0 => P!RxClause(cf, NComplete, rxs[NComplete], down, issued, calls) = "ok"
GetOK   == gots # <<>> => LET g == gots[Len(gots)] IN P!FreshClause(cf, g.p, g.val, down, g.nrx) = "ok"
FinalOK == Quiescent => \A p \in 1..cf.np : P!FreshClause(cf, p, Raw(cache[p]), down, Len(rxs)) = "ok"
EndOK   == Quiescent => P!EndClause(issued, wire, down, Len(rxs)) = "ok"
\* never wedged: when nothing can move any more, everything issued has been served
NoWedge == (~ENABLED (UpdGet \/ UpdLock \/ UpdSend \/ UpdDone \/ DevAnswer \/ DispRecv \/ DispRel
                      \/ \E u \in Users : UPut(u)))
           => P!EndClause(issued, wire, down, Len(rxs)) = "ok"

TypeOK == /\ upc \in {"get", "lock", "send", "unlock"} /\ dpc \in {"recv", "rel"}
          /\ Len(reqQ) <= MaxOps /\ Len(inq) <= MaxOps + MaxNotif + MaxDup
=============================================================================
