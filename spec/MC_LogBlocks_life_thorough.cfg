SPECIFICATION Spec
CONSTANTS
  NC = 1
  TocC <- TocMC
  VarAlpha <- AlphaLife
  BasicAlpha <- BasicOne
  MaxFree = 1
  MaxBasic = 1
  MaxUniform = 1
  Periods = {100}
  Statuses <- StatusesAll
  MaxOps = 6
  MaxFaults = 1
  MaxData = 1
  MaxLate = 0
  TocAlts = {}
  IdMod = 255
  Bugs <- NoBugs
  WithSync = FALSE
INVARIANT ObsOK
INVARIANT TypeOK
CHECK_DEADLOCK FALSE
