SPECIFICATION Spec
CONSTANTS
  Bug = "QuatNoNegate"
  Kinds <- KQuat
  HiBytes <- AllBytes
  K = 3
  MmCoarse <- MmQuick
  DdCoarse <- DdQuick
  MmShift = 10
  DdShift = 8
  RgbI <- RgbIQuick
  RgbOthers <- OthersQuick
  F32s <- F32Vals
  LhBases = 4
  LhPos <- LhPosQuick
  OffHi <- OffHiQuick
  StreamLen = 3
  StreamBases = 2
  StreamPos <- StreamPosBoth
  StreamOffHi <- StreamOffQuick
INVARIANT Fp16OK
INVARIANT QuatOK
INVARIANT TrajOK
INVARIANT RgbOK
INVARIANT RangeOK
INVARIANT LhOK
INVARIANT KeptOK
INVARIANT TypeOK
CHECK_DEADLOCK FALSE
