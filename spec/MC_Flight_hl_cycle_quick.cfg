SPECIFICATION Spec
CONSTANTS
  Helper = "PHC"
  Mode = "explicit"
  Prims <- HlCycle
  MaxLen = 3
  DH = 500
  DV = 500
  DL = 200
  Period = 200
  X0 = 1000
  Y0 = 500
  Z0 = 200
  Lats = {}
  MaxLat = 0
  Bug = "none"
INVARIANT NoViolation
INVARIANT Ended
INVARIANT PosTracks
INVARIANT TypeOK
CHECK_DEADLOCK FALSE
