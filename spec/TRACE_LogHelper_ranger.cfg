SPECIFICATION Spec
CONSTANT Mode = "ranger"
CHECK_DEADLOCK FALSE
