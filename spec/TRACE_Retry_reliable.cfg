SPECIFICATION Spec
CONSTANT Reliable = TRUE
CHECK_DEADLOCK FALSE
