---- MODULE MC_Flash ----
(* Model-checking wrapper of Flash (C12).  All constants are plain sets / numbers and are given in
   the .cfg files:
     MC_Flash_quick.cfg      scaled chunk size 2, page sizes 1..5, 1..3 buffers, 1..4 flash pages
     MC_Flash_thorough.cfg   chunk 3, page sizes 1..7, 1..4 buffers, up to 6 flash pages, both targets
     MC_Flash_chunk25.cfg    the real chunk size 25 with page sizes 24, 25, 26, 50, 51
                             (MC_Flash_chunk25_quick.cfg: the smaller version for the quick tier)
     MC_Flash_bug_*.cfg      one named breakage each; TLC must refute PropOK
     SIM_Flash.cfg           larger constants for -simulate  *)
EXTENDS Flash
====
