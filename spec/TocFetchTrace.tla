------------------------------ MODULE TocFetchTrace ------------------------------
(* Trace spec for C03.  One TLC run validates a whole batch of traces recorded from a real
   Crazyflie connecting through the simulated link (TocFetcher, Log, Param, _ExtendedTypeFetcher,
   Toc of /repo).

   monitor  (the verdict): at every "connected" event, and again at the "end" event, the recorded
            library tables and lookup results are compared with the recorded device tables by
            TocFetchProps -- nothing of the design spec is assumed.
   conform  (the binding): the protocol events of each download (start, devreply, dup, rx,
            timeout, extsend) must be explained by the actions of TocFetch, including the
            projection of the real fetcher objects after every received packet.  conf = FALSE
            from the first event the design spec cannot take.

   trace  = [id, dev : [log, param : device tables], ev : Seq of events, expect : number of
             connects]
   events   [e |-> "start", kind, ver, crc, cached, resend (, dev: the table of this attempt when the device is
             reflashed before the connection that is judged)]
            [e |-> "devreply" | "dup" | "timeout", kind, ch, d]
            [e |-> "rx", kind, ch, d, st : [lt, fstate, cb, reqIdx, nItems, ntoc, done, xcount]]
            (ch 1 = the log RESET command and its reply; "start" of the log download = Log.refresh_toc;
             cached = "none" | "own" | "old" | "extra" | "broken": what the harness put under the table's checksum)
            [e |-> "extsend", kind, id]
            [e |-> "connected" | "end", log, param : library tables, lklog, lkparam : lookups]  *)
EXTENDS Naturals, Sequences, FiniteSets, Bags, TLC, Json, IOUtils

Traces == JsonDeserialize(IOEnv.TRACE_FILE)

VARIABLES tid, l,
          bad, badAt, wit, nconn,          \* monitor
          conf, confAt,                    \* conformance verdict
          cfg, lt, fstate, cbOn, reqIdx, nItems, toc, pend, up, down, budget,
          xstate, xcount, xreq, xqueue, xlock, done, doneSnap       \* design-spec variables

Configs == {}             \* Start(c) is driven by the "start" events
Budget == 1000000
Window == 0..65535
Bug == "none"

D == INSTANCE TocFetch
P == INSTANCE TocFetchProps

specvars == <<cfg, lt, fstate, cbOn, reqIdx, nItems, toc, pend, up, down, budget,
              xstate, xcount, xreq, xqueue, xlock, done, doneSnap>>
T == Traces[tid]
Ev == T.ev[l]
DevOf(kind) == IF kind = "log" THEN T.dev.log ELSE T.dev.param
Pk == [ch |-> Ev.ch, d |-> Ev.d]

Init == /\ tid \in 1..Len(Traces)
        /\ l = 1
        /\ bad = "ok" /\ badAt = 0 /\ wit = <<"", 0>> /\ nconn = 0
        /\ conf = TRUE /\ confAt = 0
        /\ D!Init

Conform(A) == IF conf /\ ENABLED A
              THEN A /\ UNCHANGED <<conf, confAt>>
              ELSE /\ conf' = FALSE /\ confAt' = (IF conf THEN l ELSE confAt)
                   /\ UNCHANGED specvars
\* an event of a download that is already over (its port callback is gone): nothing to explain
Mine == Ev.kind = cfg.kind
ConformMine(A) == IF Mine THEN Conform(A) ELSE UNCHANGED <<conf, confAt, specvars>>

Quiet == UNCHANGED <<bad, badAt, wit, nconn>>

EStart == /\ Ev.e = "start" /\ Quiet
          /\ D!StartTo([kind |-> Ev.kind, ver |-> Ev.ver, dev |-> (IF "dev" \in DOMAIN Ev THEN Ev.dev ELSE DevOf(Ev.kind)), crc |-> Ev.crc,
                        cached |-> Ev.cached, resend |-> Ev.resend])
          /\ UNCHANGED <<conf, confAt>>

EDevReply == /\ Ev.e = "devreply" /\ Quiet
             /\ ConformMine(D!DevReply /\ BagIn(Pk, down'))
EDup == /\ Ev.e = "dup" /\ Quiet
        /\ ConformMine(D!Dup(Pk))
ETimeout == /\ Ev.e = "timeout" /\ Quiet
            /\ ConformMine(D!Timeout(Pk))
ERx == /\ Ev.e = "rx" /\ Quiet
       /\ ConformMine(/\ D!Deliver(Pk)
                      /\ lt' = Ev.st.lt /\ fstate' = Ev.st.fstate /\ cbOn' = Ev.st.cb
                      /\ reqIdx' = Ev.st.reqIdx /\ nItems' = Ev.st.nItems
                      /\ Len(toc') = Ev.st.ntoc /\ done' = Ev.st.done /\ xcount' = Ev.st.xcount)
EExtSend == /\ Ev.e = "extsend" /\ Quiet
            /\ ConformMine(D!ExtSend /\ xreq' = Ev.id)

\* ---- the monitor
SnapV == LET a == P!SnapshotVerdict("log", T.dev.log, Ev.log, Ev.lklog) IN
         IF a[1] # "ok" THEN <<a[1], <<"log", a[2]>>>>
         ELSE LET b == P!SnapshotVerdict("param", T.dev.param, Ev.param, Ev.lkparam) IN
              IF b[1] # "ok" THEN <<b[1], <<"param", b[2]>>>> ELSE <<"ok", <<"", 0>>>>

ESnap == /\ Ev.e \in {"connected", "end"}
         /\ IF bad = "ok" /\ SnapV[1] # "ok"
            THEN bad' = SnapV[1] /\ badAt' = l /\ wit' = SnapV[2]
            ELSE UNCHANGED <<bad, badAt, wit>>
         /\ nconn' = IF Ev.e = "connected" THEN nconn + 1 ELSE nconn
         \* binding: "connected" is signalled by the completion of the parameter download
         /\ IF Ev.e = "connected" /\ conf /\ ~(done /\ cfg.kind = "param")
            THEN conf' = FALSE /\ confAt' = l
            ELSE UNCHANGED <<conf, confAt>>
         /\ UNCHANGED specvars

Step == /\ l <= Len(T.ev)
        /\ l' = l + 1 /\ UNCHANGED tid
        /\ (EStart \/ EDevReply \/ EDup \/ ETimeout \/ ERx \/ EExtSend \/ ESnap)

Finish == /\ l = Len(T.ev) + 1
          /\ l' = l + 1
          /\ PrintT(<<"VERDICT", T.id, bad, badAt, conf, confAt, wit, nconn>>)
          /\ UNCHANGED <<tid, bad, badAt, wit, nconn, conf, confAt, specvars>>

Next == Step \/ Finish
Spec == Init /\ [][Next]_<<tid, l, bad, badAt, wit, nconn, conf, confAt, specvars>>
=============================================================================
