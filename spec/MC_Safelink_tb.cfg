SPECIFICATION Spec
CONSTANTS
  NUp = 2
  NDown = 2
  Retries = 3
  NegAttempts = 10
  MaxLoss = 12
  MaxNegLoss = 3
  PeerModes <- ModesSL
  DenyReplies <- DenyMany
  AckTails <- TailsBoth
  Bug = "none"
INVARIANT PropertyHolds
INVARIANT StepFormHolds
INVARIANT CompleteAtRest
INVARIANT SafelinkIffEcho
INVARIANT NeedsResendingIsNotSafelink
INVARIANT Lockstep
INVARIANT TypeOK
CHECK_DEADLOCK FALSE
