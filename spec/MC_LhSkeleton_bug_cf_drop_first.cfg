SPECIFICATION Spec
CONSTANTS
  Mode = "est"
  BsIds = {1, 2, 3}
  MaxMeas = 0
  Deltas <- DeltasQuick
  Diffs = {0}
  MinBs = {0}
  MaxSamples = 3
  SampleSets <- LinkingSampleSets
  MaxOutliers = 0
  Bug = "cf_drop_first"
  PrintCases = FALSE
INVARIANT MatchOK
INVARIANT EstOK
INVARIANT PipeMin2AllLinking
INVARIANT LinkMonotone
INVARIANT TypeOK
CHECK_DEADLOCK FALSE
