------------------------------ MODULE Images ------------------------------
(* Design spec for C14: the stored-image code of cflib.crazyflie.mem (I2CElement, OWElement,
   LighthouseMemory + LighthouseMemHelper, TrajectoryMemory/Poly4D, LEDTimingsDriverMemory,
   DeckMemoryManager, LocoMemory, LocoMemory2) and the two YAML file managers, as one state
   machine over the memory API.

   One behaviour = one case.  The library is driven by user calls (User) and by the memory
   answering the oldest outstanding request (Deliver); each action is one call into the library
   together with the requests the library issues before it returns -- exactly what the harness
   logs as one event.  The environment may corrupt bytes between writing and parsing (Corrupt)
   and tamper with the envelope of a written file (Tamper).

   lib  = the state the library keeps between calls (callback set?, datav0, helper queues ...)
   obs  = what the user can observe afterwards (decoded fields, valid flags, callbacks seen)

   Bug = "none" is the repaired behaviour.  Named variants:
     "ow_shortcut"   OWElement.new_data as found in /repo: after the header, the two bytes
                     data[9:11] (element-area length, next byte) are checked as if they were a
                     complete element area; if crc32([len]) & 0xff equals the next byte the
                     image is accepted as "valid, no elements" without reading the elements
     "ee_nosum"      the EEPROM verdict ignores the checksum
     "ee_sumrange"   the EEPROM checksum is written/checked without the token bytes
     "ow_droplast"   the 1-wire writer forgets the last TLV of the dict                     *)
EXTENDS Naturals, Sequences, FiniteSets, Bitwise, TLC

CONSTANTS Bug,
          Fmts,            \* set of format names exercised
          CaseSet,         \* function: format -> sequence of sets of case parameters
          MkCase(_, _),    \* (format, parameters) -> [content, env, regs]: the concrete case
          MaxCorrupt,      \* number of byte corruptions the environment may apply
          CorruptPos,      \* function: format -> set of 1-based positions in region 0
          CorruptVals      \* set of byte values

P == INSTANCE ImagesProps

VARIABLES phase,           \* "fmt" | "case" | "run" | "done"
          fmt, content, env,
          regs,            \* memory: base -> bytes
          pend,            \* outstanding requests, oldest first
          wrote,           \* history: write requests issued
          lib, obs,
          pc,              \* next user operation of Script(fmt)
          ncor
vars == <<phase, fmt, content, env, regs, pend, wrote, lib, obs, pc, ncor>>

R(a, n) == [k |-> "r", addr |-> a, len |-> n, data |-> <<>>]
W(a, d) == [k |-> "w", addr |-> a, len |-> Len(d), data |-> d]
Min(a, b) == IF a < b THEN a ELSE b
Res(l, o, q) == [lib |-> l, obs |-> o, reqs |-> q]

Script(f) ==
    CASE f \in {"eeprom", "ow"} -> <<"write", "update">>
      [] f = "lh" -> <<"write_geos", "write_calibs", "read_geos", "read_calibs">>
      [] f \in {"poly", "led"} -> <<"write">>
      [] f = "deck" -> <<"query">>
      [] f = "loco" -> <<"update">>
      [] f = "loco2" -> <<"update_ids", "update_active", "update_data">>
      [] f \in {"lhfile", "paramfile"} -> <<"filewrite", "fileread">>

\* ------------------------------------------------------------------ EEPROM (I2CElement)
EeObs0 == [reported |-> FALSE, valid |-> FALSE, raised |-> FALSE,
           parsed |-> [ver |-> 0, ch |-> 0, speed |-> 0, pitch |-> <<>>, roll |-> <<>>, addr |-> <<>>]]
EeLib0 == [ufc |-> FALSE, datav0 |-> <<>>]
\* struct.unpack('<f') yields a Python float (a double): a signalling NaN comes out quiet
Q4(b) == IF (b[4] % 128) = 127 /\ b[3] >= 128 /\ b[3] < 192 /\ (b[3] > 128 \/ b[2] > 0 \/ b[1] > 0)
         THEN <<b[1], b[2], b[3] + 64, b[4]>> ELSE b
EeSum(img) == IF Bug = "ee_sumrange" THEN P!Sum256(SubSeq(img, 5, Len(img))) ELSE P!Sum256(img)
\* write_data: struct '<BBBff' / '<BBBffBI', token in front, checksum behind
EeWriteImage(c) ==
    LET body == <<c.ver, c.ch, c.speed>> \o c.pitch \o c.roll \o
                (IF c.ver = 1 THEN <<c.addr[5]>> \o SubSeq(c.addr, 1, 4) ELSE <<>>)
        img == P!Token \o body
    IN img \o <<EeSum(img)>>
EeFinish(full, l, o) ==
    LET ok == EeSum(SubSeq(full, 1, Len(full) - 1)) = full[Len(full)]
        v == IF Bug = "ee_nosum" \/ ok THEN TRUE ELSE o.valid
    IN Res([l EXCEPT !.ufc = FALSE], [o EXCEPT !.valid = v, !.reported = (@ \/ l.ufc)], <<>>)
EeUser(op) ==
    IF op = "write" THEN {Res(lib, obs, <<W(0, EeWriteImage(content))>>)}
    ELSE IF lib.ufc THEN {Res(lib, obs, <<>>)}
    ELSE {Res([lib EXCEPT !.ufc = TRUE], [obs EXCEPT !.valid = FALSE], <<R(0, 16)>>)}
EeData(q, ok, data) ==
    IF q.k = "w" \/ ~ok THEN {Res(lib, obs, <<>>)}
    ELSE IF q.addr = 0 THEN
        IF SubSeq(data, 1, 4) = P!Token THEN
            LET o1 == [obs EXCEPT !.parsed = [ver |-> data[5], ch |-> data[6], speed |-> data[7],
                                              pitch |-> Q4(P!Sub(data, 8, 4)), roll |-> Q4(P!Sub(data, 12, 4)),
                                              addr |-> @.addr]]
            IN IF data[5] = 0 THEN {EeFinish(data, lib, o1)}
               ELSE IF data[5] = 1 THEN {Res([lib EXCEPT !.datav0 = data], o1, <<R(16, 5)>>)}
               ELSE {Res(lib, o1, <<>>)}                    \* unknown version: nothing is reported
        ELSE {Res([lib EXCEPT !.ufc = FALSE], [obs EXCEPT !.valid = FALSE, !.reported = (@ \/ lib.ufc)], <<>>)}
    ELSE LET o1 == [obs EXCEPT !.parsed.addr = P!Sub(data, 1, 4) \o <<lib.datav0[16]>>]
         IN {EeFinish(lib.datav0 \o data, lib, o1)}

\* ------------------------------------------------------------------ 1-wire (OWElement)
OwObs0 == [reported |-> FALSE, valid |-> FALSE, raised |-> FALSE,
           parsed |-> [pins |-> <<>>, vid |-> 0, pid |-> 0, elems |-> <<>>]]
OwLib0 == [ufc |-> FALSE]
\* write_data: header + crc, then version 0, length, the TLVs in *reversed* dict order, crc
OwTlvs(es) == P!Concat([k \in 1..Len(es) |-> LET e == es[Len(es) + 1 - k] IN <<e.id, Len(e.str)>> \o e.str])
OwWriteImage(c) ==
    LET es == IF Bug = "ow_droplast" /\ c.elems # <<>> THEN SubSeq(c.elems, 1, Len(c.elems) - 1) ELSE c.elems
        tl == OwTlvs(es)
        area == <<0, Len(tl)>> \o tl
    IN P!OwHeader(c) \o area \o <<P!Crc8(area)>>
\* the dict `elements`: kept as a sequence sorted by id
Put(es, id, s) == SelectSeq(es, LAMBDA e : e.id < id) \o <<[id |-> id, str |-> s]>> \o
                  SelectSeq(es, LAMBDA e : e.id > id)
\* the while loop of _parse_and_check_elements (struct.error on a dangling byte, KeyError on an
\* unknown id, slices silently truncated)
RECURSIVE OwParse(_, _, _)
OwParse(a, i, es) ==
    IF i > Len(a) THEN [raised |-> FALSE, elems |-> es]
    ELSE IF i + 1 > Len(a) \/ a[i] \notin {1, 2, 3} THEN [raised |-> TRUE, elems |-> es]
    ELSE OwParse(a, i + 2 + a[i + 1], Put(es, a[i], SubSeq(a, i + 2, Min(i + 1 + a[i + 1], Len(a)))))
OwCheckElems(d, o) ==
    IF P!Crc8(SubSeq(d, 1, Len(d) - 1)) = d[Len(d)]
    THEN LET r == OwParse(SubSeq(d, 3, Len(d) - 1), 1, o.parsed.elems)
         IN [ret |-> ~r.raised, raised |-> r.raised, obs |-> [o EXCEPT !.parsed.elems = r.elems]]
    ELSE [ret |-> FALSE, raised |-> FALSE, obs |-> o]
OwReport(l, o, v) == Res([l EXCEPT !.ufc = FALSE], [o EXCEPT !.valid = (@ \/ v), !.reported = (@ \/ l.ufc)], <<>>)
OwUser(op) ==
    IF op = "write" THEN {Res(lib, obs, <<W(0, OwWriteImage(content))>>)}
    ELSE IF lib.ufc THEN {Res(lib, obs, <<>>)}
    ELSE {Res([lib EXCEPT !.ufc = TRUE], [obs EXCEPT !.valid = FALSE], <<R(0, 11)>>)}
OwData(q, ok, data) ==
    IF q.k = "w" \/ ~ok THEN {Res(lib, obs, <<>>)}          \* a failed read is not handled at all
    ELSE IF q.addr = 0 THEN
        LET o1 == [obs EXCEPT !.parsed.pins = P!Sub(data, 2, 4), !.parsed.vid = data[6], !.parsed.pid = data[7]]
            hdrOk == data[1] = 235 /\ data[8] = P!Crc8(SubSeq(data, 1, 7))
            fetch == Res(lib, o1, <<R(8, data[10] + 3)>>)
        IN IF ~hdrOk THEN {OwReport(lib, o1, FALSE)}
           ELSE IF Bug = "ow_shortcut"
                THEN LET r == OwCheckElems(SubSeq(data, 10, 11), o1)
                     IN IF r.ret THEN {OwReport(lib, r.obs, TRUE)} ELSE {fetch}
                \* repaired: an empty element area may be accepted from the first read
                ELSE {fetch} \cup
                     (IF data[10] = 0 /\ OwCheckElems(SubSeq(data, 9, 11), o1).ret
                      THEN {OwReport(lib, o1, TRUE)} ELSE {})
    ELSE LET r == OwCheckElems(data, obs)
         IN IF r.raised THEN {Res(lib, [r.obs EXCEPT !.raised = TRUE], <<>>)}
            ELSE {OwReport(lib, r.obs, r.ret)}

\* ------------------------------------------------------------------ lighthouse memory + helper
LhObs0 == [geos |-> <<>>, calibs |-> <<>>, wok |-> TRUE]
LhLib0 == [q |-> <<>>, kind |-> "geo", failed |-> FALSE, next |-> 0, res |-> <<>>]
LhAddr(kind, id) == (IF kind = "geo" THEN 0 ELSE 4096) + id * 256
LhSize(kind) == IF kind = "geo" THEN 49 ELSE 61
LhImage(kind, x) == IF kind = "geo" THEN P!GeoImage(x) ELSE P!CalibImage(x)
LhDecode(kind, id, d) ==
    IF kind = "geo" THEN [id |-> id, f |-> [i \in 1..12 |-> P!Sub(d, 4 * i - 3, 4)], valid |-> d[49] # 0]
    ELSE [id |-> id, f |-> [i \in 1..14 |-> P!Sub(d, 4 * i - 3, 4)], uid |-> P!Sub(d, 57, 4), valid |-> d[61] # 0]
\* _ObjectWriter._write_next_object
LhWriteNext(l, o) ==
    IF l.q = <<>> THEN Res(l, [o EXCEPT !.wok = (@ /\ ~l.failed)], <<>>)
    ELSE Res([l EXCEPT !.q = Tail(@)], o, <<W(LhAddr(l.kind, Head(l.q).id), LhImage(l.kind, Head(l.q)))>>)
LhUser(op) ==
    CASE op = "write_geos" -> {LhWriteNext([lib EXCEPT !.q = content.geos, !.kind = "geo", !.failed = FALSE], obs)}
      [] op = "write_calibs" -> {LhWriteNext([lib EXCEPT !.q = content.calibs, !.kind = "calib", !.failed = FALSE], obs)}
      [] op = "read_geos" -> {Res([lib EXCEPT !.kind = "geo", !.next = 0, !.res = <<>>], obs, <<R(LhAddr("geo", 0), 49)>>)}
      [] op = "read_calibs" -> {Res([lib EXCEPT !.kind = "calib", !.next = 0, !.res = <<>>], obs, <<R(LhAddr("calib", 0), 61)>>)}
LhData(q, ok, data) ==
    IF q.k = "w" THEN {LhWriteNext([lib EXCEPT !.failed = (@ \/ ~ok)], obs)}
    ELSE LET res == IF ok THEN Append(lib.res, LhDecode(lib.kind, lib.next, data)) ELSE lib.res
             nx == lib.next + 1
             l1 == [lib EXCEPT !.res = res, !.next = nx]
         IN IF nx < 16 THEN {Res(l1, obs, <<R(LhAddr(lib.kind, nx), LhSize(lib.kind))>>)}
            ELSE IF lib.kind = "geo" THEN {Res(l1, [obs EXCEPT !.geos = res], <<>>)}
            ELSE {Res(l1, [obs EXCEPT !.calibs = res], <<>>)}

\* ------------------------------------------------------------------ write-only images
PolyUser(op) == LET d == P!PolyAll(content.pieces) IN {Res(lib, [ret |-> Len(d)], <<W(content.addr, d)>>)}
\* LEDTimingsDriverMemory.write_data: masks, entries that are all zero are skipped
LedImplEntry(t) == LET r5 == ((t.r * 249 + 1014) \div 2048) % 32
                       g6 == ((t.g * 253 + 505) \div 1024) % 64
                       b5 == ((t.b * 249 + 1014) \div 2048) % 32
                       led == r5 * 2048 + g6 * 32 + b5
                       extra == (t.leds % 16) + 16 * (t.fade % 2) + 32 * (t.rotate % 8)
                   IN IF t.time % 256 # 0 \/ led # 0 \/ extra # 0
                      THEN <<t.time % 256, led \div 256, led % 256, extra>> ELSE <<>>
LedUser(op) == {Res(lib, obs, <<W(0, P!Concat([i \in 1..Len(content.timings) |-> LedImplEntry(content.timings[i])])
                                      \o <<0, 0, 0, 0>>)>>)}

\* ------------------------------------------------------------------ deck memory info section
DeckObs0 == [ok |-> FALSE, failed |-> FALSE, decks |-> <<>>]
DeckUser(op) == {Res(lib, obs, <<R(0, 257)>>)}
DeckData(q, ok, data) ==
    IF ~ok THEN {Res(lib, obs, <<>>)}
    ELSE IF data[1] # 3 THEN {Res(lib, [obs EXCEPT !.failed = TRUE], <<>>)}
    ELSE LET keep == {i \in 0..7 : P!Bit(P!DeckRec(data, i)[1], 0) /\ P!DeckAscii(data, i)}
             F[i \in 0..8] == IF i = 0 THEN <<>>
                              ELSE IF (i - 1) \in keep THEN Append(F[i - 1], P!DeckDecode(data, i - 1)) ELSE F[i - 1]
         IN {Res(lib, [obs EXCEPT !.ok = TRUE, !.decks = F[8]], <<>>)}

\* ------------------------------------------------------------------ loco anchors
Anchor0 == [pos |-> <<<<0, 0, 0, 0>>, <<0, 0, 0, 0>>, <<0, 0, 0, 0>>>>, valid |-> FALSE]
LocoObs0 == [reported |-> FALSE, valid |-> FALSE, nr |-> 0, anchors |-> <<>>]
LocoLib0 == [ufc |-> FALSE]
LocoDone(l, o) == Res([l EXCEPT !.ufc = FALSE], [o EXCEPT !.valid = TRUE, !.reported = (@ \/ l.ufc)], <<>>)
LocoUser(op) == IF lib.ufc THEN {Res(lib, obs, <<>>)}
                ELSE {Res([lib EXCEPT !.ufc = TRUE], [obs EXCEPT !.valid = FALSE, !.nr = 0, !.anchors = <<>>], <<R(0, 1)>>)}
LocoData(q, ok, data) ==
    IF ~ok THEN {Res(lib, obs, <<>>)}
    ELSE IF q.addr = 0 THEN
        IF data[1] = 0 THEN {LocoDone(lib, [obs EXCEPT !.nr = 0])}
        ELSE {Res(lib, [obs EXCEPT !.nr = data[1], !.anchors = [i \in 1..data[1] |-> Anchor0]], <<R(4096, 13)>>)}
    ELSE LET page == (q.addr - 4096) \div 256
             o1 == [obs EXCEPT !.anchors[page + 1] = P!AnchorDecode(data)]
         IN IF page + 1 < obs.nr THEN {Res(lib, o1, <<R(4096 + 256 * (page + 1), 13)>>)}
            ELSE {LocoDone(lib, o1)}

L2Obs0 == [ids |-> <<>>, active |-> <<>>, data |-> <<>>, idsValid |-> FALSE, activeValid |-> FALSE, dataValid |-> FALSE]
L2Lib0 == [idx |-> 0]
L2Put(ds, id, a) == SelectSeq(ds, LAMBDA e : e.id < id) \o <<[id |-> id, pos |-> a.pos, valid |-> a.valid]>> \o
                    SelectSeq(ds, LAMBDA e : e.id > id)
L2User(op) ==
    CASE op = "update_ids" -> {Res(lib, [obs EXCEPT !.ids = <<>>, !.active = <<>>, !.data = <<>>,
                                                    !.idsValid = FALSE, !.dataValid = FALSE], <<R(0, 17)>>)}
      [] op = "update_active" -> {Res(lib, [obs EXCEPT !.active = <<>>, !.activeValid = FALSE], <<R(4096, 17)>>)}
      [] op = "update_data" -> IF Len(obs.ids) > 0
                               THEN {Res([lib EXCEPT !.idx = 0], [obs EXCEPT !.data = <<>>, !.dataValid = FALSE],
                                         <<R(8192 + 256 * obs.ids[1], 13)>>)}
                               ELSE {Res(lib, obs, <<>>)}
L2Data(q, ok, data) ==
    IF ~ok THEN {Res(lib, obs, <<>>)}
    ELSE IF q.addr = 0 THEN {Res(lib, [obs EXCEPT !.ids = SubSeq(data, 2, 1 + data[1]), !.idsValid = TRUE], <<>>)}
    ELSE IF q.addr = 4096 THEN {Res(lib, [obs EXCEPT !.active = SubSeq(data, 2, 1 + data[1]), !.activeValid = TRUE], <<>>)}
    ELSE LET id == (q.addr - 8192) \div 256
             o1 == [obs EXCEPT !.data = L2Put(@, id, P!AnchorDecode(data))]
             ix == lib.idx + 1
         IN IF ix < Len(obs.ids) THEN {Res([lib EXCEPT !.idx = ix], o1, <<R(8192 + 256 * obs.ids[ix + 1], 13)>>)}
            ELSE {Res([lib EXCEPT !.idx = ix], [o1 EXCEPT !.dataValid = TRUE], <<>>)}

\* ------------------------------------------------------------------ YAML files (abstract)
\* file = envelope [type, version] + body; reading returns the body iff the envelope matches
FileLib0 == [type |-> "", version |-> "", body |-> <<>>]
FileUser(f, op) ==
    LET kind == IF f = "lhfile" THEN "lighthouse_system_configuration" ELSE "persistent_param_state"
        body == IF f = "lhfile"
                THEN [raised |-> FALSE, geos |-> SelectSeq(content.geos, LAMBDA e : e.valid),
                      calibs |-> SelectSeq(content.calibs, LAMBDA e : e.valid), systype |-> content.systype]
                ELSE [raised |-> FALSE, params |-> content.params]
    IN IF op = "filewrite" THEN {Res([type |-> kind, version |-> "1", body |-> body], obs, <<>>)}
       ELSE IF lib.type = kind /\ lib.version = "1" THEN {Res(lib, lib.body, <<>>)}
       ELSE {Res(lib, [obs EXCEPT !.raised = TRUE], <<>>)}
FileObs0(f) == IF f = "lhfile" THEN [raised |-> FALSE, geos |-> <<>>, calibs |-> <<>>, systype |-> 0]
               ELSE [raised |-> FALSE, params |-> <<>>]

\* ------------------------------------------------------------------ dispatch
Lib0(f) == CASE f = "eeprom" -> EeLib0 [] f = "ow" -> OwLib0 [] f = "lh" -> LhLib0
             [] f = "loco" -> LocoLib0 [] f = "loco2" -> L2Lib0
             [] f \in {"lhfile", "paramfile"} -> FileLib0 [] OTHER -> [none |-> 0]
Obs0(f) == CASE f = "eeprom" -> EeObs0 [] f = "ow" -> OwObs0 [] f = "lh" -> LhObs0
             [] f = "poly" -> [ret |-> 0] [] f = "led" -> [none |-> 0] [] f = "deck" -> DeckObs0
             [] f = "loco" -> LocoObs0 [] f = "loco2" -> L2Obs0
             [] f \in {"lhfile", "paramfile"} -> FileObs0(f)
OnUser(op) == CASE fmt = "eeprom" -> EeUser(op) [] fmt = "ow" -> OwUser(op) [] fmt = "lh" -> LhUser(op)
                [] fmt = "poly" -> PolyUser(op) [] fmt = "led" -> LedUser(op) [] fmt = "deck" -> DeckUser(op)
                [] fmt = "loco" -> LocoUser(op) [] fmt = "loco2" -> L2User(op)
                [] fmt \in {"lhfile", "paramfile"} -> FileUser(fmt, op)
OnData(q, ok, data) ==
    CASE fmt = "eeprom" -> EeData(q, ok, data) [] fmt = "ow" -> OwData(q, ok, data)
      [] fmt = "lh" -> LhData(q, ok, data) [] fmt = "deck" -> DeckData(q, ok, data)
      [] fmt = "loco" -> LocoData(q, ok, data) [] fmt = "loco2" -> L2Data(q, ok, data)
      [] OTHER -> {Res(lib, obs, <<>>)}                     \* poly, led: write_done only

Writes(reqs) == SelectSeq(reqs, LAMBDA q : q.k = "w")
WReq(q) == [addr |-> q.addr, data |-> q.data]

\* ------------------------------------------------------------------ actions
Init == /\ phase = "fmt" /\ fmt = "" /\ content = <<>> /\ env = <<>> /\ regs = <<>>
        /\ pend = <<>> /\ wrote = <<>> /\ lib = <<>> /\ obs = <<>> /\ pc = 1 /\ ncor = 0

PickFmt(f) == /\ phase = "fmt" /\ f \in Fmts
              /\ phase' = "case" /\ fmt' = f
              /\ UNCHANGED <<content, env, regs, pend, wrote, lib, obs, pc, ncor>>
PickCase(p) == /\ phase = "case"
               /\ LET c == MkCase(fmt, p) IN content' = c.content /\ env' = c.env /\ regs' = c.regs
               /\ phase' = "run"
               /\ lib' = Lib0(fmt) /\ obs' = Obs0(fmt)
               /\ UNCHANGED <<fmt, pend, wrote, pc, ncor>>

\* the user calls the next operation of the script; the library issues requests
User(op) == /\ phase = "run" /\ pend = <<>> /\ pc <= Len(Script(fmt)) /\ op = Script(fmt)[pc]
            /\ \E r \in OnUser(op) :
                 /\ lib' = r.lib /\ obs' = r.obs /\ pend' = r.reqs
                 /\ wrote' = wrote \o [i \in 1..Len(Writes(r.reqs)) |-> WReq(Writes(r.reqs)[i])]
            /\ pc' = pc + 1
            /\ UNCHANGED <<phase, fmt, content, env, regs, ncor>>

\* the memory answers the oldest request; the library's callback runs
Deliver == /\ phase = "run" /\ pend # <<>>
           /\ LET q == Head(pend)
                  ok == P!CanAccess(regs, q.addr, q.len)
                  data == IF q.k = "r" /\ ok THEN P!ReadMem(regs, q.addr, q.len) ELSE <<>>
              IN /\ regs' = IF q.k = "w" /\ ok THEN P!WriteMem(regs, q.addr, q.data) ELSE regs
                 /\ \E r \in OnData(q, ok \/ (q.k = "w" /\ fmt \in {"poly", "led"}), data) :
                      /\ lib' = r.lib /\ obs' = r.obs /\ pend' = Tail(pend) \o r.reqs
                      /\ wrote' = wrote \o [i \in 1..Len(Writes(r.reqs)) |-> WReq(Writes(r.reqs)[i])]
           /\ UNCHANGED <<phase, fmt, content, env, pc, ncor>>

\* the environment damages one byte of the stored image before it is parsed
CanCorrupt == phase = "run" /\ pend = <<>> /\ fmt \in {"eeprom", "ow"} /\ pc = 2 /\ env.cor /\ ncor < MaxCorrupt
Corrupt(p, v) == /\ CanCorrupt /\ p \in CorruptPos[fmt] /\ v \in CorruptVals
                 /\ p <= Len(regs[0]) /\ regs[0][p] # v
                 /\ regs' = [regs EXCEPT ![0][p] = v] /\ ncor' = ncor + 1
                 /\ UNCHANGED <<phase, fmt, content, env, pend, wrote, lib, obs, pc>>

\* ... or edits the envelope of a written file
Tamper(field) == /\ phase = "run" /\ fmt \in {"lhfile", "paramfile"} /\ pc = 2 /\ ncor < MaxCorrupt
                 /\ field \in {"type", "version"}
                 /\ lib' = IF field = "type" THEN [lib EXCEPT !.type = "other"] ELSE [lib EXCEPT !.version = "2"]
                 /\ ncor' = ncor + 1
                 /\ UNCHANGED <<phase, fmt, content, env, regs, pend, wrote, obs, pc>>

Done == /\ phase = "run" /\ pend = <<>> /\ pc > Len(Script(fmt))
        /\ phase' = "done"
        /\ UNCHANGED <<fmt, content, env, regs, pend, wrote, lib, obs, pc, ncor>>

Next == \/ \E f \in Fmts : PickFmt(f)
        \/ (phase = "case" /\ \E i \in DOMAIN CaseSet[fmt] : \E c \in CaseSet[fmt][i] : PickCase(c))
        \/ \E op \in {"write", "update", "write_geos", "write_calibs", "read_geos", "read_calibs", "query",
                      "update_ids", "update_active", "update_data", "filewrite", "fileread"} : User(op)
        \/ Deliver
        \/ (CanCorrupt /\ \E p \in CorruptPos[fmt], v \in CorruptVals : Corrupt(p, v))
        \/ (phase = "run" /\ \E fld \in {"type", "version"} : Tamper(fld))
        \/ Done

Spec == Init /\ [][Next]_vars

\* ------------------------------------------------------------------ properties (C14)
Tampered == fmt \in {"lhfile", "paramfile"} /\ ncor > 0     \* the property says nothing about edited files
CaseOK == (phase = "done" /\ ~Tampered) => P!CaseClause(fmt, content, wrote, regs, env, obs) = "ok"
\* an edited envelope is refused (design-level fact used by the conformance check)
EnvelopeGuard == (phase = "done" /\ Tampered) => obs.raised
TypeOK == /\ phase \in {"fmt", "case", "run", "done"}
          /\ Len(pend) <= 1
          /\ ncor <= MaxCorrupt
=============================================================================
