---- MODULE MC_DriverClose ----
EXTENDS DriverClose
====
