SPECIFICATION Spec
CONSTANTS
  Configs <- ConfigsBugSmall
  Budget = 1
  Window <- WindowAll
  Bug = "AcceptHigher"
INVARIANT TableAtDone
INVARIANT TableStaysOK
INVARIANT LookupsOK
CHECK_DEADLOCK FALSE
