SPECIFICATION Spec
CONSTANTS
  Pats <- MCPats
  Tmo <- MCTmo
  Packets <- MCPackets
  MaxTimers = 6
  MaxSess = 2
  MaxTime = 800
  MaxReqs = 3
  MaxAns = 3
  Reliable = FALSE
  Bug = "none"
INVARIANT NoClosedLinkTx
INVARIANT NoCrossSession
INVARIANT NoRetryWhenReliable
INVARIANT Interval
INVARIANT NoRetryAfterAnswer
INVARIANT ChainAlive
INVARIANT NoOrphans
INVARIANT NoLockLeak
INVARIANT ChainKept
CHECK_DEADLOCK FALSE
