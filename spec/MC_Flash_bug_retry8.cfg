SPECIFICATION Spec
CONSTANTS
  Chunk = 2
  MaxRetry = 5
  Targets = {255}
  PageSizes = {1}
  BufCounts = {1}
  FlashSizes = {1, 2}
  MaxLen = 30
  Fates = {"ok", "nack", "lostcmd", "lostreply", "stray"}
  Bug = "retry8"
  Observe = TRUE
INVARIANT PropOK
CHECK_DEADLOCK FALSE
