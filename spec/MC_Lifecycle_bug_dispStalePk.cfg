SPECIFICATION Spec
CONSTANTS
  P = 2
  NPar = 1
  ErFrom = 2
  LogStart = 0
  LogEnd = 0
  ParStart = 1
  NAtt = 3
  MaxFaults = 0
  FaultBy <- LinkFaults
  MaxPings = 1
  UseSync = FALSE
  Closer = FALSE
  Defects <- Bug_dispStalePk
INVARIANT HistoryOK
INVARIANT QuietOK
INVARIANT ReconnectOK
INVARIANT NoThreadDies
INVARIANT TypeOK
CHECK_DEADLOCK FALSE
