------------------------------ MODULE Flash ------------------------------
(* Design spec of cflib.bootloader.Bootloader._internal_flash with Cloader.upload_buffer and
   Cloader.write_flash (C12), and of the bootloader target it talks to.

   One action per observable step of the code (= one event of a recorded trace):
     Call       _internal_flash is entered: start page / override, size check
     SendChunk  upload_buffer sends a full packet (Chunk data bytes; `count > 24` in the code)
     SendTail   upload_buffer sends the rest of the page (possibly no data byte at all), then
                `ctr += 1` and the decision "flush now / next page / final flush"
     DrainOne, DrainEnd   write_flash empties the downlink (`receive_packet(0)` until None)
     WfSend(f)  write_flash transmits the write command; the environment chooses the fate f:
                "ok" written + positive reply, "okdup" the same with the reply duplicated,
                "nack" refused by the target (negative reply, nothing written),
                "lostcmd" command lost, "lostreply" written but the reply is lost,
                "stray" command lost and an unrelated packet (the other target's positive
                write reply) arrives instead of an answer
     WfRecv     `receive_packet(2.5)` returns a packet or None; `retry_counter -= 1`; loop exit,
                status check, and what _internal_flash does with the result
     Return     the call returns / raises
   The configuration (target, geometry, override, image length) is chosen step by step in
   Configure so that random simulation can sample it.

   The target (environment): buf = the page buffers, flash = the pages written so far.  It is
   lenient: an upload outside the buffer is dropped, a write to any page is executed -- the
   property module judges the commands themselves.

   Bug # "none" switches on one named breakage (vacuity guards, MC_Flash_bug_*.cfg):
     "final_page"    final flush one page too low        "flush_i"       loop flush to start + i
     "continue"      go on after a failed write          "ignore_status" negative reply taken as success
     "nosizecheck"   no capacity check                   "loopbound"     len / ps + 1 loop iterations
     "addr_overlap"  next chunk address one too small    "chunk26"       one more data byte per packet
     "retry8"        eight transmissions per write                                              *)
EXTENDS Integers, Sequences, FiniteSets, TLC

CONSTANTS Chunk,         \* data bytes per full buffer-upload packet (25 in cloader.py)
          MaxRetry,      \* initial retry_counter of write_flash (5 => at most 6 transmissions)
          Targets,       \* target address bytes (255 = STM32, 254 = nRF51)
          PageSizes, BufCounts, FlashSizes,   \* sets the geometry is drawn from
          MaxLen,        \* longest image considered (images up to capacity + 2 otherwise)
          Fates,         \* fates the environment may choose for a write command
          Bug,
          Observe        \* TRUE: evaluate FlashProps on the spec's own history (variable h)

P == INSTANCE FlashProps

VARIABLES tgt, ps, bp, fp, tsp, ovr, img,        \* configuration; ovr = -1: no override page
          pc, i, ctr, pos, addr, site, retry, result,   \* the loader
          rxq, buf, flash,                       \* downlink queue, target buffers, target flash
          msg,                                   \* payload of the packet of the last step (<<>> = none)
          h                                      \* observer of FlashProps

cfgvars == <<tgt, ps, bp, fp, tsp, ovr, img>>
ldvars  == <<i, ctr, pos, addr, site, retry, result>>
vars    == <<tgt, ps, bp, fp, tsp, ovr, img, pc, i, ctr, pos, addr, site, retry, result,
             rxq, buf, flash, msg, h>>

NoOvr == 0 - 1
ImgByte(n) == ((n - 1) % 251) + 1            \* synthetic image: never 0, period 251 (prime)
Min(a, b) == IF a < b THEN a ELSE b
Max(a, b) == IF a > b THEN a ELSE b

Start    == IF ovr >= 0 THEN ovr ELSE tsp
G        == [tgt |-> tgt, ps |-> ps, bp |-> bp, fp |-> fp, start |-> Start]
ImgLen   == Len(img)
LastPage == (ImgLen - 1) \div ps                      \* int((len(image) - 1) / page_size)
LoopEnd  == IF Bug = "loopbound" THEN ImgLen \div ps + 1 ELSE LastPage + 1
SliceLen == Max(0, Min(ps, ImgLen - i * ps))          \* len(image[i*ps : (i+1)*ps])
CS       == IF Bug = "chunk26" THEN Chunk + 1 ELSE Chunk

Enc16(x) == <<x % 256, (x \div 256) % 256>>
LoadMsg(page, a, from, n) == <<tgt, 20>> \o Enc16(page) \o Enc16(a) \o SubSeq(img, from, from + n - 1)
WriteMsg(b, p, c)         == <<tgt, 24>> \o Enc16(b) \o Enc16(p) \o Enc16(c)
Reply(done, err)          == <<tgt, 24, done, err>>
OtherTgt                  == IF tgt = 255 THEN 254 ELSE 255
NackErr == 2

Obs(x) == IF Observe THEN x ELSE h

\* ---------------------------------------------------------------- configuration
Init == /\ tgt = 255 /\ ps = 1 /\ bp = 1 /\ fp = 1 /\ tsp = 0 /\ ovr = NoOvr /\ img = <<>>
        /\ pc = "c_tgt"
        /\ i = 0 /\ ctr = 0 /\ pos = 0 /\ addr = 0 /\ site = "loop" /\ retry = 0 /\ result = "none"
        /\ rxq = <<>> /\ buf = <<>> /\ flash = <<>>
        /\ msg = <<>>
        /\ h = P!H0

Capacity == (fp - Start) * ps

Configure ==
    /\ UNCHANGED <<ldvars, rxq, flash, msg, h>>
    /\ \/ /\ pc = "c_tgt" /\ pc' = "c_ps"
          /\ \E t \in Targets : tgt' = t
          /\ UNCHANGED <<ps, bp, fp, tsp, ovr, img, buf>>
       \/ /\ pc = "c_ps" /\ pc' = "c_bp"
          /\ \E x \in PageSizes : ps' = x
          /\ UNCHANGED <<tgt, bp, fp, tsp, ovr, img, buf>>
       \/ /\ pc = "c_bp" /\ pc' = "c_fp"
          /\ \E x \in BufCounts : bp' = x
          /\ UNCHANGED <<tgt, ps, fp, tsp, ovr, img, buf>>
       \/ /\ pc = "c_fp" /\ pc' = "c_tsp"
          /\ \E x \in FlashSizes : fp' = x
          /\ UNCHANGED <<tgt, ps, bp, tsp, ovr, img, buf>>
       \/ /\ pc = "c_tsp" /\ pc' = "c_ovr"
          /\ \E x \in 0..(fp - 1) : tsp' = x
          /\ UNCHANGED <<tgt, ps, bp, fp, ovr, img, buf>>
       \/ /\ pc = "c_ovr" /\ pc' = "c_len"
          /\ \E x \in {NoOvr} \cup 0..fp : ovr' = x
          /\ UNCHANGED <<tgt, ps, bp, fp, tsp, img, buf>>
       \/ /\ pc = "c_len" /\ pc' = "call"
          /\ \E n \in 1..Max(1, Min(MaxLen, Capacity + 2)) : img' = [k \in 1..n |-> ImgByte(k)]
          /\ buf' = [b \in 0..(bp - 1) |-> [o \in 1..ps |-> 0]]
          /\ UNCHANGED <<tgt, ps, bp, fp, tsp, ovr>>

\* ---------------------------------------------------------------- the loader
NextPage == /\ i' = i + 1 /\ pos' = 0 /\ addr' = 0 /\ pc' = "load"

Call == /\ pc = "call"
        /\ i' = 0 /\ ctr' = 0 /\ pos' = 0 /\ addr' = 0
        /\ IF Bug # "nosizecheck" /\ ImgLen > Capacity
           THEN pc' = "ret" /\ result' = "raised"
           ELSE pc' = "load" /\ result' = result
        /\ msg' = <<>>
        /\ UNCHANGED <<cfgvars, site, retry, rxq, buf, flash, h>>

\* the target stores an upload (dropped when it does not lie inside a buffer page)
TargetLoad(b, a, bytes) ==
    IF b < bp /\ a + Len(bytes) <= ps
    THEN buf' = [buf EXCEPT ![b] = [o \in 1..ps |-> IF o > a /\ o <= a + Len(bytes)
                                                      THEN bytes[o - a] ELSE @[o]]]
    ELSE buf' = buf

SendChunk == /\ pc = "load" /\ SliceLen - pos >= CS
             /\ LET m == LoadMsg(ctr, addr, i * ps + pos + 1, CS) IN
                /\ msg' = m
                /\ TargetLoad(ctr, addr, SubSeq(m, 7, Len(m)))
                /\ h' = Obs(P!ObsTx(h, G, img, m, TRUE))
             /\ pos' = pos + CS
             /\ addr' = IF Bug = "addr_overlap" THEN addr + CS - 1 ELSE addr + CS   \* i + address + 1
             /\ UNCHANGED <<cfgvars, pc, i, ctr, site, retry, result, rxq, flash>>

SendTail == /\ pc = "load" /\ SliceLen - pos < CS
            /\ LET m == LoadMsg(ctr, addr, i * ps + pos + 1, SliceLen - pos) IN
               /\ msg' = m
               /\ TargetLoad(ctr, addr, SubSeq(m, 7, Len(m)))
               /\ h' = Obs(P!ObsTx(h, G, img, m, TRUE))
            /\ ctr' = ctr + 1
            /\ IF ctr + 1 >= bp
               THEN pc' = "drain" /\ site' = "loop" /\ UNCHANGED <<i, pos, addr>>
               ELSE IF i + 1 < LoopEnd
               THEN NextPage /\ UNCHANGED site
               ELSE pc' = "drain" /\ site' = "final" /\ UNCHANGED <<i, pos, addr>>
            /\ UNCHANGED <<cfgvars, retry, result, rxq, flash>>

\* write_flash: "Flushing downlink ..."
DrainOne == /\ pc = "drain" /\ rxq # <<>>
            /\ msg' = Head(rxq) /\ rxq' = Tail(rxq)
            /\ h' = Obs(P!ObsRx(h, Head(rxq)))
            /\ UNCHANGED <<cfgvars, pc, ldvars, buf, flash>>

DrainEnd == /\ pc = "drain" /\ rxq = <<>>
            /\ pc' = "send"
            /\ retry' = IF Bug = "retry8" THEN MaxRetry + 2 ELSE MaxRetry
            /\ msg' = <<>>
            /\ UNCHANGED <<cfgvars, i, ctr, pos, addr, site, result, rxq, buf, flash, h>>

FlushPage == IF site = "loop"
             THEN (IF Bug = "flush_i" THEN Start + i ELSE Start + i - (ctr - 1))
             ELSE (IF Bug = "final_page" THEN Start + LastPage - ctr
                   ELSE Start + LastPage - (ctr - 1))

Written(f) == f \in {"ok", "okdup", "lostreply"}

WfSend(f) ==
    /\ pc = "send" /\ f \in Fates
    /\ LET page == FlushPage
           m == WriteMsg(0, page, ctr)
           pages == page..(page + ctr - 1)
       IN /\ msg' = m
          /\ flash' = IF Written(f)
                      THEN [p \in DOMAIN flash \cup pages |->
                               IF p \in pages THEN buf[p - page] ELSE flash[p]]
                      ELSE flash
          /\ rxq' = CASE f = "ok" -> Append(rxq, Reply(1, 0))
                      [] f = "okdup" -> rxq \o <<Reply(1, 0), Reply(1, 0)>>
                      [] f = "nack" -> Append(rxq, Reply(0, NackErr))
                      [] f = "stray" -> Append(rxq, <<OtherTgt, 24, 1, 0>>)
                      [] OTHER -> rxq
          /\ h' = Obs(P!ObsTx(h, G, img, m, f \notin {"lostcmd", "stray"}))
    /\ pc' = "wait"
    /\ UNCHANGED <<cfgvars, ldvars, buf>>

WfRecv ==
    /\ pc = "wait"
    /\ LET got == rxq # <<>>
           pk == IF got THEN Head(rxq) ELSE <<>>
           valid == got /\ Len(pk) >= 2 /\ pk[1] = tgt /\ pk[2] = 24
           r == retry - 1
           success == CASE Bug = "continue" -> TRUE
                        [] Bug = "last_any" -> got /\ pk[3] = 1 /\ (valid \/ r < 0)
                        [] Bug = "ignore_status" -> valid /\ r >= 0
                        [] OTHER -> valid /\ r >= 0 /\ pk[3] = 1
       IN /\ rxq' = IF got THEN Tail(rxq) ELSE rxq
          /\ retry' = r
          /\ msg' = pk
          /\ h' = IF got THEN Obs(P!ObsRx(h, pk)) ELSE h
          /\ IF ~valid /\ r >= 0
             THEN pc' = "send" /\ UNCHANGED <<i, ctr, pos, addr, result>>
             ELSE IF success
             THEN /\ ctr' = 0
                  /\ IF site = "loop" /\ i + 1 < LoopEnd
                     THEN NextPage /\ UNCHANGED result
                     ELSE pc' = "ret" /\ result' = "ok" /\ UNCHANGED <<i, pos, addr>>
             ELSE pc' = "ret" /\ result' = "raised" /\ UNCHANGED <<i, ctr, pos, addr>>
    /\ UNCHANGED <<cfgvars, site, buf, flash>>

Return == /\ pc = "ret"
          /\ pc' = "done"
          /\ msg' = <<>>
          /\ h' = Obs(P!ObsRet(h, G, img, result, flash))
          /\ UNCHANGED <<cfgvars, ldvars, rxq, buf, flash>>

Next == Configure \/ Call \/ SendChunk \/ SendTail \/ DrainOne \/ DrainEnd
        \/ (\E f \in Fates : WfSend(f)) \/ WfRecv \/ Return

Spec == Init /\ [][Next]_vars

\* ---------------------------------------------------------------- what TLC checks
\* C12: no clause of FlashProps fails on any history of the design
PropOK == h.clause = "ok"

\* design-level facts (stronger than the property; about the model only)
TypeOK == /\ pc \in {"c_tgt", "c_ps", "c_bp", "c_fp", "c_tsp", "c_ovr", "c_len", "call", "load",
                     "drain", "send", "wait", "ret", "done"}
          /\ result \in {"none", "ok", "raised"}
          /\ ctr \in 0..bp /\ pos \in 0..ps /\ retry \in (0 - 1)..(MaxRetry + 2)
          /\ Len(rxq) <= 2
FlashedWhenDone ==
    (pc = "done" /\ result = "ok") =>
        \A n \in 1..ImgLen : LET p == Start + (n - 1) \div ps
                             IN p \in DOMAIN flash /\ flash[p][((n - 1) % ps) + 1] = img[n]
NothingOutside ==
    \A p \in DOMAIN flash : /\ p >= Start /\ p <= Start + LastPage /\ p < fp
                            /\ ImgLen <= Capacity
=============================================================================
