SPECIFICATION Spec
CONSTANTS
  Chunk = 2
  MaxRetry = 5
  Targets = {255}
  PageSizes = {1, 2, 3, 4, 5}
  BufCounts = {1, 2, 3}
  FlashSizes = {1, 2, 3, 4}
  MaxLen = 30
  Fates = {"ok", "nack", "lostcmd", "lostreply", "stray"}
  Bug = "final_page"
  Observe = TRUE
INVARIANT PropOK
CHECK_DEADLOCK FALSE
