SPECIFICATION Spec
CONSTANTS
  Packets <- PacketsSim
  MaxPackets = 4
  NR = 3
  RFns <- RFnsSim
  SendSets <- NoSenders
  MaxSends = 0
  Mode = "router"
  LateRegister = FALSE
  Bug = "none"
INVARIANT ReadsOK
INVARIANT RouteOK
INVARIANT DownOK
INVARIANT UpOK
CHECK_DEADLOCK FALSE
