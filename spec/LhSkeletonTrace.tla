------------------------------ MODULE LhSkeletonTrace ------------------------------
(* Trace spec for X03.  One TLC run validates a batch of traces recorded from the real
   LighthouseSampleMatcher.match / LighthouseInitialEstimator.estimate.

   A trace: [id, kind : "match" | "est" | "pipe",
             meas : Seq([ts, bs]), d, minbs,          \* matcher input (ticks); empty for kind "est"
             samples : Seq(Seq(bs)),                  \* estimator input of kind "est" (dict order)
             ev : Seq(event)]
   events (recorded by tracing wrappers; /repo untouched):
     m_next  [i, ts, bs]            the for loop of match() took input element i
     m_stop                         the input iterator is exhausted
     m_new   [ts]                   LhCfPoseSample(timestamp=ts) constructed by match()
     m_put   [i, bs, mem]           current.angles_calibrated[bs] = angles of element i; mem = dict afterwards
     m_flush [none, ts, mem, kept]  _append_result(current, ...) called; kept = the result list grew
     m_ret   [kind, groups, intact] match() returned / raised
     e_call  [samples]              estimate() called with these samples (base station ids in dict order)
     e_poses [kept, K]              _angles_to_poses returned: input positions of the cleaned samples, key lists
     e_ref   [bs, sample]           _estimate_remaining_bs_poses entered with bs_poses = {bs: pose}; the pose object
                                    is the one of input sample `sample`
     e_round [found]                one pass of the closure loop: <<bs, number of averaged poses>> per found station
     e_link  [ok]                   _estimate_remaining_bs_poses returned (ok) / raised LhException
     e_cf    [ok, n]                _estimate_cf_poses returned n poses / raised
     e_ret   [kind, bs, ncf, cleaned, intact]   estimate() returned / raised

   monitor (the verdict): m_ret and e_ret are judged with LhSkeletonProps (MatchClause on the trace's
            own input, EstClause on the samples of e_call with kept/ref as recorded by e_poses/e_ref).
   conform (the binding): every event must be explained by the action of LhSkeleton (Bug = "none",
            the repaired behaviour) with the logged values.                                          *)
EXTENDS Integers, Sequences, FiniteSets, TLC, Json, IOUtils

Traces == JsonDeserialize(IOEnv.TRACE_FILE)

VARIABLES tid, l,
          msamples, mkept, mkeptSeen, mref, mdone, edone, bad, badAt,     \* monitor
          conf, confAt,                                                   \* conformance verdict
          mode, pc, meas, d, minbs, cur, res, mout,                       \* design-spec variables
          smp, kept, K, ref, known, allbs, rounds, ncf, eout

T == Traces[tid]
\* constants of the design spec that its actions (not its Next) use
Mode == "pipe"
BsIds == {}
MaxMeas == 1000000
Deltas == {}
Diffs == {}
MinBs == {}
MaxSamples == 0
SampleSets == {}
MaxOutliers == 1000000
\* LH_BUG=single_crash: conformance against the behaviour as found (samples with one base station)
Bug == IF "LH_BUG" \in DOMAIN IOEnv THEN IOEnv.LH_BUG ELSE "none"
PrintCases == FALSE

D == INSTANCE LhSkeleton
P == INSTANCE LhSkeletonProps

specvars == <<mode, pc, meas, d, minbs, cur, res, mout, smp, kept, K, ref, known, allbs, rounds, ncf, eout>>
monvars == <<msamples, mkept, mkeptSeen, mref, mdone, edone>>
Ev == T.ev[l]
ToSet(s) == {s[i] : i \in DOMAIN s}
Sets(ss) == [k \in DOMAIN ss |-> ToSet(ss[k])]

Init == /\ tid \in 1..Len(Traces)
        /\ l = 1
        /\ msamples = <<>> /\ mkept = <<>> /\ mkeptSeen = FALSE /\ mref = D!NoRef
        /\ mdone = FALSE /\ edone = FALSE
        /\ bad = "ok" /\ badAt = 0
        /\ conf = TRUE /\ confAt = 0
        /\ mode = Traces[tid].kind
        /\ pc = IF Traces[tid].kind = "est" THEN "e_setup" ELSE "m_iter"
        /\ meas = <<>> /\ cur = D!None /\ res = <<>> /\ mout = D!MPending
        /\ d = Traces[tid].d /\ minbs = Traces[tid].minbs
        /\ smp = IF Traces[tid].kind = "est" THEN Sets(Traces[tid].samples) ELSE <<>>
        /\ kept = <<>> /\ K = <<>> /\ ref = D!NoRef /\ known = {} /\ allbs = {}
        /\ rounds = <<>> /\ ncf = 0 /\ eout = D!Pending

Conform(A) == IF conf /\ ENABLED A
              THEN A /\ UNCHANGED <<conf, confAt>>
              ELSE /\ conf' = FALSE /\ confAt' = (IF conf THEN l ELSE confAt)
                   /\ UNCHANGED specvars

Fail(c) == IF bad = "ok" /\ c # "ok" THEN bad' = c /\ badAt' = l ELSE UNCHANGED <<bad, badAt>>

(* ------------------------------------------------------------------ matcher events *)
MNextEv == /\ Ev.e = "m_next"
           /\ UNCHANGED monvars /\ UNCHANGED <<bad, badAt>>
           /\ Conform(D!MNext(Ev.ts - D!LastTs, Ev.bs) /\ Len(meas') = Ev.i)

MStopEv == /\ Ev.e = "m_stop"
           /\ UNCHANGED monvars /\ UNCHANGED <<bad, badAt>>
           /\ Conform(D!MStop)

MNewEv == /\ Ev.e = "m_new"
          /\ UNCHANGED monvars /\ UNCHANGED <<bad, badAt>>
          /\ Conform((D!MNewFirst \/ D!MRenew) /\ cur'.ts = Ev.ts)

MPutEv == /\ Ev.e = "m_put"
          /\ UNCHANGED monvars /\ UNCHANGED <<bad, badAt>>
          /\ Conform(D!MPut /\ Len(meas) = Ev.i /\ D!Sample.bs = Ev.bs /\ cur'.mem = Ev.mem)

MFlushEv == /\ Ev.e = "m_flush"
            /\ UNCHANGED monvars /\ UNCHANGED <<bad, badAt>>
            /\ Conform(/\ D!MFlush \/ D!MFinal
                       /\ cur.some = ~Ev.none
                       /\ cur.some => (cur.ts = Ev.ts /\ cur.mem = Ev.mem)
                       /\ (Len(res') > Len(res)) = Ev.kept)

MRetEv == /\ Ev.e = "m_ret"
          /\ Fail(IF mdone THEN "MatcherReturnedTwice"
                  ELSE P!MatchClause(T.meas, T.d, T.minbs,
                                     [kind |-> Ev.kind, groups |-> Ev.groups, intact |-> Ev.intact]))
          /\ mdone' = TRUE
          /\ UNCHANGED <<msamples, mkept, mkeptSeen, mref, edone>>
          /\ Conform(D!MReturn /\ Ev.kind = "return" /\ res = Ev.groups /\ meas = T.meas)

(* ------------------------------------------------------------------ estimator events *)
ECallEv == /\ Ev.e = "e_call"
           /\ msamples' = Sets(Ev.samples)
           /\ UNCHANGED <<mkept, mkeptSeen, mref, mdone, edone, bad, badAt>>
           /\ Conform(IF mode = "est" THEN D!EStart /\ smp = Sets(Ev.samples)
                      ELSE D!EFeed /\ smp' = Sets(Ev.samples))

EPosesEv == /\ Ev.e = "e_poses"
            /\ mkept' = Ev.kept /\ mkeptSeen' = TRUE
            /\ UNCHANGED <<msamples, mref, mdone, edone, bad, badAt>>
            /\ Conform(LET O == {k \in DOMAIN smp : Cardinality(smp[k]) >= 2 /\ k \notin ToSet(Ev.kept)}
                       IN  D!EPoses(O) /\ kept' = Ev.kept /\ K' = Sets(Ev.K))

ERefEv == /\ Ev.e = "e_ref"
          /\ mref' = [bs |-> Ev.bs, sample |-> Ev.sample]
          /\ UNCHANGED <<msamples, mkept, mkeptSeen, mdone, edone, bad, badAt>>
          /\ Conform(D!ERef /\ ref' = [bs |-> Ev.bs, sample |-> Ev.sample])

ERoundEv == /\ Ev.e = "e_round"
            /\ UNCHANGED monvars /\ UNCHANGED <<bad, badAt>>
            /\ Conform(D!ERound /\ ToSet(D!FoundSeq) = ToSet(Ev.found))

ELinkEv == /\ Ev.e = "e_link"
           /\ UNCHANGED monvars /\ UNCHANGED <<bad, badAt>>
           /\ Conform(IF Ev.ok THEN D!ELinkDone ELSE D!ELinkFail)

ECfEv == /\ Ev.e = "e_cf"
         /\ UNCHANGED monvars /\ UNCHANGED <<bad, badAt>>
         /\ Conform(D!ECf /\ (Ev.ok <=> eout'.kind = "pending") /\ (Ev.ok => ncf' = Ev.n))

ERetEv == /\ Ev.e = "e_ret"
          /\ LET n == Len(msamples)
                 obs == [kind |-> Ev.kind, bs |-> Ev.bs, ncf |-> Ev.ncf, cleaned |-> Ev.cleaned,
                         kept |-> IF mkeptSeen THEN mkept ELSE [k \in 1..n |-> k],
                         ref |-> mref, intact |-> Ev.intact]
             IN Fail(IF edone THEN "EstimatorReturnedTwice"
                     ELSE IF \E k \in DOMAIN msamples : msamples[k] = {} THEN "ok"   \* outside the quantifier
                     ELSE P!EstClause(msamples, obs))
          /\ edone' = TRUE
          /\ UNCHANGED <<msamples, mkept, mkeptSeen, mref, mdone>>
          /\ Conform(/\ D!EReturn \/ D!ERefNone
                     /\ eout'.kind = Ev.kind
                     /\ Ev.kind = "return" => /\ ToSet(eout'.bs) = ToSet(Ev.bs)
                                              /\ eout'.ncf = Ev.ncf
                                              /\ eout'.cleaned = Ev.cleaned)

Step == /\ l <= Len(T.ev)
        /\ l' = l + 1 /\ UNCHANGED tid
        /\ \/ MNextEv \/ MStopEv \/ MNewEv \/ MPutEv \/ MFlushEv \/ MRetEv
           \/ ECallEv \/ EPosesEv \/ ERefEv \/ ERoundEv \/ ELinkEv \/ ECfEv \/ ERetEv

\* end of trace: the call(s) the trace is about must have come back
Finish == /\ l = Len(T.ev) + 1
          /\ l' = l + 1
          /\ LET b == IF bad # "ok" THEN bad
                      ELSE IF T.kind \in {"match", "pipe"} /\ ~mdone THEN "IncompleteTrace"
                      ELSE IF T.kind = "est" /\ ~edone THEN "IncompleteTrace"
                      ELSE IF T.kind = "pipe" /\ ~edone THEN "IncompleteTrace"
                      ELSE "ok"
                 c == conf /\ pc = "done"
             IN PrintT(<<"VERDICT", T.id, b, badAt, c, IF conf THEN l ELSE confAt>>)
          /\ UNCHANGED <<tid, bad, badAt, conf, confAt>> /\ UNCHANGED monvars /\ UNCHANGED specvars

Next == Step \/ Finish
Spec == Init /\ [][Next]_<<tid, l, msamples, mkept, mkeptSeen, mref, mdone, edone, bad, badAt, conf, confAt,
                           mode, pc, meas, d, minbs, cur, res, mout, smp, kept, K, ref, known, allbs, rounds, ncf, eout>>
=============================================================================
