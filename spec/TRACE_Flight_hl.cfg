SPECIFICATION Spec
CONSTANTS
  Helper = "PHC"
  DH = 500
  DV = 500
  DL = 0
CHECK_DEADLOCK FALSE
