------------------------------ MODULE MemProto ------------------------------
(* Design spec of cflib.crazyflie.mem.Memory (C06): chunked reads (one per memory), queued
   chunked writes (per-memory FIFO under _write_requests_lock), the dispatcher's reply handlers,
   the device's memory service and the faults of the property's quantifier (duplicated, delayed
   replies, error statuses, link drop).  Contents are abstract here (they live in the traces);
   addresses and lengths are integers, RC/WC are the chunk sizes (20/25 in the code).

   Bug = "emptyQueueIndex" is the pre-fix _handle_chan_write: an acknowledgement for a memory
   whose queue is empty (a duplicated final ack) indexes [0] while holding the lock.         *)
EXTENDS Naturals, Sequences, FiniteSets, TLC

CONSTANTS RC, WC, MaxLen, Mems, Addrs, NReq, NErr, NDup, MaxUid, Bug

P == INSTANCE MemProtoProps

Min(a, b) == IF a < b THEN a ELSE b
NoRd == [rid |-> 0, cur |-> 0, left |-> 0]

VARIABLES rd, wq, wkey, wlock,       \* Memory object
          up, down, link,            \* wire: FIFO to the device, bag of replies in flight
          nreq, nerr, ndup, uid,
          req, chunks, notes, sup,   \* history
          wireW,                     \* history: order of write-chunk transmissions per memory
          dead                       \* the dispatcher's callback raised (traceback in the log)

vars == <<rd, wq, wkey, wlock, up, down, link, nreq, nerr, ndup, uid, req, chunks, notes, sup, wireW, dead>>

Init == /\ rd = [m \in Mems |-> NoRd]
        /\ wq = [m \in Mems |-> <<>>]
        /\ wkey = [m \in Mems |-> FALSE]
        /\ wlock = "free"
        /\ up = <<>> /\ down = {} /\ link = TRUE
        /\ nreq = 0 /\ nerr = 0 /\ ndup = 0 /\ uid = 0
        /\ req = <<>> /\ chunks = <<>> /\ notes = <<>> /\ sup = {}
        /\ wireW = [m \in Mems |-> <<>>]
        /\ dead = FALSE

\* ---- sending one chunk message (part of the action that causes it)
SendR(m, r) ==     \* r = read record with left > 0 or the initial zero-length request
    [k |-> "r", m |-> m, addr |-> r.cur, len |-> Min(r.left, RC), rid |-> r.rid]
SendW(m, w) ==     \* w = write record before sending: rest bytes still to send from cur
    [k |-> "w", m |-> m, addr |-> w.cur, len |-> Min(w.rest, WC), rid |-> w.rid]
Started(w) == [w EXCEPT !.rest = w.rest - Min(w.rest, WC), !.add = Min(w.rest, WC)]

Note(rid, what) == notes' = [notes EXCEPT ![rid] = Append(@, what)]
Chunk(msg) == chunks' = [chunks EXCEPT ![msg.rid] = Append(@, [addr |-> msg.addr, len |-> msg.len])]

NewReq(r) == /\ nreq' = nreq + 1
             /\ req' = Append(req, r)

\* ---- Memory.read: refused while one is in flight for that memory
URead(m, a, n) ==
    /\ link /\ nreq < NReq
    /\ IF rd[m] # NoRd
       THEN /\ NewReq([kind |-> "read", m |-> m, addr |-> a, len |-> n, flush |-> FALSE, accepted |-> FALSE])
            /\ chunks' = Append(chunks, <<>>) /\ notes' = Append(notes, <<>>)
            /\ UNCHANGED <<rd, up>>
       ELSE LET r == [rid |-> nreq + 1, cur |-> a, left |-> n] msg == SendR(m, r) IN
            /\ NewReq([kind |-> "read", m |-> m, addr |-> a, len |-> n, flush |-> FALSE, accepted |-> TRUE])
            /\ rd' = [rd EXCEPT ![m] = r]
            /\ up' = Append(up, msg)
            /\ chunks' = Append(chunks, <<[addr |-> msg.addr, len |-> msg.len]>>)
            /\ notes' = Append(notes, <<>>)
    /\ UNCHANGED <<wq, wkey, wlock, down, link, nerr, ndup, uid, sup, wireW, dead>>

\* ---- Memory.write: the whole body runs under _write_requests_lock
UWrite(m, a, n, f) ==
    /\ link /\ nreq < NReq /\ wlock = "free"
    /\ LET kept == IF f /\ Len(wq[m]) > 1 THEN <<wq[m][1]>> ELSE wq[m]
           gone == {wq[m][i].rid : i \in (Len(kept) + 1)..Len(wq[m])}
           w0   == [rid |-> nreq + 1, cur |-> a, rest |-> n, add |-> 0]
           first == Len(kept) = 0
           msg  == SendW(m, w0)
       IN /\ NewReq([kind |-> "write", m |-> m, addr |-> a, len |-> n, flush |-> f, accepted |-> TRUE])
          /\ sup' = sup \cup gone
          /\ wkey' = [wkey EXCEPT ![m] = TRUE]
          /\ notes' = Append(notes, <<>>)
          /\ IF first
             THEN /\ wq' = [wq EXCEPT ![m] = <<Started(w0)>>]
                  /\ up' = Append(up, msg)
                  /\ chunks' = Append(chunks, <<[addr |-> msg.addr, len |-> msg.len]>>)
                  /\ wireW' = [wireW EXCEPT ![m] = Append(@, w0.rid)]
             ELSE /\ wq' = [wq EXCEPT ![m] = Append(kept, w0)]
                  /\ chunks' = Append(chunks, <<>>)
                  /\ UNCHANGED <<up, wireW>>
    /\ UNCHANGED <<rd, wlock, down, link, nerr, ndup, uid, dead>>

\* ---- the device serves the oldest request; status may be an error (fault budget)
Dev(st) ==
    /\ up # <<>>
    /\ st # 0 => nerr < NErr
    /\ LET q == Head(up) IN
       /\ down' = down \cup {[uid |-> uid + 1, k |-> q.k, m |-> q.m, addr |-> q.addr, st |-> st, len |-> q.len]}
       /\ uid' = uid + 1
    /\ up' = Tail(up)
    /\ nerr' = IF st # 0 THEN nerr + 1 ELSE nerr
    /\ UNCHANGED <<rd, wq, wkey, wlock, link, nreq, ndup, req, chunks, notes, sup, wireW, dead>>

Dup(r) ==
    /\ r \in down /\ ndup < NDup
    /\ down' = down \cup {[r EXCEPT !.uid = uid + 1]}
    /\ uid' = uid + 1 /\ ndup' = ndup + 1
    /\ UNCHANGED <<rd, wq, wkey, wlock, up, link, nreq, nerr, req, chunks, notes, sup, wireW, dead>>

\* ---- dispatcher: _handle_chan_read
DeliverR(r) ==
    /\ r \in down /\ r.k = "r" /\ ~dead
    /\ down' = down \ {r}
    /\ LET c == rd[r.m] IN
       IF c = NoRd THEN UNCHANGED <<rd, up, chunks, notes>>
       ELSE IF r.st # 0 THEN /\ rd' = [rd EXCEPT ![r.m] = NoRd]
                              /\ Note(c.rid, "fail") /\ UNCHANGED <<up, chunks>>
       ELSE IF r.addr # c.cur THEN UNCHANGED <<rd, up, chunks, notes>>
       ELSE LET c2 == [c EXCEPT !.cur = c.cur + r.len, !.left = IF c.left >= r.len THEN c.left - r.len ELSE 0] IN
            IF c.left > r.len
            THEN /\ rd' = [rd EXCEPT ![r.m] = c2]
                 /\ up' = Append(up, SendR(r.m, c2)) /\ Chunk(SendR(r.m, c2))
                 /\ UNCHANGED notes
            ELSE /\ rd' = [rd EXCEPT ![r.m] = NoRd]
                 /\ Note(c.rid, "ok") /\ UNCHANGED <<up, chunks>>
    /\ UNCHANGED <<wq, wkey, wlock, link, nreq, nerr, ndup, uid, req, sup, wireW, dead>>

\* after popping the head: start the next queued write, if any
PopAndStart(m) ==
    LET q == Tail(wq[m]) IN
    IF q = <<>> THEN /\ wq' = [wq EXCEPT ![m] = q] /\ UNCHANGED <<up, chunks, wireW>>
    ELSE LET w == q[1] msg == SendW(m, w) IN
         /\ wq' = [wq EXCEPT ![m] = <<Started(w)>> \o Tail(q)]
         /\ up' = Append(up, msg) /\ Chunk(msg)
         /\ wireW' = [wireW EXCEPT ![m] = Append(@, w.rid)]

\* ---- dispatcher: _handle_chan_write (lock taken and released inside, callbacks after release)
DeliverW(r) ==
    /\ r \in down /\ r.k = "w" /\ ~dead /\ wlock = "free"
    /\ down' = down \ {r}
    /\ IF ~wkey[r.m] THEN UNCHANGED <<wq, up, chunks, notes, wireW, wlock, dead>>
       ELSE IF wq[r.m] = <<>>
       THEN IF Bug = "emptyQueueIndex"
            THEN /\ wlock' = "stuck" /\ dead' = TRUE        \* IndexError with the lock held
                 /\ UNCHANGED <<wq, up, chunks, notes, wireW>>
            ELSE UNCHANGED <<wq, up, chunks, notes, wireW, wlock, dead>>
       ELSE LET w == wq[r.m][1] IN
            IF r.st # 0
            THEN /\ PopAndStart(r.m) /\ Note(w.rid, "fail") /\ UNCHANGED <<wlock, dead>>
            ELSE IF r.addr # w.cur THEN UNCHANGED <<wq, up, chunks, notes, wireW, wlock, dead>>
            ELSE IF w.rest > 0
                 THEN LET w2 == [w EXCEPT !.cur = w.cur + w.add] msg == SendW(r.m, w2) IN
                      /\ wq' = [wq EXCEPT ![r.m] = <<Started(w2)>> \o Tail(wq[r.m])]
                      /\ up' = Append(up, msg) /\ Chunk(msg)
                      /\ wireW' = [wireW EXCEPT ![r.m] = Append(@, w.rid)]
                      /\ UNCHANGED <<notes, wlock, dead>>
                 ELSE /\ PopAndStart(r.m) /\ Note(w.rid, "ok") /\ UNCHANGED <<wlock, dead>>
    /\ UNCHANGED <<rd, wkey, link, nreq, nerr, ndup, uid, req, sup>>

\* ---- link drop: Memory._disconnected -> every pending request fails, state cleared
Drop ==
    /\ link /\ wlock = "free"
    /\ link' = FALSE
    /\ LET pend == {rd[m].rid : m \in {x \in Mems : rd[x] # NoRd}}
                   \cup UNION {{wq[m][i].rid : i \in DOMAIN wq[m]} : m \in Mems}
       IN notes' = [i \in DOMAIN notes |-> IF i \in pend THEN Append(notes[i], "fail") ELSE notes[i]]
    /\ rd' = [m \in Mems |-> NoRd] /\ wq' = [m \in Mems |-> <<>>] /\ wkey' = [m \in Mems |-> FALSE]
    /\ up' = <<>> /\ down' = {}
    /\ UNCHANGED <<wlock, nreq, nerr, ndup, uid, req, chunks, sup, wireW, dead>>

Reconnect == /\ ~link /\ link' = TRUE
             /\ UNCHANGED <<rd, wq, wkey, wlock, up, down, nreq, nerr, ndup, uid, req, chunks, notes, sup, wireW, dead>>

\* the same actions addressed by the reply's uid (a constant range, so that TLC labels each step
\* with its parameter in dumps and simulation files)
UIds == 1..MaxUid
DupU(u) == \E r \in down : r.uid = u /\ Dup(r)
DeliverRU(u) == \E r \in down : r.uid = u /\ DeliverR(r)
DeliverWU(u) == \E r \in down : r.uid = u /\ DeliverW(r)

Next == \/ \E m \in Mems, a \in Addrs, n \in 0..MaxLen : URead(m, a, n)
        \/ \E m \in Mems, a \in Addrs, n \in 0..MaxLen, f \in BOOLEAN : UWrite(m, a, n, f)
        \/ \E st \in {0, 1} : Dev(st)
        \/ \E u \in UIds : DupU(u)
        \/ \E u \in UIds : DeliverRU(u)
        \/ \E u \in UIds : DeliverWU(u)
        \/ Drop \/ Reconnect

Spec == Init /\ [][Next]_vars

\* ------------------------------------------------------------------ properties (C06)
Rids == DOMAIN req
AtMostOnce == \A i \in Rids : P!AtMostOneNote(notes[i])
Limits == \A i \in Rids : P!ChunkLimit(chunks[i], req[i].kind, RC, WC)
\* exactness is claimed for histories without duplicated replies (DESIGN 3.1(5a)): a duplicate of
\* the reply to an earlier request is indistinguishable from the reply to the next request at the
\* same address -- the protocol carries no sequence number
Tiling == ndup = 0 => \A i \in Rids : /\ P!TilesPrefix(chunks[i], req[i].addr, req[i].len)
                          /\ (notes[i] = <<"ok">> => P!Tiles(chunks[i], req[i].addr, req[i].len))
\* queued writes to one memory are performed in order
WriteOrder == \A m \in Mems : \A i, j \in DOMAIN wireW[m] : i < j => wireW[m][i] <= wireW[m][j]
\* nothing in flight => nothing pending, nothing wedged: every accepted, not superseded request completed
Quiescent == up = <<>> /\ down = {}
Complete == Quiescent =>
    /\ \A m \in Mems : rd[m] = NoRd /\ wq[m] = <<>>
    /\ \A i \in Rids : (req[i].accepted /\ i \notin sup) => Len(notes[i]) = 1
UidBound == uid <= MaxUid
NotWedged == wlock = "free" /\ ~dead
NoNoteForRefused == \A i \in Rids : ~req[i].accepted => notes[i] = <<>>
=============================================================================
