------------------------------ MODULE MemProto ------------------------------
(* Design spec of cflib.crazyflie.mem.Memory (C06): chunked reads (one per memory), queued
   chunked writes (per-memory FIFO under _write_requests_lock), the dispatcher's reply handlers,
   the device's memory service and the faults of the property's quantifier (duplicated, delayed
   replies, error statuses, link drop).  Contents are abstract here (they live in the traces);
   addresses and lengths are integers, RC/WC are the chunk sizes (20/25 in the code).

   Environment (round 2):
     * the device may answer with any status byte of ErrSts (the property quantifies over all
       error statuses; the library must treat every non-zero byte alike);
     * SendFail: the link may fail while the first message of a request is being sent -- the
       driver reports the error from inside send_packet, the library tears the session down in
       the calling thread before read()/write() returns;
     * DeckMems: memories that are used through a DeckMemoryManager (deck_memory.py): one write
       at a time ("Write operation ongoing"), always flush_queue, completion and failure are
       handed on to the callbacks of that one write; a callback may start the next write.

   Bug variants (each refuted by TLC under its MC_MemProto_bug*.cfg):
     "emptyQueueIndex"     pre-fix _handle_chan_write: an acknowledgement for a memory whose queue
                           is empty (a duplicated final ack) indexes [0] while holding the lock
     "errnoLookup"         the error branch of the reply handlers looks the status byte up in a
                           table of the host's errno codes (HostSts) before it pops the request:
                           a status outside the table raises (swallowed by the dispatcher) -- the
                           read record stays, the write lock is never released
     "registerAfterSend"   Memory.read records the request only after its first message has been
                           handed to the link: a reply handled, or a tear-down run, in between
                           does not find it
     "deckCallBeforeClear" DeckMemoryManager._write_failed calls the failure callback before it
                           clears the pending-write callbacks: a write started from inside the
                           callback is refused, its exception skips the clear for ever       *)
EXTENDS Naturals, Sequences, FiniteSets, TLC

CONSTANTS RC, WC, MaxLen, Mems, Addrs, NReq, NErr, NDup, MaxUid, Bug,
          ErrSts, HostSts, DeckMems, SendFail

P == INSTANCE MemProtoProps

Min(a, b) == IF a < b THEN a ELSE b
NoRd == [rid |-> 0, cur |-> 0, left |-> 0]

VARIABLES rd, rpend, wq, wkey, wlock, \* Memory object (rpend: a read() call between send and record, bug variant only)
          dk, dkcb,                  \* DeckMemoryManager: rid of the write whose callbacks it holds; failure callback running
          up, down, link,            \* wire: FIFO to the device, bag of replies in flight
          nreq, nerr, ndup, uid,
          req, chunks, notes, sup,   \* history
          wireW,                     \* history: order of write-chunk transmissions per memory
          dead                       \* the dispatcher's callback raised (traceback in the log)

vars == <<rd, rpend, wq, wkey, wlock, dk, dkcb, up, down, link, nreq, nerr, ndup, uid, req, chunks, notes, sup, wireW, dead>>

Init == /\ rd = [m \in Mems |-> NoRd] /\ rpend = [m \in Mems |-> NoRd]
        /\ wq = [m \in Mems |-> <<>>]
        /\ wkey = [m \in Mems |-> FALSE]
        /\ wlock = "free"
        /\ dk = [m \in Mems |-> 0] /\ dkcb = [m \in Mems |-> FALSE]
        /\ up = <<>> /\ down = {} /\ link = TRUE
        /\ nreq = 0 /\ nerr = 0 /\ ndup = 0 /\ uid = 0
        /\ req = <<>> /\ chunks = <<>> /\ notes = <<>> /\ sup = {}
        /\ wireW = [m \in Mems |-> <<>>]
        /\ dead = FALSE

\* ---- sending one chunk message (part of the action that causes it)
SendR(m, r) ==     \* r = read record with left > 0 or the initial zero-length request
    [k |-> "r", m |-> m, addr |-> r.cur, len |-> Min(r.left, RC), rid |-> r.rid]
SendW(m, w) ==     \* w = write record before sending: rest bytes still to send from cur
    [k |-> "w", m |-> m, addr |-> w.cur, len |-> Min(w.rest, WC), rid |-> w.rid]
Started(w) == [w EXCEPT !.rest = w.rest - Min(w.rest, WC), !.add = Min(w.rest, WC)]

Note(rid, what) == notes' = [notes EXCEPT ![rid] = Append(@, what)]
Chunk(msg) == chunks' = [chunks EXCEPT ![msg.rid] = Append(@, [addr |-> msg.addr, len |-> msg.len])]

NewReq(r) == /\ nreq' = nreq + 1
             /\ req' = Append(req, r)

NoCall == \A m \in Mems : rpend[m] = NoRd       \* no API call of the application is half-way
NoCb   == \A m \in Mems : ~dkcb[m]              \* the dispatcher is not inside a deck failure callback
SFs    == IF SendFail THEN BOOLEAN ELSE {FALSE}

PendingRids == {rd[m].rid : m \in {x \in Mems : rd[x] # NoRd}}
               \cup UNION {{wq[m][i].rid : i \in DOMAIN wq[m]} : m \in Mems}

\* Memory._disconnected: every pending request (and `extra`: the request whose own send reported
\* the failure, already registered) fails; all state is cleared, the deck manager object is dropped
\* with the memory list (a new one is made by the next connection).  rd' is set by the caller.
TearDown(ntab, extra) ==
    /\ link' = FALSE
    /\ notes' = [i \in DOMAIN ntab |-> IF i \in PendingRids \cup extra THEN Append(ntab[i], "fail") ELSE ntab[i]]
    /\ wq' = [m \in Mems |-> <<>>] /\ wkey' = [m \in Mems |-> FALSE]
    /\ dk' = [m \in Mems |-> 0] /\ dkcb' = [m \in Mems |-> FALSE]
    /\ up' = <<>> /\ down' = {}

\* ---- Memory.read: refused while one is in flight for that memory.  sf: the link fails while the
\* first message is being sent (reported from inside send_packet)
URead(m, a, n, sf) ==
    /\ link /\ nreq < NReq /\ NoCall
    /\ sf => rd[m] = NoRd
    /\ LET rid == nreq + 1
           r   == [rid |-> rid, cur |-> a, left |-> n]
           msg == SendR(m, r)
           R(acc) == [kind |-> "read", m |-> m, addr |-> a, len |-> n, flush |-> FALSE, accepted |-> acc]
       IN
       IF rd[m] # NoRd
       THEN /\ NewReq(R(FALSE))
            /\ chunks' = Append(chunks, <<>>) /\ notes' = Append(notes, <<>>)
            /\ UNCHANGED <<rd, rpend, wq, wkey, dk, dkcb, up, down, link>>
       ELSE IF ~sf
       THEN /\ NewReq(R(TRUE))
            /\ IF Bug = "registerAfterSend"
               THEN rpend' = [rpend EXCEPT ![m] = r] /\ UNCHANGED rd
               ELSE rd' = [rd EXCEPT ![m] = r] /\ UNCHANGED rpend
            /\ up' = Append(up, msg)
            /\ chunks' = Append(chunks, <<[addr |-> msg.addr, len |-> msg.len]>>)
            /\ notes' = Append(notes, <<>>)
            /\ UNCHANGED <<wq, wkey, dk, dkcb, down, link>>
       ELSE \* the message never reaches the device; the tear-down runs inside the call
            /\ NewReq(R(TRUE))
            /\ chunks' = Append(chunks, <<>>)
            /\ IF Bug = "registerAfterSend"
               THEN /\ TearDown(Append(notes, <<>>), {})
                    /\ rd' = [x \in Mems |-> IF x = m THEN r ELSE NoRd]     \* recorded after _clear_state
               ELSE /\ TearDown(Append(notes, <<>>), {rid})
                    /\ rd' = [x \in Mems |-> NoRd]
            /\ UNCHANGED rpend
    /\ UNCHANGED <<wlock, nerr, ndup, uid, sup, wireW, dead>>

\* (bug variant only) read() goes on after the send: now the request is recorded
URegister(m) ==
    /\ rpend[m] # NoRd
    /\ rd' = [rd EXCEPT ![m] = rpend[m]]
    /\ rpend' = [rpend EXCEPT ![m] = NoRd]
    /\ UNCHANGED <<wq, wkey, wlock, dk, dkcb, up, down, link, nreq, nerr, ndup, uid, req, chunks, notes, sup, wireW, dead>>

\* ---- Memory.write: the whole body runs under _write_requests_lock.  On a deck memory the call
\* comes from DeckMemoryManager._write: refused (exception) while it holds the callbacks of a write
UWrite(m, a, n, f, sf) ==
    /\ link /\ nreq < NReq /\ wlock = "free" /\ NoCall
    /\ m \in DeckMems => f
    /\ LET rid  == nreq + 1
           refused == m \in DeckMems /\ dk[m] # 0
           kept == IF f /\ Len(wq[m]) > 1 THEN <<wq[m][1]>> ELSE wq[m]
           gone == {wq[m][i].rid : i \in (Len(kept) + 1)..Len(wq[m])}
           w0   == [rid |-> rid, cur |-> a, rest |-> n, add |-> 0]
           first == Len(kept) = 0
           msg  == SendW(m, w0)
           R(acc) == [kind |-> "write", m |-> m, addr |-> a, len |-> n, flush |-> f, accepted |-> acc]
       IN /\ sf => (first /\ ~refused)
          /\ IF refused
             THEN \* raised from inside the failure callback (bug variant) the exception also unwinds
                  \* _write_failed: the late clear is skipped
                  /\ NewReq(R(FALSE))
                  /\ chunks' = Append(chunks, <<>>) /\ notes' = Append(notes, <<>>)
                  /\ dkcb' = [dkcb EXCEPT ![m] = FALSE]
                  /\ UNCHANGED <<rd, wq, wkey, dk, up, down, link, sup, wireW>>
             ELSE IF ~sf
             THEN /\ NewReq(R(TRUE))
                  /\ sup' = sup \cup gone
                  /\ wkey' = [wkey EXCEPT ![m] = TRUE]
                  /\ dk' = IF m \in DeckMems THEN [dk EXCEPT ![m] = rid] ELSE dk
                  /\ notes' = Append(notes, <<>>)
                  /\ IF first
                     THEN /\ wq' = [wq EXCEPT ![m] = <<Started(w0)>>]
                          /\ up' = Append(up, msg)
                          /\ chunks' = Append(chunks, <<[addr |-> msg.addr, len |-> msg.len]>>)
                          /\ wireW' = [wireW EXCEPT ![m] = Append(@, w0.rid)]
                     ELSE /\ wq' = [wq EXCEPT ![m] = Append(kept, w0)]
                          /\ chunks' = Append(chunks, <<>>)
                          /\ UNCHANGED <<up, wireW>>
                  /\ UNCHANGED <<rd, dkcb, down, link>>
             ELSE \* first message not delivered; the tear-down runs inside write() (the lock is
                  \* re-entrant), this request is in the queue and fails with the others
                  /\ NewReq(R(TRUE))
                  /\ chunks' = Append(chunks, <<>>)
                  /\ TearDown(Append(notes, <<>>), {rid})
                  /\ rd' = [x \in Mems |-> NoRd]
                  /\ UNCHANGED <<sup, wireW>>
    /\ UNCHANGED <<rpend, wlock, nerr, ndup, uid, dead>>

\* ---- the device serves the oldest request; status may be any error byte (fault budget)
Dev(st) ==
    /\ up # <<>>
    /\ st # 0 => nerr < NErr
    /\ LET q == Head(up) IN
       /\ down' = down \cup {[uid |-> uid + 1, k |-> q.k, m |-> q.m, addr |-> q.addr, st |-> st, len |-> q.len]}
       /\ uid' = uid + 1
    /\ up' = Tail(up)
    /\ nerr' = IF st # 0 THEN nerr + 1 ELSE nerr
    /\ UNCHANGED <<rd, rpend, wq, wkey, wlock, dk, dkcb, link, nreq, ndup, req, chunks, notes, sup, wireW, dead>>

Dup(r) ==
    /\ r \in down /\ ndup < NDup
    /\ down' = down \cup {[r EXCEPT !.uid = uid + 1]}
    /\ uid' = uid + 1 /\ ndup' = ndup + 1
    /\ UNCHANGED <<rd, rpend, wq, wkey, wlock, dk, dkcb, up, link, nreq, nerr, req, chunks, notes, sup, wireW, dead>>

Unknown(st) == Bug = "errnoLookup" /\ st \notin HostSts

\* ---- dispatcher: _handle_chan_read
DeliverR(r) ==
    /\ r \in down /\ r.k = "r" /\ ~dead /\ NoCb
    /\ down' = down \ {r}
    /\ LET c == rd[r.m] IN
       IF c = NoRd THEN UNCHANGED <<rd, up, chunks, notes>>
       ELSE IF r.st # 0
       THEN IF Unknown(r.st)
            THEN UNCHANGED <<rd, up, chunks, notes>>          \* raised before the pop, swallowed
            ELSE /\ rd' = [rd EXCEPT ![r.m] = NoRd]
                 /\ Note(c.rid, "fail") /\ UNCHANGED <<up, chunks>>
       ELSE IF r.addr # c.cur THEN UNCHANGED <<rd, up, chunks, notes>>
       ELSE LET c2 == [c EXCEPT !.cur = c.cur + r.len, !.left = IF c.left >= r.len THEN c.left - r.len ELSE 0] IN
            IF c.left > r.len
            THEN /\ rd' = [rd EXCEPT ![r.m] = c2]
                 /\ up' = Append(up, SendR(r.m, c2)) /\ Chunk(SendR(r.m, c2))
                 /\ UNCHANGED notes
            ELSE /\ rd' = [rd EXCEPT ![r.m] = NoRd]
                 /\ Note(c.rid, "ok") /\ UNCHANGED <<up, chunks>>
    /\ UNCHANGED <<rpend, wq, wkey, wlock, dk, dkcb, link, nreq, nerr, ndup, uid, req, sup, wireW, dead>>

\* after popping the head: start the next queued write, if any
PopAndStart(m) ==
    LET q == Tail(wq[m]) IN
    IF q = <<>> THEN /\ wq' = [wq EXCEPT ![m] = q] /\ UNCHANGED <<up, chunks, wireW>>
    ELSE LET w == q[1] msg == SendW(m, w) IN
         /\ wq' = [wq EXCEPT ![m] = <<Started(w)>> \o Tail(q)]
         /\ up' = Append(up, msg) /\ Chunk(msg)
         /\ wireW' = [wireW EXCEPT ![m] = Append(@, w.rid)]

\* DeckMemoryManager._write_done / _write_failed for the write it holds the callbacks of:
\* copy, clear, call -- afterwards the callback (or anybody) may start the next write
DkNote(m, rid, what) ==
    IF m \in DeckMems /\ dk[m] = rid
    THEN IF what = "fail" /\ Bug = "deckCallBeforeClear"
         THEN dkcb' = [dkcb EXCEPT ![m] = TRUE] /\ UNCHANGED dk
         ELSE dk' = [dk EXCEPT ![m] = 0] /\ UNCHANGED dkcb
    ELSE UNCHANGED <<dk, dkcb>>

\* (bug variant only) the failure callback returns without having started a write: late clear
DeckCbReturn(m) ==
    /\ dkcb[m]
    /\ dk' = [dk EXCEPT ![m] = 0] /\ dkcb' = [dkcb EXCEPT ![m] = FALSE]
    /\ UNCHANGED <<rd, rpend, wq, wkey, wlock, up, down, link, nreq, nerr, ndup, uid, req, chunks, notes, sup, wireW, dead>>

\* ---- dispatcher: _handle_chan_write (lock taken and released inside, callbacks after release)
DeliverW(r) ==
    /\ r \in down /\ r.k = "w" /\ ~dead /\ wlock = "free" /\ NoCb
    /\ down' = down \ {r}
    /\ IF ~wkey[r.m] THEN UNCHANGED <<wq, up, chunks, notes, wireW, wlock, dead, dk, dkcb>>
       ELSE IF wq[r.m] = <<>>
       THEN IF Bug = "emptyQueueIndex"
            THEN /\ wlock' = "stuck" /\ dead' = TRUE        \* IndexError with the lock held
                 /\ UNCHANGED <<wq, up, chunks, notes, wireW, dk, dkcb>>
            ELSE UNCHANGED <<wq, up, chunks, notes, wireW, wlock, dead, dk, dkcb>>
       ELSE LET w == wq[r.m][1] IN
            IF r.st # 0
            THEN IF Unknown(r.st)
                 THEN /\ wlock' = "stuck"                   \* raised between acquire and release
                      /\ UNCHANGED <<wq, up, chunks, notes, wireW, dead, dk, dkcb>>
                 ELSE /\ PopAndStart(r.m) /\ Note(w.rid, "fail") /\ DkNote(r.m, w.rid, "fail")
                      /\ UNCHANGED <<wlock, dead>>
            ELSE IF r.addr # w.cur THEN UNCHANGED <<wq, up, chunks, notes, wireW, wlock, dead, dk, dkcb>>
            ELSE IF w.rest > 0
                 THEN LET w2 == [w EXCEPT !.cur = w.cur + w.add] msg == SendW(r.m, w2) IN
                      /\ wq' = [wq EXCEPT ![r.m] = <<Started(w2)>> \o Tail(wq[r.m])]
                      /\ up' = Append(up, msg) /\ Chunk(msg)
                      /\ wireW' = [wireW EXCEPT ![r.m] = Append(@, w.rid)]
                      /\ UNCHANGED <<notes, wlock, dead, dk, dkcb>>
                 ELSE /\ PopAndStart(r.m) /\ Note(w.rid, "ok") /\ DkNote(r.m, w.rid, "ok")
                      /\ UNCHANGED <<wlock, dead>>
    /\ UNCHANGED <<rd, rpend, wkey, link, nreq, nerr, ndup, uid, req, sup>>

\* ---- link drop reported by the driver's own thread: Memory._disconnected
Drop ==
    /\ link /\ wlock = "free" /\ NoCb
    /\ TearDown(notes, {})
    /\ rd' = [m \in Mems |-> NoRd]
    /\ UNCHANGED <<rpend, wlock, nreq, nerr, ndup, uid, req, chunks, sup, wireW, dead>>

Reconnect == /\ ~link /\ link' = TRUE
             /\ UNCHANGED <<rd, rpend, wq, wkey, wlock, dk, dkcb, up, down, nreq, nerr, ndup, uid, req, chunks, notes, sup, wireW, dead>>

\* the same actions addressed by the reply's uid (a constant range, so that TLC labels each step
\* with its parameter in dumps and simulation files)
UIds == 1..MaxUid
DupU(u) == \E r \in down : r.uid = u /\ Dup(r)
DeliverRU(u) == \E r \in down : r.uid = u /\ DeliverR(r)
DeliverWU(u) == \E r \in down : r.uid = u /\ DeliverW(r)

Next == \/ \E m \in Mems, a \in Addrs, n \in 0..MaxLen, sf \in SFs : URead(m, a, n, sf)
        \/ \E m \in Mems, a \in Addrs, n \in 0..MaxLen, f \in BOOLEAN, sf \in SFs : UWrite(m, a, n, f, sf)
        \/ \E m \in Mems : URegister(m)
        \/ \E m \in Mems : DeckCbReturn(m)
        \/ \E st \in {0} \cup ErrSts : Dev(st)
        \/ \E u \in UIds : DupU(u)
        \/ \E u \in UIds : DeliverRU(u)
        \/ \E u \in UIds : DeliverWU(u)
        \/ Drop \/ Reconnect

Spec == Init /\ [][Next]_vars

\* ------------------------------------------------------------------ properties (C06)
Rids == DOMAIN req
AtMostOnce == \A i \in Rids : P!AtMostOneNote(notes[i])
Limits == \A i \in Rids : P!ChunkLimit(chunks[i], req[i].kind, RC, WC)
\* exactness is claimed for histories without duplicated replies (DESIGN 3.1(5a)): a duplicate of
\* the reply to an earlier request is indistinguishable from the reply to the next request at the
\* same address -- the protocol carries no sequence number
Tiling == ndup = 0 => \A i \in Rids : /\ P!TilesPrefix(chunks[i], req[i].addr, req[i].len)
                          /\ (notes[i] = <<"ok">> => P!Tiles(chunks[i], req[i].addr, req[i].len))
\* queued writes to one memory are performed in order
WriteOrder == \A m \in Mems : \A i, j \in DOMAIN wireW[m] : i < j => wireW[m][i] <= wireW[m][j]
\* nothing in flight (no message, no API call or callback half-way) => nothing pending, nothing
\* wedged: every accepted, not superseded request completed and no record of it is left -- neither
\* in Memory nor in the deck manager
Quiescent == up = <<>> /\ down = {} /\ NoCall /\ NoCb
Complete == Quiescent =>
    /\ \A m \in Mems : rd[m] = NoRd /\ wq[m] = <<>> /\ dk[m] = 0
    /\ \A i \in Rids : (req[i].accepted /\ i \notin sup) => Len(notes[i]) = 1
UidBound == uid <= MaxUid
NotWedged == wlock = "free" /\ ~dead
NoNoteForRefused == \A i \in Rids : ~req[i].accepted => notes[i] = <<>>
=============================================================================
