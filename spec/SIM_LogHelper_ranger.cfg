SPECIFICATION Spec
CONSTANTS
  Mode = "ranger"
  Rates = {100, 50, 2540}
  Scripts <- RScripts
  Vectors <- RVectors
  MaxData = 6
  MaxQ = 3
  Times = {100}
  LinkLoss = TRUE
  HasKalman = {TRUE}
  Bug = "none"
CHECK_DEADLOCK FALSE
