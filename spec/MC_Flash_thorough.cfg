SPECIFICATION Spec
CONSTANTS
  Chunk = 3
  MaxRetry = 5
  Targets = {255, 254}
  PageSizes = {1, 2, 3, 4, 5, 6, 7}
  BufCounts = {1, 2, 3, 4}
  FlashSizes = {1, 2, 3, 5}
  MaxLen = 40
  Fates = {"ok", "okdup", "nack", "lostcmd", "lostreply", "stray"}
  Bug = "none"
  Observe = TRUE
INVARIANT PropOK
INVARIANT TypeOK
INVARIANT FlashedWhenDone
INVARIANT NothingOutside
CHECK_DEADLOCK FALSE
