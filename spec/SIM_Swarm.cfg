SPECIFICATION Spec
CONSTANTS
  MaxN = 4
  NOps = 3
  Kinds <- AllKinds
  ArgDicts <- ArgDictsTwo
  Bug = "none"
INVARIANT RetOK
INVARIANT FinalOK
INVARIANT QuietAtBoundary
INVARIANT OpenFlagMeans
INVARIANT OpenSucceeds
INVARIANT TypeOK
CHECK_DEADLOCK FALSE
