SPECIFICATION Spec
CONSTANT Mode = "estimator"
CHECK_DEADLOCK FALSE
