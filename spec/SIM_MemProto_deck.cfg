SPECIFICATION Spec
CONSTANTS
  RC = 4
  WC = 5
  MaxLen = 11
  Mems = {0}
  Addrs = {0, 3}
  NReq = 4
  NErr = 1
  NDup = 2
  MaxUid = 40
  Bug = "none"
  ErrSts = {1, 2}
  HostSts = {1}
  DeckMems = {0}
  SendFail = TRUE
INVARIANT UidBound
INVARIANT AtMostOnce
INVARIANT Complete
INVARIANT NotWedged
CHECK_DEADLOCK FALSE
