SPECIFICATION Spec
CONSTANTS
  Bug = "none"
  Fmts <- FmtsAll
  CaseSet <- CasesThorough
  MkCase <- MCMkCase
  MaxCorrupt = 1
  CorruptPos <- CorPosThorough
  CorruptVals <- AllBytes
INVARIANT CaseOK
INVARIANT EnvelopeGuard
INVARIANT TypeOK
CHECK_DEADLOCK FALSE
