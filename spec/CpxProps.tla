------------------------------ MODULE CpxProps ------------------------------
(* C18 -- the listed property, over observable history only.

   A CPX packet is the 6-tuple  <<src, dst, fn, last, ver, data>>
      src, dst \in 1..4 (CPXTarget values), fn \in Functions (CPXFunction values),
      last \in {0,1} (last-packet flag), ver \in 0..3 (0 = the supported version),
      data \in Seq(0..255).
   What a decoder / a receive call yields is an *outcome*
      <<1, src, dst, fn, last, data>>   a packet with these fields
      Rejected                          the packet was refused (exception / never handed out)
   A CRTP packet is <<port, chan, data>> (DESIGN 3.1(3): header equality = port and channel).

   The wire format (Wire, Frame, Stream, Frames, Unwire) is the protocol's, not the library's:
   routing header as the firmware's CPXRoutingPacked_t (destination:3, source:3, lastPacket:1,
   reserved:1 | function:6, version:2), WiFi/TCP framing = 16-bit little-endian length of
   (routing header + payload) followed by those bytes.  It is needed by the property itself
   only where the text speaks about "a TCP byte stream carrying a sequence of packets" (what
   the peer sends) and about CRTP packets "arriving" at the peer (what the peer parses).  The
   codec clause is pure round trip and does not look at the bytes.

   Clause operators return "ok" or the name of the first failing clause.  *)
EXTENDS Naturals, Sequences, FiniteSets

Targets   == 1..4
Functions == {1, 2, 3, 4, 5, 14, 15}
FnCRTP    == 3

Src(p) == p[1]   Dst(p) == p[2]   Fn(p) == p[3]   Last(p) == p[4]   Ver(p) == p[5]   Data(p) == p[6]

IsByteSeq(s) == \A i \in DOMAIN s : s[i] \in 0..255
ValidPk(p) == /\ Src(p) \in Targets /\ Dst(p) \in Targets /\ Fn(p) \in Functions
              /\ Last(p) \in {0, 1} /\ Ver(p) \in 0..3 /\ IsByteSeq(Data(p))
              /\ Len(Data(p)) + 2 <= 65535

Rejected == <<0, 0, 0, 0, 0, <<>>>>
\* what must come out when packet p goes in
Out(p) == IF Ver(p) = 0 THEN <<1, Src(p), Dst(p), Fn(p), Last(p), Data(p)>> ELSE Rejected
Outs(ps) == [i \in DOMAIN ps |-> Out(ps[i])]

IsPrefix(a, b) == Len(a) <= Len(b) /\ \A i \in DOMAIN a : a[i] = b[i]

RECURSIVE SubseqFrom(_, _, _, _)
SubseqFrom(a, i, b, j) == IF i > Len(a) THEN TRUE
                          ELSE IF j > Len(b) THEN FALSE
                          ELSE IF a[i] = b[j] THEN SubseqFrom(a, i + 1, b, j + 1)
                          ELSE SubseqFrom(a, i, b, j + 1)
IsSubseq(a, b) == SubseqFrom(a, 1, b, 1)

\* ---------------------------------------------------------------- the protocol's wire format
Wire(p)  == <<(Src(p) % 8) * 8 + (Dst(p) % 8) + Last(p) * 64, (Fn(p) % 64) + (Ver(p) % 4) * 64>>
            \o Data(p)
Len16(n) == <<n % 256, n \div 256>>
Frame(p) == Len16(Len(Wire(p))) \o Wire(p)
Stream(ps) == LET F[i \in 0..Len(ps)] == IF i = 0 THEN <<>> ELSE F[i - 1] \o Frame(ps[i])
              IN  F[Len(ps)]
\* a wire blob back to the 6-tuple (any two header bytes parse)
Unwire(w) == <<(w[1] \div 8) % 8, w[1] % 8, w[2] % 64, (w[1] \div 64) % 2, w[2] \div 64,
               SubSeq(w, 3, Len(w))>>
\* the peer's parser: the wire blobs of a byte stream; a malformed rest yields one blob <<>>
RECURSIVE FramesFrom(_, _)
FramesFrom(s, i) ==
    IF i > Len(s) THEN <<>>
    ELSE IF i + 1 > Len(s) THEN << <<>> >>
    ELSE LET n == s[i] + 256 * s[i + 1] IN
         IF n < 2 \/ i + 1 + n > Len(s) THEN << <<>> >>
         ELSE <<SubSeq(s, i + 2, i + 1 + n)>> \o FramesFrom(s, i + 2 + n)
Frames(s) == FramesFrom(s, 1)
WellFramed(s) == \A i \in DOMAIN Frames(s) : Len(Frames(s)[i]) >= 2

\* ---------------------------------------------------------------- CRTP in CPX
CrtpHdrPort(h) == (h \div 16) % 16
CrtpHdrChan(h) == h % 4
CrtpOfData(d) == <<CrtpHdrPort(d[1]), CrtpHdrChan(d[1]), Tail(d)>>
CarriesCrtp(p) == Fn(p) = FnCRTP /\ Ver(p) = 0 /\ Len(Data(p)) > 0
\* the CRTP packets a sequence of CPX packets carries, in order
CrtpsOf(ps) == LET sel == SelectSeq(ps, CarriesCrtp)
               IN  [i \in DOMAIN sel |-> CrtpOfData(Data(sel[i]))]

\* ================================================================ the clauses
\* (1) a packet survives encoding and decoding; unsupported versions are rejected.
\*     p = the packet that was encoded, dec = the outcome of decoding the produced bytes
CodecClause(p, dec) ==
    IF Ver(p) = 0 /\ dec # Out(p) THEN "RoundTrip"
    ELSE IF Ver(p) # 0 /\ dec # Rejected THEN "VersionNotRejected"
    ELSE "ok"

\* (2) a byte stream carrying pkts is re-assembled into exactly that sequence.
\*     reads = outcomes of the successive packet reads (Rejected = the read raised); how a
\*     rejection is signalled is not prescribed, so only the packets that came out count: they
\*     must be exactly the supported-version packets, in order.  final = the stream is used
\*     up and the reader waits for more.
Good(reads) == SelectSeq(reads, LAMBDA o : o[1] = 1)
GoodOuts(pkts) == Outs(SelectSeq(pkts, LAMBDA p : Ver(p) = 0))
ReadsClause(pkts, reads, final) ==
    IF ~IsPrefix(Good(reads), GoodOuts(pkts)) THEN "Reassembly"
    ELSE IF final /\ Len(Good(reads)) # Len(GoodOuts(pkts)) THEN "ReassemblyIncomplete"
    ELSE "ok"

\* (3) received packets are queued per function in arrival order and handed only to receivers
\*     of that function.  deliv = <<receiver, function it asked for, outcome it was handed>> in
\*     hand-out order; regs = functions that had a receiver before the stream started
\*     (DESIGN 3.1(10)); final as above plus all queues drained.
Accepted(pkts, f) == Outs(SelectSeq(pkts, LAMBDA p : Fn(p) = f /\ Ver(p) = 0))
HandedFor(deliv, f) == LET sel == SelectSeq(deliv, LAMBDA d : d[2] = f)
                       IN  [i \in DOMAIN sel |-> sel[i][3]]
RouteClause(pkts, regs, deliv, final) ==
    IF \E i \in DOMAIN deliv : deliv[i][3][1] # 1 THEN "RejectedHandedOut"
    ELSE IF \E i \in DOMAIN deliv : deliv[i][3][4] # deliv[i][2] THEN "ForeignFunction"
    ELSE IF \E i \in DOMAIN deliv : ~IsPrefix(HandedFor(deliv, deliv[i][2]), Accepted(pkts, deliv[i][2]))
         THEN "PerFunctionOrder"
    ELSE IF final /\ \E f \in regs : Len(HandedFor(deliv, f)) # Len(Accepted(pkts, f)) THEN "Lost"
    ELSE "ok"

\* (4) CRTP through CPX, downlink: crtps = what the CRTP driver's receive_packet returned
DownClause(pkts, crtps, final) ==
    IF ~IsPrefix(crtps, CrtpsOf(pkts)) THEN "TunnelDown"
    ELSE IF final /\ Len(crtps) # Len(CrtpsOf(pkts)) THEN "TunnelDownLost"
    ELSE "ok"

\* (5) CRTP through CPX, uplink -- and, more generally, what the library writes to the socket.
\*     sent = <<sender, item>> in the order of the calls (send_packet / sendPacket entered), where
\*            item = <<0, c>>  the CRTP packet c = <<port, chan, data>> a caller handed to the CRTP
\*                             driver's send_packet (as the caller built it: a caller that hands the
\*                             same packet object over again has sent the same packet again),
\*                   <<1, o>>  a CPX packet (outcome tuple o) an application handed to CPX.sendPacket
\*                             on the same link;
\*     tx   = all bytes written to the socket, in the order of the socket writes; the peer parses tx.
\*     Checked when no call is in progress.  Several threads may send through one link (the
\*     quantifier ranges over schedules); the peer cannot tell threads apart, so packets are
\*     attributed by content: a sender owns the CRTP ports / CPX functions it uses (two senders never
\*     share one -- OwnKeys, a condition on the input), and what the peer parsed of a sender's ports /
\*     functions must be exactly what that sender handed over, in its order.  With one sender this is
\*     "the CRTP packets the peer parsed = the CRTP packets sent" (the clause as it was).
\*     Packets the library writes on its own account (the SYSTEM packet of connect()) are not in
\*     sent; non-CRTP packets of functions nobody owns are not judged.
ItemOf(p) == IF CarriesCrtp(p) THEN <<0, CrtpOfData(Data(p))>> ELSE <<1, Out(p)>>
KeyOf(it) == IF it[1] = 0 THEN <<0, it[2][1]>> ELSE <<1, it[2][4]>>
SendersOf(sent) == {sent[i][1] : i \in DOMAIN sent}
Owns(sent, s, k) == \E i \in DOMAIN sent : sent[i][1] = s /\ KeyOf(sent[i][2]) = k
OwnKeys(sent) == \A i, j \in DOMAIN sent : KeyOf(sent[i][2]) = KeyOf(sent[j][2]) => sent[i][1] = sent[j][1]
SentBy(sent, s) == LET sel == SelectSeq(sent, LAMBDA e : e[1] = s) IN [i \in DOMAIN sel |-> sel[i][2]]
ParsedItems(tx) == [i \in DOMAIN Frames(tx) |-> ItemOf(Unwire(Frames(tx)[i]))]
UpClause(sent, tx) ==
    IF ~WellFramed(tx) THEN "TunnelUpFraming"
    ELSE LET items == ParsedItems(tx)
         IN  IF \E i \in DOMAIN items : items[i][1] = 0 /\ \A s \in SendersOf(sent) : ~Owns(sent, s, KeyOf(items[i]))
             THEN "TunnelUp"        \* a CRTP packet arrived that nobody sent
             ELSE IF \E s \in SendersOf(sent) :
                        SelectSeq(items, LAMBDA it : Owns(sent, s, KeyOf(it))) # SentBy(sent, s)
             THEN "TunnelUp"
             ELSE "ok"
=============================================================================
