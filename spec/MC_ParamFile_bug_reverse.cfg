SPECIFICATION Spec
CONSTANTS
  NP = 2
  Vals <- ValsQuick
  NoValue = FALSE
  Natures <- NaturesOk
  Statuses <- StatusesQuick
  MaxFile = 2
  NCalls = 1
  Resend = TRUE
  MaxDrop = 0
  MaxDup = 0
  MaxEarly = 0
  LinkLoss = FALSE
  WaitMode = "forever"
  Bug = "reverse"
VIEW view
CHECK_DEADLOCK FALSE
INVARIANT NoIssuedOutOfOrder
