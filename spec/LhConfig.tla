------------------------------ MODULE LhConfig ------------------------------
(* Design spec of the lighthouse configuration sequencing (X01):
     cflib.crazyflie.mem.lighthouse_memory.LighthouseMemory      (one read slot, one write slot)
     cflib.crazyflie.mem.lighthouse_memory.LighthouseMemHelper   (_ObjectReader x2, _ObjectWriter x2)
     cflib.localization.lighthouse_config_manager.LighthouseConfigWriter (owns a second helper)
   on ONE Crazyflie: the user's helper (objects "u_g", "u_c") and the config writer with its own helper
   ("w_g", "w_c") share the single LighthouseMemory element.

   Everything runs in callbacks: one action = one stimulus run to completion (a user call from the
   top level, one answer of the memory subsystem, one persist acknowledgement).  The synchronous
   cascade a stimulus causes is computed by the recursive operators below, one operator per method
   of the code; `s.out` is the list of observable events the stimulus produced (LhConfigProps!Ev).
   Python exceptions are the flag s.exc: an operator that "raises" returns at once and every caller
   skips the statements after the call, exactly like the code.

   Bugs (set of names) switches on the as-is / pre-fix / mutant behaviours:
     "store_wedge"  AS-IS (known finding): write_and_store_config stores its bookkeeping (and, with a
              system type given, sets the parameter -- which erases the data in the Crazyflie -- and
              sleeps) BEFORE the first memory write, which raises when the LighthouseMemory slot is
              taken -> the config writer stays "in progress" for ever.
              Without the flag: the slot is checked before anything is changed (a repair the code
              does not have).
     "wedge"  pre-fix (repaired in /repo 9c1ea78): _ObjectWriter.write and _ObjectReader.read_all keep
              their bookkeeping when the first memory operation raises.  Without the flag: the
              bookkeeping is reset in an except clause and the exception re-raised, as the code does.
     "pack"   pre-fix (repaired in /repo 39058d0): _received_location_packet ignores the result
              carried by the acknowledgement.  Without the flag a negative acknowledgement makes the
              request fail.
     "noguard"       write_and_store_config without the 'already in progress' guard (mutant)
     "early_persist" persist packet sent before the calibrations are written (mutant)          *)
EXTENDS Naturals, Integers, Sequences, FiniteSets, TLC

CONSTANTS NCH,          \* _ObjectReader.NR_OF_CHANNELS
          NBS,          \* nr_of_base_stations of the config writer (>= 1)
          Menu,         \* request descriptors the user may issue from the top level
          Follow,       \* descriptors a completion callback may issue (besides NoReq)
          ReadData,     \* set of <<tag, valid>> a successful read may deliver
          MaxReq,       \* bound on the number of requests in one behaviour
          Bugs

P == INSTANCE LhConfigProps WITH NCh <- NCH

NoReq == [op |-> "", objs |-> <<>>, cobjs |-> <<>>, hasg |-> 0, hasc |-> 0, sys |-> 0]
Owners == {"u_g", "u_c", "w_g", "w_c"}
RegOf(o) == IF o \in {"u_g", "w_g"} THEN "g" ELSE "c"

IdleW == [act |-> FALSE, objs |-> <<>>, cb |-> 0, fail |-> FALSE]
IdleR == [cb |-> 0, next |-> 0, res |-> <<>>]
IdleC == [cb |-> 0, gwset |-> FALSE, gw |-> <<>>, cwset |-> FALSE, cwv |-> <<>>,
          gp |-> FALSE, cp |-> FALSE, fail |-> FALSE]

VARIABLES s,      \* the implementation state (a record, see Init) including the events of the last stimulus
          mon     \* history: the observer of LhConfigProps folded over every event so far
vars == <<s, mon>>

Init == /\ s = [upd |-> "", wr |-> "",                \* LighthouseMemory._update_finished_cb / _write_finished_cb owner
                rd |-> [o \in Owners |-> IdleR],      \* _ObjectReader: _read_done_cb, _next_id, _result
                wt |-> [o \in Owners |-> IdleW],      \* _ObjectWriter: _objects_to_write (act = not None), _write_done_cb (-1: config writer), failed flag
                cw |-> IdleC,                         \* LighthouseConfigWriter
                reg |-> FALSE,                        \* _received_location_packet registered (never removed)
                qw |-> <<>>, qr |-> <<>>,             \* memory subsystem: requests not yet answered
                pp |-> 0,                             \* persist packets not yet acknowledged
                then |-> <<>>,                        \* per request: what its completion callback will issue
                nbs |-> NBS, bugs |-> Bugs,           \* configuration (constant during a behaviour)
                out |-> <<>>, exc |-> FALSE]
        /\ mon = P!Init

Emit(st, ev) == [st EXCEPT !.out = Append(@, ev)]
Raise(st) == [st EXCEPT !.exc = TRUE]

\* pad with an empty (invalid) object for every base station 0..NBS-1 that has no data, ascending
Pad(nbs, objs) ==
    LET ids == {objs[i][1] : i \in DOMAIN objs}
        F[i \in 0..nbs] == IF i = 0 THEN <<>>
                           ELSE IF (i - 1) \in ids THEN F[i - 1] ELSE Append(F[i - 1], <<i - 1, 0, 0>>)
    IN objs \o F[nbs]

RECURSIVE UserCall(_, _, _), UserCb(_, _, _, _), WriterNext(_, _), WriterWrite(_, _, _, _),
          CwNext(_), ReaderGet(_, _)

\* LighthouseMemory.write_geo_data / write_calib_data
LhWrite(st, o, obj) ==
    IF st.wr # "" THEN Raise(st)                                   \* 'Write operation already ongoing.'
    ELSE Emit([st EXCEPT !.wr = o, !.qw = Append(@, obj)],
              [P!Ev("mw") EXCEPT !.op = RegOf(o), !.bs = obj[1], !.tag = obj[2], !.val = obj[3]])

\* LighthouseMemory.read_geo_data / read_calib_data
LhRead(st, o, b) ==
    IF st.upd # "" THEN Raise(st)                                  \* 'Read operation already ongoing'
    ELSE Emit([st EXCEPT !.upd = o, !.qr = Append(@, <<RegOf(o), b>>)],
              [P!Ev("mr") EXCEPT !.op = RegOf(o), !.bs = b])

\* _ObjectWriter._write_next_object
WriterNext(st, o) ==
    LET w == st.wt[o] IN
    IF Len(w.objs) > 0
    THEN LhWrite([st EXCEPT !.wt[o].objs = Tail(@)], o, Head(w.objs))
    ELSE LET s1 == [st EXCEPT !.wt[o] = IdleW] IN
         IF w.cb = -1
         THEN CwNext([s1 EXCEPT !.cw.fail = @ \/ w.fail])          \* LighthouseConfigWriter._upload_done
         ELSE UserCb(s1, w.cb, IF w.fail THEN 0 ELSE 1, <<>>)

\* _ObjectWriter.write
WriterWrite(st, o, objs, cb) ==
    IF st.wt[o].act THEN Raise(st)                                 \* 'Write operation not finished'
    ELSE LET s1 == WriterNext([st EXCEPT !.wt[o] = [act |-> TRUE, objs |-> objs, cb |-> cb, fail |-> FALSE]], o) IN
         IF s1.exc /\ "wedge" \notin st.bugs
         THEN [s1 EXCEPT !.wt[o].act = FALSE, !.wt[o].objs = <<>>, !.wt[o].cb = 0]   \* except: reset and re-raise
         ELSE s1

\* LighthouseConfigWriter._next
CwNext(st) ==
    LET c == st.cw
        persist == Emit([st EXCEPT !.cw.gp = FALSE, !.cw.cp = FALSE, !.pp = @ + 1],
                        [P!Ev("persist") EXCEPT !.pg = IF c.gp THEN [i \in 1..st.nbs |-> i - 1] ELSE <<>>,
                                                !.pc = IF c.cp THEN [i \in 1..st.nbs |-> i - 1] ELSE <<>>])
    IN
    IF c.gwset
    THEN LET s1 == WriterWrite(st, "w_g", c.gw, -1) IN
         IF s1.exc THEN s1 ELSE [s1 EXCEPT !.cw.gwset = FALSE, !.cw.gw = <<>>]
    ELSE IF "early_persist" \in st.bugs /\ (c.gp \/ c.cp) THEN persist
    ELSE IF c.cwset
    THEN LET s1 == WriterWrite(st, "w_c", c.cwv, -1) IN
         IF s1.exc THEN s1 ELSE [s1 EXCEPT !.cw.cwset = FALSE, !.cw.cwv = <<>>]
    ELSE IF c.gp \/ c.cp THEN persist
    ELSE IF c.cb # 0 THEN UserCb([st EXCEPT !.cw.cb = 0], c.cb, IF c.fail THEN 0 ELSE 1, <<>>)
    ELSE st

\* LighthouseConfigWriter.write_and_store_config
CwStore(st, k, d) ==
    IF st.cw.cb # 0 /\ "noguard" \notin st.bugs THEN Raise(st)        \* 'Write already in prgress'
    ELSE IF "store_wedge" \notin st.bugs /\ (d.hasg = 1 \/ d.hasc = 1) /\ (st.wr # "" \/ st.wt["w_g"].act \/ st.wt["w_c"].act)
         THEN Raise(st)                                            \* (repair, not in the code: look before you leap)
    ELSE LET s1 == [st EXCEPT !.reg = TRUE,
                              !.cw = [cb |-> k,
                                      gwset |-> d.hasg = 1, gw |-> IF d.hasg = 1 THEN Pad(st.nbs, d.objs) ELSE <<>>,
                                      cwset |-> d.hasc = 1, cwv |-> IF d.hasc = 1 THEN Pad(st.nbs, d.cobjs) ELSE <<>>,
                                      gp |-> d.hasg = 1, cp |-> d.hasc = 1, fail |-> FALSE]]
             s2 == IF d.sys # 0 THEN Emit(Emit(s1, [P!Ev("param") EXCEPT !.sys = d.sys]), P!Ev("sleep")) ELSE s1
             s3 == CwNext(s2)
         IN s3

\* _ObjectReader._get_object
ReaderGet(st, o) ==
    LET r == st.rd[o] IN
    IF r.next < NCH THEN LhRead(st, o, r.next)
    ELSE UserCb([st EXCEPT !.rd[o] = IdleR], r.cb, 0, r.res)

\* _ObjectReader.read_all
ReaderReadAll(st, o, k) ==
    IF st.rd[o].cb # 0 THEN Raise(st)                              \* 'Read operation not finished'
    ELSE LET s1 == ReaderGet([st EXCEPT !.rd[o] = [cb |-> k, next |-> 0, res |-> <<>>]], o) IN
         IF s1.exc /\ "wedge" \notin st.bugs THEN [s1 EXCEPT !.rd[o] = IdleR] ELSE s1   \* except: reset and re-raise

\* the user's completion callback of request k; it may issue one more request (whose own outcome the
\* callback swallows)
UserCb(st, k, ok, objs) ==
    LET s1 == Emit(st, [P!Ev("cb") EXCEPT !.k = k, !.ok = ok, !.objs = objs])
        f == st.then[k]
    IN IF f.op = "" THEN s1 ELSE UserCall(s1, f, NoReq)

\* the user calls the public API (d: descriptor, f: what the completion callback will do)
UserCall(st, d, f) ==
    LET k == Len(st.then) + 1
        s0 == Emit([st EXCEPT !.then = Append(@, f)],
                   [P!Ev("call") EXCEPT !.k = k, !.op = d.op, !.objs = d.objs, !.cobjs = d.cobjs,
                                        !.hasg = d.hasg, !.hasc = d.hasc, !.sys = d.sys,
                                        !.n = IF d.op = "st" THEN st.nbs ELSE 0])
        s1 == CASE d.op = "wg" -> WriterWrite(s0, "u_g", d.objs, k)
                [] d.op = "wc" -> WriterWrite(s0, "u_c", d.objs, k)
                [] d.op = "rg" -> ReaderReadAll(s0, "u_g", k)
                [] d.op = "rc" -> ReaderReadAll(s0, "u_c", k)
                [] OTHER -> CwStore(s0, k, d)
    IN Emit([s1 EXCEPT !.exc = FALSE], [P!Ev("ret") EXCEPT !.k = k, !.ok = IF s1.exc THEN 0 ELSE 1])

\* an exception that reaches the deliverer of an answer
Deliverer(st) == IF st.exc THEN Emit([st EXCEPT !.exc = FALSE], P!Ev("exc")) ELSE st

\* ---------------------------------------------------------------- actions (stimuli)
Call(d, f) ==
    /\ Len(s.then) + (IF f.op = "" THEN 1 ELSE 2) <= MaxReq
    /\ s' = UserCall([s EXCEPT !.out = <<>>], d, f)
    /\ mon' = P!Fold(mon, s'.out)

\* the memory subsystem answers its oldest write (Memory.mem_write_cb / mem_write_failed_cb ->
\* LighthouseMemory.write_done / write_failed -> _ObjectWriter._data_written / _write_failed)
AnsW(ok) ==
    /\ s.qw # <<>>
    /\ LET obj == Head(s.qw)
           o == s.wr
           s0 == Emit([s EXCEPT !.out = <<>>, !.qw = Tail(@), !.wr = ""],
                      [P!Ev("ans") EXCEPT !.op = "w", !.ok = ok, !.bs = obj[1]])
           s1 == IF o = "" THEN s0 ELSE WriterNext([s0 EXCEPT !.wt[o].fail = @ \/ ok = 0], o)
       IN s' = Deliverer(s1)
    /\ mon' = P!Fold(mon, s'.out)

\* ... its oldest read (LighthouseMemory.new_data / new_data_failed -> _data_updated / _update_failed)
AnsR(ok, dt) ==
    /\ s.qr # <<>>
    /\ LET b == Head(s.qr)[2]
           o == s.upd
           tag == IF ok = 1 THEN dt[1] ELSE 0
           val == IF ok = 1 THEN dt[2] ELSE 0
           s0 == Emit([s EXCEPT !.out = <<>>, !.qr = Tail(@), !.upd = ""],
                      [P!Ev("ans") EXCEPT !.op = "r", !.ok = ok, !.bs = b, !.tag = tag, !.val = val])
           s1 == IF o = "" THEN s0
                 ELSE IF ok = 1
                      THEN ReaderGet([s0 EXCEPT !.rd[o].res = Append(@, <<s0.rd[o].next, tag, val>>),
                                                !.rd[o].next = @ + 1], o)
                      ELSE ReaderGet([s0 EXCEPT !.rd[o].next = @ + 1], o)
       IN s' = Deliverer(s1)
    /\ mon' = P!Fold(mon, s'.out)

\* the device acknowledges a persist packet (Localization._incoming -> receivedLocationPacket ->
\* LighthouseConfigWriter._received_location_packet)
Pack(ok) ==
    /\ s.pp > 0
    /\ LET s0 == Emit([s EXCEPT !.out = <<>>, !.pp = @ - 1], [P!Ev("pack") EXCEPT !.ok = ok])
           s1 == IF ~s0.reg THEN s0
                 ELSE CwNext(IF "pack" \notin s0.bugs /\ ok = 0 THEN [s0 EXCEPT !.cw.fail = TRUE] ELSE s0)
       IN s' = Deliverer(s1)
    /\ mon' = P!Fold(mon, s'.out)

Next == \/ \E d \in Menu, f \in Follow \cup {NoReq} : Call(d, f)
        \/ \E ok \in {0, 1} : AnsW(ok)
        \/ \E dt \in ReadData : AnsR(1, dt)
        \/ AnsR(0, <<0, 0>>)
        \/ \E ok \in {0, 1} : Pack(ok)

Spec == Init /\ [][Next]_vars

\* ---------------------------------------------------------------- what TLC checks
Quiescent == s.qw = <<>> /\ s.qr = <<>> /\ s.pp = 0
MonitorOK == mon.bad = "ok"
CompletesWhenQuiescent == Quiescent /\ mon.bad = "ok" => P!FinClause(mon) = "ok"
\* structural facts the projection of the real objects is compared with
TypeOK == /\ s.upd \in Owners \cup {""} /\ s.wr \in Owners \cup {""}
          /\ Len(s.qw) <= 1 /\ Len(s.qr) <= 1 /\ s.pp \in 0..1
          /\ s.exc = FALSE
SlotsAgree == /\ (s.wr = "") = (s.qw = <<>>)
              /\ (s.upd = "") = (s.qr = <<>>)
View == <<[s EXCEPT !.out = <<>>], [mon EXCEPT !.cnt = 0, !.badAt = 0]>>
=============================================================================
