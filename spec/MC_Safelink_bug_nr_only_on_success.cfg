SPECIFICATION Spec
CONSTANTS
  NUp = 1
  NDown = 1
  Retries = 2
  NegAttempts = 3
  MaxLoss = 2
  MaxNegLoss = 3
  MaxRestarts = 1
  MaxSlow = 0
  PeerModes <- ModesAll
  DenyReplies <- DenyOne
  AckTails <- TailsRssi
  Bug = "nr_only_on_success"
INVARIANT PropertyHolds
INVARIANT CompleteAtRest
CONSTRAINT InQBound
CHECK_DEADLOCK FALSE
