SPECIFICATION Spec
CONSTANTS
  NUp = 2
  NDown = 2
  Retries = 3
  NegAttempts = 10
  MaxLoss = 3
  MaxNegLoss = 2
  MaxRestarts = 0
  MaxSlow = 1
  PeerModes <- ModesSL
  DenyReplies <- DenyOne
  AckTails <- TailsRssi
  Bug = "rsp_timeout"
INVARIANT PropertyHolds
INVARIANT CompleteAtRest
CHECK_DEADLOCK FALSE
