---------------------------- MODULE CommandsProps ----------------------------
(* C08 -- the listed property, over observable history only.

   An emission is what one API call produced:
     [cmd, ver, xmode, args, out, pks]
       cmd   : command name (string)
       ver   : protocol version negotiated when the call was made (-1 = none)
       xmode : client X-mode of the Commander when the call was made
       args  : the caller's arguments, positional, in an exact discrete form
                 [k |-> "f", b, neg, hasg, g]  float: b = IEEE float32 bytes (little endian) of the
                                               argument, <<>> when it has no float32 value
                                               (overflow); neg = sign; g = value*8 when hasg
                 [k |-> "i", neg, b]           integer: magnitude, little endian, minimal, >= 1 byte
                 [k |-> "b", v]                boolean
                 [k |-> "none"]                None (optional yaw)
                 [k |-> "m", fin, lo, ex, tr]  fixed-point source: lo = floor(1000*arg) (exact
                                               rational arithmetic, clamped to +-2^30), ex = no fraction
                                               (tr is used by the design spec only)
                 [k |-> "r", v]                raw payload bytes
                 [k |-> "q", n, u]             quaternion component as integer numerator (common scale;
                                               u = floor(4096 * length of the argument) is used by the
                                               design spec only: the layout normalises)
                 [k |-> "l", v]                list of integers (base stations)
       out   : "sent" | "raised" | "none"
       pks   : the packets the link puts on the wire for the packet objects this call handed to it, each
               [h |-> header byte, data |-> Seq(0..255)] -- header and data as the link reads them from
               the object when it serialises it: inside send_packet for most drivers, afterwards on the
               link's own thread for a link that queues the object (RadioDriver).  "The command the
               library emits" is what reaches the wire, not what the object held at hand-over

   Layout(cmd, ver, xmode) is the firmware's wire layout.  Every field names its source; sources
   are independent of the struct.pack strings under test:
     [D]  /repo/tools/crtp-dissector.lua (firmware structs quoted there, port/channel map)
     [L]  the library's decoder for the opposite direction (Localization._incoming)
     [P]  /repo/docs/user-guides/python_api.md
     [F]  firmware, from memory: crtp_commander_rpyt.c, crtp_commander_generic.c,
          crtp_commander_high_level.c, crtp_localization_service.c, platformservice.c,
          quatcompress.h, lps-node-firmware lpp.h
   Readings fixed here (DESIGN 3.1: the weaker reading wins):
     * float fields: the wire value equals the argument rounded to float32 (NaN matches any NaN,
       zero matches zero of either sign -- numeric equality of the decoded value);
     * an argument without a wire value (float32 overflow, integer outside the field, fixed-point
       value outside int16, zero quaternion, base station outside 0..15, payload that makes the
       packet longer than 30 bytes) must raise and nothing
       may be sent;  raising, or sending nothing, is never by itself a violation (nothing was
       emitted that could decode wrongly);
     * fixed point: |wire - 1000*arg| < 1 LSB; quaternion: every transmitted component within
       1 LSB (1/(511*sqrt 2)) of the normalised argument, up to the global sign (q ~ -q);
     * documented saturation of spiral (angle "limited to +/- 2pi", radii "must be positive"):
       outside the documented range the field may carry the argument or the documented limit;
     * client X-mode: roll/pitch on the wire are the arguments rotated by 45 degrees,
       (roll - pitch)*k and -(roll + pitch)*k with 0.7070 <= k <= 0.7072, checked on the
       1/8-degree grid (hasg);
     * a command that does not exist for the negotiated version (spiral below 8) sends nothing;
     * header: port = h \div 16, channel = h % 4; bits 2..3 are not inspected (DESIGN 3.1(3)). *)
EXTENDS Integers, Sequences, FiniteSets

\* ------------------------------------------------------------------ field descriptors
Fd(t, a, v, n) == [t |-> t, a |-> a, v |-> v, neg |-> n]
C8(v)    == Fd("C8", 0, v, FALSE)        \* constant byte
U8(a)    == Fd("U8", a, 0, FALSE)        \* uint8 from integer argument a
U16(a)   == Fd("U16", a, 0, FALSE)
U32(a)   == Fd("U32", a, 0, FALSE)
B8(a)    == Fd("B8", a, 0, FALSE)        \* bool as one byte 0/1
F32(a)   == Fd("F32", a, 0, FALSE)       \* float32 little endian
F32N(a)  == Fd("F32", a, 0, TRUE)        \* float32, sign inverted on the wire
XR       == Fd("XR", 1, 2, FALSE)        \* x-mode roll  from args 1 (roll), 2 (pitch)
XP       == Fd("XP", 1, 2, FALSE)        \* x-mode pitch
SATA(a)  == Fd("SATA", a, 0, FALSE)      \* angle limited to +-2pi
SATR(a)  == Fd("SATR", a, 0, FALSE)      \* radius limited to >= 0
OPTF(a)  == Fd("OPTF", a, 0, FALSE)      \* float, don't-care when the argument is None
ISNONE(a) == Fd("ISNONE", a, 0, FALSE)   \* bool byte: argument a is None
I16M(a)  == Fd("I16M", a, 0, FALSE)      \* int16 = argument * 1000
QUAT(a)  == Fd("QUAT", a, 0, FALSE)      \* args a..a+3 (x,y,z,w) compressed into 32 bits
MASK(a)  == Fd("MASK", a, 0, FALSE)      \* uint16 bit field from a list of 0..15
RAW(a)   == Fd("RAW", a, 0, FALSE)       \* the bytes of argument a, as they are (last field only)

Width(fd, args) == CASE fd.t \in {"C8", "U8", "B8", "ISNONE"} -> 1
                     [] fd.t \in {"U16", "I16M", "MASK"} -> 2
                     [] fd.t = "RAW" -> Len(args[fd.a].v)
                     [] OTHER -> 4

\* ------------------------------------------------------------------ the wire layouts
NoLayout == [ok |-> FALSE, port |-> 0, chan |-> 0, f |-> <<>>]
L(p, c, f) == [ok |-> TRUE, port |-> p, chan |-> c, f |-> f]

Layout(cmd, ver, xmode) ==
  CASE cmd = "setpoint" ->
         \* [D] port 3 "Commander"; [F] struct CommanderCrtpLegacyValues {float roll, pitch, yaw;
         \* uint16_t thrust}; channel 0.  [F] the legacy RPYT decoder uses the inverted-pitch body
         \* frame: wire pitch = -pitch.  [P] thrust is an integer 0..65535 (10001..60000 useful).
         IF xmode THEN L(3, 0, <<XR, XP, F32(3), U16(4)>>)
                  ELSE L(3, 0, <<F32(1), F32N(2), F32(3), U16(4)>>)
    [] cmd = "notify_stop" ->
         \* [D] port 7 "Commander Generic"; [F] channel 1 = meta commands,
         \* metaCommand 0 = notifySetpointsStop {uint32_t remainValidMillisecs}
         L(7, 1, <<C8(0), U32(1)>>)
    [] cmd = "stop_setpoint" ->
         \* [F] generic setpoint channel 0, type 0 = stopType, no payload
         L(7, 0, <<C8(0)>>)
    [] cmd = "velocity_world" ->
         \* [F] type 1 velocityWorldType {float vx, vy, vz, yawrate}; the decoder of the legacy type
         \* negates yawrate; type 8 (protocol version >= 9) takes yawrate as is
         IF ver <= 8 THEN L(7, 0, <<C8(1), F32(1), F32(2), F32(3), F32N(4)>>)
                     ELSE L(7, 0, <<C8(8), F32(1), F32(2), F32(3), F32(4)>>)
    [] cmd = "zdistance" ->
         \* [F] type 2 zDistanceType {float roll, pitch, yawrate, zDistance}, legacy decoder negates
         \* yawrate; type 9 from protocol version 9
         IF ver <= 8 THEN L(7, 0, <<C8(2), F32(1), F32(2), F32N(3), F32(4)>>)
                     ELSE L(7, 0, <<C8(9), F32(1), F32(2), F32(3), F32(4)>>)
    [] cmd = "hover" ->
         \* [F] type 5 hoverType {float vx, vy, yawrate, zDistance}, legacy decoder negates yawrate;
         \* type 10 from protocol version 9
         IF ver <= 8 THEN L(7, 0, <<C8(5), F32(1), F32(2), F32N(3), F32(4)>>)
                     ELSE L(7, 0, <<C8(10), F32(1), F32(2), F32(3), F32(4)>>)
    [] cmd = "full_state" ->
         \* [F] type 6 fullStateType {int16 x,y,z (mm); int16 vx,vy,vz (mm/s); int16 ax,ay,az
         \* (mm/s^2); int32 quat (quatcompress.h); int16 rateRoll, ratePitch, rateYaw (1/1000)}
         L(7, 0, <<C8(6), I16M(1), I16M(2), I16M(3), I16M(4), I16M(5), I16M(6),
                   I16M(7), I16M(8), I16M(9), QUAT(10), I16M(14), I16M(15), I16M(16)>>)
    [] cmd = "position" ->
         \* [F] type 7 positionType {float x, y, z, yaw}
         L(7, 0, <<C8(7), F32(1), F32(2), F32(3), F32(4)>>)
    [] cmd \in {"hl_takeoff", "hl_land"} ->
         \* [D] port 8 "Setpoint Highlevel"; COMMAND_TAKEOFF_2 = 7 / COMMAND_LAND_2 = 8;
         \* struct data_takeoff_2 {uint8 groupMask; float height; float yaw; bool useCurrentYaw;
         \* float duration}.  args: height, duration, group_mask, yaw
         L(8, 0, <<C8(IF cmd = "hl_takeoff" THEN 7 ELSE 8), U8(3), F32(1), OPTF(4), ISNONE(4), F32(2)>>)
    [] cmd = "hl_stop" ->
         \* [D] COMMAND_STOP = 3, struct data_stop {uint8 groupMask}
         L(8, 0, <<C8(3), U8(1)>>)
    [] cmd = "hl_group_mask" ->
         \* [D] COMMAND_SET_GROUP_MASK = 0, struct data_set_group_mask {uint8 groupMask}
         L(8, 0, <<C8(0), U8(1)>>)
    [] cmd = "hl_goto" ->
         \* [D] COMMAND_GO_TO = 4, struct data_go_to {uint8 groupMask; uint8 relative; float x, y, z,
         \* yaw, duration};  [F] COMMAND_GO_TO_2 = 12 (protocol version >= 8) adds uint8 linear
         \* after relative.  args: x, y, z, yaw, duration, relative, linear, group_mask
         IF ver < 8 THEN L(8, 0, <<C8(4), U8(8), B8(6), F32(1), F32(2), F32(3), F32(4), F32(5)>>)
                    ELSE L(8, 0, <<C8(12), U8(8), B8(6), B8(7), F32(1), F32(2), F32(3), F32(4), F32(5)>>)
    [] cmd = "hl_spiral" ->
         \* [F] COMMAND_SPIRAL = 11 (protocol version >= 8), struct data_spiral {uint8 groupMask;
         \* uint8 sideways; uint8 clockwise; float phi, r0, rf, dz, duration}.
         \* args: angle, r0, rF, ascent, duration, sideways, clockwise, group_mask
         IF ver < 8 THEN NoLayout
                    ELSE L(8, 0, <<C8(11), U8(8), B8(6), B8(7), SATA(1), SATR(2), SATR(3), F32(4), F32(5)>>)
    [] cmd = "hl_start_traj" ->
         \* [D] COMMAND_START_TRAJECTORY = 5, struct data_start_trajectory {uint8 groupMask; uint8
         \* relative; uint8 reversed; uint8 trajectoryId; float timescale}.
         \* args: trajectory_id, time_scale, relative, reversed, group_mask
         L(8, 0, <<C8(5), U8(5), B8(3), B8(4), U8(1), F32(2)>>)
    [] cmd = "hl_define_traj" ->
         \* [D] COMMAND_DEFINE_TRAJECTORY = 6, struct data_define_trajectory {uint8 trajectoryId;
         \* struct trajectoryDescription}; [F] trajectoryDescription {uint8 trajectoryLocation
         \* (1 = TRAJECTORY_LOCATION_MEM); uint8 trajectoryType (0 poly4d, 1 compressed);
         \* {uint32 offset; uint8 n_pieces}}.  args: trajectory_id, offset, n_pieces, type
         L(8, 0, <<C8(6), U8(1), C8(1), U8(4), U32(2), U8(3)>>)
    [] cmd \in {"extpos", "loc_extpos"} ->
         \* [D] port 6 "Localization", channel 0 "Position"; [F] struct CrtpExtPosition {float x,y,z}
         L(6, 0, <<F32(1), F32(2), F32(3)>>)
    [] cmd \in {"extpose", "loc_extpose"} ->
         \* [D] channel 1 "Generic"; [F] type 8 EXT_POSE {float x,y,z; float qx,qy,qz,qw}
         L(6, 1, <<C8(8), F32(1), F32(2), F32(3), F32(4), F32(5), F32(6), F32(7)>>)
    [] cmd = "emergency_stop" ->
         \* [F] generic type 3 EMERGENCY_STOP, no payload
         L(6, 1, <<C8(3)>>)
    [] cmd = "emergency_watchdog" ->
         \* [F] generic type 4 EMERGENCY_STOP_WATCHDOG, no payload
         L(6, 1, <<C8(4)>>)
    [] cmd = "lh_persist" ->
         \* [L] Localization._incoming answers with type 11 = LH_PERSIST_DATA on the generic channel;
         \* [F] request {uint16 geoDataBsField; uint16 calibrationDataBsField}, bit n = base station n
         L(6, 1, <<C8(11), MASK(1), MASK(2)>>)
    [] cmd = "arm" ->
         \* [D] port 13 "Platform", channel 0 "Platform Command"; [F] command 1 = armSystem {uint8 doArm}
         L(13, 0, <<C8(1), B8(1)>>)
    [] cmd = "crash_recovery" ->
         \* [F] platform command 2 = recoverSystem, no payload
         L(13, 0, <<C8(2)>>)
    [] cmd = "lpp_position" ->
         \* [F] generic type 2 LPS_SHORT_LPP_PACKET {uint8 destId; payload}; lpp.h
         \* LPP_SHORT_ANCHORPOS = 1 {float x, y, z}.  args: anchor_id, x, y, z
         L(6, 1, <<C8(2), U8(1), C8(1), F32(2), F32(3), F32(4)>>)
    [] cmd = "lpp_raw" ->
         \* [F] LPS_SHORT_LPP_PACKET {uint8 destId; uint8 payload[]}: at most 28 bytes fit a CRTP packet
         L(6, 1, <<C8(2), U8(1), RAW(2)>>)
    [] cmd = "lpp_reboot" ->
         \* [F] LPP_SHORT_REBOOT = 2 {uint8 bootMode}.  args: anchor_id, mode
         L(6, 1, <<C8(2), U8(1), C8(2), U8(2)>>)
    [] cmd = "lpp_mode" ->
         \* [F] LPP_SHORT_MODE = 3 {uint8 mode}
         L(6, 1, <<C8(2), U8(1), C8(3), U8(2)>>)
    [] OTHER -> NoLayout

\* ------------------------------------------------------------------ IEEE float32 bytes (b[1] = LSB)
IsNaN(b)  == b[4] % 128 = 127 /\ b[3] >= 128 /\ (b[3] % 128 # 0 \/ b[2] # 0 \/ b[1] # 0)
IsZero(b) == b[1] = 0 /\ b[2] = 0 /\ b[3] = 0 /\ b[4] % 128 = 0
SignBit(b) == b[4] >= 128
FlipSign(b) == [b EXCEPT ![4] = (b[4] + 128) % 256]
Mag(b) == (b[4] % 128) * 16777216 + b[3] * 65536 + b[2] * 256 + b[1]    \* < 2^31, monotone in |value|
F32Eq(w, a) == w = a \/ (IsNaN(w) /\ IsNaN(a)) \/ (IsZero(w) /\ IsZero(a))

TwoPi == <<219, 15, 201, 64>>      \* float32(2*pi) = 0x40C90FDB (IEEE 754: pi = 0x40490FDB, exponent + 1)
Pow2(n) == LET F[i \in 0..n] == IF i = 0 THEN 1 ELSE 2 * F[i - 1] IN F[n]

\* floor(|value| * 1024) for |value| < 512
BiasedExp(w) == (w[4] % 128) * 2 + w[3] \div 128
Frac(w) == (w[3] % 128) * 65536 + w[2] * 256 + w[1]
Floor1024(w) == LET e == BiasedExp(w)
                    m == IF e = 0 THEN Frac(w) ELSE 8388608 + Frac(w)
                    sh == 140 - (IF e = 0 THEN 1 ELSE e)          \* right shift, >= 5 when |value| < 512
                IN IF sh > 24 THEN 0 ELSE m \div Pow2(sh)

Abs(x) == IF x < 0 THEN -x ELSE x
\* wire value ~ k * d/8 with 0.7070 <= k <= 0.7072, d an integer with |d| <= 2048
XmodeMatch(w, d) ==
    IF IsNaN(w) \/ BiasedExp(w) > 135 THEN FALSE
    ELSE IF d = 0 THEN IsZero(w)
    ELSE LET q == Floor1024(w) a == Abs(d) IN
         /\ SignBit(w) = (d < 0)
         /\ 7070 * 128 * a <= (q + 1) * 10000
         /\ q * 10000 <= 7072 * 128 * a

\* ------------------------------------------------------------------ integers
Pad(b, n) == [i \in 1..n |-> IF i <= Len(b) THEN b[i] ELSE 0]
Sub(s, from, n) == [i \in 1..n |-> s[from + i - 1]]
U16Val(w) == w[1] + 256 * w[2]
I16Val(w) == IF U16Val(w) >= 32768 THEN U16Val(w) - 65536 ELSE U16Val(w)
Range(s) == {s[i] : i \in DOMAIN s}
MaskOf(S) == LET F[i \in -1..15] == IF i = -1 THEN 0 ELSE F[i - 1] + (IF i \in S THEN Pow2(i) ELSE 0)
             IN F[15]

\* ------------------------------------------------------------------ quaternion (quatcompress.h)
\* 32 bits = [2 bits index of the dropped (largest) component][3 x (1 sign bit, 9 bit magnitude)],
\* remaining components in index order, magnitude = |component| * sqrt(2) * 511.
C2 == 522242                                   \* (511*sqrt 2)^2
\* a <= 511*sqrt(2)*t/sqrt(n)   and   a >= ...   for integers a, t and n > 0
LeqX(a, t, n) == IF a <= 0 THEN t >= 0 \/ a * a * n >= C2 * t * t
                 ELSE t > 0 /\ a * a * n <= C2 * t * t
GeqX(a, t, n) == IF a >= 0 THEN t <= 0 \/ a * a * n >= C2 * t * t
                 ELSE t < 0 /\ a * a * n <= C2 * t * t
QuatFields(w) ==                               \* wire bytes -> [l, f] with f the three 10-bit groups
    LET lo == w[1] + 256 * w[2]  hi == w[3] + 256 * w[4]
    IN [l |-> hi \div 16384,
        f |-> << (hi % 16384) \div 16, (hi % 16) * 64 + lo \div 1024, lo % 1024 >>]
QuatOK(w, k) ==                                \* k = <<kx, ky, kz, kw>> integers, |k[i]| <= 16
    LET n == k[1] * k[1] + k[2] * k[2] + k[3] * k[3] + k[4] * k[4]
        d == QuatFields(w)
        l == d.l + 1
        others == SelectSeq(<<1, 2, 3, 4>>, LAMBDA i : i # l)
    IN n > 0 /\
       \E g \in {1, -1} :
          /\ g * k[l] >= 0                     \* the dropped component is reconstructed as >= 0
          /\ \A j \in 1..3 :
                LET f == d.f[j]
                    m == IF f >= 512 THEN -(f % 512) ELSE f
                    t == g * k[others[j]]
                IN LeqX(m - 1, t, n) /\ GeqX(m + 1, t, n)

\* ------------------------------------------------------------------ per-field rules
\* CanEncode: the argument has a wire value (otherwise the call must raise)
CanEncode(fd, args) ==
    LET a == args[fd.a] IN
    CASE fd.t \in {"C8", "B8", "ISNONE"} -> TRUE
      [] fd.t = "U8"  -> ~a.neg /\ Len(a.b) <= 1
      [] fd.t = "U16" -> ~a.neg /\ Len(a.b) <= 2
      [] fd.t = "U32" -> ~a.neg /\ Len(a.b) <= 4
      [] fd.t = "F32" -> a.b # <<>>
      [] fd.t \in {"XR", "XP"} -> TRUE
      [] fd.t = "SATA" -> TRUE                               \* beyond float32 is beyond 2pi: the limit applies
      [] fd.t = "SATR" -> a.b # <<>> \/ a.neg
      [] fd.t = "OPTF" -> a.k = "none" \/ a.b # <<>>
      [] fd.t = "I16M" -> a.fin /\ (\E c \in {a.lo} \cup (IF a.ex THEN {} ELSE {a.lo + 1}) :
                                        c >= -32768 /\ c <= 32767)
      [] fd.t = "QUAT" -> args[fd.a].n * args[fd.a].n + args[fd.a + 1].n * args[fd.a + 1].n
                          + args[fd.a + 2].n * args[fd.a + 2].n + args[fd.a + 3].n * args[fd.a + 3].n > 0
      [] fd.t = "MASK" -> \A i \in DOMAIN a.v : a.v[i] >= 0 /\ a.v[i] <= 15
      [] fd.t = "RAW" -> TRUE                                 \* the 30-byte limit is checked on the whole layout
      [] OTHER -> FALSE

\* FieldOK: the bytes w on the wire decode to the argument
FieldOK(fd, args, w) ==
    LET a == args[fd.a] IN
    CASE fd.t = "C8"  -> w = <<fd.v>>
      [] fd.t = "B8"  -> w = <<IF a.v THEN 1 ELSE 0>>
      [] fd.t = "ISNONE" -> w = <<IF a.k = "none" THEN 1 ELSE 0>>
      [] fd.t \in {"U8", "U16", "U32"} -> w = Pad(a.b, Width(fd, args))
      [] fd.t = "F32" -> F32Eq(w, IF fd.neg THEN FlipSign(a.b) ELSE a.b)
      [] fd.t = "XR" -> (args[1].hasg /\ args[2].hasg) => XmodeMatch(w, args[1].g - args[2].g)
      [] fd.t = "XP" -> (args[1].hasg /\ args[2].hasg) => XmodeMatch(w, -(args[1].g + args[2].g))
      [] fd.t = "SATA" ->
            \/ a.b # <<>> /\ F32Eq(w, a.b)
            \/ /\ a.b = <<>> \/ (~IsNaN(a.b) /\ Mag(a.b) > Mag(TwoPi))
               /\ w = (IF a.neg THEN FlipSign(TwoPi) ELSE TwoPi)
      [] fd.t = "SATR" ->
            \/ a.b # <<>> /\ F32Eq(w, a.b)
            \/ a.neg /\ IsZero(w)
      [] fd.t = "OPTF" -> a.k = "none" \/ F32Eq(w, a.b)
      [] fd.t = "I16M" -> I16Val(w) = a.lo \/ (~a.ex /\ I16Val(w) = a.lo + 1)
      [] fd.t = "QUAT" -> QuatOK(w, <<args[fd.a].n, args[fd.a + 1].n, args[fd.a + 2].n, args[fd.a + 3].n>>)
      [] fd.t = "MASK" -> U16Val(w) = MaskOf(Range(a.v))
      [] fd.t = "RAW" -> w = a.v
      [] OTHER -> FALSE

FieldClauseName(fd) ==
    CASE fd.t = "C8" -> "TypeCode"
      [] fd.t = "B8" -> "BoolField"
      [] fd.t = "ISNONE" -> "BoolField"
      [] fd.t \in {"U8", "U16", "U32"} -> "UIntField"
      [] fd.t = "F32" -> "FloatField"
      [] fd.t \in {"XR", "XP"} -> "XModeField"
      [] fd.t \in {"SATA", "SATR"} -> "SaturatedField"
      [] fd.t = "OPTF" -> "FloatField"
      [] fd.t = "I16M" -> "FixedPointField"
      [] fd.t = "QUAT" -> "QuaternionField"
      [] fd.t = "MASK" -> "MaskField"
      [] fd.t = "RAW" -> "RawField"
      [] OTHER -> "UnknownField"

Offset(f, args, i) == LET F[j \in 0..(i - 1)] == IF j = 0 THEN 0 ELSE F[j - 1] + Width(f[j], args) IN F[i - 1]
TotalWidth(f, args) == Offset(f, args, Len(f) + 1)

\* index of the first field whose bytes do not decode to the argument (0 = none)
FirstBadField(lay, args, data) ==
    LET bad == {i \in DOMAIN lay.f : ~FieldOK(lay.f[i], args, Sub(data, Offset(lay.f, args, i) + 1, Width(lay.f[i], args)))}
    IN IF bad = {} THEN 0 ELSE CHOOSE i \in bad : \A j \in bad : i <= j

PortOf(h) == (h \div 16) % 16
ChanOf(h) == h % 4

\* ------------------------------------------------------------------ the clauses
EmissionClause(r) ==
    LET lay == Layout(r.cmd, r.ver, r.xmode) IN
    IF Len(r.pks) > 1 THEN "SinglePacket"
    ELSE IF ~lay.ok THEN (IF r.pks # <<>> THEN "UnsupportedCommandSent" ELSE "ok")
    ELSE IF (\E i \in DOMAIN lay.f : ~CanEncode(lay.f[i], r.args)) \/ TotalWidth(lay.f, r.args) > 30
         THEN (IF r.pks # <<>> THEN "UnrepresentableSent"
               ELSE IF r.out # "raised" THEN "UnrepresentableNotRaised" ELSE "ok")
    ELSE IF r.pks = <<>> THEN "ok"
    ELSE LET pk == r.pks[1] IN
         IF Len(pk.data) > 30 THEN "PayloadSize"
         ELSE IF PortOf(pk.h) # lay.port \/ ChanOf(pk.h) # lay.chan THEN "PortChannel"
         ELSE IF Len(pk.data) # TotalWidth(lay.f, r.args) THEN "Length"
         ELSE LET i == FirstBadField(lay, r.args, pk.data) IN
              IF i = 0 THEN "ok" ELSE FieldClauseName(lay.f[i])

EmissionField(r) ==      \* which field (1-based) the clause is about; 0 when not a field clause
    LET lay == Layout(r.cmd, r.ver, r.xmode) IN
    IF lay.ok /\ Len(r.pks) = 1 /\ (\A i \in DOMAIN lay.f : CanEncode(lay.f[i], r.args))
       /\ Len(r.pks[1].data) = TotalWidth(lay.f, r.args)
    THEN FirstBadField(lay, r.args, r.pks[1].data) ELSE 0

EmissionOK(r) == EmissionClause(r) = "ok"

\* header byte h produced for (port, chan), port in 0..15, chan in 0..3
HeaderClause(port, chan, h) ==
    IF h < 0 \/ h > 255 THEN "HeaderByte"
    ELSE IF PortOf(h) # port \/ ChanOf(h) # chan THEN "HeaderLossless" ELSE "ok"
=============================================================================
