SPECIFICATION Spec
CONSTANTS
  Kinds = {"radio"}
  CbModes = {TRUE, FALSE}
  SlModes = {TRUE, FALSE}
  Bug = "none"
  Faults = {"none", "f1", "f2"}
  MaxOps = 8
  MaxSess = 3
  MaxReq = 4
  MaxIdle = 4
  MaxErr = 3
  HsMax = 3
  Retries = 2
  JamLen = 3
  KeepHistory = TRUE
INVARIANT HistoryOK
INVARIANT Quiet
INVARIANT TypeOK
VIEW NoHistory
CHECK_DEADLOCK FALSE
