SPECIFICATION Spec
CONSTANTS
  Packets <- PacketsTcpSim
  MaxPackets = 4
  NR = 1
  RFns <- RFnsTcp
  SendSets <- SendSim
  MaxSends = 5
  Mode = "tcp"
  LateRegister = FALSE
  Bug = "none"
INVARIANT ReadsOK
INVARIANT RouteOK
INVARIANT DownOK
INVARIANT UpOK
CHECK_DEADLOCK FALSE
