SPECIFICATION Spec
CONSTANTS
  Versions <- AllVersions
  Cmds <- AllCmds
  ArgSets <- ArgSetsQuatNear
  HdrPorts <- Ports16
  HdrChans <- Chans4
  PlatPackets <- NoPlat
  Links <- LinksNow
  Cap = 1
  Chained = FALSE
  Bug = "quat_unit_shortcut"
INVARIANT EmissionsOK
INVARIANT HeadersOK
INVARIANT RepresentableIsSent
INVARIANT TypeOK
CHECK_DEADLOCK FALSE
