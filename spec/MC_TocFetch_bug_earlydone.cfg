SPECIFICATION Spec
CONSTANTS
  Configs <- ConfigsBugSmall
  Budget = 1
  Window <- WindowAll
  Bug = "EarlyDone"
INVARIANT TableAtDone
INVARIANT TableStaysOK
INVARIANT LookupsOK
CHECK_DEADLOCK FALSE
