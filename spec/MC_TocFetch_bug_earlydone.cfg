SPECIFICATION Spec
CONSTANTS
  Configs <- ConfigsBugSmall
  Budget = 1
  Window <- WindowAll
  Bug = "EarlyDone"
INVARIANT TableAtDone
INVARIANT TableStaysOK
INVARIANT LookupsOK
INVARIANT Progress
INVARIANT OnePattern
INVARIANT TypeOK
CHECK_DEADLOCK FALSE
