SPECIFICATION Spec
CONSTANTS
  Mode = "pipe"
  BsIds = {1, 2}
  MaxMeas = 3
  Deltas <- DeltasQuick
  Diffs = {1}
  MinBs = {0, 2}
  MaxSamples = 0
  SampleSets <- NoSampleSets
  MaxOutliers = 0
  Bug = "none"
  PrintCases = TRUE
INVARIANT MatchOK
INVARIANT EstOK
INVARIANT PipeMin2AllLinking
INVARIANT LinkMonotone
INVARIANT TypeOK
CHECK_DEADLOCK FALSE
