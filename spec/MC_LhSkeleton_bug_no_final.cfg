SPECIFICATION Spec
CONSTANTS
  Mode = "match"
  BsIds = {1, 2}
  MaxMeas = 4
  Deltas <- DeltasQuick
  Diffs = {1}
  MinBs = {0}
  MaxSamples = 0
  SampleSets <- NoSampleSets
  MaxOutliers = 0
  Bug = "no_final"
  PrintCases = FALSE
INVARIANT MatchOK
INVARIANT EstOK
INVARIANT PipeMin2AllLinking
INVARIANT LinkMonotone
INVARIANT TypeOK
CHECK_DEADLOCK FALSE
