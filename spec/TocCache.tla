------------------------------ MODULE TocCache ------------------------------
(* Design spec of the table-of-contents cache of cflib (C11):
     cflib/crazyflie/toccache.py  TocCache.__init__/fetch/insert/_encoder/_decoder
     cflib/crazyflie/toc.py       TocFetcher._new_packet_cb (cache branch, fall back to download)
     cflib/crazyflie/__init__.py  connection set-up order: log table, then parameter table

   One action per observable step of the code:
     Start        TocCache(ro_cache, rw_cache): _cache_files = glob(ro) + glob(rw)   (a new process)
     Connect      open_link to a device announcing (table, checksum) per kind     (environment)
     Fetch        TocCache.fetch(crc): last listed name matching the checksum, json.load + _decoder,
                  any Exception -> None
     DoneUsed     `if (cache_data)`: the cached data becomes the table, set-up of this table finished
     Download     otherwise the table is downloaded from the device (one step here; C03 owns the details)
     InsertBegin  TocCache.insert: open(<rw>/<CRC>.json, 'w')  -- the file exists and is EMPTY from here on
     WriteByte    the bytes reach the disk (abstract length FLen; cut < FLen = truncated file)
     InsertEnd    close(); _cache_files += [name]
     NoInsert     no rw directory: nothing is written
     DoneDl       set-up of this table finished after a download
     Close / Exit link closed / process ends normally
     Crash        the process dies anywhere (in particular between InsertBegin and InsertEnd)   (environment)
     Corrupt / Remove / Truncate / Copy   a cache file is turned into garbage / deleted / cut short /
                  copied over the one in the other directory -- while no process runs, while a TocCache
                  object is idle, and between the start of a connection and a look-up (EnvStages)   (environment)

     InsertFail   open(name, 'w') raises (directory gone / name taken by a directory): caught, nothing stored
     RemoveDir / BlockName   the whole directory disappears / a directory takes the name of a cache file  (environment)
     OtherBegin / OtherWrite / OtherEnd   ANOTHER cache object (second Crazyflie of a swarm in its own thread,
                  another client process) stores a table under another checksum in one of our directories, its
                  open / writes / close interleaved with our steps at any point                           (environment)
   A file remembers under which checksum its content was stored (`under`): a complete file whose name says
   another checksum is "foreign" to the property (Bug = "sharedtmp": one scratch name + rename per directory).

   Two physical directories "A" and "B"; every process chooses which (if any) is its read-only
   and which its read-write cache, so every combination occurs and a directory filled as rw by
   one process can be the ro of the next.

   Bug = "none" is the code as read ("toctou": a file test outside the try of fetch; "sharedtmp": shared scratch
   file + os.replace; "openfail": the clean-up after a failed open raises again; "nontable": a decoded non-table
   JSON value is returned as a hit).  Other values are the breakages named in DESIGN 5/C11; each
   has a MC_TocCache_bug_*.cfg that TLC must refute. *)
EXTENDS Naturals, Sequences, FiniteSets, TLC

CONSTANTS Crcs,          \* checksums a device may announce
          CrcSeq,        \* the same as a sequence: listing order of a directory (glob order)
          LogTables, ParamTables,
          FLen,          \* abstract file length: cut \in 0..FLen, cut = FLen is a complete file
          Alias,         \* Bug = "suffix": checksums with the same Alias share the short suffix
          Bug,
          MaxConnect, MaxCrash, MaxEnv,
          MaxOther,      \* stores by ANOTHER cache object (thread / process) sharing a directory
          OtherTables    \* tables that one stores

P == INSTANCE TocCacheProps

Dirs  == {"A", "B"}
Kinds == {"log", "param"}
NoDir == "none"

VARIABLES ro, rw,        \* directory roles of the running process ("none" when not configured / no process)
          files,         \* <<dir, crc>> -> [st: "file"|"garbage"|"falsy"|"nontable"|"dir", tab, cut, under]; under = the checksum the content was stored under; missing files are not in the domain
          known,         \* TocCache._cache_files as a sequence of <<dir, crc>>
          stage, kind,   \* where the connection set-up is
          dev,           \* [log |-> [tab, crc], param |-> [tab, crc]]: the connected device
          toc,           \* [log |-> table, param |-> table] held by the Crazyflie object
          ret,           \* what fetch returned: [k: "none"|"falsy"|"tab"|"raise", tab]
          wdir,          \* directory of the insert in progress
          fsnap,         \* history: the files (as Props sees them) at the time of the fetch
          obsL, obsP,    \* history: observation of the finished set-up of the log / param table
          roBase,        \* history: content of the ro directory when the process started
          gone,          \* directories that do not exist (removed after the TocCache object was constructed)
          other,         \* the store in progress of the other cache object: [x, slot] or NoOther
          nconn, ncrash, nenv, nother

vars == <<ro, rw, files, known, stage, kind, dev, toc, ret, wdir, fsnap, obsL, obsP, roBase,
          gone, other, nconn, ncrash, nenv, nother>>

EmptyFiles == [x \in {} |-> 0]
NoRet == [k |-> "none", tab |-> <<>>]
NoObs == [valid |-> FALSE]
NoDev == [log |-> [tab |-> <<>>, crc |-> ""], param |-> [tab |-> <<>>, crc |-> ""]]
NoToc == [log |-> <<>>, param |-> <<>>]

\* what the property module sees of the directories
\* "foreign" = a complete file whose content was stored under ANOTHER checksum than its name says
PFiles(f) == [x \in DOMAIN f |->
                 [st  |-> IF f[x].st = "file" /\ f[x].cut = FLen
                          THEN (IF f[x].under = x[2] THEN "complete" ELSE "foreign") ELSE "damaged",
                  tab |-> f[x].tab]]
Tmp == "toc.tmp"                 \* Bug = "sharedtmp": one scratch name per directory for every store
NoOther == [x |-> <<>>, slot |-> <<>>]
InDir(f, d) == [x \in {y \in DOMAIN f : y[1] = d} |-> f[x]]
ReadDirs == {ro, rw} \ {NoDir}

Listing(d) == IF d = NoDir THEN <<>>
              ELSE SelectSeq([i \in 1..Len(CrcSeq) |-> <<d, CrcSeq[i]>>], LAMBDA e : e \in DOMAIN files)
Range(s) == {s[i] : i \in DOMAIN s}
\* order is a possible glob result: the files of r (each once, any order) followed by those of w
IsListing(order, r, w) ==
    LET fr == {x \in DOMAIN files : x[1] = r /\ x[2] # Tmp}        \* glob('*.json')
        fw == {x \in DOMAIN files : x[1] = w /\ x[2] # Tmp}
        nr == Cardinality(fr)
        nw == Cardinality(fw)
    IN  /\ Len(order) = nr + nw
        /\ {order[i] : i \in 1..nr} = fr
        /\ {order[i] : i \in (nr + 1)..(nr + nw)} = fw

Init == /\ ro = NoDir /\ rw = NoDir
        /\ files = EmptyFiles
        /\ known = <<>>
        /\ stage = "down" /\ kind = "log"
        /\ dev = NoDev /\ toc = NoToc /\ ret = NoRet /\ wdir = NoDir
        /\ fsnap = EmptyFiles /\ obsL = NoObs /\ obsP = NoObs /\ roBase = EmptyFiles
        /\ gone = {} /\ other = NoOther
        /\ nconn = 0 /\ ncrash = 0 /\ nenv = 0 /\ nother = 0

\* ---------------------------------------------------------------- process start / stop
Start(r, w, order) ==
    /\ stage = "down"
    /\ r \in Dirs \cup {NoDir} /\ w \in Dirs \cup {NoDir} /\ (r = w => r = NoDir)
    /\ IsListing(order, r, w)
    /\ ro' = r /\ rw' = w /\ known' = order /\ stage' = "idle"
    /\ gone' = gone \ {w}                            \* os.makedirs(rw_cache) when it does not exist
    /\ roBase' = InDir(files, r)
    /\ UNCHANGED <<files, kind, dev, toc, ret, wdir, fsnap, obsL, obsP, nconn, ncrash, nenv>>
    /\ UNCHANGED <<other, nother>>

Down == /\ ro' = NoDir /\ rw' = NoDir /\ known' = <<>> /\ stage' = "down" /\ kind' = "log"
        /\ dev' = NoDev /\ toc' = NoToc /\ ret' = NoRet /\ wdir' = NoDir
        /\ fsnap' = EmptyFiles /\ obsL' = NoObs /\ obsP' = NoObs /\ roBase' = EmptyFiles

Exit == /\ stage = "idle" /\ Down
        /\ UNCHANGED <<files, nconn, ncrash, nenv>>
    /\ UNCHANGED <<gone, other, nother>>

Crash == /\ stage \notin {"down", "idle"} /\ ncrash < MaxCrash /\ Down
         /\ ncrash' = ncrash + 1
         /\ UNCHANGED <<files, nconn, nenv>>
    /\ UNCHANGED <<gone, other, nother>>

\* ---------------------------------------------------------------- connection set-up
Connect(lt, lc, pt, pc) ==
    /\ stage = "idle" /\ nconn < MaxConnect
    /\ (other # NoOther => other.x[2] \notin {lc, pc})
    /\ dev' = [log |-> [tab |-> lt, crc |-> lc], param |-> [tab |-> pt, crc |-> pc]]
    /\ stage' = "fetch" /\ kind' = "log" /\ toc' = NoToc /\ ret' = NoRet
    /\ obsL' = NoObs /\ obsP' = NoObs /\ fsnap' = EmptyFiles
    /\ nconn' = nconn + 1
    /\ UNCHANGED <<ro, rw, files, known, wdir, roBase, ncrash, nenv>>
    /\ UNCHANGED <<gone, other, nother>>

Crc == dev[kind].crc

Falsy == [k |-> "falsy", tab |-> <<>>]             \* fetch returns a value that `if (cache_data)` rejects
\* what a truthy JSON document that is not a table looks like to the observer
Junk == << [kg |-> "x", kn |-> "x", ident |-> "x", group |-> "x", name |-> "x", ctype |-> "x",
            pytype |-> "x", access |-> "x", ext |-> "x"] >>
Raise == [k |-> "raise", tab |-> <<>>]
Err == IF Bug = "escape" THEN Raise ELSE NoRet
\* a listed name that no longer exists: open() raises inside the try -> miss.  Bug = "toctou": the file is
\* looked at (os.path.getsize) outside the try, the FileNotFoundError leaves fetch()
Gone == IF Bug \in {"escape", "toctou"} THEN Raise ELSE NoRet
Decode(t) == IF Bug = "dropfield" THEN [i \in DOMAIN t |-> [t[i] EXCEPT !.ext = "-"]] ELSE t
Load(x) ==
    IF x \notin DOMAIN files THEN Gone                   \* listed, deleted since
    ELSE LET f == files[x] IN
         IF f.st = "file" /\ f.cut = FLen
         THEN IF f.tab = <<>> THEN Falsy ELSE [k |-> "tab", tab |-> Decode(f.tab)]
         ELSE IF f.st = "nontable" /\ Bug = "nontable"
              THEN [k |-> "tab", tab |-> Junk]          \* the decoded non-table value is returned: a "hit"
         ELSE IF f.st = "falsy" THEN Falsy           \* valid JSON such as {} [] 0 null: decoded, but nothing
         ELSE IF Bug = "partial" /\ f.st = "file" /\ f.cut > 0 /\ Len(f.tab) > 1
              THEN [k |-> "tab", tab |-> SubSeq(f.tab, 1, Len(f.tab) - 1)]
         ELSE Err                                        \* json.load / _decoder raise -> caught

SetObs(x) == IF kind = "log" THEN obsL' = x /\ UNCHANGED obsP ELSE obsP' = x /\ UNCHANGED obsL

Fetch ==
    /\ stage = "fetch"
    /\ LET match(e) == IF Bug = "suffix" THEN Alias[e[2]] = Alias[Crc] ELSE e[2] = Crc
           hits == SelectSeq(known, match)
           res == IF hits = <<>> THEN NoRet ELSE Load(hits[Len(hits)])
       IN  /\ ret' = res
           /\ fsnap' = PFiles(files)
           /\ IF res.k = "raise"
              THEN /\ stage' = "failed"               \* the exception ends the set-up in the dispatcher
                   /\ SetObs([valid |-> TRUE,
                              o |-> [crc |-> Crc, dirs |-> ReadDirs, used |-> FALSE, raised |-> TRUE,
                                     downloaded |-> FALSE, done |-> FALSE, got |-> toc[kind],
                                     dev |-> dev[kind].tab],
                              files |-> PFiles(files)])
              ELSE stage' = "fetched" /\ UNCHANGED <<obsL, obsP>>
    /\ UNCHANGED <<ro, rw, files, known, kind, dev, toc, wdir, roBase, nconn, ncrash, nenv>>
    /\ UNCHANGED <<gone, other, nother>>

Truthy(r) == r.k = "tab"                            \* `if (cache_data)`: an empty table ({}) is a miss

\* after the parameter table: Param.refresh_toc's refresh_done calls element.is_extended() on every
\* element; a table of log elements (checksum collision, 3.1(7)) has none -> AttributeError inside the
\* dispatcher, the set-up stops there and `connected` is never reported
Advance(ptab) == IF kind = "log" THEN kind' = "param" /\ stage' = "fetch"
                 ELSE /\ kind' = kind
                      /\ stage' = IF \E i \in DOMAIN ptab : ptab[i].ext = "-" THEN "failed" ELSE "connected"

DoneUsed ==
    /\ stage = "fetched" /\ Truthy(ret)
    /\ toc' = [toc EXCEPT ![kind] = ret.tab]
    /\ SetObs([valid |-> TRUE,
               o |-> [crc |-> Crc, dirs |-> ReadDirs, used |-> TRUE, raised |-> FALSE,
                      downloaded |-> FALSE, done |-> TRUE, got |-> ret.tab, dev |-> dev[kind].tab],
               files |-> fsnap])
    /\ Advance(ret.tab)
    /\ UNCHANGED <<ro, rw, files, known, dev, ret, wdir, fsnap, roBase, nconn, ncrash, nenv>>
    /\ UNCHANGED <<gone, other, nother>>

Download ==
    /\ stage = "fetched" /\ ~Truthy(ret)
    /\ toc' = [toc EXCEPT ![kind] = dev[kind].tab]
    /\ stage' = "insert"
    /\ UNCHANGED <<ro, rw, files, known, kind, dev, ret, wdir, fsnap, obsL, obsP, roBase,
                   nconn, ncrash, nenv>>
    /\ UNCHANGED <<gone, other, nother>>

Target == IF rw # NoDir THEN rw ELSE IF Bug = "rowrite" THEN ro ELSE NoDir

\* where the bytes of the store in progress go, and whether open() of that name fails
WSlot(d) == IF Bug = "sharedtmp" THEN <<d, Tmp>> ELSE <<d, Crc>>
OpenFails(d) == d \in gone \/ (WSlot(d) \in DOMAIN files /\ files[WSlot(d)].st = "dir")

InsertBegin ==
    /\ stage = "insert" /\ Target # NoDir /\ ~OpenFails(Target)
    /\ wdir' = Target
    /\ files' = (WSlot(Target) :> [st |-> "file", tab |-> toc[kind], cut |-> 0, under |-> Crc]) @@ files
    /\ stage' = "write"
    /\ UNCHANGED <<ro, rw, known, kind, dev, toc, ret, fsnap, obsL, obsP, roBase, nconn, ncrash, nenv>>
    /\ UNCHANGED <<gone, other, nother>>

\* open() raises (directory gone, name taken by a directory): caught, logged, nothing stored.
\* Bug = "openfail": the clean-up after the failed open raises again and leaves insert()
InsertFail ==
    /\ stage = "insert" /\ Target # NoDir /\ OpenFails(Target)
    /\ IF Bug = "openfail"
       THEN /\ stage' = "failed"
            /\ SetObs([valid |-> TRUE,
                       o |-> [crc |-> Crc, dirs |-> ReadDirs, used |-> FALSE, raised |-> FALSE,
                              downloaded |-> TRUE, done |-> FALSE, got |-> toc[kind], dev |-> dev[kind].tab],
                       files |-> fsnap])
       ELSE stage' = "next" /\ UNCHANGED <<obsL, obsP>>
    /\ UNCHANGED <<ro, rw, files, known, kind, dev, toc, ret, wdir, fsnap, roBase, nconn, ncrash, nenv>>
    /\ UNCHANGED <<gone, other, nother>>

NoInsert ==
    /\ stage = "insert" /\ Target = NoDir
    /\ stage' = "next"
    /\ UNCHANGED <<ro, rw, files, known, kind, dev, toc, ret, wdir, fsnap, obsL, obsP, roBase,
                   nconn, ncrash, nenv>>
    /\ UNCHANGED <<gone, other, nother>>

\* the content of the slot is still ours (under sharedtmp the other store may have replaced or taken it)
Mine(d) == WSlot(d) \in DOMAIN files /\ files[WSlot(d)].st = "file" /\ files[WSlot(d)].under = Crc
                                     /\ files[WSlot(d)].tab = toc[kind]
WriteByte ==
    /\ stage = "write" /\ Mine(wdir) /\ files[WSlot(wdir)].cut < FLen
    /\ files' = [files EXCEPT ![WSlot(wdir)].cut = @ + 1]
    /\ UNCHANGED <<ro, rw, known, stage, kind, dev, toc, ret, wdir, fsnap, obsL, obsP, roBase,
                   nconn, ncrash, nenv>>
    /\ UNCHANGED <<gone, other, nother>>

\* close(); (sharedtmp: os.replace(scratch, name) -- of whatever the scratch name holds now);
\* _cache_files += [name].  A failing replace is caught: nothing appended.
InsertEnd ==
    /\ stage = "write" /\ (Mine(wdir) => files[WSlot(wdir)].cut = FLen)
    /\ IF Bug = "sharedtmp"
       THEN IF WSlot(wdir) \in DOMAIN files
            THEN /\ files' = (<<wdir, Crc>> :> files[WSlot(wdir)]) @@
                                [y \in DOMAIN files \ {WSlot(wdir)} |-> files[y]]
                 /\ known' = Append(known, <<wdir, Crc>>)
            ELSE UNCHANGED <<files, known>>
       ELSE /\ known' = Append(known, <<wdir, Crc>>) /\ UNCHANGED files
    /\ stage' = "next"
    /\ UNCHANGED <<ro, rw, kind, dev, toc, ret, wdir, fsnap, obsL, obsP, roBase,
                   nconn, ncrash, nenv>>
    /\ UNCHANGED <<gone, other, nother>>

DoneDl ==
    /\ stage = "next"
    /\ SetObs([valid |-> TRUE,
               o |-> [crc |-> Crc, dirs |-> ReadDirs, used |-> FALSE, raised |-> FALSE,
                      downloaded |-> TRUE, done |-> TRUE, got |-> toc[kind], dev |-> dev[kind].tab],
               files |-> fsnap])
    /\ Advance(toc[kind])
    /\ UNCHANGED <<ro, rw, files, known, dev, toc, ret, wdir, fsnap, roBase, nconn, ncrash, nenv>>
    /\ UNCHANGED <<gone, other, nother>>

Close ==
    /\ stage \in {"connected", "failed"}
    /\ stage' = "idle" /\ kind' = "log" /\ dev' = NoDev /\ toc' = NoToc /\ ret' = NoRet
    /\ wdir' = NoDir /\ fsnap' = EmptyFiles /\ obsL' = NoObs /\ obsP' = NoObs
    /\ UNCHANGED <<ro, rw, files, known, roBase, nconn, ncrash, nenv>>
    /\ UNCHANGED <<gone, other, nother>>

\* ---------------------------------------------------------------- environment between processes
\* The environment touches the cache files not only between processes but also within the life of one
\* TocCache object: after its construction (the names are already in `known`), between two connections
\* of the same Crazyflie object, and after a connection has started but before the checksum of a table is
\* looked up (stage "fetch", for the log and for the parameter table).  From then on `known` and the
\* directory contents may disagree: a listed name may be gone, replaced, emptied, cut or garbage.
EnvStages == {"down", "idle", "fetch"}

Corrupt(x, flavour) ==
    /\ stage \in EnvStages /\ nenv < MaxEnv
    /\ (other # NoOther => other.slot # x)
    /\ x \in DOMAIN files /\ files[x].st = "file" /\ files[x].cut = FLen
    /\ flavour \in {"garbage", "falsy", "nontable"}
    /\ files' = [files EXCEPT ![x] = [st |-> flavour, tab |-> <<>>, cut |-> 0, under |-> ""]]
    /\ nenv' = nenv + 1
    /\ roBase' = InDir(files', ro)                   \* not a write of the cache: the comparison base moves along
    /\ UNCHANGED <<ro, rw, known, stage, kind, dev, toc, ret, wdir, fsnap, obsL, obsP, nconn, ncrash>>
    /\ UNCHANGED <<gone, other, nother>>

Remove(x) ==
    /\ stage \in EnvStages /\ nenv < MaxEnv
    /\ (other # NoOther => other.slot # x)
    /\ x \in DOMAIN files
    /\ files' = [y \in DOMAIN files \ {x} |-> files[y]]
    /\ nenv' = nenv + 1
    /\ roBase' = InDir(files', ro)                   \* not a write of the cache: the comparison base moves along
    /\ UNCHANGED <<ro, rw, known, stage, kind, dev, toc, ret, wdir, fsnap, obsL, obsP, nconn, ncrash>>
    /\ UNCHANGED <<gone, other, nother>>

\* a complete file cut short from outside (same state as a crash during its write)
Truncate(x, k) ==
    /\ stage \in EnvStages /\ nenv < MaxEnv
    /\ (other # NoOther => other.slot # x)
    /\ x \in DOMAIN files /\ files[x].st = "file" /\ files[x].cut = FLen /\ k \in 0..(FLen - 1)
    /\ files' = [files EXCEPT ![x].cut = k]
    /\ nenv' = nenv + 1
    /\ roBase' = InDir(files', ro)                   \* not a write of the cache: the comparison base moves along
    /\ UNCHANGED <<ro, rw, known, stage, kind, dev, toc, ret, wdir, fsnap, obsL, obsP, nconn, ncrash>>
    /\ UNCHANGED <<gone, other, nother>>

\* a cache file is copied into the other directory (a distributed, pre-populated cache)
Copy(x, d) ==
    /\ stage \in EnvStages /\ nenv < MaxEnv
    /\ (other # NoOther => other.slot \notin {x, <<d, x[2]>>})
    /\ x \in DOMAIN files /\ d \in Dirs /\ d # x[1] /\ files[x].st # "dir"
    /\ (<<d, x[2]>> \in DOMAIN files => files[<<d, x[2]>>].st # "dir")
    /\ files' = (<<d, x[2]>> :> files[x]) @@ files
    /\ gone' = gone \ {d}
    /\ nenv' = nenv + 1
    /\ roBase' = InDir(files', ro)                   \* not a write of the cache: the comparison base moves along
    /\ UNCHANGED <<ro, rw, known, stage, kind, dev, toc, ret, wdir, fsnap, obsL, obsP, nconn, ncrash>>
    /\ UNCHANGED <<other, nother>>

\* the whole directory disappears (cleaned away) -- a living TocCache object does not recreate it
RemoveDir(d) ==
    /\ stage \in EnvStages /\ nenv < MaxEnv /\ d \in Dirs \ gone
    /\ (other # NoOther => other.x[1] # d)
    /\ files' = [y \in {z \in DOMAIN files : z[1] # d} |-> files[y]]
    /\ gone' = gone \cup {d}
    /\ nenv' = nenv + 1
    /\ roBase' = InDir(files', ro)
    /\ UNCHANGED <<ro, rw, known, stage, kind, dev, toc, ret, wdir, fsnap, obsL, obsP, nconn, ncrash>>
    /\ UNCHANGED <<other, nother>>

\* the name of a cache file is taken by a directory: it cannot be read, and open(name, 'w') raises
BlockName(x) ==
    /\ stage \in EnvStages /\ nenv < MaxEnv
    /\ (other # NoOther => other.slot # x) /\ x[1] \in Dirs \ gone /\ x[2] # Tmp
    /\ (x \in DOMAIN files => files[x].st # "dir")
    /\ files' = (x :> [st |-> "dir", tab |-> <<>>, cut |-> 0, under |-> ""]) @@ files
    /\ nenv' = nenv + 1
    /\ roBase' = InDir(files', ro)
    /\ UNCHANGED <<ro, rw, known, stage, kind, dev, toc, ret, wdir, fsnap, obsL, obsP, nconn, ncrash>>
    /\ UNCHANGED <<gone, other, nother>>

\* ---------------------------------------------------------------- another cache object on the same directory
\* (a second Crazyflie of a swarm in its own thread, or another client process): it stores table t under
\* checksum x[2] in directory x[1] (any, also the one we only read) -- never a checksum of our connection --
\* in the same three steps as we do, interleaved with ours at any point.
CurCrcs == IF stage \in {"down", "idle"} THEN {} ELSE {dev["log"].crc, dev["param"].crc}
OSlot(x) == IF Bug = "sharedtmp" THEN <<x[1], Tmp>> ELSE x
OtherBegin(x, t) ==
    /\ stage # "down" /\ nother < MaxOther /\ other = NoOther
    /\ x[1] \in Dirs \ gone /\ x[2] \notin CurCrcs /\ x[2] # Tmp
    /\ (OSlot(x) \in DOMAIN files => files[OSlot(x)].st # "dir")
    /\ files' = (OSlot(x) :> [st |-> "file", tab |-> t, cut |-> 0, under |-> x[2]]) @@ files
    /\ other' = [x |-> x, slot |-> OSlot(x)]
    /\ nother' = nother + 1
    /\ roBase' = InDir(files', ro)                   \* it may be OUR read-only directory: not a write of ours
    /\ UNCHANGED <<ro, rw, known, stage, kind, dev, toc, ret, wdir, fsnap, obsL, obsP,
                   nconn, ncrash, nenv, gone>>

Theirs == other.slot \in DOMAIN files /\ files[other.slot].st = "file" /\ files[other.slot].under = other.x[2]
OtherWrite ==
    /\ other # NoOther /\ Theirs /\ files[other.slot].cut < FLen
    /\ files' = [files EXCEPT ![other.slot].cut = @ + 1]
    /\ roBase' = InDir(files', ro)                   \* not a write of OUR cache object
    /\ UNCHANGED <<ro, rw, known, stage, kind, dev, toc, ret, wdir, fsnap, obsL, obsP,
                   nconn, ncrash, nenv, other, nother, gone>>

OtherEnd ==
    /\ other # NoOther /\ (Theirs => files[other.slot].cut = FLen)
    /\ IF Bug = "sharedtmp" /\ other.slot \in DOMAIN files
       THEN files' = (other.x :> files[other.slot]) @@ [y \in DOMAIN files \ {other.slot} |-> files[y]]
       ELSE UNCHANGED files
    /\ other' = NoOther
    /\ roBase' = InDir(files', ro)
    /\ UNCHANGED <<ro, rw, known, stage, kind, dev, toc, ret, wdir, fsnap, obsL, obsP,
                   nconn, ncrash, nenv, nother>>
    /\ UNCHANGED <<gone>>

Next == \/ \E r, w \in Dirs \cup {NoDir} : Start(r, w, Listing(r) \o Listing(w))
        \/ \E lt \in LogTables, pt \in ParamTables, lc, pc \in Crcs : Connect(lt, lc, pt, pc)
        \/ Fetch \/ DoneUsed \/ Download \/ InsertBegin \/ InsertFail \/ NoInsert \/ WriteByte \/ InsertEnd \/ DoneDl
        \/ (\E x \in Dirs \X Crcs, tt \in OtherTables : OtherBegin(x, tt)) \/ OtherWrite \/ OtherEnd
        \/ (\E d \in Dirs : RemoveDir(d)) \/ (\E x \in Dirs \X Crcs : BlockName(x))
        \/ Close \/ Exit \/ Crash
        \/ \E x \in Dirs \X Crcs : (\E fl \in {"garbage", "falsy", "nontable"} : Corrupt(x, fl)) \/ Remove(x) \/ (\E d \in Dirs : Copy(x, d))
                                   \/ (\E k \in 0..(FLen - 1) : Truncate(x, k))

Spec == Init /\ [][Next]_vars

\* ---------------------------------------------------------------- properties (C11)
SetupsOK == /\ obsL.valid => P!SetupOK(obsL.o, obsL.files)
            /\ obsP.valid => P!SetupOK(obsP.o, obsP.files)
\* a connection that has come to rest without `connected`
ConnectionOK ==
    (stage = "failed" /\ obsL.valid /\ obsP.valid) =>
        P!ConnectionClause(obsL.o, obsP.o, obsL.files, obsP.files, FALSE) = "ok"
RoNeverWritten == stage # "down" => P!RoClause(roBase, InDir(files, ro)) = "ok"

\* design-level sanity (not the property)
TypeOK == /\ stage \in {"down", "idle", "fetch", "fetched", "insert", "write", "next", "connected", "failed"}
          /\ kind \in Kinds
          /\ ro \in Dirs \cup {NoDir} /\ rw \in Dirs \cup {NoDir}
          /\ \A x \in DOMAIN files : files[x].cut \in 0..FLen /\ files[x].st \in {"file", "garbage", "falsy", "nontable", "dir"}
          /\ nconn \in 0..MaxConnect /\ ncrash \in 0..MaxCrash /\ nenv \in 0..MaxEnv /\ nother \in 0..MaxOther
          /\ gone \subseteq Dirs
\* the code only ever lists files of its own directories
KnownInDirs == \A i \in DOMAIN known : known[i][1] \in ReadDirs
=============================================================================
