---- MODULE MC_ImagesThorough ----
(* larger case sets (kept in their own module: TLC evaluates every constant definition of the
   modules it loads before it starts) *)
EXTENDS MC_Images

EeThorough == <<{<<v, ch, sp, p, a, fill, FALSE>> : v \in {0, 1}, ch \in {0, 1, 80, 125, 255}, sp \in {0, 1, 2, 255}, p \in 0..9,
                                                    a \in {A1, A2, <<0, 0, 0, 0, 0>>, <<255, 255, 255, 255, 255>>}, fill \in {0, 255}},
                {<<v, ch, 2, p, a, fill, TRUE>> : v \in {0, 1}, ch \in {80, 0}, p \in {1, 6}, a \in {A1, A2}, fill \in {0, 255}}>>
OwThorough == OwCases(<<{0}, 0..99, 0..97, {0, 1, 2, 3, 5, 8, 13, 21, 34, 55, 64, 66, 68, 70, 89, 95}>>, 17, 112, FALSE)
              \o OwCases(<<{0}, 0..253, {0, 1, 86, 170, 172}, {0, 56, 57, 58}>>, 201, 272, FALSE)
              \o <<{<<<<1, 2>>, (1 :> 4) @@ (2 :> 2), 33, 112, TRUE>>, <<<<3, 1, 2>>, (1 :> 5) @@ (2 :> 1) @@ (3 :> 0), 34, 112, TRUE>>}>>
LhThorough == <<{<<G, {15 - g : g \in G}, p, 16, rev>> : G \in SUBSET {0, 1, 2, 5, 9, 15}, p \in {1, 2}, rev \in BOOLEAN},
                {<<0..15, 0..15, 0, 16, FALSE>>, <<{0, 1, 3}, {1, 2}, 2, 2, TRUE>>, <<{0, 7}, {8}, 2, 8, FALSE>>}>>
LhFileThorough == <<{<<G, {15 - g : g \in G}, p, st>> : G \in SUBSET {0, 1, 2, 5, 9, 15}, p \in {1, 2}, st \in {1, 2}}>>
DeckThorough == <<{<<a, b, n, 3>> : a \in 0..127, b \in 0..3, n \in 0..18}, {<<1, 0, 4, v>> : v \in {0, 2, 4}}>>
CasesThorough == Cases(EeThorough, OwThorough, LhThorough, LhFileThorough, DeckThorough)
CorPosThorough == [f \in {"eeprom", "ow"} |-> IF f = "eeprom" THEN 1..21 ELSE 1..24]
====
