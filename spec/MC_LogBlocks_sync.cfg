SPECIFICATION Spec
CONSTANTS
  NC = 1
  TocC <- TocMC
  VarAlpha <- AlphaTwo
  BasicAlpha <- BasicOne
  MaxFree = 1
  MaxBasic = 1
  MaxUniform = 1
  Periods = {100}
  Statuses = {12}
  MaxOps = 6
  MaxFaults = 1
  MaxData = 4
  MaxLate = 0
  TocAlts = {}
  IdMod = 255
  Bugs <- NoBugs
  WithSync = TRUE
INVARIANT ObsOK
INVARIANT TypeOK
INVARIANT SyncOK
CHECK_DEADLOCK FALSE
