SPECIFICATION Spec
CONSTANTS
  Helper = "PHC"
  DH = 500
  DV = 500
  DL = 200
  X0 = 1000
  Y0 = 500
  Z0 = 200
CHECK_DEADLOCK FALSE
