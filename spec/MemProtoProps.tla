------------------------------ MODULE MemProtoProps ------------------------------
(* C06 -- the listed property over observable history (DESIGN 3.1(5): the weaker readings).

   Requests are numbered (rid) in the order the API calls return.  The history is
     reqs    : rid -> [kind: "read"|"write", m, addr, len, data (writes), flush, accepted]
     chunks  : rid -> Seq([addr, len])        chunk messages seen by the device for that request,
                                              consecutive identical messages (retransmissions) merged
     notes   : rid -> Seq("ok"|"fail")        completion notifications delivered to the application
     rdata   : rid -> bytes returned with the read completion
     expect  : rid -> bytes the device held at the addresses of the request when it served them
     maySup  : set of rids that a flush_queue write may have superseded before they were started
   RC / WC are the protocol limits (20 bytes per read reply, 25 bytes per write message). *)
EXTENDS Naturals, Sequences, FiniteSets

Sum(f, S) == LET RECURSIVE H(_) H(T) == IF T = {} THEN 0 ELSE LET x == CHOOSE x \in T : TRUE IN f[x] + H(T \ {x})
             IN H(S)

\* every chunk message within the protocol limit
ChunkLimit(ch, kind, RC, WC) ==
    \A i \in DOMAIN ch : ch[i].len <= (IF kind = "read" THEN RC ELSE WC)

\* the chunk messages of a request tile [addr, addr+len) exactly once, in address order
\* (a zero-length request is one message of length 0)
Tiles(ch, addr, len) ==
    /\ Len(ch) >= 1
    /\ ch[1].addr = addr
    /\ \A i \in 1..(Len(ch) - 1) : ch[i + 1].addr = ch[i].addr + ch[i].len
    /\ ch[Len(ch)].addr + ch[Len(ch)].len = addr + len
    /\ \A i \in DOMAIN ch : ch[i].len > 0 \/ len = 0

\* a prefix of the tiling (request failed / aborted / still running)
TilesPrefix(ch, addr, len) ==
    /\ Len(ch) >= 1 => ch[1].addr = addr
    /\ \A i \in 1..(Len(ch) - 1) : ch[i + 1].addr = ch[i].addr + ch[i].len
    /\ Len(ch) >= 1 => ch[Len(ch)].addr + ch[Len(ch)].len <= addr + len

AtMostOneNote(n) == Len(n) <= 1
=============================================================================
