SPECIFICATION Spec
CONSTANTS
  Mode = "est"
  BsIds = {1, 2, 3, 4}
  MaxMeas = 0
  Deltas <- DeltasQuick
  Diffs = {0}
  MinBs = {0}
  MaxSamples = 3
  SampleSets <- AllSampleSets
  MaxOutliers = 0
  Bug = "none"
  PrintCases = TRUE
INVARIANT MatchOK
INVARIANT EstOK
INVARIANT PipeMin2AllLinking
INVARIANT LinkMonotone
INVARIANT TypeOK
CHECK_DEADLOCK FALSE
