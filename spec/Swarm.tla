------------------------------ MODULE Swarm ------------------------------
(* Design spec of cflib.crazyflie.swarm.Swarm (C19).

   One action per scheduler step of the real code under vsched, i.e. per region between two
   yield points.  Yield points: Thread.start / thread begin / Thread.join, every read and write of
   Reporter.error_reported and Reporter._errors (class-level descriptors installed by the
   harness), and one harness yield inside every action, open_link and close_link of the
   instrumented members, and one at the boundary between two API calls of the caller.

   Threads: the caller ("user", role 0) and one member thread per member of the current
   parallel_safe (roles 1..n).

     caller:  BeginOp -> [RepInit1, RepInit2, Start(1..n), Join(1..n), ReadFlag, (ReadErrs)]
                       | SeqEnd(1..)  | Close(1..n)
     member:  MBegin (thread begins, the action is entered: "call"/"open" event)
              MActEnd (the action is left: "end"/"opened" event; on a raise report_error starts)
              MRepFlag (error_reported = True written)   MRepAppend (_errors read + append)

   Bug switches on named breakages (every MC_Swarm_bug_*.cfg must be refuted by TLC).  *)
EXTENDS Naturals, Sequences, FiniteSets, TLC

CONSTANTS MaxN,       \* swarm sizes 0..MaxN
          NOps,       \* API calls per behaviour
          Kinds,      \* subset of {"seq", "par", "psafe", "open", "close"}
          ArgDicts,   \* argument dictionaries: sequences (one entry per member) of sequences
          Bug         \* "none" | "NoJoin" | "SharedArgs" | "OpenNoClose" | "ParRaises" | "Reopen"
                      \* | "Swallow" | "SeqSkip"

P == INSTANCE SwarmProps

VARIABLES n,          \* swarm size (chosen initially)
          isOpen,     \* Swarm._is_open
          hopen,      \* history: the swarm is open in the sense of SwarmProps!OpenNext
          left, opn,  \* calls still to make / calls made
          cur,        \* the record (SwarmProps) of the current or last API call
          upc, ui,    \* caller: program counter, loop index
          mpc,        \* member threads of the current parallel_safe
          rep,        \* the Reporter: [flag, errs]
          fail,       \* members whose action / open_link raises in the current call
          pchain      \* open_links: error chained by the failed parallel_safe, raised after closing

vars == <<n, isOpen, hopen, left, opn, cur, upc, ui, mpc, rep, fail, pchain>>

EmptyRep == [flag |-> FALSE, errs |-> <<>>]
NoThreads == [i \in 1..MaxN |-> "none"]
Evt(t, m, a, r, x) == [t |-> t, m |-> m, a |-> a, r |-> r, x |-> x]
Err(m) == opn * 10 + m
NoOp == [kind |-> "none", n |-> 0, hasargs |-> FALSE, argd |-> <<>>, wasOpen |-> FALSE, h |-> <<>>,
         returned |-> TRUE, retAt |-> 0, r |-> "ok", chain |-> {}]
Quiet == cur.returned /\ \A i \in 1..MaxN : mpc[i] \in {"none", "done"}

Init == /\ n \in 0..MaxN
        /\ isOpen = FALSE /\ hopen = FALSE
        /\ left = NOps /\ opn = 0
        /\ cur = NoOp
        /\ upc = "boundary" /\ ui = 0
        /\ mpc = NoThreads /\ rep = EmptyRep /\ fail = {} /\ pchain = {}

\* the call comes back to the caller (who goes on to the next boundary, or is through)
Complete(op, r, chain, open, l) ==
    /\ cur' = [op EXCEPT !.returned = TRUE, !.retAt = Len(op.h), !.r = r, !.chain = chain]
    /\ isOpen' = open
    /\ hopen' = P!OpenNext(hopen, cur')
    /\ upc' = IF l = 0 THEN "finished" ELSE "boundary"
    /\ ui' = 0

\* arguments the action of member i is called with
CatArgs[i \in 0..MaxN] == IF i = 0 THEN <<>> ELSE CatArgs[i - 1] \o cur.argd[i]
CallArgs(op, i) == IF ~op.hasargs THEN <<>>
                   ELSE IF Bug = "SharedArgs" THEN CatArgs[i] ELSE op.argd[i]

BeginOp(k, F, am, ad) ==
    /\ upc = "boundary" /\ left > 0 /\ Quiet
    /\ F \subseteq 1..n
    /\ k \in {"close"} => F = {}
    /\ k \in {"open", "close"} => ~am
    /\ LET op == [kind |-> k, n |-> n, hasargs |-> am, argd |-> ad, wasOpen |-> hopen, h |-> <<>>,
                  returned |-> FALSE, retAt |-> 0, r |-> "", chain |-> {}]
           l == left - 1
       IN /\ left' = l /\ opn' = opn + 1 /\ fail' = F
          /\ rep' = EmptyRep /\ mpc' = NoThreads /\ pchain' = {}
          /\ CASE k = "seq" ->
                    IF n = 0 THEN Complete(op, "ok", {}, isOpen, l)
                    ELSE /\ cur' = [op EXCEPT !.h = <<Evt("call", 1, IF am THEN ad[1] ELSE <<>>, "", 0)>>]
                         /\ upc' = "seqact" /\ ui' = 1 /\ UNCHANGED <<isOpen, hopen>>
               [] k \in {"par", "psafe"} ->
                    /\ cur' = op /\ upc' = "repinit1" /\ ui' = 0 /\ UNCHANGED <<isOpen, hopen>>
               [] k = "open" ->
                    IF isOpen /\ Bug # "Reopen" THEN Complete(op, "raise", {}, isOpen, l)
                    ELSE /\ cur' = op /\ upc' = "repinit1" /\ ui' = 0 /\ UNCHANGED <<isOpen, hopen>>
               [] k = "close" ->
                    IF n = 0 THEN Complete(op, "ok", {}, FALSE, l)
                    ELSE /\ cur' = [op EXCEPT !.h = <<Evt("close", 1, <<>>, "", 0)>>]
                         /\ upc' = "closing" /\ ui' = 1 /\ UNCHANGED <<isOpen, hopen>>
    /\ UNCHANGED n

\* ---- sequential(): the caller itself runs the actions
SeqEnd(i) ==
    /\ upc = "seqact" /\ ui = i
    /\ IF i \in fail
       THEN Complete([cur EXCEPT !.h = Append(@, Evt("end", i, <<>>, "raise", Err(i)))],
                     "raise", {Err(i)}, isOpen, left)
       ELSE LET h1 == Append(cur.h, Evt("end", i, <<>>, "ok", 0))
                nx == IF Bug = "SeqSkip" /\ i = 1 THEN 3 ELSE i + 1
            IN IF nx > n THEN Complete([cur EXCEPT !.h = h1], "ok", {}, isOpen, left)
               ELSE /\ cur' = [cur EXCEPT !.h = Append(h1, Evt("call", nx, CallArgs(cur, nx), "", 0))]
                    /\ ui' = nx /\ UNCHANGED <<isOpen, hopen, upc>>
    /\ UNCHANGED <<n, left, opn, mpc, rep, fail, pchain>>

\* ---- parallel_safe(): Reporter(), start all, join all, inspect
RepInit1 == /\ upc = "repinit1" /\ upc' = "repinit2"
            /\ UNCHANGED <<n, isOpen, hopen, left, opn, cur, ui, mpc, rep, fail, pchain>>
RepInit2 == /\ upc = "repinit2"
            /\ IF n = 0 THEN upc' = "readflag" /\ ui' = 0 ELSE upc' = "start" /\ ui' = 1
            /\ UNCHANGED <<n, isOpen, hopen, left, opn, cur, mpc, rep, fail, pchain>>
Start(i) == /\ upc = "start" /\ ui = i
            /\ mpc' = [mpc EXCEPT ![i] = "spawned"]
            /\ IF i < n THEN ui' = i + 1 /\ upc' = upc ELSE ui' = 1 /\ upc' = "join"
            /\ UNCHANGED <<n, isOpen, hopen, left, opn, cur, rep, fail, pchain>>
Join(i) == /\ upc = "join" /\ ui = i
           /\ mpc[i] = "done" \/ Bug = "NoJoin"
           /\ IF i < n THEN ui' = i + 1 /\ upc' = upc ELSE ui' = 0 /\ upc' = "readflag"
           /\ UNCHANGED <<n, isOpen, hopen, left, opn, cur, mpc, rep, fail, pchain>>

\* close_links() inside open_links after a failure, or as its own call
StartClosing(chain) ==
    IF n = 0 \/ Bug = "OpenNoClose" THEN Complete(cur, "raise", chain, FALSE, left) /\ pchain' = {}
    ELSE /\ cur' = [cur EXCEPT !.h = Append(@, Evt("close", 1, <<>>, "", 0))]
         /\ upc' = "closing" /\ ui' = 1 /\ pchain' = chain /\ UNCHANGED <<isOpen, hopen>>

Failed(chain) ==      \* parallel_safe raised
    CASE cur.kind = "psafe" -> Complete(cur, "raise", chain, isOpen, left) /\ pchain' = {}
      [] cur.kind = "par" -> Complete(cur, IF Bug = "ParRaises" THEN "raise" ELSE "ok",
                                      IF Bug = "ParRaises" THEN chain ELSE {}, isOpen, left) /\ pchain' = {}
      [] cur.kind = "open" -> StartClosing(chain)

ReadFlag ==
    /\ upc = "readflag"
    /\ IF rep.flag
       THEN upc' = "readerrs" /\ UNCHANGED <<isOpen, hopen, cur, ui, pchain>>
       ELSE Complete(cur, "ok", {}, IF cur.kind = "open" THEN TRUE ELSE isOpen, left) /\ UNCHANGED pchain
    /\ UNCHANGED <<n, left, opn, mpc, rep, fail>>
ReadErrs ==
    /\ upc = "readerrs"
    /\ Failed(IF rep.errs = <<>> THEN {} ELSE {rep.errs[1]})   \* errors[0]; IndexError chains nothing
    /\ UNCHANGED <<n, left, opn, mpc, rep, fail>>

Close(i) ==
    /\ upc = "closing" /\ ui = i
    /\ IF i < n
       THEN /\ cur' = [cur EXCEPT !.h = Append(@, Evt("close", i + 1, <<>>, "", 0))]
            /\ ui' = i + 1 /\ UNCHANGED <<isOpen, hopen, upc, pchain>>
       ELSE /\ IF cur.kind = "open" THEN Complete(cur, "raise", pchain, FALSE, left)
               ELSE Complete(cur, "ok", {}, FALSE, left)
            /\ pchain' = {}
    /\ UNCHANGED <<n, left, opn, mpc, rep, fail>>

\* ---- member threads (_thread_function_wrapper)
MBegin(i) ==
    /\ mpc[i] = "spawned"
    /\ mpc' = [mpc EXCEPT ![i] = "acting"]
    /\ cur' = [cur EXCEPT !.h = Append(@, IF cur.kind = "open" THEN Evt("open", i, <<>>, "", 0)
                                          ELSE Evt("call", i, CallArgs(cur, i), "", 0))]
    /\ UNCHANGED <<n, isOpen, hopen, left, opn, upc, ui, rep, fail, pchain>>
MActEnd(i) ==
    /\ mpc[i] = "acting"
    /\ LET t == IF cur.kind = "open" THEN "opened" ELSE "end" IN
       IF i \in fail
       THEN /\ cur' = [cur EXCEPT !.h = Append(@, Evt(t, i, <<>>, "raise", Err(i)))]
            /\ mpc' = [mpc EXCEPT ![i] = IF Bug = "Swallow" THEN "done" ELSE "rep1"]
       ELSE /\ cur' = [cur EXCEPT !.h = Append(@, Evt(t, i, <<>>, "ok", 0))]
            /\ mpc' = [mpc EXCEPT ![i] = "done"]
    /\ UNCHANGED <<n, isOpen, hopen, left, opn, upc, ui, rep, fail, pchain>>
MRepFlag(i) ==
    /\ mpc[i] = "rep1"
    /\ rep' = [rep EXCEPT !.flag = TRUE]
    /\ mpc' = [mpc EXCEPT ![i] = "rep2"]
    /\ UNCHANGED <<n, isOpen, hopen, left, opn, cur, upc, ui, fail, pchain>>
MRepAppend(i) ==
    /\ mpc[i] = "rep2"
    /\ rep' = [rep EXCEPT !.errs = Append(@, Err(i))]
    /\ mpc' = [mpc EXCEPT ![i] = "done"]
    /\ UNCHANGED <<n, isOpen, hopen, left, opn, cur, upc, ui, fail, pchain>>

UserNext == \/ \E k \in Kinds, F \in SUBSET (1..MaxN), am \in BOOLEAN, ad \in ArgDicts : BeginOp(k, F, am, ad)
            \/ RepInit1 \/ RepInit2 \/ ReadFlag \/ ReadErrs
            \/ \E i \in 1..MaxN : Start(i) \/ Join(i) \/ Close(i) \/ SeqEnd(i)
MemberNext(i) == MBegin(i) \/ MActEnd(i) \/ MRepFlag(i) \/ MRepAppend(i)
Next == UserNext \/ \E i \in 1..MaxN : MemberNext(i)

Spec == Init /\ [][Next]_vars

\* what the harness can see of the real objects after every step
Proj == [isOpen |-> isOpen, flag |-> rep.flag, errs |-> rep.errs,
         started |-> {i \in 1..MaxN : mpc[i] # "none"},
         fin |-> {i \in 1..MaxN : mpc[i] = "done"}]

\* ---- properties (C19)
RetOK == (cur.returned /\ cur.kind # "none") => P!RetClause(cur) = "ok"
FinalOK == (Quiet /\ cur.kind # "none") => P!FinalClause(cur) = "ok"
\* ---- design-level facts (binding of _is_open to its observable meaning, no stragglers)
QuietAtBoundary == upc \in {"boundary", "finished"} => Quiet
OpenFlagMeans == upc \in {"boundary", "finished"} => (isOpen = hopen)
OpenSucceeds == (cur.kind = "open" /\ cur.returned /\ ~cur.wasOpen) =>
                    ((cur.r = "ok") <=> (P!OpenRaised(cur) = {}))
TypeOK == /\ n \in 0..MaxN /\ isOpen \in BOOLEAN /\ left \in 0..NOps
          /\ upc \in {"boundary", "finished", "seqact", "repinit1", "repinit2", "start", "join",
                      "readflag", "readerrs", "closing"}
          /\ \A i \in 1..MaxN : mpc[i] \in {"none", "spawned", "acting", "rep1", "rep2", "done"}
=============================================================================
