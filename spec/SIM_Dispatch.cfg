SPECIFICATION Spec
CONSTANTS
  NRegs = 4
  Patterns <- PatternsThorough
  Headers <- HeadersThorough
  NPackets = 3
  LiveIteration = FALSE
INVARIANT AllPacketsOK
CHECK_DEADLOCK FALSE
