SPECIFICATION Spec
CONSTANT WaitMode = "wake"
CHECK_DEADLOCK FALSE
