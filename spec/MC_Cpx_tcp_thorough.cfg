SPECIFICATION Spec
CONSTANTS
  Packets <- PacketsTcp
  MaxPackets = 3
  NR = 1
  RFns <- RFnsTcp
  SendSets <- Send1Tcp
  MaxSends = 2
  Mode = "tcp"
  LateRegister = FALSE
  Bug = "none"
INVARIANT TypeOK
INVARIANT CodecOK
INVARIANT ReadsOK
INVARIANT RouteOK
INVARIANT DownOK
INVARIANT UpOK
CHECK_DEADLOCK FALSE
