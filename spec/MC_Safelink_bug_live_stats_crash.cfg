SPECIFICATION FairSpec
CONSTANTS
  NUp = 2
  NDown = 2
  Retries = 3
  NegAttempts = 3
  MaxLoss = 4
  MaxNegLoss = 1
  MaxRestarts = 0
  MaxSlow = 0
  PeerModes <- ModesSL
  DenyReplies <- DenyOne
  AckTails <- TailsAll
  Bug = "stats_crash"
PROPERTY EventuallyDelivered
CHECK_DEADLOCK FALSE
