SPECIFICATION Spec
CONSTANTS
  Cfg0 <- CfgA
  Users = {1, 2}
  Ops <- OpsAsIs
  MaxOps = 2
  Notifs <- NotifsA
  MaxNotif = 1
  MaxDup = 0
  DistinctPatterns = FALSE
  Bug = "waitTimeout"
  OneQueryPerCmd = FALSE
INVARIANT TypeOK
INVARIANT CallsOK
INVARIANT WireOK
INVARIANT RxOK
INVARIANT GetOK
INVARIANT FinalOK
INVARIANT EndOK
INVARIANT NoWedge
CHECK_DEADLOCK FALSE
