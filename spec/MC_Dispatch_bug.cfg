SPECIFICATION Spec
CONSTANTS
  NRegs = 3
  Patterns <- PatternsQuick
  Headers <- HeadersQuick
  NPackets = 2
  LiveIteration = TRUE
INVARIANT AllPacketsOK
INVARIANT NoDupRegs
INVARIANT TypeOK
CHECK_DEADLOCK FALSE
