SPECIFICATION Spec
CONSTANTS
  Pats <- MCPats
  Tmo <- MCTmo
  Packets <- MCPackets
  MaxTimers = 3
  MaxSess = 2
  MaxTime = 400
  MaxReqs = 2
  MaxAns = 1
  Reliable = TRUE
  Bug = "none"
INVARIANT NoClosedLinkTx
INVARIANT NoCrossSession
INVARIANT NoRetryWhenReliable
INVARIANT Interval
INVARIANT NoRetryAfterAnswer
INVARIANT ChainAlive
INVARIANT NoOrphans
INVARIANT NoLockLeak
INVARIANT ChainKept
CHECK_DEADLOCK FALSE
