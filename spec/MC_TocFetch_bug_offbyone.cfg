SPECIFICATION Spec
CONSTANTS
  Configs <- ConfigsBugSmall
  Budget = 1
  Window <- WindowAll
  Bug = "OffByOne"
INVARIANT TableAtDone
INVARIANT TableStaysOK
INVARIANT LookupsOK
CHECK_DEADLOCK FALSE
