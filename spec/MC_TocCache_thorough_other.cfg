SPECIFICATION Spec
CONSTANTS
  Crcs <- Crcs2
  CrcSeq <- CrcSeq2
  LogTables <- LogQuick
  ParamTables <- ParQuick
  FLen = 2
  Alias <- AliasBeef
  Bug = "none"
  MaxConnect = 2
  MaxCrash = 1
  MaxOther = 1
  OtherTables <- OtherTabs
  MaxEnv = 0
INVARIANT SetupsOK
INVARIANT ConnectionOK
INVARIANT RoNeverWritten
INVARIANT TypeOK
INVARIANT KnownInDirs
CHECK_DEADLOCK FALSE
