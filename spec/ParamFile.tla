------------------------------ MODULE ParamFile ------------------------------
(* Design spec of cflib.utils.param_file_helper.ParamFileHelper.store_params_from_file on top
   of the parameter subsystem as far as the helper uses it (X02, extra specification).

   Code modelled (one action per yield-to-yield region that has an observable effect):

     helper (user thread)                     store_params_from_file
       Begin(f)        ParamFileManager().read(file) -> entries f in file order; first loop iteration up to
                       the first queue operation (see "helper" below: what the thread does next is decided
                       by the table lookups at the end of the previous region)
       UPutSet         Param.set_value(name, value): the write request is put on the updater's FIFO;
                       then Param.persistent_store looks the element up
       UPutStore       Param.persistent_store(name, cb): the store request is put on the FIFO
       UNoElem         persistent_store found no element (table emptied by a disconnect): cb(name, False)
       UWake           persistent_sema.wait() returned; `if not self.success: break`; next entry:
                       self.persistent_sema = Event(); set_value looks the element up -> KeyError (name not in
                       the table / table emptied), AttributeError (read-only), TypeError (stored_value None)
       URet            return self.success / the exception propagates (for an empty file: the flag of the
                       previous call; False on a new helper)
       THE HELPER NEVER WAITS FOR THE VALUE-UPDATED CALLBACK AND ITS wait() HAS NO TIMEOUT: the order
       write-confirmed-before-store is produced by the updater (one request in flight, FIFO).

     _ParamUpdater thread
       UpdSend         request_queue.get(); wait_lock.acquire(); link up: remember the release pattern
                       (and the reply callback), send_packet(expected_reply=pattern)
       Retry/EarlyRetry/LateRetry  Crazyflie._no_answer_do_retry: the retry timer (0.2 s) of an unanswered
                       request fires on a link that needs resending (Early: the answer is still under way;
                       Late: the answer was processed between the timer's check and its transmission)

     dispatcher thread
       Arrive          (environment) the oldest reply in the air is put into the link's in_queue
       Deliver         packet received; _ParamUpdater._new_packet_cb: pattern matches the request in
                       flight -> (write: updated_callback) pattern cleared, wait_lock released
       FireCb          ... the reply callback of a store request: helper._persistent_stored_callback
                       (success := status == 0; persistent_sema.set())

     environment
       Transmit        the device executes the request when it arrives; its answer is in the air (`chan`)
       Drop / Dup      the link loses / duplicates the oldest reply in the air
       LinkDrop        link error or close_link: link closed, cf.link = None, replies in the air are gone
                       (what is already in the in_queue may still be dispatched)
       UpdClose        Param._disconnected: updater.close() (FIFO emptied, wait_lock force-released),
                       toc = Toc()      [WaitMode = "wake": + the proposed helper patch: the waiter notices
                       that the connection is gone, success := False, the wait ends]

   Every action emits exactly one observable event `obs` (same record shape as the events the
   harness records from the real code); `mon`/`bad` are ParamFileProps' monitor state and first
   failing clause, computed with the very operators the trace spec uses.                        *)
EXTENDS Naturals, Integers, Sequences, FiniteSets, TLC

CONSTANTS NP,          \* device parameters 1..NP (0 in a file = a name the device does not have)
          Vals,        \* values (q = 4 * value) a file may hold; -1 (no value) is always possible if NoValue
          NoValue,     \* BOOLEAN: files may hold entries without stored value
          Natures,     \* subset of {"ok", "ro", "nonpers"}
          Statuses,    \* status bytes the device may answer to a store request of an "ok" parameter
          MaxFile,     \* entries per file
          NCalls,      \* calls on the one helper object
          Resend,      \* the link needs resending (radio) or not (USB)
          MaxDrop, MaxDup, MaxEarly,
          LinkLoss,    \* BOOLEAN: the environment may take the connection away
          WaitMode,    \* "forever" = the code as found; "wake" = with the proposed patch
          Bug          \* "none" | seeded defects (see the actions)

P == INSTANCE ParamFileProps

Params == 1..NP
NoReq  == [k |-> "none", p |-> 0, q |-> 0, n |-> 0]
QReq(k, p, q, n) == [k |-> k, p |-> p, q |-> q, n |-> n]
NoCb   == [p |-> 0, ok |-> FALSE]

VARIABLES nature, status,             \* device table, chosen by Setup
          pc, rres, file, i, success, sema, ncalls,      \* helper / user thread (rres: result about to be returned)
          queue, inflight, nissue,    \* updater: FIFO, request in flight (wait_lock held); requests issued so far
          lasttx,                     \* the request transmitted last (a retry already decided may still go out)
          pendcb,                     \* dispatcher: reply callback about to run
          link, chan, inq,            \* "up" | "dropped" | "down";  replies in the air; replies in the host's in_queue
          dval, dstored,              \* device: value and stored value (q units, -1 = none)
          ndrop, ndup, nearly,        \* environment budgets
          obs, mon, bad               \* last event, monitor state, first failing clause

vars == <<nature, status, pc, rres, file, i, success, sema, ncalls, queue, inflight, nissue, lasttx, pendcb, link, chan, inq,
          dval, dstored, ndrop, ndup, nearly, obs, mon, bad>>
\* the last event does not influence behaviour
view == <<nature, status, pc, rres, file, i, success, sema, ncalls, queue, inflight, nissue, lasttx, pendcb, link, chan, inq,
          dval, dstored, ndrop, ndup, nearly, mon, bad>>

E0 == [e |-> "", n |-> 0, k |-> "", p |-> 0, q |-> 0, dv |-> 0, st |-> 0, ok |-> FALSE, res |-> "", f |-> <<>>]
EReq(e, r) == [E0 EXCEPT !.e = e, !.k = r.k, !.p = r.p, !.q = r.q]      \* r: a reply
EQ(e, r)   == [E0 EXCEPT !.e = e, !.n = r.n, !.k = r.k, !.p = r.p, !.q = r.q]   \* r: a numbered request

Emit(ev) == /\ obs' = ev
            /\ mon' = P!Apply(mon, ev)
            /\ bad' = IF bad = "ok" THEN P!EventClause(mon, ev) ELSE bad

\* ---- configuration ------------------------------------------------------------------------
Entries == [p : 0..NP, q : Vals \cup (IF NoValue THEN {-1} ELSE {})]
SeqsUpTo(S, n) == UNION {[1..m -> S] : m \in 0..n}
FileSpace == {f \in SeqsUpTo(Entries, MaxFile) : \A a, b \in DOMAIN f : a # b => f[a].p # f[b].p}
Tables == {t \in [Params -> [nat : Natures, st : Statuses]] : \A p \in Params : t[p].nat # "ok" => t[p].st = 0}

Init == /\ nature = [p \in Params |-> "ok"] /\ status = [p \in Params |-> 0]
        /\ pc = "setup" /\ rres = "" /\ file = <<>> /\ i = 0 /\ success = FALSE /\ sema = FALSE /\ ncalls = 0
        /\ queue = <<>> /\ inflight = NoReq /\ nissue = 0 /\ lasttx = NoReq /\ pendcb = NoCb
        /\ link = "up" /\ chan = <<>> /\ inq = <<>>
        /\ dval = [p \in Params |-> 0] /\ dstored = [p \in Params |-> -1]
        /\ ndrop = 0 /\ ndup = 0 /\ nearly = 0
        /\ obs = E0 /\ mon = P!M0([p \in Params |-> "ok"]) /\ bad = "ok"

Setup(t) ==
    /\ pc = "setup"
    /\ nature' = [p \in Params |-> t[p].nat]
    /\ status' = [p \in Params |-> t[p].st]
    /\ pc' = "config"
    /\ obs' = [E0 EXCEPT !.e = "setup"] /\ mon' = P!M0([p \in Params |-> t[p].nat]) /\ bad' = bad
    /\ UNCHANGED <<inq, lasttx, nissue, rres, file, i, success, sema, ncalls, queue, inflight, pendcb, link, chan, dval, dstored,
                   ndrop, ndup, nearly>>

\* ---- helper -------------------------------------------------------------------------------
(* The user thread runs from one synchronisation operation to the next; what it will do next is
   decided at the END of the previous region (the table lookups of set_value / persistent_store are
   not atomic with the queue operations that follow them).  pc names the operation it is parked at:
     "put_set"   request_queue.put of the write request of entry i
     "put_store" request_queue.put of the store request of entry i
     "noelem"    persistent_store found no element: about to call the callback with False itself
     "wait"      persistent_sema.wait()
     "ret"       about to return / raise rres                                                     *)
Order(f) == IF Bug = "reverse" THEN [j \in DOMAIN f |-> f[Len(f) + 1 - j]] ELSE f

\* set_value(name, value) for entry e, looked up now: "" = the request will be queued
SetExc(e) == IF link = "down" \/ e.p = 0 THEN "KeyError"
             ELSE IF nature[e.p] = "ro" THEN "AttributeError"
             ELSE IF e.q < 0 THEN "TypeError"
             ELSE ""
\* persistent_store(name, cb) for entry e, looked up now
StoreTo(e) == IF link = "down" \/ e.p = 0 THEN "noelem"
              ELSE IF nature[e.p] # "ok" THEN "ret"
              ELSE "put_store"

\* first half of a loop iteration for entry e (self.persistent_sema = Event(); first API call)
Enter(e) == /\ sema' = FALSE
            /\ IF Bug = "storeFirst"
               THEN pc' = StoreTo(e) /\ rres' = (IF StoreTo(e) = "ret" THEN "AttributeError" ELSE rres)
               ELSE /\ pc' = (IF SetExc(e) = "" THEN "put_set" ELSE "ret")
                    /\ rres' = (IF SetExc(e) = "" THEN rres ELSE SetExc(e))
\* the loop is left: return self.success
Leave == pc' = "ret" /\ rres' = (IF success THEN "true" ELSE "false") /\ sema' = sema

Begin(f) ==
    /\ pc = "config" /\ ncalls < NCalls
    /\ file' = Order(f) /\ i' = 1
    /\ IF f = <<>> THEN Leave ELSE Enter(Order(f)[1])
    /\ Emit([E0 EXCEPT !.e = "call", !.f = f])
    /\ UNCHANGED <<inq, lasttx, nature, status, success, ncalls, queue, inflight, nissue, pendcb, link, chan, dval,
                   dstored, ndrop, ndup, nearly>>

Issue(r) == queue' = Append(queue, r) /\ nissue' = nissue + 1 /\ Emit(EQ("issue", r))

\* after the wait (or instead of it: Bug "noWait"): `if not self.success: break`, next entry or return
AfterWait == IF ~(success \/ Bug = "noBreak") \/ i = Len(file)
             THEN Leave /\ i' = i
             ELSE i' = i + 1 /\ Enter(file[i + 1])

\* the second API call of the iteration is through: wait (or not)
Second == IF Bug = "noWait" THEN AfterWait ELSE pc' = "wait" /\ UNCHANGED <<i, sema, rres>>

UPutSet ==
    /\ pc = "put_set"
    /\ Issue(QReq("set", file[i].p, file[i].q, nissue + 1))
    /\ IF Bug = "storeFirst" THEN Second
       ELSE /\ pc' = StoreTo(file[i])
            /\ rres' = (IF StoreTo(file[i]) = "ret" THEN "AttributeError" ELSE rres)
            /\ UNCHANGED <<i, sema>>
    /\ UNCHANGED <<inq, lasttx, nature, status, file, success, ncalls, inflight, pendcb, link, chan, dval, dstored,
                   ndrop, ndup, nearly>>

UPutStore ==
    /\ pc = "put_store"
    /\ Issue(QReq("store", file[i].p, 0, nissue + 1))
    /\ IF Bug = "storeFirst"
       THEN /\ pc' = (IF SetExc(file[i]) = "" THEN "put_set" ELSE "ret")
            /\ rres' = (IF SetExc(file[i]) = "" THEN rres ELSE SetExc(file[i]))
            /\ UNCHANGED <<i, sema>>
       ELSE Second
    /\ UNCHANGED <<inq, lasttx, nature, status, file, success, ncalls, inflight, pendcb, link, chan, dval, dstored,
                   ndrop, ndup, nearly>>

UNoElem ==
    /\ pc = "noelem"
    /\ success' = FALSE /\ sema' = TRUE /\ pc' = "wait"
    /\ Emit([E0 EXCEPT !.e = "cb", !.p = file[i].p, !.ok = FALSE])
    /\ UNCHANGED <<inq, lasttx, nature, status, file, i, rres, ncalls, queue, inflight, nissue, pendcb, link, chan, dval,
                   dstored, ndrop, ndup, nearly>>

UWake ==
    /\ pc = "wait" /\ sema
    /\ AfterWait
    /\ Emit([E0 EXCEPT !.e = "wake"])
    /\ UNCHANGED <<inq, lasttx, nature, status, file, success, ncalls, queue, inflight, nissue, pendcb, link, chan, dval,
                   dstored, ndrop, ndup, nearly>>

URet ==
    /\ pc = "ret"
    /\ pc' = "config" /\ ncalls' = ncalls + 1
    /\ Emit([E0 EXCEPT !.e = "ret", !.res = rres])
    /\ UNCHANGED <<inq, lasttx, nature, status, file, i, rres, success, sema, queue, inflight, nissue, pendcb, link, chan,
                   dval, dstored, ndrop, ndup, nearly>>

\* ---- updater / device ---------------------------------------------------------------------
Transmit(r) ==
    IF r.k = "set"
    THEN /\ dval' = [dval EXCEPT ![r.p] = r.q]
         /\ dstored' = dstored
         /\ chan' = Append(chan, [k |-> "set", p |-> r.p, q |-> r.q])
         /\ Emit([EQ("tx", r) EXCEPT !.dv = r.q, !.st = 0])
    ELSE /\ dval' = dval
         /\ dstored' = IF status[r.p] = 0 THEN [dstored EXCEPT ![r.p] = dval[r.p]] ELSE dstored
         /\ chan' = Append(chan, [k |-> "store", p |-> r.p, q |-> status[r.p]])
         /\ Emit([EQ("tx", r) EXCEPT !.dv = dval[r.p], !.st = status[r.p]])

UpdSend ==
    /\ link = "up" /\ queue # <<>>
    /\ inflight = NoReq \/ Bug = "noSerial"
    /\ queue' = Tail(queue) /\ inflight' = Head(queue) /\ lasttx' = Head(queue)
    /\ Transmit(Head(queue))
    /\ UNCHANGED <<inq, nissue, nature, status, pc, rres, file, i, success, sema, ncalls, pendcb, link, ndrop, ndup, nearly>>

Retry ==
    /\ Resend /\ link = "up" /\ inflight # NoReq /\ chan = <<>> /\ inq = <<>>
    /\ Transmit(inflight)
    /\ UNCHANGED <<inq, lasttx, nissue, nature, status, pc, rres, file, i, success, sema, ncalls, queue, inflight, pendcb, link,
                   ndrop, ndup, nearly>>

EarlyRetry ==
    /\ Resend /\ link = "up" /\ inflight # NoReq /\ (chan # <<>> \/ inq # <<>>) /\ nearly < MaxEarly
    /\ nearly' = nearly + 1
    /\ Transmit(inflight)
    /\ UNCHANGED <<inq, lasttx, nissue, nature, status, pc, rres, file, i, success, sema, ncalls, queue, inflight, pendcb, link,
                   ndrop, ndup>>

\* a retry that was decided (timer fired, request still unanswered) just before the answer was processed
\* goes out afterwards: send_packet holds _send_lock, so it precedes the next request
LateRetry ==
    /\ Resend /\ link = "up" /\ inflight = NoReq /\ lasttx # NoReq /\ nearly < MaxEarly
    /\ nearly' = nearly + 1
    /\ Transmit(lasttx)
    /\ UNCHANGED <<inq, lasttx, nissue, nature, status, pc, rres, file, i, success, sema, ncalls, queue, inflight, pendcb,
                   link, ndrop, ndup>>

\* ---- dispatcher ---------------------------------------------------------------------------
\* the oldest reply in the air reaches the host (the link driver puts it into its in_queue)
Arrive ==
    /\ link = "up" /\ chan # <<>>
    /\ chan' = Tail(chan) /\ inq' = Append(inq, Head(chan))
    /\ Emit(EReq("arrive", Head(chan)))
    /\ UNCHANGED <<lasttx, nissue, nature, status, pc, rres, file, i, success, sema, ncalls, queue, inflight, pendcb,
                   link, dval, dstored, ndrop, ndup, nearly>>

\* the dispatcher takes it (also after the link was closed, if it was already waiting in
\* receive_packet of that link) and dispatches it
Deliver ==
    /\ inq # <<>> /\ pendcb = NoCb
    /\ LET r == Head(inq)
           match == inflight # NoReq /\ r.k = inflight.k /\ r.p = inflight.p
       IN /\ inq' = Tail(inq)
          /\ inflight' = IF match THEN NoReq ELSE inflight
          /\ pendcb' = IF match /\ r.k = "store" THEN [p |-> r.p, ok |-> (r.q = 0)] ELSE NoCb
          /\ Emit(EReq("rx", r))
    /\ UNCHANGED <<lasttx, nissue, nature, status, pc, rres, file, i, success, sema, ncalls, queue, link, chan, dval,
                   dstored, ndrop, ndup, nearly>>

FireCb ==
    /\ pendcb # NoCb
    /\ success' = (pendcb.ok \/ Bug = "ignoreStatus")
    /\ sema' = TRUE
    /\ pendcb' = NoCb
    /\ Emit([E0 EXCEPT !.e = "cb", !.p = pendcb.p, !.ok = (pendcb.ok \/ Bug = "ignoreStatus")])
    /\ UNCHANGED <<inq, lasttx, nissue, nature, status, pc, rres, file, i, ncalls, queue, inflight, link, chan, dval, dstored,
                   ndrop, ndup, nearly>>

\* ---- environment --------------------------------------------------------------------------
Drop ==
    /\ link = "up" /\ chan # <<>> /\ ndrop < MaxDrop
    /\ chan' = Tail(chan) /\ ndrop' = ndrop + 1
    /\ Emit(EReq("lost", Head(chan)))
    /\ UNCHANGED <<inq, lasttx, nissue, nature, status, pc, rres, file, i, success, sema, ncalls, queue, inflight, pendcb, link,
                   dval, dstored, ndup, nearly>>

Dup ==
    /\ link = "up" /\ chan # <<>> /\ ndup < MaxDup
    /\ chan' = <<Head(chan)>> \o chan /\ ndup' = ndup + 1
    /\ Emit(EReq("dup", Head(chan)))
    /\ UNCHANGED <<inq, lasttx, nissue, nature, status, pc, rres, file, i, success, sema, ncalls, queue, inflight, pendcb, link,
                   dval, dstored, ndrop, nearly>>

LinkDrop ==
    /\ LinkLoss /\ link = "up" /\ pc # "setup"
    /\ link' = "dropped" /\ chan' = <<>>
    /\ Emit([E0 EXCEPT !.e = "down"])
    /\ UNCHANGED <<inq, lasttx, nissue, nature, status, pc, rres, file, i, success, sema, ncalls, queue, inflight, pendcb, dval,
                   dstored, ndrop, ndup, nearly>>

InCall == pc \in {"put_set", "put_store", "noelem", "wait", "ret"}

UpdClose ==
    /\ link = "dropped"
    /\ link' = "down" /\ queue' = <<>> /\ inflight' = NoReq
    /\ IF WaitMode = "wake" /\ InCall
       THEN success' = FALSE /\ sema' = TRUE
       ELSE UNCHANGED <<success, sema>>
    /\ Emit([E0 EXCEPT !.e = "updclose"])
    /\ UNCHANGED <<inq, lasttx, nissue, nature, status, pc, rres, file, i, ncalls, pendcb, chan, dval, dstored, ndrop, ndup, nearly>>

\* ---- next-state relation ------------------------------------------------------------------
User   == UPutSet \/ UPutStore \/ UNoElem \/ UWake \/ URet
System == User \/ UpdSend \/ Retry \/ Arrive \/ Deliver \/ FireCb \/ UpdClose
Env    == EarlyRetry \/ LateRetry \/ Drop \/ Dup \/ LinkDrop
NextNoConfig == System \/ Env
Next == (\E t \in Tables : Setup(t)) \/ (\E f \in FileSpace : Begin(f)) \/ NextNoConfig

Spec     == Init /\ [][Next]_vars
FairSpec == Spec /\ WF_vars(System)

\* ---- properties ---------------------------------------------------------------------------
PropsOK == bad = "ok"
\* one invariant per clause so that a bug configuration can name what must be refuted
NoIssuedOutOfOrder     == bad # "IssuedOutOfOrder"
NoIssuedAfterEnd       == bad # "IssuedAfterEnd"
NoWireOutOfOrder       == bad # "WireOutOfOrder"
NoStoreBeforeConfirm   == bad # "StoreBeforeConfirm"
NoStoredWrongValue     == bad # "StoredWrongValue"
NoTrueButNotAllWritten == bad # "TrueButNotAllWritten"
NoTrueButNotAllStored  == bad # "TrueButNotAllStored"
NoTrueAfterFailure     == bad # "TrueAfterFailure"
NoFalseWithoutFailure  == bad # "FalseWithoutFailure"
NoRaisedWithoutCause   == bad # "RaisedWithoutCause"

\* the call is stuck: nothing the library or a well-behaved environment does can wake it
Stuck == InCall /\ ~ENABLED System
NoHang == Stuck => P!EndClause(mon, TRUE, link = "up") = "ok"

\* a True result means the device really holds the file's values in persistent storage
StoredOnTrue == (mon.res = "true" /\ mon.file # <<>>) =>
                    \A j \in DOMAIN mon.file : dstored[mon.file[j].p] = mon.file[j].q

\* every call that was started ends (returns or raises)
Termination == InCall ~> ~InCall

TypeOK == /\ pc \in {"setup", "config", "put_set", "put_store", "noelem", "wait", "ret"}
          /\ link \in {"up", "dropped", "down"}
          /\ ncalls \in 0..NCalls /\ ndrop \in 0..MaxDrop /\ ndup \in 0..MaxDup /\ nearly \in 0..MaxEarly
          /\ Len(queue) <= NCalls + 1
=============================================================================
