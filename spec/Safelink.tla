------------------------------ MODULE Safelink ------------------------------
(* Design spec of the Crazyradio link (C01): cflib.crtp.radiodriver._RadioDriverThread.run /
   _send_packet_safe, RadioDriver.send_packet / receive_packet (the size-1 out_queue and the
   in_queue), against the nRF ESB safelink peer of SafelinkProps.

   One action per yield-to-yield region of the radio loop:
     NegTx(o)   one start-up frame ff 05 01 and the evaluation of its reply (after the last one:
                needs_resending := not has_safelink)
     DataTx(o)  one main-loop transmission of dataOut and the evaluation of the reply:
                _send_packet_safe's bit flips, the retry counter, the link error report, `continue`
     InPut      in_queue.put(CRTPPacket(ack payload))
     OutGet     out_queue.get(True, waitTime) -> next dataOut (the packet or the null frame ff)
   environment:
     o \in {"A","U","L"}  per-transmission outcome: delivered and acked / uplink lost / ack lost
     AppSubmit(pk)  RadioDriver.send_packet accepted pk (out_queue.put took effect)
     AppRecv        RadioDriver.receive_packet returned the head of in_queue (a non-null packet;
                    returning a null packet is a stuttering step)
     CfQueue(pk)    the Crazyflie queued pk for the host
   life cycle (RadioDriver.pause() / restart(), the same driver object runs a new comm thread):
     PauseReq       stop(): _sp := True, the caller waits in join().  The loop looks at _sp only at
                    its top (after the start-up loop, after a lost frame's `continue`, after the
                    look into out_queue): the step that reaches the top with _sp set ends the
                    thread (pc = "paused"); whatever is in dataOut then -- the unacknowledged frame
                    or the packet just taken from out_queue -- is abandoned, as the code does.
                    A loop that is already past the check transmits once more.
     Restart        restart(): a new _RadioDriverThread (bits 0/1, no safelink, fresh retry counter,
                    dataOut = ff) on the same queues and the same link object: needs_resending is
                    NOT touched until the new start-up loop is through.
     Reboot(mode)   (environment, while paused) the Crazyflie comes back with another firmware
   Bug # "none" switches on a named breakage (vacuity guards, MC_Safelink_bug_*.cfg).

   The per-session parameters (retries, negotiation attempts, peer kind) are variables fixed by
   Init, so that SafelinkTrace can bind them per trace.  *)
EXTENDS Integers, Sequences, TLC

CONSTANTS NUp, NDown,     \* packets the application submits / the Crazyflie queues (MC bounds)
          Retries,        \* configured number of consecutive unacknowledged transmissions
          NegAttempts,    \* 10 in the code
          MaxLoss,        \* budget of non-"A" main-loop outcomes ("A" is unlimited)
          MaxNegLoss,     \* budget of non-"A" start-up outcomes
          MaxSlow,        \* budget of dongle exchanges that take longer than 1 s (USB stalls)
          MaxRestarts,    \* pause()/restart() cycles (MC bound)
          PeerModes,      \* subset of {"sl","nosl","deny"}
          DenyReplies,    \* set of byte sequences a "deny" peer may answer with
          AckTails,       \* set of byte sequences following the header of an empty ack
          Bug

P == INSTANCE SafelinkProps

VARIABLES
    retries, negAtt,           \* session parameters (constant after Init)
    pc,                        \* "neg" | "tx" | "put" | "get" | "paused" (no comm thread)
    sp, nPause,                \* _sp of the running thread; pause() calls so far
    negLeft, hasSL, hUp, hDown,
    frame,                     \* dataOut
    retryLeft,                 \* _retry_before_disconnect
    pend,                      \* ack payload on its way into in_queue
    outQ, inQ,                 \* out_queue (<= 1); in_queue WITHOUT the null packets (every empty
                               \* ack is queued by the code and returned by receive_packet; they
                               \* are no packets of the property and would make the queue unbounded)
    needsRes,                  \* link.needs_resending
    peer,                      \* P!PeerInit record
    nSub, nQ, lossLeft, negLossLeft,   \* environment budgets
    usb,                       \* [stale: answers still lying in the per-link response queue of the dongle
                               \*  multiplexer (always <<>> in the code as it is), slowLeft: budget of slow exchanges]
    h                          \* observable history (record of SafelinkProps)

vars == <<retries, negAtt, pc, sp, nPause, negLeft, hasSL, hUp, hDown, frame, retryLeft, pend, outQ, inQ,
          needsRes, peer, nSub, nQ, lossLeft, negLossLeft, usb, h>>

Outcomes == {"A", "U", "L"}
NullFrame == <<255>>
\* port 3 / channel 0|1, header bits 2,3 set as CRTPPacket does; the second packet each way has no data bytes
UpPk(i) == IF i = 2 THEN <<62>> ELSE <<60 + (i % 2), i>>
DnPk(j) == IF j = 2 THEN <<82>> ELSE <<80 + (j % 2), 100 + j>>    \* port 5

H0(mode) == [acc |-> <<>>, cf |-> <<>>, cfq |-> <<>>, got |-> <<>>, link |-> <<>>,
             echo |-> FALSE, conf |-> FALSE, slUsed |-> FALSE, nrFalse |-> FALSE, peerSL |-> (mode = "sl"),
             failed |-> FALSE, closed |-> FALSE]

InitWith(r, na, mode, tail, deny) ==
    /\ retries = r /\ negAtt = na
    /\ pc = "neg" /\ sp = FALSE /\ nPause = 0 /\ negLeft = na /\ hasSL = FALSE /\ hUp = 0 /\ hDown = 1
    /\ frame = NullFrame /\ retryLeft = r /\ pend = <<>>
    /\ outQ = <<>> /\ inQ = <<>> /\ needsRes = TRUE
    /\ peer = P!PeerInit(mode, tail, deny)
    /\ nSub = 0 /\ nQ = 0
    /\ h = H0(mode)

Init == /\ \E mode \in PeerModes, tail \in AckTails, deny \in DenyReplies :
              InitWith(Retries, NegAttempts, mode, tail, deny)
        /\ lossLeft = MaxLoss /\ negLossLeft = MaxNegLoss
        /\ usb = [stale |-> <<>>, slowLeft |-> MaxSlow]

\* packet histories are those "short of a link failure": frozen at the first report
Hist(s, p) == IF P!Frozen(h) THEN s ELSE P!AddPkt(s, p)
\* the loop top: `if self._sp: break`
Top == IF sp THEN "paused" ELSE "tx"
\* link history: only the part since the last acknowledged transmission matters to the clause
LinkApp(l, x) == P!LinkAppend(l, x)

\* ---------------------------------------------------------------- start-up
NegTx(o) ==
    /\ pc = "neg" /\ negLeft > 0
    /\ o # "A" => negLossLeft > 0
    /\ negLossLeft' = IF o = "A" THEN negLossLeft ELSE negLossLeft - 1
    /\ LET r == P!PeerRx(peer, P!NegFrame)
           rep == P!UsbReply(o, r.ack)
           q == Append(usb.stale, [ack |-> o = "A", data |-> IF o = "A" THEN r.ack ELSE <<>>])
           data == Head(q).data        \* the answer the loop is handed (the oldest one queued)
           echo == IF Bug = "sl_on_any_3_bytes" THEN Len(data) = 3 ELSE data = P!NegFrame
           last == echo \/ negLeft = 1
       IN /\ peer' = IF o = "U" THEN peer ELSE r.p
          /\ hasSL' = echo
          /\ hUp' = IF echo THEN 0 ELSE hUp
          /\ hDown' = IF echo THEN 0 ELSE hDown
          /\ negLeft' = IF echo THEN 0 ELSE negLeft - 1
          /\ pc' = IF last THEN Top ELSE "neg"
          /\ needsRes' = IF Bug = "nr_only_on_success" THEN (IF echo THEN FALSE ELSE needsRes)
                         ELSE IF last THEN (IF Bug = "never_needs_resending" THEN FALSE ELSE ~echo)
                         ELSE needsRes
          /\ h' = [h EXCEPT !.echo = @ \/ P!IsEchoReply(rep),
                            !.conf = @ \/ (~h.closed /\ P!IsEchoReply(rep)),
                            !.cf = IF o # "U" /\ r.new THEN Hist(@, P!NegFrame) ELSE @,
                            !.nrFalse = @ \/ (last /\ ~needsRes')]
          /\ usb' = [usb EXCEPT !.stale = Tail(q)]
    /\ UNCHANGED <<retries, negAtt, sp, nPause, frame, retryLeft, pend, outQ, inQ, nSub, nQ, lossLeft>>

\* ---------------------------------------------------------------- main loop
Wire == IF hasSL THEN <<P!WithBits(frame[1], hUp, hDown)>> \o Tail(frame) ELSE frame

\* slow: the exchange with the dongle takes longer than 1 s (each USB transfer may take up to 1 s).
\* The code waits for the answer without a time limit, so this changes nothing -- unless
\* Bug = "rsp_timeout": the loop gives up after 1 s (answer None = "resend"), the late answer stays in
\* the response queue and every later exchange is handed the answer of the previous one.
DataTx(o, slow) ==
    /\ pc = "tx"
    /\ slow => usb.slowLeft > 0
    /\ o # "A" => lossLeft > 0
    /\ lossLeft' = IF o = "A" THEN lossLeft ELSE lossLeft - 1
    /\ LET w == Wire
           r == P!PeerRx(peer, w)
           timeout == slow /\ Bug = "rsp_timeout"
           q == Append(usb.stale, [ack |-> o = "A", data |-> IF o = "A" THEN r.ack ELSE <<>>])
           acked == Head(q).ack          \* what the loop is told
           data == Head(q).data
           flipDown == hasSL /\ acked /\ Len(data) > 0 /\ P!Bit2(data[1]) = hDown
                       /\ Bug # "never_flip_down"
           flipUp == hasSL /\ (acked \/ Bug = "flip_up_on_lost")
           rl == IF acked THEN (IF Bug = "no_retry_reset" THEN retryLeft ELSE retries)
                 ELSE retryLeft - 1
           report == ~acked /\ (IF Bug = "retry_off_by_one" THEN rl = -1 ELSE rl = 0)
           lk == LinkApp(h.link, IF o = "A" THEN "A" ELSE "L")     \* what happened on the air
       IN /\ peer' = IF o = "U" THEN peer ELSE r.p
          /\ frame' = w                       \* _send_packet_safe rewrites dataOut[0] in place
          /\ usb' = [stale |-> IF timeout THEN q ELSE Tail(q),
                     slowLeft |-> IF slow THEN usb.slowLeft - 1 ELSE usb.slowLeft]
          /\ IF timeout                       \* ackStatus None: `continue`, nothing else happens
             THEN UNCHANGED <<hDown, hUp, retryLeft, pend>> /\ pc' = Top
             ELSE /\ hDown' = IF flipDown THEN 1 - hDown ELSE hDown
                  /\ hUp' = IF flipUp THEN 1 - hUp ELSE hUp
                  /\ retryLeft' = rl
                  /\ pend' = data
                  /\ pc' = IF acked THEN (IF Len(data) > 0 THEN "put" ELSE "get")
                           ELSE IF Bug = "dequeue_on_lost" THEN "get" ELSE Top
          /\ h' = [h EXCEPT !.cf = IF o # "U" /\ r.new THEN Hist(@, w) ELSE @,
                            !.link = IF report /\ ~timeout THEN Append(lk, "E") ELSE lk,
                            !.failed = @ \/ (report /\ ~timeout),
                            !.slUsed = @ \/ (P!Bit3(w[1]) + P!Bit2(w[1]) # 2)]
    /\ UNCHANGED <<retries, negAtt, sp, nPause, negLeft, hasSL, outQ, inQ, needsRes, nSub, nQ, negLossLeft>>

InPut ==
    /\ pc = "put"
    /\ inQ' = IF P!IsNull(pend) THEN inQ ELSE Append(inQ, pend)   \* nulls abstracted away, see inQ
    /\ pc' = "get"
    /\ UNCHANGED <<usb, retries, negAtt, sp, nPause, negLeft, hasSL, hUp, hDown, frame, retryLeft, pend, outQ,
                   needsRes, peer, nSub, nQ, lossLeft, negLossLeft, h>>

OutGet ==
    /\ pc = "get"
    /\ IF outQ # <<>> THEN frame' = Head(outQ) /\ outQ' = <<>>
                      ELSE frame' = NullFrame /\ outQ' = outQ
    \* the iteration ends with RadioLinkStatistics.update(ackStatus, outPacket); Bug = "stats_crash":
    \* it raises on a two-byte null packet with type byte 1 and the comm thread dies
    /\ pc' = IF Bug = "stats_crash" /\ Len(pend) = 2 /\ P!IsNull(pend) /\ pend[2] = 1 THEN "dead" ELSE Top
    /\ UNCHANGED <<usb, retries, negAtt, sp, nPause, negLeft, hasSL, hUp, hDown, retryLeft, pend, inQ,
                   needsRes, peer, nSub, nQ, lossLeft, negLossLeft, h>>

\* ---------------------------------------------------------------- environment
AppSubmit(pk) ==
    /\ Len(outQ) = 0                      \* out_queue = Queue(1); a blocked put takes effect later
    /\ outQ' = <<pk>>
    /\ nSub' = nSub + 1
    /\ h' = [h EXCEPT !.acc = Hist(@, pk)]
    /\ UNCHANGED <<usb, retries, negAtt, pc, sp, nPause, negLeft, hasSL, hUp, hDown, frame, retryLeft, pend, inQ,
                   needsRes, peer, nQ, lossLeft, negLossLeft>>

AppRecv ==
    /\ inQ # <<>>
    /\ inQ' = Tail(inQ)
    /\ h' = [h EXCEPT !.got = Hist(@, Head(inQ))]
    /\ UNCHANGED <<usb, retries, negAtt, pc, sp, nPause, negLeft, hasSL, hUp, hDown, frame, retryLeft, pend, outQ,
                   needsRes, peer, nSub, nQ, lossLeft, negLossLeft>>

CfQueue(pk) ==
    /\ peer' = P!PeerQueue(peer, pk)
    /\ nQ' = nQ + 1
    /\ h' = [h EXCEPT !.cfq = Hist(@, pk)]
    /\ UNCHANGED <<usb, retries, negAtt, pc, sp, nPause, negLeft, hasSL, hUp, hDown, frame, retryLeft, pend, outQ,
                   inQ, needsRes, nSub, lossLeft, negLossLeft>>

\* ---------------------------------------------------------------- pause() / restart()
PauseReq ==
    /\ pc # "paused" /\ ~sp
    /\ sp' = TRUE /\ nPause' = nPause + 1
    /\ h' = [h EXCEPT !.closed = TRUE]
    /\ UNCHANGED <<usb, retries, negAtt, pc, negLeft, hasSL, hUp, hDown, frame, retryLeft, pend, outQ, inQ,
                   needsRes, peer, nSub, nQ, lossLeft, negLossLeft>>

Restart ==
    /\ pc = "paused"
    /\ pc' = "neg" /\ sp' = FALSE /\ negLeft' = negAtt /\ hasSL' = FALSE /\ hUp' = 0 /\ hDown' = 1
    /\ frame' = NullFrame /\ retryLeft' = retries
    /\ h' = P!SessionReset(h)
    /\ UNCHANGED <<usb, retries, negAtt, nPause, pend, outQ, inQ, needsRes, peer, nSub, nQ, lossLeft, negLossLeft>>

Reboot(mode) ==
    /\ pc = "paused"
    /\ peer' = P!PeerInit(mode, peer.tail, peer.deny)
    /\ UNCHANGED <<usb, retries, negAtt, pc, sp, nPause, negLeft, hasSL, hUp, hDown, frame, retryLeft, pend,
                   outQ, inQ, needsRes, nSub, nQ, lossLeft, negLossLeft, h>>

Radio == (\E o \in Outcomes : NegTx(o) \/ DataTx(o, FALSE) \/ DataTx(o, TRUE)) \/ InPut \/ OutGet
Submit == nSub < NUp /\ AppSubmit(UpPk(nSub + 1))
Queue == nQ < NDown /\ CfQueue(DnPk(nQ + 1))
Pause == nPause < MaxRestarts /\ PauseReq
PeerReboot(m) == m # peer.mode /\ Reboot(m)
Next == Radio \/ Submit \/ AppRecv \/ Queue \/ Pause \/ Restart \/ (\E m \in PeerModes : PeerReboot(m))

Spec == Init /\ [][Next]_vars
\* the radio loop and the receiving application thread keep running; once the loss budget is
\* used up every transmission is acknowledged
FairSpec == Spec /\ WF_vars(Radio) /\ WF_vars(AppRecv)

\* ---------------------------------------------------------------- what TLC checks
PropertyHolds == P!HistoryOK(h, retries)                    \* C01, safety part
StepFormHolds == P!StepClause(h, retries) = "ok"
\* completeness at rest: nothing in flight on either side => everything has arrived
AtRest == pc = "tx" /\ ~sp /\ outQ = <<>> /\ inQ = <<>> /\ P!IsNull(frame) /\ peer.txq = <<>>
CompleteAtRest == AtRest => P!UpComplete(h) /\ P!DownComplete(h)
\* design facts the binding relies on
SafelinkIffEcho == hasSL => h.echo
\* per start-up: once the start-up loop is through, needs_resending tells whether THIS comm
\* thread has safelink
NeedsResendingIsNotSafelink == pc # "neg" => (needsRes = ~hasSL)
Lockstep == hasSL => hUp = hDown
TypeOK == /\ pc \in {"neg", "tx", "put", "get", "paused", "dead"} /\ Len(outQ) <= 1
          /\ hUp \in 0..1 /\ hDown \in 0..1 /\ negLeft \in 0..negAtt
\* state constraint for configurations in which a raw-mode host can meet a peer that has safelink
\* switched on (all start-up acks lost): that peer repeats its last payload for ever and the host
\* queues every copy (no claim applies there), so in_queue is cut off
InQBound == Len(inQ) <= NDown + 2
\* liveness: under FairSpec everything accepted / queued eventually arrives and stays so
EventuallyDelivered ==
    <>[](P!Claimed(h) /\ ~P!Frozen(h) => (h.cf = h.acc /\ h.got = h.cfq))
=============================================================================
