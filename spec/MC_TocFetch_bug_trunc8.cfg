SPECIFICATION Spec
CONSTANTS
  Configs <- ConfigsBug257
  Budget = 0
  Window <- WindowAll
  Bug = "Trunc8"
INVARIANT TableAtDone
INVARIANT TableStaysOK
INVARIANT LookupsOK
INVARIANT Progress
INVARIANT OnePattern
INVARIANT TypeOK
CHECK_DEADLOCK FALSE
