SPECIFICATION Spec
CONSTANTS
  Configs <- ConfigsBug257
  Budget = 0
  Window <- WindowAll
  Bug = "Trunc8"
INVARIANT TableAtDone
INVARIANT TableStaysOK
INVARIANT LookupsOK
CHECK_DEADLOCK FALSE
