---- MODULE MC_LhSkeleton ----
EXTENDS LhSkeleton
\* every non-empty set of base stations can be a sample
AllSampleSets == (SUBSET BsIds) \ {{}}
\* samples as the matcher can produce them with min_nr_of_bs_in_match = 2
LinkingSampleSets == {S \in SUBSET BsIds : Cardinality(S) >= 2}
NoSampleSets == {}
\* time stamp differences: equal stamps, inside / on / beyond the window
DeltasQuick == {0, 1, 2}
DeltasThorough == {0, 1, 2, 3}
\* a cfg file cannot hold negative numbers: out-of-order input (only the order-independent clauses are claimed)
DeltasUnsorted == {-2, -1, 0, 1, 3}
\* larger constants for -simulate
DeltasSim == {0, 1, 2, 3, 5}
====
