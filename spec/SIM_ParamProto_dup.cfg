SPECIFICATION Spec
CONSTANTS
  Cfg0 <- CfgS
  Users = {1, 2, 3}
  Ops <- OpsSim
  MaxOps = 6
  Notifs <- NotifsS
  MaxNotif = 2
  MaxDup = 2
  DistinctPatterns = TRUE
  Bug = "none"
  OneQueryPerCmd = FALSE
CHECK_DEADLOCK FALSE
