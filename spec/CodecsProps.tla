------------------------------ MODULE CodecsProps ------------------------------
(* C13 -- the listed property and nothing stronger, over observed (input, output) pairs.

   A number observed from the real code is a record  Num
      [c : "fin" | "inf" | "nan" | "exc",      class ("exc": the call raised)
       s : 0 | 1,                              sign bit (for "fin" zero: the sign of the zero;
                                               a Python int has s = 0 when it is zero)
       m : limbs, e : Int]                     magnitude m * 2^e as in CodecsNum
   produced by the harness from float.hex / int, losslessly.  Reference values are computed here,
   over integers; comparisons are exact (CodecsNum), except where a clause says otherwise:
     * pi is enclosed in [PiLo, PiHi] * 1e-9 and the yaw clause is evaluated with the bound that
       favours the implementation (never stricter than the property);
     * a lighthouse sweep angle base - offset that is not representable as a double has to be the
       correctly rounded double (relative error <= 2^-53).                                   *)
EXTENDS Integers, Sequences, CodecsNum

ToD(o) == D(o.s, o.m, o.e)
Ok(b, name) == IF b THEN "ok" ELSE name
\* first clause that is not "ok"
RECURSIVE FirstBad(_)
FirstBad(cs) == IF cs = <<>> THEN "ok" ELSE IF Head(cs) # "ok" THEN Head(cs) ELSE FirstBad(Tail(cs))

\* ------------------------------------------------------------------ IEEE-754 reference values
\* reference numbers: [c, s, m \in Nat (small), e]
\* binary16: 1 sign, 5 exponent (bias 15), 10 fraction bits
Fp16(h) == LET s == h \div 32768  ex == (h \div 1024) % 32  f == h % 1024 IN
           IF ex = 31 THEN [c |-> IF f = 0 THEN "inf" ELSE "nan", s |-> s, m |-> 0, e |-> 0]
           ELSE IF ex = 0 THEN [c |-> "fin", s |-> s, m |-> f, e |-> -24]
           ELSE [c |-> "fin", s |-> s, m |-> 1024 + f, e |-> ex - 25]
\* class name used in clause names: PosZero, NegZero, PosSubnormal, ..., PosInf, NegInf, NaN
Fp16Class(h) == LET ex == (h \div 1024) % 32  f == h % 1024  sg == IF h \div 32768 = 1 THEN "Neg" ELSE "Pos" IN
                IF ex = 31 THEN (IF f = 0 THEN sg \o "Inf" ELSE "NaN")
                ELSE IF ex = 0 THEN (IF f = 0 THEN sg \o "Zero" ELSE sg \o "Subnormal") ELSE sg \o "Normal"
\* binary32 from its four little-endian bytes
F32(b) == LET s == b[4] \div 128  ex == (b[4] % 128) * 2 + b[3] \div 128
              f == (b[3] % 128) * 65536 + b[2] * 256 + b[1] IN
          IF ex = 255 THEN [c |-> IF f = 0 THEN "inf" ELSE "nan", s |-> s, m |-> 0, e |-> 0]
          ELSE IF ex = 0 THEN [c |-> "fin", s |-> s, m |-> f, e |-> -149]
          ELSE [c |-> "fin", s |-> s, m |-> 8388608 + f, e |-> ex - 150]
RefD(r) == D(r.s, NFromInt(r.m), r.e)

\* observed number o is exactly the reference number r (NaN: any NaN; zero: same sign)
NumIs(r, o) == CASE r.c = "nan" -> o.c = "nan"
                 [] r.c = "inf" -> o.c = "inf" /\ o.s = r.s
                 [] OTHER -> /\ o.c = "fin"
                             /\ IF r.m = 0 THEN o.m = <<>> /\ o.s = r.s ELSE DEq(ToD(o), RefD(r))

\* ------------------------------------------------------------------ half precision
\* "returns the IEEE-754 binary16 value for every one of the 65,536 bit patterns, including signed
\*  zeros, subnormals, infinities and NaN"
Fp16Clause(h, o) == Ok(NumIs(Fp16(h), o), "Fp16" \o Fp16Class(h))

\* ------------------------------------------------------------------ quaternion
\* q: four Num (finite, not all zero; any scale); w: the compressed word as
\* [s, b (4 low bytes, little-endian), hi (limbs of w >> 32)]; d: four Num (decompressed)
QuatFits32(w) == w.s = 0 /\ w.hi = <<>>
QuatNormSq(q) == DAdd(DAdd(DMul(ToD(q[1]), ToD(q[1])), DMul(ToD(q[2]), ToD(q[2]))),
                      DAdd(DMul(ToD(q[3]), ToD(q[3])), DMul(ToD(q[4]), ToD(q[4]))))
\* | d - a / sqrt(N) | <= sqrt(2)/511   ("two quantisation steps, 2/511 of 1/sqrt2"), decided
\* exactly:  with u = 511 d, v = 511 a:   (u sqrt(N) - v)^2 <= 2N   <=>   L <= 2 u v sqrt(N),
\* L = u^2 N + v^2 - 2N
QuatCloseExact(d, a, n) ==
    LET u  == DMulI(d, 511)
        v  == DMulI(a, 511)
        uu == DMul(u, u)
        vv == DMul(v, v)
        L  == DSub(DAdd(DMul(uu, n), vv), DMulI(n, 2))
        P  == DMul(u, v)
        R2 == DMulI(DMul(DMul(uu, vv), n), 4)
    IN IF DSgn(P) >= 0 THEN DSgn(L) <= 0 \/ DLe(DMul(L, L), R2)
       ELSE DSgn(L) < 0 /\ DLe(R2, DMul(L, L))
\* A coarse rational enclosure of sqrt(N) makes the clear cases cheap (the exact test above decides
\* the rest):  root = [k, r] with  r * 2^k <= sqrt(N) * 2^12 < (r + 1) * 2^k,  N * 2^(-2k) in [1, 4)
RootOk(y, n, k) == DLe(D(0, NFromInt(y * y), 0), D(n.s, n.n, n.e - 2 * k + 24))
RECURSIVE RootBis(_, _, _, _)
RootBis(x, bit, n, k) == IF bit = 0 THEN x
                         ELSE IF RootOk(x + bit, n, k) THEN RootBis(x + bit, bit \div 2, n, k)
                         ELSE RootBis(x, bit \div 2, n, k)
QuatRoot(n) == LET k == (NBitLen(n.n) + n.e - 1) \div 2 IN [k |-> k, r |-> RootBis(0, 8192, n, k)]
\* 1.4142 < sqrt 2 < 1.4143
QuatClose(d, a, n, root) ==
    LET u     == DMulI(d, 511)
        v     == DMulI(a, 511)
        R     == D(0, NFromInt(root.r), root.k)
        X     == DAbs(DSub(DMul(u, R), D(v.s, v.n, v.e + 12)))      \* ~ |u sqrt N - v| * 2^12
        slack == D(0, u.n, u.e + root.k)                            \* bound on the error of X
    IN IF DLe(DMulI(DAdd(X, slack), 10000), DMulI(R, 14142)) THEN TRUE
       ELSE IF DLt(DMulI(DAdd(R, D(0, <<1>>, root.k)), 14143), DMulI(DSub(X, slack), 10000)) THEN FALSE
       ELSE QuatCloseExact(d, a, n)
\* same rotation: q and -q are the same rotation, so one global sign g may be chosen
QuatClause(q, w, d) ==
    LET n == QuatNormSq(q)
        root == QuatRoot(n)
        close(i, g) == QuatClose(ToD(d[i]), IF g = 1 THEN ToD(q[i]) ELSE DNeg(ToD(q[i])), n, root)
        agree(i) == DSgn(ToD(d[i])) * DSgn(ToD(q[i]))
        g0 == IF agree(1) + agree(2) + agree(3) + agree(4) >= 0 THEN 1 ELSE -1      \* likelier sign first
    IN IF ~QuatFits32(w) THEN "QuatFits32"
       ELSE IF \E i \in 1..4 : d[i].c # "fin" THEN "QuatNotFinite"
       ELSE IF \A i \in 1..4 : close(i, g0) THEN "ok"
       ELSE IF \A i \in 1..4 : close(i, -g0) THEN "ok"
       ELSE IF \A i \in 1..4 : \E g \in {1, -1} : close(i, g) THEN "QuatRotation"
       ELSE "QuatTolerance"

\* ------------------------------------------------------------------ compressed trajectory
\* 3.141592653 < pi < 3.141592654
Pi9Lo == DAdd(DMulI(DInt(314159265), 10), DInt(3))
Pi9Hi == DAdd(DMulI(DInt(314159265), 10), DInt(4))
E9 == DMul(DInt(31250), DInt(32000))
Int16(lo, hi) == LET v == lo + 256 * hi IN IF v >= 32768 THEN v - 65536 ELSE v

\* x = [k : "mm" | "dd", c : "fin" | "inf", s, m, e]: a coordinate in metres ("mm") or a yaw in
\* radians ("dd").  Zone "A": some int16 is certainly right (must encode), "C": none is (must
\* raise), "B": the margin in between (either).
MmOf(x) == DMulI(ToD(x), 1000)
DdW(x) == DMul(DMulI(ToD(x), 1800), E9)                  \* 1800 * x * 1e9 ;  tenths = W / (pi * 1e9)
Zone(x) ==
    IF x.c # "fin" THEN "C"
    ELSE IF x.k = "mm" THEN
        LET X == MmOf(x) IN
        IF DLe(DInt(-32768), X) /\ DLe(X, DInt(32767)) THEN "A"
        ELSE IF DLe(DInt(32768), X) \/ DLe(X, DInt(-32769)) THEN "C" ELSE "B"
    ELSE
        LET W == DdW(x) IN
        IF DLe(DMulI(Pi9Lo, -32768), W) /\ DLe(W, DMulI(Pi9Lo, 32767)) THEN "A"
        ELSE IF DLe(DMulI(Pi9Hi, 32768), W) \/ DLe(W, DMulI(Pi9Hi, -32769)) THEN "C" ELSE "B"
\* less than one unit of error
UnitOK(x, enc) ==
    IF x.k = "mm" THEN DLt(DAbs(DSub(DInt(enc), MmOf(x))), DInt(1))
    ELSE LET W == DdW(x) IN
         /\ DLt(DMulI(IF enc - 1 >= 0 THEN Pi9Lo ELSE Pi9Hi, enc - 1), W)
         /\ DLt(W, DMulI(IF enc + 1 >= 0 THEN Pi9Hi ELSE Pi9Lo, enc + 1))
\* one pack() call: xs the coordinates in wire order, hdr bytes before them, r "val"|"raise", b bytes
PackClause(hdr, xs, r, b) ==
    IF \E i \in DOMAIN xs : Zone(xs[i]) = "C" THEN Ok(r = "raise", "TrajOverflowNotRaised")
    ELSE IF r = "raise" THEN Ok(\E i \in DOMAIN xs : Zone(xs[i]) = "B", "TrajRaisedInRange")
    ELSE IF Len(b) # hdr + 2 * Len(xs) THEN "TrajLayout"
    ELSE FirstBad([i \in DOMAIN xs |->
             Ok(UnitOK(xs[i], Int16(b[hdr + 2 * i - 1], b[hdr + 2 * i])),
                IF xs[i].k = "mm" THEN "TrajSpatialError" ELSE "TrajYawError")])

\* ------------------------------------------------------------------ RGB565
\* fields <<R5, G6, B5>> of the two bytes (big-endian on the wire: hi first)
RgbFields(hi, lo) == <<hi \div 8, (hi % 8) * 8 + lo \div 32, lo % 32>>
RgbMax(ch) == IF ch = 2 THEN 63 ELSE 31
\* one step of a sweep of channel ch (1..3) over levels 0..255 at intensity I (percent), the other
\* two channels held; prev = fields of the previous level (<<>> at level 0), cur = fields now
RgbStepClause(ch, lvl, I, prev, cur) ==
    IF lvl = 0 /\ cur[ch] # 0 THEN "RgbBlackNotZero"
    ELSE IF lvl = 255 /\ I = 100 /\ cur[ch] # RgbMax(ch) THEN "RgbWhiteNotFull"
    ELSE IF prev # <<>> /\ cur[ch] < prev[ch] THEN "RgbNotMonotone"
    ELSE IF prev # <<>> /\ \E c \in 1..3 : c # ch /\ cur[c] # prev[c] THEN "RgbChannelLeak"
    ELSE "ok"

\* ------------------------------------------------------------------ range stream report
\* data = n * (anchor id byte, float32 LE); anchor ids distinct.  o = [called, ids, vals]
RangeClause(data, o) ==
    LET n == Len(data) \div 5 IN
    IF ~o.called THEN "RangeNotDelivered"
    ELSE IF Len(o.ids) # n THEN "RangeCount"
    ELSE Ok(\A j \in 1..n : \E k \in 1..n :
               /\ o.ids[k] = data[5 * j - 4]
               /\ NumIs(F32(SubSeq(data, 5 * j - 3, 5 * j)), o.vals[k]), "RangeDistance")

\* ------------------------------------------------------------------ lighthouse angle stream
\* data = basestation, float32 base x, 3 x binary16 offsets, float32 base y, 3 x binary16 offsets
\* sensor 0 angle = base, sensor i angle = base - offset_i.  Base angles are finite.
U16(lo, hi) == lo + 256 * hi
AngleIs(base, h, o) ==
    LET r == Fp16(h) IN
    CASE r.c = "nan" -> o.c = "nan"
      [] r.c = "inf" -> o.c = "inf" /\ o.s = 1 - r.s
      [] OTHER -> /\ o.c = "fin"
                  /\ LET ex == DSub(RefD(base), RefD(r))
                         er == DAbs(DSub(ToD(o), ex))
                     IN DLe(D(er.s, er.n, er.e + 53), DAbs(ex))
LhClause(data, o) ==
    LET bx == F32(SubSeq(data, 2, 5))  by == F32(SubSeq(data, 12, 15))
        ox(i) == U16(data[4 + 2 * i], data[5 + 2 * i])
        oy(i) == U16(data[14 + 2 * i], data[15 + 2 * i])
    IN IF ~o.called THEN "LhNotDelivered"
       ELSE IF o.bs # data[1] THEN "LhBasestation"
       ELSE IF ~NumIs(bx, o.x[1]) \/ ~NumIs(by, o.y[1]) THEN "LhBase"
       ELSE FirstBad([i \in 1..6 |->
                IF i <= 3 THEN Ok(AngleIs(bx, ox(i), o.x[i + 1]), "LhAngle" \o Fp16Class(ox(i)) \o "Offset")
                ELSE Ok(AngleIs(by, oy(i - 3), o.y[i - 2]), "LhAngle" \o Fp16Class(oy(i - 3)) \o "Offset")])

\* ------------------------------------------------------------------ packets of a stream
(* "Received range reports and lighthouse angle-stream packets decode to exactly the anchor
   distances and per-sensor sweep angles the device encoded ... for all range/angle stream
   packets".  What a packet decodes to is the object the library hands to the receiver
   (LocalizationPacket.data).  Receivers of a stream keep these objects (queue to another thread,
   last packet per base station) and read them after further packets have arrived, so a packet
   of a stream is observed twice:  o = the decoded values at delivery,  late = the values the
   SAME delivered object shows after the rest of the stream was received.  Both are judged by the
   clause of THIS packet's bytes -- nothing new is demanded, the same clause is applied to the
   value the receiver still holds.  A failure that shows only later is named "Kept" + clause.  *)
Kept(now, later) == IF now # "ok" THEN now ELSE IF later = "ok" THEN "ok" ELSE "Kept" \o later
LhKeptClause(data, o, late) == Kept(LhClause(data, o), LhClause(data, late))
RangeKeptClause(data, o, late) == Kept(RangeClause(data, o), RangeClause(data, late))
=============================================================================
