SPECIFICATION Spec
CONSTANTS
  Chunk = 25
  MaxRetry = 5
  Targets = {254}
  PageSizes = {24, 25, 26, 50, 51}
  BufCounts = {1, 2}
  FlashSizes = {1, 2, 3}
  MaxLen = 160
  Fates = {"ok", "nack", "lostcmd"}
  Bug = "none"
  Observe = TRUE
INVARIANT PropOK
INVARIANT TypeOK
INVARIANT FlashedWhenDone
INVARIANT NothingOutside
CHECK_DEADLOCK FALSE
