SPECIFICATION Spec
CONSTANTS
  Configs <- ConfigsBugLog
  Budget = 1
  Window <- WindowAll
  Bug = "ResetGuardLen"
INVARIANT TableAtDone
INVARIANT TableStaysOK
INVARIANT LookupsOK
CHECK_DEADLOCK FALSE
