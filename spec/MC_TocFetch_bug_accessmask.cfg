SPECIFICATION Spec
CONSTANTS
  Configs <- ConfigsBugSmall
  Budget = 0
  Window <- WindowAll
  Bug = "AccessMask"
INVARIANT TableAtDone
INVARIANT TableStaysOK
INVARIANT LookupsOK
CHECK_DEADLOCK FALSE
