SPECIFICATION Spec
CONSTANTS
  Configs <- ConfigsBugSmall
  Budget = 0
  Window <- WindowAll
  Bug = "AccessMask"
INVARIANT TableAtDone
INVARIANT TableStaysOK
INVARIANT LookupsOK
INVARIANT Progress
INVARIANT OnePattern
INVARIANT TypeOK
CHECK_DEADLOCK FALSE
