---- MODULE MC_Codecs ----
EXTENDS Codecs
AllKinds == {"fp16", "quat", "mm", "dd", "rgb", "range", "lh", "stream"}
\* float32 test values, little-endian bytes: 0, -0, 1, -2.5, pi, 0.1, 2^-149, max, then inf, -inf, nan
F32Vals == << <<0, 0, 0, 0>>, <<0, 0, 0, 128>>, <<0, 0, 128, 63>>, <<0, 0, 32, 192>>, <<219, 15, 73, 64>>,
              <<205, 204, 204, 61>>, <<1, 0, 0, 0>>, <<255, 255, 127, 127>>,
              <<0, 0, 128, 127>>, <<0, 0, 128, 255>>, <<0, 0, 192, 127>> >>
AllBytes == 0..255
\* coordinates: value = (coarse*64 + fine) / 1024 m : around 0, +-1 m, the int16 limits (+-32.767/8 m) and beyond
MmQuick == {-530, -513, -512, -511, -17, -16, -1, 0, 15, 16, 510, 511, 512, 513, 530}
MmThorough == (-540)..540
\* yaw: value = (coarse*64 + fine) / 256 rad : int16 tenths of a degree end at +-57.19 rad = coarse +-228.7
DdQuick == {-240, -230, -229, -228, -13, -1, 0, 12, 227, 228, 229, 230, 240}
DdThorough == (-240)..240
RgbIQuick == {0, 1, 33, 50, 99, 100}
RgbIAll == 0..100
OthersQuick == {0, 255}
OthersThorough == {0, 1, 128, 255}
\* half-float offsets: zero/subnormal, -zero, one, inf/nan (+-), largest
OffHiQuick == {0, 128, 3, 4, 60, 188, 123, 124, 126, 252, 255}
LhPosQuick == {1, 5}
LhPosOne == {5}
LhPosAll == 1..6
KFp16 == {"fp16"}
KQuat == {"quat"}
KTraj == {"mm", "dd"}
KRgb == {"rgb"}
KLh == {"lh"}
KStream == {"stream"}
\* streams: the changed half-float offset (high byte; low byte 0): 0, -0, 1, -1, inf, -inf, 2^-14, -65504-ish
StreamOffQuick == {0, 128, 60, 188, 124, 252}
StreamOffThorough == {0, 128, 60, 188, 124, 252, 4, 251}
StreamPosBoth == {1, 5}
====
