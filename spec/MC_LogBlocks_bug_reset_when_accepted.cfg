SPECIFICATION Spec
CONSTANTS
  NC = 1
  TocC <- TocShort
  VarAlpha <- AlphaEvolve
  BasicAlpha <- BasicOne
  MaxFree = 3
  MaxBasic = 1
  MaxUniform = 1
  Periods = {100}
  Statuses = {}
  MaxOps = 3
  MaxFaults = 0
  MaxData = 2
  MaxLate = 0
  TocAlts <- TocLonger
  IdMod = 255
  Bugs = {"reset_when_accepted"}
  WithSync = FALSE
INVARIANT ObsOK
INVARIANT TypeOK
CHECK_DEADLOCK FALSE
