------------------------------ MODULE MemProtoTrace ------------------------------
(* Trace spec (monitor) for C06: judges traces recorded from the real cflib Memory subsystem
   talking to the simulated device.  The monitor keeps its own model of the device memory
   (img), rebuilt from the chunk messages the device reports, so "the bytes the device holds"
   is decided here and not by the harness.

   Trace object: [id, mems (number of memories), img0 (initial image per memory), hasdup,
                  ev (events)], events:
     cs    [rid, kind, m, addr, len, data, flush]        an API call starts (rid = position)
     ret   [rid, ret]                                    the API call returned
     tx    [m, hint]                                     first chunk of read `hint` handed to the link
     up    [k "r"|"w", m, addr, len, data, st, hint]     the device served a chunk message; hint =
                                                         rid of the API call the sending thread was
                                                         inside when it sent it, else 0
     note  [k "read_ok"|"read_fail"|"write_ok"|"write_fail", m, addr, data]
     lerr                                                the link driver reports an error
     drop                                                disconnected was signalled
     end   [lock, pending, epilogue, dead, hung, images]       quiescence report
   Write requests of one trace have pairwise disjoint, distinct address ranges per memory (the
   harness guarantees it) so a chunk or a notification identifies its request.              *)
EXTENDS Naturals, Sequences, FiniteSets, TLC, Json, IOUtils

CONSTANTS RC, WC
P == INSTANCE MemProtoProps

Traces == JsonDeserialize(IOEnv.TRACE_FILE)

VARIABLES tid, l, reqs, chunks, notes, expect, firstAt, csAt, img, rdQ, lastW, lerrAt, win, bad, badAt

T == Traces[tid]
Ev == T.ev[l]
vars == <<tid, l, reqs, chunks, notes, expect, firstAt, csAt, img, rdQ, lastW, lerrAt, win, bad, badAt>>

Init == /\ tid \in 1..Len(Traces)
        /\ l = 1
        /\ reqs = <<>> /\ chunks = <<>> /\ notes = <<>> /\ expect = <<>> /\ firstAt = <<>>
        /\ csAt = <<>>
        /\ img = Traces[tid].img0
        /\ rdQ = [m \in 1..Traces[tid].mems |-> <<>>]
        /\ lastW = [m \in 1..Traces[tid].mems |-> 0]
        /\ lerrAt = 0 /\ win = {}
        /\ bad = "ok" /\ badAt = 0

Fail(c) == IF bad = "ok" /\ c # "ok" THEN bad' = c /\ badAt' = l ELSE UNCHANGED <<bad, badAt>>

Sub(s, a, n) == [i \in 1..n |-> s[a + i]]            \* n bytes from (0-based) address a
Overlay(s, a, d) == [i \in DOMAIN s |-> IF i > a /\ i <= a + Len(d) THEN d[i - a] ELSE s[i]]

\* the write request (accepted) whose range contains a chunk at (m, addr); 0 if none
WriteOf(m, addr) ==
    LET c == {i \in DOMAIN reqs : /\ reqs[i].kind = "write" /\ reqs[i].m = m
                                   /\ reqs[i].addr <= addr
                                   /\ (addr < reqs[i].addr + reqs[i].len \/ addr = reqs[i].addr)}
    IN IF c = {} THEN 0 ELSE CHOOSE i \in c : \A j \in c : reqs[j].addr <= reqs[i].addr
WriteAt(m, addr) ==
    LET c == {i \in DOMAIN reqs : reqs[i].kind = "write" /\ reqs[i].m = m /\ reqs[i].addr = addr}
    IN IF c = {} THEN 0 ELSE CHOOSE i \in c : TRUE

\* may request i have been superseded by a flush_queue write before it was started?
MaySup(i) == /\ reqs[i].kind = "write"
             /\ \E f \in DOMAIN reqs : /\ f > i /\ reqs[f].kind = "write" /\ reqs[f].flush
                                       /\ reqs[f].m = reqs[i].m
                                       /\ (firstAt[i] = 0 \/ firstAt[i] > csAt[f])

MergeAppend(ch, c) == IF Len(ch) > 0 /\ ch[Len(ch)] = c THEN ch ELSE Append(ch, c)

\* reads of one memory complete in the order they were accepted (one at a time); rdQ[m] is the
\* queue of reads that have put their first chunk on the wire and are not notified yet
ECs == /\ Ev.e = "cs"
       /\ csAt' = Append(csAt, l)
       /\ reqs' = Append(reqs, [kind |-> Ev.kind, m |-> Ev.m, addr |-> Ev.addr, len |-> Ev.len,
                                data |-> Ev.data, flush |-> Ev.flush, accepted |-> (Ev.kind = "write"),
                                returned |-> FALSE, retAt |-> 0])
       /\ chunks' = Append(chunks, <<>>) /\ notes' = Append(notes, <<>>)
       /\ expect' = Append(expect, <<>>) /\ firstAt' = Append(firstAt, 0)
       /\ win' = IF lerrAt # 0 THEN win \cup {Len(reqs) + 1} ELSE win
       /\ UNCHANGED <<img, rdQ, lastW, lerrAt, bad, badAt>>

ERet == /\ Ev.e = "ret"
        /\ reqs' = [reqs EXCEPT ![Ev.rid].accepted = Ev.ret, ![Ev.rid].returned = TRUE, ![Ev.rid].retAt = l]
        /\ UNCHANGED <<chunks, notes, expect, firstAt, csAt, img, rdQ, lastW, lerrAt, win, bad, badAt>>

\* the first chunk message of a read was handed to the link from inside the API call: the request
\* is in flight from now on (even if that message never reaches the device)
ETx == /\ Ev.e = "tx"
       /\ rdQ' = IF \A i \in DOMAIN rdQ[Ev.m] : rdQ[Ev.m][i] # Ev.hint
                 THEN [rdQ EXCEPT ![Ev.m] = Append(@, Ev.hint)] ELSE rdQ
       /\ UNCHANGED <<reqs, chunks, notes, expect, firstAt, csAt, img, lastW, lerrAt, win, bad, badAt>>

\* the link driver reported an error (the library starts tearing the session down)
\* (calls that are in progress at this moment overlap the tear-down just like calls that start
\* during it: both are in the window of the known finding)
ELerr == /\ Ev.e = "lerr"
         /\ lerrAt' = l
         /\ win' = win \cup {i \in DOMAIN reqs : ~reqs[i].returned}
         /\ UNCHANGED <<reqs, chunks, notes, expect, firstAt, csAt, img, rdQ, lastW, bad, badAt>>

\* a chunk message served by the device
EUp == /\ Ev.e = "up"
       /\ LET rid == IF Ev.k = "w" THEN WriteOf(Ev.m, Ev.addr)
                     ELSE IF Ev.hint # 0 THEN Ev.hint
                     ELSE IF rdQ[Ev.m] # <<>> THEN Head(rdQ[Ev.m]) ELSE 0
              c   == [addr |-> Ev.addr, len |-> Ev.len]
          IN
          IF rid = 0
          THEN \* a write to an address no request covers is a violation; a read chunk served after
               \* its request was already failed (device lagging behind a link drop) belongs to nothing
               /\ Fail(IF Ev.k = "w" THEN "StrayChunk"
                       ELSE IF Ev.len > RC THEN "ChunkLimit" ELSE "ok")
               /\ UNCHANGED <<chunks, expect, firstAt, img, lastW, rdQ>>
          ELSE /\ chunks' = [chunks EXCEPT ![rid] = MergeAppend(@, c)]
               /\ firstAt' = [firstAt EXCEPT ![rid] = IF @ = 0 THEN l ELSE @]
               /\ IF Ev.k = "r"
                  THEN /\ expect' = IF Ev.st = 0 /\ Ev.addr + Ev.len <= Len(img[Ev.m])
                                    THEN [expect EXCEPT ![rid] = @ \o Sub(img[Ev.m], Ev.addr, Ev.len)]
                                    ELSE expect
                       /\ UNCHANGED <<img, lastW>>
                       /\ UNCHANGED rdQ
                       /\ Fail(IF Ev.len > RC THEN "ChunkLimit" ELSE "ok")
                  ELSE /\ img' = IF Ev.st = 0 /\ Ev.addr + Ev.len <= Len(img[Ev.m])
                                 THEN [img EXCEPT ![Ev.m] = Overlay(@, Ev.addr, Ev.data)] ELSE img
                       /\ lastW' = [lastW EXCEPT ![Ev.m] = IF rid > @ THEN rid ELSE @]
                       /\ UNCHANGED <<expect, rdQ>>
                       /\ Fail(IF Ev.len > WC THEN "ChunkLimit"
                               \* order of two writes = order of their API calls, when the calls do not
                               \* overlap (two threads -- the application and a completion callback --
                               \* may call at the same time; then the queue order is the library's choice)
                               ELSE IF rid < lastW[Ev.m] /\ reqs[rid].retAt # 0 /\ reqs[rid].retAt < csAt[lastW[Ev.m]]
                                    THEN "WriteOrder" ELSE "ok")
       /\ UNCHANGED <<reqs, notes, csAt, lerrAt, win>>

ENote == /\ Ev.e = "note"
         /\ LET isR == Ev.k \in {"read_ok", "read_fail"}
                inQ == rdQ[Ev.m] # <<>> /\ reqs[Head(rdQ[Ev.m])].addr = Ev.addr
                \* a read that never got a chunk onto the link (issued while the link went down)
                \* is identified by memory and address
                cand == {i \in DOMAIN reqs : /\ reqs[i].kind = "read" /\ reqs[i].m = Ev.m
                                             /\ reqs[i].addr = Ev.addr /\ notes[i] = <<>>}
                rid == IF ~isR THEN WriteAt(Ev.m, Ev.addr)
                       ELSE IF inQ THEN Head(rdQ[Ev.m])
                       ELSE IF cand # {} THEN CHOOSE i \in cand : \A j \in cand : i <= j
                       ELSE 0
                ok  == Ev.k \in {"read_ok", "write_ok"}
            IN
            IF rid = 0 \/ (isR /\ reqs[rid].addr # Ev.addr)
            THEN /\ Fail("StrayNotification") /\ UNCHANGED <<notes, rdQ>>
            ELSE /\ notes' = [notes EXCEPT ![rid] = Append(@, IF ok THEN "ok" ELSE "fail")]
                 /\ rdQ' = IF isR /\ inQ THEN [rdQ EXCEPT ![Ev.m] = Tail(@)] ELSE rdQ
                 /\ Fail(IF Len(notes[rid]) >= 1 THEN "NotifiedTwice"
                         ELSE IF ~ok \/ T.hasdup THEN "ok"
                         ELSE IF ~P!Tiles(chunks[rid], reqs[rid].addr, reqs[rid].len)
                              THEN (IF isR THEN "ReadTiling" ELSE "WriteTiling")
                         ELSE IF isR /\ (Ev.data # expect[rid] \/ Len(Ev.data) # reqs[rid].len) THEN "ReadData"
                         ELSE IF ~isR /\ Sub(img[Ev.m], reqs[rid].addr, reqs[rid].len) # reqs[rid].data THEN "WriteData"
                         ELSE "ok")
         /\ UNCHANGED <<reqs, chunks, expect, firstAt, csAt, img, lastW, lerrAt, win>>

Unfinished == {i \in DOMAIN reqs : reqs[i].accepted /\ notes[i] = <<>> /\ ~MaySup(i)}

\* requests whose call was in progress at, or started between, the link error and the end of the
\* disconnect notification:
\* the library neither serves nor notifies them (known finding, KNOWN_FINDINGS.txt) -- reported
\* under their own clause so that every other loss is still reported as such
\* The property sets no deadline for the failure notification of a request that was outstanding
\* when the link dropped: the request whose own acknowledgement handling triggered a
\* sender-reported link error is notified right after the nested disconnect handling returns,
\* i.e. after the disconnected callbacks.  What is never notified is reported at the end
\* (Incomplete).
EDrop == /\ Ev.e = "drop"
         /\ Fail(IF Unfinished \cap win # {} THEN "UnfinishedIssuedDuringDisconnect" ELSE "ok")
         /\ rdQ' = [m \in DOMAIN rdQ |-> <<>>]
         /\ lerrAt' = 0
         /\ UNCHANGED <<reqs, chunks, notes, expect, firstAt, csAt, img, lastW, win>>

\* bytes no accepted write request covers must still hold their initial value
Covered(m, a) == \E i \in DOMAIN reqs : /\ reqs[i].kind = "write" /\ reqs[i].m = m
                                        /\ reqs[i].addr < a /\ a <= reqs[i].addr + reqs[i].len
EEnd == /\ Ev.e = "end"
        /\ Fail(IF Ev.dead THEN "ThreadDied"
                ELSE IF Ev.hung THEN "Deadlock"
                ELSE IF Ev.lock THEN "Wedged"
                ELSE IF Unfinished \ win # {} THEN "Incomplete"
                ELSE IF Unfinished # {} THEN "UnfinishedIssuedDuringDisconnect"
                ELSE IF Ev.pending THEN "Wedged"
                ELSE IF ~Ev.epilogue THEN "NotServedAfterwards"
                ELSE IF \E m \in DOMAIN img : \E a \in DOMAIN img[m] :
                          ~Covered(m, a) /\ Ev.images[m][a] # T.img0[m][a] THEN "WroteOutside"
                ELSE IF Ev.images # img THEN "DeviceModelDiverged"
                ELSE IF \E i \in DOMAIN reqs : ~P!ChunkLimit(chunks[i], reqs[i].kind, RC, WC) THEN "ChunkLimit"
                ELSE IF ~T.hasdup /\ \E i \in DOMAIN reqs : ~P!TilesPrefix(chunks[i], reqs[i].addr, reqs[i].len)
                     THEN "TilingPrefix"
                ELSE IF \E i \in DOMAIN reqs : ~reqs[i].accepted /\ (notes[i] # <<>> \/ chunks[i] # <<>>)
                     THEN "RefusedButServed"
                ELSE "ok")
        /\ UNCHANGED <<reqs, chunks, notes, expect, firstAt, csAt, img, rdQ, lastW, lerrAt, win>>

Step == /\ l <= Len(T.ev)
        /\ l' = l + 1 /\ UNCHANGED tid
        /\ (ECs \/ ERet \/ ETx \/ ELerr \/ EUp \/ ENote \/ EDrop \/ EEnd)

Finish == /\ l = Len(T.ev) + 1
          /\ l' = l + 1
          /\ PrintT(<<"VERDICT", T.id, bad, badAt, TRUE, 0>>)
          /\ UNCHANGED <<tid, reqs, chunks, notes, expect, firstAt, csAt, img, rdQ, lastW, lerrAt, win, bad, badAt>>

Next == Step \/ Finish
Spec == Init /\ [][Next]_vars
=============================================================================
