------------------------------ MODULE MemProtoTrace ------------------------------
(* Trace spec (monitor) for C06: judges traces recorded from the real cflib Memory subsystem
   talking to the simulated device.  The monitor keeps its own model of the device memory
   (img), rebuilt from the chunk messages the device reports, so "the bytes the device holds"
   is decided here and not by the harness.

   Trace object: [id, mems (number of memories), img0 (initial image per memory, the bytes of its
                  segments one after the other), segs (per memory: the address segments that exist
                  on the device, each [base, len, off = position of its first byte in img0]), hasdup,
                  ev (events)], events:
     cs    [rid, kind, m, addr, len, data, flush, via]   a call of Memory.read/write starts (rid =
                                                         position); via = "raw" (the application calls
                                                         it) or "deck" (a DeckMemoryManager client
                                                         request: query, read, write, command)
     ret   [rid, ret]                                    the call returned
     tx    [k "r"|"w", m, hint]                          a message was handed to the link from inside
                                                         API call `hint` (its first chunk)
     dnote [rid, k "ok"|"fail"|"done"]                   the deck client's own completion / failure
                                                         callback of request rid was called (or its
                                                         blocking call returned; "done" = a call
                                                         that returns no result)
     up    [k "r"|"w", m, addr, len, data, st, hint]     the device served a chunk message; hint =
                                                         rid of the API call the sending thread was
                                                         inside when it sent it, else 0
     note  [k "read_ok"|"read_fail"|"write_ok"|"write_fail", m, addr, data]
     lerr                                                the link driver reports an error
     drop                                                disconnected was signalled
     end   [lock, pending, epilogue, dead, hung, images]       quiescence report
   Write requests of one trace have pairwise disjoint, distinct address ranges per memory (the
   harness guarantees it) so a chunk or a notification identifies its request; the one exception
   is a repetition of a write that has already been notified (a retry): chunks and notifications
   go to the oldest request of that range that has not been notified yet.                    *)
EXTENDS Naturals, Sequences, FiniteSets, TLC, Json, IOUtils

CONSTANTS RC, WC
P == INSTANCE MemProtoProps

Traces == JsonDeserialize(IOEnv.TRACE_FILE)

VARIABLES tid, l, reqs, chunks, notes, dnotes, expect, firstAt, sentAt, csAt, img, rdQ, lastW, lerrAt, win, bad, badAt

T == Traces[tid]
Ev == T.ev[l]
vars == <<tid, l, reqs, chunks, notes, dnotes, expect, firstAt, sentAt, csAt, img, rdQ, lastW, lerrAt, win, bad, badAt>>

Init == /\ tid \in 1..Len(Traces)
        /\ l = 1
        /\ reqs = <<>> /\ chunks = <<>> /\ notes = <<>> /\ dnotes = <<>> /\ expect = <<>> /\ firstAt = <<>>
        /\ sentAt = <<>> /\ csAt = <<>>
        /\ img = Traces[tid].img0
        /\ rdQ = [m \in 1..Traces[tid].mems |-> <<>>]
        /\ lastW = [m \in 1..Traces[tid].mems |-> 0]
        /\ lerrAt = 0 /\ win = {}
        /\ bad = "ok" /\ badAt = 0

Fail(c) == IF bad = "ok" /\ c # "ok" THEN bad' = c /\ badAt' = l ELSE UNCHANGED <<bad, badAt>>

Sub(s, a, n) == [i \in 1..n |-> s[a + i]]            \* n bytes from (0-based) position a
Overlay(s, a, d) == [i \in DOMAIN s |-> IF i > a /\ i <= a + Len(d) THEN d[i - a] ELSE s[i]]
MinOf(S) == CHOOSE x \in S : \A y \in S : x <= y
MaxOf(S) == CHOOSE x \in S : \A y \in S : y <= x

\* ---- the device's address space: a few segments (a plain memory has one, [0, size); the deck
\* memory has the info table, the command section and one window per deck, far apart)
Segs(m) == T.segs[m]
SegsOf(m, a, n) == {k \in DOMAIN Segs(m) : Segs(m)[k].base <= a /\ a + n <= Segs(m)[k].base + Segs(m)[k].len}
InSeg(m, a, n) == SegsOf(m, a, n) # {}
\* (0-based) position in img[m] of address a (InSeg(m, a, n) for the access at hand)
Pos(m, a, n) == LET k == MinOf(SegsOf(m, a, n)) IN Segs(m)[k].off + (a - Segs(m)[k].base)
\* address of the (1-based) position p of img[m]
AddrOf(m, p) == LET k == CHOOSE k \in DOMAIN Segs(m) : Segs(m)[k].off < p /\ p <= Segs(m)[k].off + Segs(m)[k].len
                IN Segs(m)[k].base + (p - 1 - Segs(m)[k].off)

\* the write request whose range contains a chunk at (m, addr): innermost start address; among
\* repetitions of one range the oldest that is not notified yet (else the newest); 0 if none
WriteOf(m, addr) ==
    LET c == {i \in DOMAIN reqs : /\ reqs[i].kind = "write" /\ reqs[i].m = m
                                   /\ reqs[i].addr <= addr
                                   /\ (addr < reqs[i].addr + reqs[i].len \/ addr = reqs[i].addr)}
        top == {i \in c : \A j \in c : reqs[j].addr <= reqs[i].addr}
        u == {i \in top : notes[i] = <<>>}
    IN IF c = {} THEN 0 ELSE IF u # {} THEN MinOf(u) ELSE MaxOf(top)
WriteAt(m, addr) ==
    LET c == {i \in DOMAIN reqs : reqs[i].kind = "write" /\ reqs[i].m = m /\ reqs[i].addr = addr}
        u == {i \in c : notes[i] = <<>>}
    IN IF c = {} THEN 0 ELSE IF u # {} THEN MinOf(u) ELSE MaxOf(c)

\* may request i have been superseded by a flush_queue write before it was started?
MaySup(i) == /\ reqs[i].kind = "write"
             /\ \E f \in DOMAIN reqs : /\ f > i /\ reqs[f].kind = "write" /\ reqs[f].flush
                                       /\ reqs[f].m = reqs[i].m
                                       /\ (firstAt[i] = 0 \/ firstAt[i] > csAt[f])

MergeAppend(ch, c) == IF Len(ch) > 0 /\ ch[Len(ch)] = c THEN ch ELSE Append(ch, c)

\* reads of one memory complete in the order they were accepted (one at a time); rdQ[m] is the
\* queue of reads that have put their first chunk on the wire and are not notified yet
ECs == /\ Ev.e = "cs"
       /\ csAt' = Append(csAt, l)
       /\ reqs' = Append(reqs, [kind |-> Ev.kind, m |-> Ev.m, addr |-> Ev.addr, len |-> Ev.len,
                                data |-> Ev.data, flush |-> Ev.flush, via |-> Ev.via, accepted |-> (Ev.kind = "write"),
                                returned |-> FALSE, retAt |-> 0])
       /\ chunks' = Append(chunks, <<>>) /\ notes' = Append(notes, <<>>) /\ dnotes' = Append(dnotes, <<>>)
       /\ expect' = Append(expect, <<>>) /\ firstAt' = Append(firstAt, 0) /\ sentAt' = Append(sentAt, 0)
       /\ win' = IF lerrAt # 0 THEN win \cup {Len(reqs) + 1} ELSE win
       /\ UNCHANGED <<img, rdQ, lastW, lerrAt, bad, badAt>>

ERet == /\ Ev.e = "ret"
        /\ reqs' = [reqs EXCEPT ![Ev.rid].accepted = Ev.ret, ![Ev.rid].returned = TRUE, ![Ev.rid].retAt = l]
        /\ UNCHANGED <<chunks, notes, dnotes, expect, firstAt, sentAt, csAt, img, rdQ, lastW, lerrAt, win, bad, badAt>>

\* a message was handed to the link from inside API call `hint` (the first chunk of that request):
\* the request is in flight from now on (even if that message never reaches the device)
ETx == /\ Ev.e = "tx"
       /\ rdQ' = IF Ev.k = "r" /\ \A i \in DOMAIN rdQ[Ev.m] : rdQ[Ev.m][i] # Ev.hint
                 THEN [rdQ EXCEPT ![Ev.m] = Append(@, Ev.hint)] ELSE rdQ
       /\ sentAt' = IF Ev.hint \in DOMAIN sentAt /\ sentAt[Ev.hint] = 0 THEN [sentAt EXCEPT ![Ev.hint] = l] ELSE sentAt
       /\ UNCHANGED <<reqs, chunks, notes, dnotes, expect, firstAt, csAt, img, lastW, lerrAt, win, bad, badAt>>

\* the link driver reported an error (the library starts tearing the session down).
\* Calls that are in progress at this moment overlap the tear-down just like calls that start
\* during it: both are in the window of the known finding -- a request that registers itself after
\* the tear-down has swept the tables.  A call that has already handed its first message to the
\* link is not in that window: a request is registered before it is sent, so the sweep, which
\* comes after the error, finds it (this also holds for the call whose own send reported the error).
ELerr == /\ Ev.e = "lerr"
         /\ lerrAt' = l
         /\ win' = win \cup {i \in DOMAIN reqs : ~reqs[i].returned /\ sentAt[i] = 0}
         /\ UNCHANGED <<reqs, chunks, notes, dnotes, expect, firstAt, sentAt, csAt, img, rdQ, lastW, bad, badAt>>

\* a chunk message served by the device
EUp == /\ Ev.e = "up"
       /\ LET rid == IF Ev.k = "w" THEN WriteOf(Ev.m, Ev.addr)
                     ELSE IF Ev.hint # 0 THEN Ev.hint
                     ELSE IF rdQ[Ev.m] # <<>> THEN Head(rdQ[Ev.m]) ELSE 0
              c   == [addr |-> Ev.addr, len |-> Ev.len]
              there == Ev.st = 0 /\ InSeg(Ev.m, Ev.addr, Ev.len)
              pos == Pos(Ev.m, Ev.addr, Ev.len)
          IN
          IF rid = 0
          THEN \* a write to an address no request covers is a violation; a read chunk served after
               \* its request was already failed (device lagging behind a link drop) belongs to nothing
               /\ Fail(IF Ev.k = "w" THEN "StrayChunk"
                       ELSE IF Ev.len > RC THEN "ChunkLimit" ELSE "ok")
               /\ UNCHANGED <<chunks, expect, firstAt, img, lastW, rdQ>>
          ELSE /\ chunks' = [chunks EXCEPT ![rid] = MergeAppend(@, c)]
               /\ firstAt' = [firstAt EXCEPT ![rid] = IF @ = 0 THEN l ELSE @]
               /\ IF Ev.k = "r"
                  THEN /\ expect' = IF there
                                    THEN [expect EXCEPT ![rid] = @ \o Sub(img[Ev.m], pos, Ev.len)]
                                    ELSE expect
                       /\ UNCHANGED <<img, lastW>>
                       /\ UNCHANGED rdQ
                       /\ Fail(IF Ev.len > RC THEN "ChunkLimit" ELSE "ok")
                  ELSE /\ img' = IF there
                                 THEN [img EXCEPT ![Ev.m] = Overlay(@, pos, Ev.data)] ELSE img
                       /\ lastW' = [lastW EXCEPT ![Ev.m] = IF rid > @ THEN rid ELSE @]
                       /\ UNCHANGED <<expect, rdQ>>
                       /\ Fail(IF Ev.len > WC THEN "ChunkLimit"
                               \* order of two writes = order of their API calls, when the calls do not
                               \* overlap (two threads -- the application and a completion callback --
                               \* may call at the same time; then the queue order is the library's choice)
                               ELSE IF rid < lastW[Ev.m] /\ reqs[rid].retAt # 0 /\ reqs[rid].retAt < csAt[lastW[Ev.m]]
                                    THEN "WriteOrder" ELSE "ok")
       /\ UNCHANGED <<reqs, notes, dnotes, sentAt, csAt, lerrAt, win>>

ENote == /\ Ev.e = "note"
         /\ LET isR == Ev.k \in {"read_ok", "read_fail"}
                inQ == rdQ[Ev.m] # <<>> /\ reqs[Head(rdQ[Ev.m])].addr = Ev.addr
                \* a read that never got a chunk onto the link (issued while the link went down)
                \* is identified by memory and address
                cand == {i \in DOMAIN reqs : /\ reqs[i].kind = "read" /\ reqs[i].m = Ev.m
                                             /\ reqs[i].addr = Ev.addr /\ notes[i] = <<>>}
                rid == IF ~isR THEN WriteAt(Ev.m, Ev.addr)
                       ELSE IF inQ THEN Head(rdQ[Ev.m])
                       ELSE IF cand # {} THEN CHOOSE i \in cand : \A j \in cand : i <= j
                       ELSE 0
                ok  == Ev.k \in {"read_ok", "write_ok"}
            IN
            IF rid = 0 \/ (isR /\ reqs[rid].addr # Ev.addr)
            THEN /\ Fail("StrayNotification") /\ UNCHANGED <<notes, rdQ>>
            ELSE /\ notes' = [notes EXCEPT ![rid] = Append(@, IF ok THEN "ok" ELSE "fail")]
                 /\ rdQ' = IF isR /\ inQ THEN [rdQ EXCEPT ![Ev.m] = Tail(@)] ELSE rdQ
                 /\ Fail(IF Len(notes[rid]) >= 1 THEN "NotifiedTwice"
                         ELSE IF ~ok \/ T.hasdup THEN "ok"
                         ELSE IF ~P!Tiles(chunks[rid], reqs[rid].addr, reqs[rid].len)
                              THEN (IF isR THEN "ReadTiling" ELSE "WriteTiling")
                         ELSE IF isR /\ (Ev.data # expect[rid] \/ Len(Ev.data) # reqs[rid].len) THEN "ReadData"
                         ELSE IF ~isR /\ ~InSeg(Ev.m, reqs[rid].addr, reqs[rid].len) THEN "WriteData"
                         ELSE IF ~isR /\ Sub(img[Ev.m], Pos(Ev.m, reqs[rid].addr, reqs[rid].len), reqs[rid].len) # reqs[rid].data
                              THEN "WriteData"
                         ELSE "ok")
         /\ UNCHANGED <<reqs, chunks, dnotes, expect, firstAt, sentAt, csAt, img, lastW, lerrAt, win>>

\* the deck client's own callback for request rid (DeckMemoryManager hands the notification on)
EDnote == /\ Ev.e = "dnote"
          /\ dnotes' = [dnotes EXCEPT ![Ev.rid] = Append(@, Ev.k)]
          /\ Fail(IF Len(dnotes[Ev.rid]) >= 1 THEN "DeckNotifiedTwice" ELSE "ok")
          /\ UNCHANGED <<reqs, chunks, notes, expect, firstAt, sentAt, csAt, img, rdQ, lastW, lerrAt, win>>

\* accepted, not superseded, and not notified -- a request made through the deck manager is
\* complete when the manager has handed the notification on to the client's callback
RawUnfinished  == {i \in DOMAIN reqs : reqs[i].accepted /\ notes[i] = <<>> /\ ~MaySup(i)}
DeckUnfinished == {i \in DOMAIN reqs : reqs[i].accepted /\ reqs[i].via = "deck" /\ notes[i] # <<>> /\ dnotes[i] = <<>>}
Unfinished == RawUnfinished

\* requests whose call was in progress at, or started between, the link error and the end of the
\* disconnect notification:
\* the library neither serves nor notifies them (known finding, KNOWN_FINDINGS.txt) -- reported
\* under their own clause so that every other loss is still reported as such
\* The property sets no deadline for the failure notification of a request that was outstanding
\* when the link dropped: the request whose own acknowledgement handling triggered a
\* sender-reported link error is notified right after the nested disconnect handling returns,
\* i.e. after the disconnected callbacks.  What is never notified is reported at the end
\* (Incomplete).
EDrop == /\ Ev.e = "drop"
         /\ Fail(IF Unfinished \cap win # {} THEN "UnfinishedIssuedDuringDisconnect" ELSE "ok")
         /\ rdQ' = [m \in DOMAIN rdQ |-> <<>>]
         /\ lerrAt' = 0
         /\ UNCHANGED <<reqs, chunks, notes, dnotes, expect, firstAt, sentAt, csAt, img, lastW, win>>

\* bytes no accepted write request covers must still hold their initial value
Covered(m, p) == LET a == AddrOf(m, p) IN
                 \E i \in DOMAIN reqs : /\ reqs[i].kind = "write" /\ reqs[i].m = m
                                        /\ reqs[i].addr <= a /\ a < reqs[i].addr + reqs[i].len
EEnd == /\ Ev.e = "end"
        /\ Fail(IF Ev.dead THEN "ThreadDied"
                ELSE IF Ev.hung THEN "Deadlock"
                ELSE IF Ev.lock THEN "Wedged"
                ELSE IF Unfinished \ win # {} THEN "Incomplete"
                ELSE IF Unfinished # {} THEN "UnfinishedIssuedDuringDisconnect"
                ELSE IF DeckUnfinished # {} THEN "DeckNotNotified"
                \* ("done": a command call that returns no result)
                ELSE IF \E i \in DOMAIN reqs : Len(dnotes[i]) = 1 /\ Len(notes[i]) = 1 /\ dnotes[i] # <<"done">> /\ dnotes[i] # notes[i]
                     THEN "DeckNoteMismatch"
                ELSE IF Ev.pending THEN "Wedged"
                ELSE IF ~Ev.epilogue THEN "NotServedAfterwards"
                ELSE IF \E m \in DOMAIN img : \E p \in DOMAIN img[m] :
                          ~Covered(m, p) /\ Ev.images[m][p] # T.img0[m][p] THEN "WroteOutside"
                ELSE IF Ev.images # img THEN "DeviceModelDiverged"
                ELSE IF \E i \in DOMAIN reqs : ~P!ChunkLimit(chunks[i], reqs[i].kind, RC, WC) THEN "ChunkLimit"
                ELSE IF ~T.hasdup /\ \E i \in DOMAIN reqs : ~P!TilesPrefix(chunks[i], reqs[i].addr, reqs[i].len)
                     THEN "TilingPrefix"
                ELSE IF \E i \in DOMAIN reqs : ~reqs[i].accepted /\ (notes[i] # <<>> \/ chunks[i] # <<>> \/ dnotes[i] # <<>>)
                     THEN "RefusedButServed"
                ELSE "ok")
        /\ UNCHANGED <<reqs, chunks, notes, dnotes, expect, firstAt, sentAt, csAt, img, rdQ, lastW, lerrAt, win>>

Step == /\ l <= Len(T.ev)
        /\ l' = l + 1 /\ UNCHANGED tid
        /\ (ECs \/ ERet \/ ETx \/ ELerr \/ EUp \/ ENote \/ EDnote \/ EDrop \/ EEnd)

Finish == /\ l = Len(T.ev) + 1
          /\ l' = l + 1
          /\ PrintT(<<"VERDICT", T.id, bad, badAt, TRUE, 0>>)
          /\ UNCHANGED <<tid, reqs, chunks, notes, dnotes, expect, firstAt, sentAt, csAt, img, rdQ, lastW, lerrAt, win, bad, badAt>>

Next == Step \/ Finish
Spec == Init /\ [][Next]_vars
=============================================================================
