SPECIFICATION Spec
CONSTANTS
  Versions <- DeferVersions
  Cmds <- DeferCmds
  ArgSets <- ArgSetsDefer
  HdrPorts <- Ports16
  HdrChans <- Chans4
  PlatPackets <- NoPlat
  Links <- LinksBoth
  Cap = 1
  Chained = FALSE
  Bug = "hl_shared_packet"
INVARIANT EmissionsOK
INVARIANT HeadersOK
INVARIANT RepresentableIsSent
INVARIANT TypeOK
CHECK_DEADLOCK FALSE
