SPECIFICATION Spec
CONSTANTS
  Versions <- AllVersions
  Cmds <- AllCmds
  ArgSets <- ArgSetsDup
  HdrPorts <- Ports16
  HdrChans <- Chans4
  PlatPackets <- NoPlat
  Links <- LinksNow
  Cap = 1
  Chained = FALSE
  Bug = "mask_add"
INVARIANT EmissionsOK
INVARIANT HeadersOK
INVARIANT RepresentableIsSent
INVARIANT TypeOK
CHECK_DEADLOCK FALSE
