SPECIFICATION Spec
CONSTANTS
  Mode = "match"
  BsIds = {1, 2, 3}
  MaxMeas = 4
  Deltas <- DeltasQuick
  Diffs = {0, 1}
  MinBs = {0, 1, 2}
  MaxSamples = 0
  SampleSets <- NoSampleSets
  MaxOutliers = 0
  Bug = "none"
  PrintCases = TRUE
INVARIANT MatchOK
INVARIANT EstOK
INVARIANT PipeMin2AllLinking
INVARIANT LinkMonotone
INVARIANT TypeOK
CHECK_DEADLOCK FALSE
