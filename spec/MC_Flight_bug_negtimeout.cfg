SPECIFICATION Spec
CONSTANTS
  Helper = "MC"
  Mode = "with"
  Prims <- McQuick
  MaxLen = 1
  DH = 300
  DV = 500
  DL = 0
  Period = 200
  X0 = 0
  Y0 = 0
  Z0 = 0
  Lats <- Lat1
  MaxLat = 1
  Bug = "negtimeout"
INVARIANT NoViolation
INVARIANT Ended
INVARIANT PosTracks
INVARIANT TypeOK
CHECK_DEADLOCK FALSE
