------------------------------ MODULE FlightTrace ------------------------------
(* Trace spec for C17.  One TLC run judges a batch of traces recorded from the real
   MotionCommander/_SetPointThread or PositionHlCommander (all of one helper and one set of
   constructor defaults, given by the cfg).

   monitor (the verdict): events rebuild the observable history (commander calls, velocity
            commands, position reports); the clauses of FlightProps are evaluated as the events
            arrive and at the end.  Nothing of the design spec is used.
   conform (the binding): every event must be explained by the corresponding action of Flight
            (Bug = "none") at the same virtual millisecond and with the same values.

   Event kinds (t = virtual time in us, rounded):
     user thread  prim k | ret k r [pos] | exit | done | param | sleep d us wt | wake | spstart |
                  vel vx vy vz yaw (at the queue put) | term | join | stop | notify | hl c [x y z dur]
     setpoint thr take vx vy vz yaw (a velocity command leaves the queue) |
                  hover vx vy yaw z lat (ms the link keeps the sender) | hovd (that send returned; lat > 0 only) |
                  spdone (run() returned) | spdead (run() ended with an exception)
     scheduler    tick                                                                              *)
EXTENDS Integers, Sequences, FiniteSets, TLC, Json, IOUtils

Traces == JsonDeserialize(IOEnv.TRACE_FILE)

CONSTANTS Helper, DH, DV, DL, X0, Y0, Z0
Lats == Nat
MaxLat == 1000000
Mode == "with"
Prims == {}
MaxLen == 100000
Period == 200
Bug == "none"

VARIABLES tid, l,
          mcalls, mvels, mlastT, mcur, mk, mst, mgotos, mbase, mtvels, bad, badAt,     \* monitor
          conf, confAt,
          now, cst, wake, todo, flying, outcome, prog, cur, hread, q, sp, deadline, hs, zbase, zvel, zt0, nlat, tvels,
          pos, est, calls, vels, lastT, viol

D == INSTANCE Flight
P == INSTANCE FlightProps

specvars == <<now, cst, wake, todo, flying, outcome, prog, cur, hread, q, sp, deadline, hs, zbase, zvel, zt0, nlat, tvels,
              pos, est, calls, vels, lastT, viol>>
monvars == <<mcalls, mvels, mlastT, mcur, mk, mst, mgotos, mbase, mtvels>>
T == Traces[tid]
Ev == T.ev[l]
MsOf(us) == (us + 500) \div 1000
NoMCur == [p |-> D!NoPrim, c |-> 0, dur |-> P!Whole(0), durUs |-> 0, ph |-> 0]
PeriodUs == 200000
SlackUs == 1000         \* "one scheduling quantum" (DESIGN 3.1(9)); steps take no virtual time, stamps are rounded

Init == /\ tid \in 1..Len(Traces) /\ l = 1
        /\ mcalls = <<>> /\ mvels = <<>> /\ mlastT = 0 /\ mcur = NoMCur /\ mk = 0 /\ mgotos = 0 /\ mbase = 0 /\ mtvels = <<>>
        /\ mst = [x |-> Traces[tid].x0, y |-> Traces[tid].y0, z |-> Traces[tid].z0, dv |-> Traces[tid].dv, dh |-> Traces[tid].dh, dl |-> Traces[tid].dl]
        /\ bad = "ok" /\ badAt = 0 /\ conf = TRUE /\ confAt = 0
        /\ D!Init

Conform(A) == IF conf /\ ENABLED A
              THEN A /\ UNCHANGED <<conf, confAt>>
              ELSE /\ conf' = FALSE /\ confAt' = (IF conf THEN l ELSE confAt)
                   /\ UNCHANGED specvars
Skip == UNCHANGED <<conf, confAt, specvars>>
Fail(c) == IF bad = "ok" /\ c # "ok" THEN bad' = c /\ badAt' = l ELSE UNCHANGED <<bad, badAt>>
\* the calls of the flight in progress (a take-off primitive after a landing starts a new flight: mbase)
FlightCalls == SubSeq(mcalls, mbase + 1, Len(mcalls))
AtMs == now = MsOf(Ev.t)

VelOf(e) == [t |-> e.t, vx |-> e.vx, vy |-> e.vy, vz |-> e.vz, yaw |-> e.yaw]
SameVel(v, e) == LET o == D!VelObs(v, 0) IN
    P!QEq(o.vx, e.vx) /\ P!QEq(o.vy, e.vy) /\ P!QEq(o.vz, e.vz) /\ P!QEq(o.yaw, e.yaw)

\* ------------------------------------------------------------------ user-thread events
EPrim == /\ Ev.e = "prim"
         /\ mk' = Ev.k /\ mgotos' = 0
         /\ mcur' = IF T.helper = "MC" /\ P!Blocking(T.prog[Ev.k]) THEN [NoMCur EXCEPT !.p = T.prog[Ev.k]] ELSE NoMCur
         /\ UNCHANGED <<mcalls, mvels, mlastT, mst, mbase, mtvels, bad, badAt>>
         /\ Conform(AtMs /\ D!Choose(T.prog[Ev.k]))

\* primitive k returned (r = "ok") or raised (r = "exc"); k = 0 is take_off.  PHC: pos = get_position()
ERet == /\ Ev.e = "ret"
        /\ IF T.helper = "MC"
           THEN /\ Fail(IF Ev.r = "ok" /\ P!Blocking(mcur.p) /\ mcur.ph # 3 /\ ~(mcur.ph = 0 /\ P!ZeroRequest(mcur.p))
                        THEN "PrimIncomplete" ELSE "ok")
                /\ UNCHANGED mst
           ELSE LET p == IF Ev.k = 0 THEN D!NoPrim ELSE T.prog[Ev.k]
                    s1 == IF Ev.k = 0 THEN [mst EXCEPT !.z = mst.dh]
                          ELSE IF Ev.r = "ok" THEN P!NextSt(p, mst) ELSE mst
                IN /\ mst' = s1
                   /\ Fail(IF Ev.r = "ok" /\ Ev.k # 0 /\ ~P!GoToCount(p, mst, mgotos) THEN "GoToCount"
                           ELSE IF Ev.r # "ok" /\ mgotos # 0 THEN "GoToCount"
                           \* "calling land always ends with the stop command sent"
                           ELSE IF Ev.r = "ok" /\ p.op = "land" /\ (mcalls = <<>> \/ mcalls[Len(mcalls)] # "stop") THEN "EndsWithStop"
                           ELSE IF ~P!PosOK(Ev.pos, s1) THEN "Position" ELSE "ok")
        /\ mcur' = NoMCur
        /\ UNCHANGED <<mcalls, mvels, mlastT, mk, mgotos, mbase, mtvels>>
        /\ Skip

EVel == /\ Ev.e = "vel"
        /\ LET c == VelOf(Ev) IN
           /\ mvels' = Append(mvels, c)
           /\ IF P!Blocking(mcur.p) /\ mcur.ph = 0
              THEN mcur' = [mcur EXCEPT !.c = Len(mvels) + 1, !.ph = 1] /\ UNCHANGED <<bad, badAt>>
              ELSE IF P!Blocking(mcur.p) /\ mcur.ph = 2
              THEN /\ Fail(P!PrimClause(mcur.p, mvels[mcur.c], mcur.dur, mcur.durUs, c))
                   /\ mcur' = [mcur EXCEPT !.ph = 3]
              ELSE IF P!Blocking(mcur.p) THEN Fail("PrimSequence") /\ UNCHANGED mcur
              ELSE UNCHANGED <<mcur, bad, badAt>>
        /\ UNCHANGED <<mcalls, mlastT, mk, mst, mgotos, mbase, mtvels>>
        /\ Conform(AtMs /\ D!CmdPut /\ SameVel(Head(todo).v, Ev))

ESleep == /\ Ev.e = "sleep"
          /\ IF P!Blocking(mcur.p) /\ mcur.ph = 1
             THEN mcur' = [mcur EXCEPT !.dur = Ev.d, !.durUs = Ev.us, !.ph = 2]
             ELSE UNCHANGED mcur
          /\ UNCHANGED <<mcalls, mvels, mlastT, mk, mst, mgotos, mbase, mtvels, bad, badAt>>
          /\ Conform(AtMs /\ D!CmdSleep(MsOf(Ev.wt) - now))

ESimple == /\ Ev.e \in {"param", "wake", "spstart", "term", "join", "exit", "done"}
           /\ mlastT' = IF Ev.e = "spstart" THEN Ev.t ELSE mlastT
           /\ UNCHANGED <<mcalls, mvels, mcur, mk, mst, mgotos, mbase, mtvels, bad, badAt>>
           /\ CASE Ev.e = "param" -> Conform(AtMs /\ D!CmdParam)
                [] Ev.e = "wake" -> Conform(AtMs /\ D!CmdWake)
                [] Ev.e = "spstart" -> Conform(AtMs /\ D!CmdSpStart)
                [] Ev.e = "term" -> Conform(AtMs /\ D!CmdTerm)
                [] Ev.e = "join" -> Conform(AtMs /\ D!CmdJoin)
                [] Ev.e = "exit" -> IF cst = "run" /\ todo # <<>> /\ Head(todo).k = "body"
                                    THEN Conform(AtMs /\ D!ChooseEnd) ELSE Skip
                [] Ev.e = "done" -> IF Ev.r = "other" THEN Skip ELSE Conform(AtMs /\ D!CmdEnd)

\* commander / high-level commander calls of the user thread
ECall == /\ Ev.e \in {"stop", "notify", "hl"}
         /\ LET c == IF Ev.e = "hl" THEN Ev.c ELSE Ev.e
                \* the take-off command of a "takeoff" primitive right after a landing: the next flight begins
                newfl == /\ T.helper = "PHC" /\ c = "takeoff" /\ mk > 0 /\ T.prog[mk].op = "takeoff"
                         /\ mcalls # <<>> /\ mcalls[Len(mcalls)] = "stop"
            IN
            /\ mcalls' = Append(mcalls, c)
            /\ mbase' = IF newfl THEN Len(mcalls) ELSE mbase
            /\ Fail(IF ~newfl /\ ~P!AfterStopOK(T.helper, FlightCalls, c) THEN "StreamAfterStop"
                    ELSE IF T.helper = "MC" /\ c = "stop" /\ ~P!HoverGap(Ev.t, mlastT, PeriodUs, SlackUs) THEN "HoverGap"
                    ELSE IF c = "goto" /\ mk = 0 THEN "GoToSpurious"
                    ELSE IF c = "goto" THEN P!GoToClause([x |-> Ev.x, y |-> Ev.y, z |-> Ev.z, dur |-> Ev.dur], T.prog[mk], mst)
                    ELSE "ok")
            /\ mgotos' = IF c = "goto" THEN mgotos + 1 ELSE mgotos
            /\ IF c = "goto"
               THEN Conform(AtMs /\ D!CmdGoTo /\ P!QEq(Ev.x, P!Milli(Head(todo).v.vx)) /\ P!QEq(Ev.y, P!Milli(Head(todo).v.vy))
                            /\ P!QEq(Ev.z, P!Milli(Head(todo).v.vz)) /\ P!QEq(Ev.dur, P!Milli(Head(todo).n)))
               ELSE Conform(AtMs /\ D!CmdCall /\ calls' = Append(calls, c))
         /\ UNCHANGED <<mvels, mlastT, mcur, mk, mst, mtvels>>

\* ------------------------------------------------------------------ setpoint thread, scheduler
EHover == /\ Ev.e = "hover"
          /\ LET h == [t |-> Ev.t, vx |-> Ev.vx, vy |-> Ev.vy, yaw |-> Ev.yaw, z |-> Ev.z] IN
             /\ Fail(IF ~P!AfterStopOK(T.helper, FlightCalls, "hover") THEN "StreamAfterStop"
                     ELSE P!HoverClause(h, mtvels, mlastT, PeriodUs, SlackUs))
             /\ Conform(AtMs /\ (D!SpGet(Ev.lat) \/ D!SpTimeout(Ev.lat)) /\ sp' \in {"waiting", "sending"}
                        /\ hs'.z = Ev.z /\ LET o == D!HovObs(hs', 0) IN
                             P!QEq(o.vx, Ev.vx) /\ P!QEq(o.vy, Ev.vy) /\ P!QEq(o.yaw, Ev.yaw))
          /\ mcalls' = Append(mcalls, "hover") /\ mlastT' = Ev.t
          /\ UNCHANGED <<mvels, mcur, mk, mst, mgotos, mbase, mtvels>>
\* the setpoint thread takes a velocity command from its queue: in force from now on (without link latency this is
\* the instant it was issued).  Commands leave the queue in the order they were issued, none invented.
ETake == /\ Ev.e = "take"
         /\ LET k == Len(mtvels) + 1 c == VelOf(Ev) IN
            /\ mtvels' = Append(mtvels, c)
            /\ Fail(IF k > Len(mvels) \/ [c EXCEPT !.t = 0] # [mvels[k] EXCEPT !.t = 0] \/ Ev.t < mvels[k].t
                    THEN "HoverVelocity" ELSE "ok")
         /\ UNCHANGED <<mcalls, mvels, mlastT, mcur, mk, mst, mgotos, mbase>>
         /\ Skip
\* the link hands the sender back: the period is counted from here
EHovDone == /\ Ev.e = "hovd"
            /\ mlastT' = Ev.t
            /\ UNCHANGED <<mcalls, mvels, mcur, mk, mst, mgotos, mbase, mtvels, bad, badAt>>
            /\ Conform(AtMs /\ D!SpSent)
ESpDone == /\ Ev.e \in {"spdone", "spdead"}
           /\ UNCHANGED <<monvars, bad, badAt>>
           /\ Conform(Ev.e = "spdone" /\ AtMs /\ D!SpGet(0) /\ sp' = "done")
ETick == /\ Ev.e = "tick"
         /\ UNCHANGED <<monvars, bad, badAt>>
         \* an advance of less than the spec's granularity (two deadlines within the same ms) is no step
         /\ IF MsOf(Ev.t) = now THEN Skip ELSE Conform(D!Tick /\ now' = MsOf(Ev.t))

Step == /\ l <= Len(T.ev)
        /\ l' = l + 1 /\ UNCHANGED tid
        /\ (EPrim \/ ERet \/ EVel \/ ESleep \/ ESimple \/ ECall \/ ETake \/ EHover \/ EHovDone \/ ESpDone \/ ETick)

\* end of trace: how the user's with-block / land() ended, and the last commander calls
Finish == /\ l = Len(T.ev) + 1
          /\ l' = l + 1
          /\ LET b == IF bad # "ok" THEN bad
                      ELSE IF ~P!EndsWithStop(T.helper, mcalls, T.outcome) THEN "EndsWithStop"
                      ELSE "ok"
             IN PrintT(<<"VERDICT", T.id, b, badAt, conf, confAt>>)
          /\ UNCHANGED <<tid, monvars, bad, badAt, conf, confAt, specvars>>

Next == Step \/ Finish
Spec == Init /\ [][Next]_<<tid, l, monvars, bad, badAt, conf, confAt, specvars>>
=============================================================================
