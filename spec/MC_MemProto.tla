---- MODULE MC_MemProto ----
EXTENDS MemProto
====
